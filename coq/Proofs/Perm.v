(* C07 -- lemmas and proofs about Model/Perm.v *)
From Sekai Require Import Base.Prelude Model.Perm.
From Coq Require Import ZifyBool.

(* ------------------------------------------------------------------ basic list / map facts *)
Lemma mem_In : forall x l, mem x l = true <-> In x l.
Proof.
  unfold mem; intros x l; rewrite existsb_exists; split.
  - intros [y [Hy He]]. apply Z.eqb_eq in He. subst; auto.
  - intros H; exists x; split; auto. apply Z.eqb_refl.
Qed.
Lemma mem_false_In : forall x l, mem x l = false <-> ~ In x l.
Proof. intros x l. rewrite <- mem_In. destruct (mem x l); split; congruence. Qed.
Lemma mem_app : forall x l m, mem x (l ++ m) = mem x l || mem x m.
Proof. intros; unfold mem; apply existsb_app. Qed.
Lemma mem_cons : forall x y l, mem x (y :: l) = (x =? y) || mem x l.
Proof. reflexivity. Qed.

Lemma lookup_del : forall {V} k k' (l : list (Z * V)), lookup k' (del k l) = if k =? k' then None else lookup k' l.
Proof.
  intros V k k' l; induction l as [|[k0 v] l IH]; simpl.
  - destruct (k =? k'); reflexivity.
  - destruct (k0 =? k) eqn:E0; simpl.
    + apply Z.eqb_eq in E0; subst k0. rewrite IH. destruct (k =? k'); reflexivity.
    + destruct (k0 =? k') eqn:E1.
      * apply Z.eqb_eq in E1; subst k0. rewrite Z.eqb_sym in E0. rewrite E0. reflexivity.
      * exact IH.
Qed.
Lemma lookup_upd : forall {V} k k' (v : V) l, lookup k' (upd k v l) = if k =? k' then Some v else lookup k' l.
Proof. intros; unfold upd; simpl. rewrite lookup_del. destruct (k =? k'); reflexivity. Qed.

Lemma pair_eqb_eq : forall x y, pair_eqb x y = true <-> x = y.
Proof.
  intros [a b] [c d]; unfold pair_eqb; simpl. rewrite andb_true_iff, !Z.eqb_eq. split.
  - intros [-> ->]; reflexivity.
  - intros H; inversion H; auto.
Qed.
Lemma pair_eqb_pair : forall a b c d, pair_eqb (a, b) (c, d) = (a =? c) && (b =? d).
Proof. reflexivity. Qed.
Lemma pmem_padd : forall x y l, pmem x (padd y l) = pair_eqb x y || pmem x l.
Proof.
  intros x y l; unfold padd. destruct (pmem y l) eqn:E; [|reflexivity].
  destruct (pair_eqb x y) eqn:E2; [|reflexivity]. apply pair_eqb_eq in E2; subst. simpl; auto.
Qed.
Lemma pmem_pdel : forall x y l, pmem x (pdel y l) = negb (pair_eqb x y) && pmem x l.
Proof.
  intros x y l; induction l as [|z l IH]; simpl.
  - rewrite andb_false_r; reflexivity.
  - destruct (pair_eqb y z) eqn:E; simpl.
    + apply pair_eqb_eq in E; subst z. rewrite IH. destruct (pair_eqb x y); reflexivity.
    + rewrite IH. destruct (pair_eqb x z) eqn:E2; simpl.
      * apply pair_eqb_eq in E2; subst z. destruct (pair_eqb x y) eqn:E3; [|reflexivity].
        apply pair_eqb_eq in E3; subst. assert (pair_eqb y y = true) by (apply pair_eqb_eq; reflexivity). congruence.
      * reflexivity.
Qed.

Lemma remove_first_In : forall x y l, NoDup l -> (In y (remove_first x l) <-> In y l /\ y <> x).
Proof.
  intros x y l H; induction H as [|z l Hz Hnd IH]; simpl.
  - tauto.
  - destruct (z =? x) eqn:E.
    + apply Z.eqb_eq in E; subst z. split.
      * intros Hy; split; auto. intros ->; contradiction.
      * intros [[->|Hy] Hne]; [congruence|assumption].
    + apply Z.eqb_neq in E. simpl. rewrite IH. split.
      * intros [->|[Hy Hne]]; auto.
      * intros [[->|Hy] Hne]; auto.
Qed.
Lemma remove_first_NoDup : forall x l, NoDup l -> NoDup (remove_first x l).
Proof.
  intros x l H; induction H as [|z l Hz Hnd IH]; simpl; [constructor|].
  destruct (z =? x); [assumption|]. constructor; [|assumption].
  intros Hin. apply remove_first_In in Hin; [|assumption]. tauto.
Qed.
Lemma mem_remove_first : forall x y l, NoDup l -> mem y (remove_first x l) = mem y l && negb (y =? x).
Proof.
  intros x y l H. destruct (mem y (remove_first x l)) eqn:E.
  - apply mem_In, remove_first_In in E; [|assumption]. destruct E as [Hi Hn].
    apply mem_In in Hi. rewrite Hi. apply Z.eqb_neq in Hn. rewrite Hn. reflexivity.
  - apply mem_false_In in E. rewrite remove_first_In in E by assumption.
    destruct (mem y l) eqn:E1; [|reflexivity]. destruct (y =? x) eqn:E2; [reflexivity|].
    exfalso; apply E. split; [apply mem_In; assumption|apply Z.eqb_neq; assumption].
Qed.
Lemma NoDup_snoc : forall (x : Z) l, NoDup l -> ~ In x l -> NoDup (l ++ [x]).
Proof.
  intros x l H Hx; induction H as [|z l Hz Hnd IH]; simpl.
  - constructor; [auto|constructor].
  - constructor.
    + rewrite in_app_iff; simpl. intros [H|[H|[]]]; [contradiction|]. subst; apply Hx; left; reflexivity.
    + apply IH. intros H; apply Hx; right; assumption.
Qed.

(* ------------------------------------------------------------------ the decision procedure *)
Lemma last_write_acc : forall p b l acc,
  fold_left (fun (acc : option bool) (e : Z * bool) => if fst e =? p then Some (snd e) else acc) (map (fun q : Z => (q, b)) l) acc
  = if mem p l then Some b else acc.
Proof.
  intros p b l; induction l as [|q l IH]; intros acc; simpl; [reflexivity|].
  rewrite IH. rewrite (Z.eqb_sym p q). destruct (mem p l); simpl.
  - rewrite orb_true_r; reflexivity.
  - rewrite orb_false_r. reflexivity.
Qed.

Lemma last_write_writes : forall s act p,
  last_write p (writes s act) =
  let rps := found_role_perms s act in
  if mem p (bl (a_perms act)) then Some false
  else if mem p (flat_map bl rps) then Some false
  else if mem p (wl (a_perms act)) then Some true
  else if mem p (flat_map wl rps) then Some true else None.
Proof.
  intros s act p; unfold last_write, writes; cbv zeta.
  rewrite !fold_left_app, !last_write_acc. reflexivity.
Qed.

Lemma In_found_role_perms : forall s act (sel : perms -> list Z) p,
  In p (flat_map sel (found_role_perms s act)) <->
  exists r rp, In r (a_roles act) /\ lookup r (rperms s) = Some rp /\ In p (sel rp).
Proof.
  intros s act sel p; unfold found_role_perms. rewrite in_flat_map. split.
  - intros [rp [Hrp Hp]]. apply in_flat_map in Hrp. destruct Hrp as [r [Hr Hin]].
    destruct (lookup r (rperms s)) as [rp'|] eqn:E; simpl in Hin; [|contradiction].
    destruct Hin as [<-|[]]. exists r, rp'; auto.
  - intros [r [rp [Hr [Hl Hp]]]]. exists rp; split; [|assumption].
    apply in_flat_map. exists r; split; [assumption|]. rewrite Hl; left; reflexivity.
Qed.

(* the defining rule of the property *)
Definition wl_direct (s : state) (a p : Z) : Prop := exists act, lookup a (actors s) = Some act /\ In p (wl (a_perms act)).
Definition bl_direct (s : state) (a p : Z) : Prop := exists act, lookup a (actors s) = Some act /\ In p (bl (a_perms act)).
Definition has_role (s : state) (a r : Z) : Prop := exists act, lookup a (actors s) = Some act /\ In r (a_roles act).
Definition wl_role (s : state) (r p : Z) : Prop := exists rp, lookup r (rperms s) = Some rp /\ In p (wl rp).
Definition bl_role (s : state) (r p : Z) : Prop := exists rp, lookup r (rperms s) = Some rp /\ In p (bl rp).
Definition whitelisted (s : state) (a p : Z) : Prop := wl_direct s a p \/ exists r, has_role s a r /\ wl_role s r p.
Definition blacklisted (s : state) (a p : Z) : Prop := bl_direct s a p \/ exists r, has_role s a r /\ bl_role s r p.
Definition holds (s : state) (a p : Z) : Prop := whitelisted s a p /\ ~ blacklisted s a p.

Lemma check_allowed_iff : forall s a p, check_allowed s a p = true <-> holds s a p.
Proof.
  intros s a p; unfold check_allowed, holds, whitelisted, blacklisted, wl_direct, bl_direct, has_role, wl_role, bl_role.
  destruct (lookup a (actors s)) as [act|] eqn:Ea.
  2:{ split; [discriminate|]. intros [[[act [H _]]|[r [[act [H _]] _]]] _]; discriminate. }
  rewrite last_write_writes; cbv zeta.
  assert (RW : forall sel, (exists r, (exists act0, Some act = Some act0 /\ In r (a_roles act0)) /\
                                     (exists rp, lookup r (rperms s) = Some rp /\ In p (sel rp)))
                           <-> In p (flat_map sel (found_role_perms s act))).
  { intros sel; rewrite In_found_role_perms. split.
    - intros [r [[act0 [E Hr]] [rp [Hl Hp]]]]. inversion E; subst act0. exists r, rp; auto.
    - intros [r [rp [Hr [Hl Hp]]]]. exists r; split; [exists act; auto|exists rp; auto]. }
  rewrite !RW.
  assert (RD : forall sel : perms -> list Z, (exists act0, Some act = Some act0 /\ In p (sel (a_perms act0))) <-> In p (sel (a_perms act))).
  { intros sel; split; [intros [act0 [E H]]; inversion E; subst; assumption|intros H; exists act; auto]. }
  rewrite (RD wl), (RD bl). rewrite <- !mem_In.
  destruct (mem p (bl (a_perms act))), (mem p (flat_map bl (found_role_perms s act))),
           (mem p (wl (a_perms act))), (mem p (flat_map wl (found_role_perms s act)));
    split; intro H; try reflexivity; try discriminate H; try (exfalso; intuition congruence); intuition congruence.
Qed.

Lemma blacklist_beats_whitelist : forall s a p, blacklisted s a p -> check_allowed s a p = false.
Proof.
  intros s a p Hb. destruct (check_allowed s a p) eqn:E; [|reflexivity].
  apply check_allowed_iff in E. destruct E as [_ Hn]. contradiction.
Qed.
Lemma not_whitelisted_denied : forall s a p, ~ whitelisted s a p -> check_allowed s a p = false.
Proof.
  intros s a p Hb. destruct (check_allowed s a p) eqn:E; [|reflexivity].
  apply check_allowed_iff in E. destruct E as [Hw _]. contradiction.
Qed.

(* ------------------------------------------------------------------ index refinement invariant *)
From Coq Require Import Btauto.

Definition wf_perms (rp : perms) : Prop :=
  NoDup (wl rp) /\ NoDup (bl rp) /\ forall p, mem p (wl rp) && mem p (bl rp) = false.

Record inv (s : state) : Prop := mkInv {
  inv_actors : forall a act, lookup a (actors s) = Some act -> NoDup (a_roles act) /\ NoDup (wl (a_perms act));
  inv_roles : forall r rp, lookup r (rperms s) = Some rp ->
                wf_perms rp /\ 1 <= r < get_next_role s /\ lookup r (rinfo s) <> None;
  inv_info : forall r sid, lookup r (rinfo s) = Some sid -> lookup r (rperms s) <> None;
  inv_next : 1 <= get_next_role s;
  inv_pa : forall p a, pmem (p, a) (idx_pa s) = match lookup a (actors s) with Some act => mem p (wl (a_perms act)) | None => false end;
  inv_ra : forall r a, pmem (r, a) (idx_ra s) = match lookup a (actors s) with Some act => mem r (a_roles act) | None => false end;
  inv_pr : forall p r, pmem (p, r) (idx_pr s) = match lookup r (rperms s) with Some rp => mem p (wl rp) | None => false end }.

Lemma inv_empty : inv empty_state.
Proof. constructor; simpl; intros; try discriminate; try reflexivity; unfold get_next_role; simpl; lia. Qed.

Ltac sproj := cbn [actors rperms rinfo rsid next_role idx_pa idx_ra idx_pr].

Lemma aod_pa : forall s a p, inv s -> pmem (p, a) (idx_pa s) = mem p (wl (a_perms (actor_or_default s a))).
Proof. intros s a p I. rewrite (inv_pa s I). unfold actor_or_default. destruct (lookup a (actors s)); reflexivity. Qed.
Lemma aod_ra : forall s a r, inv s -> pmem (r, a) (idx_ra s) = mem r (a_roles (actor_or_default s a)).
Proof. intros s a r I. rewrite (inv_ra s I). unfold actor_or_default. destruct (lookup a (actors s)); reflexivity. Qed.
Lemma aod_nd : forall s a, inv s -> NoDup (a_roles (actor_or_default s a)) /\ NoDup (wl (a_perms (actor_or_default s a))).
Proof.
  intros s a I. unfold actor_or_default. destruct (lookup a (actors s)) eqn:E.
  - exact (inv_actors s I a a0 E).
  - simpl; split; constructor.
Qed.

Lemma inv_actor_update : forall s a act' ipa ira,
  inv s -> NoDup (a_roles act') -> NoDup (wl (a_perms act')) ->
  (forall p a', pmem (p, a') ipa = if a =? a' then mem p (wl (a_perms act')) else pmem (p, a') (idx_pa s)) ->
  (forall r a', pmem (r, a') ira = if a =? a' then mem r (a_roles act') else pmem (r, a') (idx_ra s)) ->
  inv (mkState (upd a act' (actors s)) (rperms s) (rinfo s) (rsid s) (next_role s) ipa ira (idx_pr s)).
Proof.
  intros s a act' ipa ira I N1 N2 Hpa Hra. constructor; sproj.
  - intros a0 act0. rewrite lookup_upd. destruct (a =? a0).
    + intros E; inversion E; subst; auto.
    + apply (inv_actors s I).
  - apply (inv_roles s I).
  - apply (inv_info s I).
  - apply (inv_next s I).
  - intros p a0. rewrite Hpa, lookup_upd. destruct (a =? a0); [reflexivity|apply (inv_pa s I)].
  - intros r a0. rewrite Hra, lookup_upd. destruct (a =? a0); [reflexivity|apply (inv_ra s I)].
  - apply (inv_pr s I).
Qed.

Lemma inv_role_update : forall s r rp' ipr,
  inv s -> lookup r (rperms s) <> None -> wf_perms rp' ->
  (forall p r', pmem (p, r') ipr = if r =? r' then mem p (wl rp') else pmem (p, r') (idx_pr s)) ->
  inv (mkState (actors s) (upd r rp' (rperms s)) (rinfo s) (rsid s) (next_role s) (idx_pa s) (idx_ra s) ipr).
Proof.
  intros s r rp' ipr I Hex N Hpr. constructor; sproj.
  - apply (inv_actors s I).
  - intros r0 rp0. rewrite lookup_upd. destruct (Z.eqb_spec r r0).
    + subst r0. intros E; inversion E; subst. split; [assumption|].
      destruct (lookup r (rperms s)) eqn:El; [|congruence]. apply (inv_roles s I r p El).
    + apply (inv_roles s I).
  - intros r0 sid H. rewrite lookup_upd. destruct (r =? r0); [discriminate|]. apply (inv_info s I r0 sid H).
  - apply (inv_next s I).
  - apply (inv_pa s I).
  - apply (inv_ra s I).
  - intros p r0. rewrite Hpr, lookup_upd. destruct (r =? r0); [reflexivity|apply (inv_pr s I)].
Qed.

Lemma add_wl_Some : forall p ps ps', add_wl p ps = Some ps' -> mem p (bl ps) = false /\ mem p (wl ps) = false /\ ps' = mkPerms (wl ps ++ [p]) (bl ps).
Proof. unfold add_wl; intros p ps ps'. destruct (mem p (bl ps)), (mem p (wl ps)); intros H; inversion H; auto. Qed.
Lemma add_bl_Some : forall p ps ps', add_bl p ps = Some ps' -> mem p (wl ps) = false /\ mem p (bl ps) = false /\ ps' = mkPerms (wl ps) (bl ps ++ [p]).
Proof. unfold add_bl; intros p ps ps'. destruct (mem p (wl ps)), (mem p (bl ps)); intros H; inversion H; auto. Qed.
Lemma rm_wl_Some : forall p ps ps', rm_wl p ps = Some ps' -> ps' = mkPerms (remove_first p (wl ps)) (bl ps).
Proof. unfold rm_wl; intros p ps ps'. destruct (mem p (wl ps)); intros H; inversion H; auto. Qed.
Lemma rm_bl_Some : forall p ps ps', rm_bl p ps = Some ps' -> ps' = mkPerms (wl ps) (remove_first p (bl ps)).
Proof. unfold rm_bl; intros p ps ps'. destruct (mem p (bl ps)); intros H; inversion H; auto. Qed.

Lemma wf_add_wl : forall p rp rp', wf_perms rp -> add_wl p rp = Some rp' -> wf_perms rp'.
Proof.
  intros p rp rp' [N1 [N2 D]] H. apply add_wl_Some in H. destruct H as [Hb [Hw ->]]. unfold wf_perms; cbn [wl bl].
  split; [apply NoDup_snoc; [assumption|apply mem_false_In; assumption]|]. split; [assumption|].
  intros q. rewrite mem_app, mem_cons. simpl. destruct (Z.eqb_spec q p); [subst; rewrite Hb; btauto|]. rewrite !orb_false_r. apply D.
Qed.
Lemma wf_add_bl : forall p rp rp', wf_perms rp -> add_bl p rp = Some rp' -> wf_perms rp'.
Proof.
  intros p rp rp' [N1 [N2 D]] H. apply add_bl_Some in H. destruct H as [Hw [Hb ->]]. unfold wf_perms; cbn [wl bl].
  split; [assumption|]. split; [apply NoDup_snoc; [assumption|apply mem_false_In; assumption]|].
  intros q. rewrite mem_app, mem_cons. simpl. destruct (Z.eqb_spec q p); [subst; rewrite Hw; btauto|]. rewrite !orb_false_r. apply D.
Qed.
Lemma wf_rm_wl : forall p rp rp', wf_perms rp -> rm_wl p rp = Some rp' -> wf_perms rp'.
Proof.
  intros p rp rp' [N1 [N2 D]] H. apply rm_wl_Some in H. subst rp'. unfold wf_perms; cbn [wl bl].
  split; [apply remove_first_NoDup; assumption|]. split; [assumption|].
  intros q. rewrite mem_remove_first by assumption. specialize (D q). destruct (mem q (wl rp)), (mem q (bl rp)), (q =? p); simpl in *; congruence.
Qed.
Lemma wf_rm_bl : forall p rp rp', wf_perms rp -> rm_bl p rp = Some rp' -> wf_perms rp'.
Proof.
  intros p rp rp' [N1 [N2 D]] H. apply rm_bl_Some in H. subst rp'. unfold wf_perms; cbn [wl bl].
  split; [assumption|]. split; [apply remove_first_NoDup; assumption|].
  intros q. rewrite mem_remove_first by assumption. specialize (D q). destruct (mem q (wl rp)), (mem q (bl rp)), (q =? p); simpl in *; congruence.
Qed.

Lemma k_add_wl_acc_inv : forall s a p s', inv s -> k_add_wl_acc s a p = Ok s' -> inv s'.
Proof.
  intros s a p s' I H. unfold k_add_wl_acc in H.
  destruct (add_wl p (a_perms (actor_or_default s a))) as [ps|] eqn:E; simpl in H; [|discriminate].
  inversion H; subst s'; clear H. apply add_wl_Some in E. destruct E as [_ [Hw ->]].
  destruct (aod_nd s a I) as [N1 N2].
  unfold with_idx_pa, save_actor, with_actors; simpl. apply inv_actor_update; simpl; auto.
  - apply NoDup_snoc; [assumption|]. apply mem_false_In; assumption.
  - intros q a'. rewrite pmem_padd, pair_eqb_pair. destruct (Z.eqb_spec a a').
    + subst a'. rewrite (aod_pa s a q I), mem_app, mem_cons. simpl. rewrite Z.eqb_refl. btauto.
    + rewrite (Z.eqb_sym a' a). destruct (Z.eqb_spec a a'); [congruence|]. rewrite andb_false_r. reflexivity.
  - intros r a'. destruct (Z.eqb_spec a a'); [subst; apply aod_ra; assumption|reflexivity].
Qed.

Lemma k_add_bl_acc_inv : forall s a p s', inv s -> k_add_bl_acc s a p = Ok s' -> inv s'.
Proof.
  intros s a p s' I H. unfold k_add_bl_acc in H.
  destruct (add_bl p (a_perms (actor_or_default s a))) as [ps|] eqn:E; simpl in H; [|discriminate].
  inversion H; subst s'; clear H. apply add_bl_Some in E. destruct E as [_ [_ ->]].
  destruct (aod_nd s a I) as [N1 N2].
  unfold save_actor, with_actors; simpl. apply inv_actor_update; simpl; auto.
  - intros q a'. destruct (Z.eqb_spec a a'); [subst; apply aod_pa; assumption|reflexivity].
  - intros r a'. destruct (Z.eqb_spec a a'); [subst; apply aod_ra; assumption|reflexivity].
Qed.

Lemma k_rm_wl_acc_inv : forall s a p s', inv s -> k_rm_wl_acc s a p = Ok s' -> inv s'.
Proof.
  intros s a p s' I H. unfold k_rm_wl_acc in H.
  destruct (rm_wl p (a_perms (actor_or_default s a))) as [ps|] eqn:E; simpl in H; [|discriminate].
  inversion H; subst s'; clear H. apply rm_wl_Some in E. subst ps.
  destruct (aod_nd s a I) as [N1 N2].
  unfold with_idx_pa, save_actor, with_actors; simpl. apply inv_actor_update; simpl; auto.
  - apply remove_first_NoDup; assumption.
  - intros q a'. rewrite pmem_pdel, pair_eqb_pair. destruct (Z.eqb_spec a a').
    + subst a'. rewrite (aod_pa s a q I), mem_remove_first by assumption. rewrite Z.eqb_refl. btauto.
    + rewrite (Z.eqb_sym a' a). destruct (Z.eqb_spec a a'); [congruence|]. rewrite andb_false_r. reflexivity.
  - intros r a'. destruct (Z.eqb_spec a a'); [subst; apply aod_ra; assumption|reflexivity].
Qed.

Lemma k_rm_bl_acc_inv : forall s a p s', inv s -> k_rm_bl_acc s a p = Ok s' -> inv s'.
Proof.
  intros s a p s' I H. unfold k_rm_bl_acc in H.
  destruct (rm_bl p (a_perms (actor_or_default s a))) as [ps|] eqn:E; simpl in H; [|discriminate].
  inversion H; subst s'; clear H. apply rm_bl_Some in E. subst ps.
  destruct (aod_nd s a I) as [N1 N2].
  unfold save_actor, with_actors; simpl. apply inv_actor_update; simpl; auto.
  - intros q a'. destruct (Z.eqb_spec a a'); [subst; apply aod_pa; assumption|reflexivity].
  - intros r a'. destruct (Z.eqb_spec a a'); [subst; apply aod_ra; assumption|reflexivity].
Qed.

Lemma k_role_edit_Ok : forall f s r p rp', k_role_edit f s r p = Ok rp' ->
  exists rp, lookup r (rperms s) = Some rp /\ f p rp = Some rp'.
Proof.
  unfold k_role_edit; intros f s r p rp'. destruct (lookup r (rperms s)) as [rp|]; [|discriminate].
  unfold opt_err. destruct (f p rp) eqn:E; intros H; inversion H; subst. exists rp; auto.
Qed.

Lemma k_wl_role_inv : forall s r p s', inv s -> k_wl_role s r p = Ok s' -> inv s'.
Proof.
  intros s r p s' I H. unfold k_wl_role in H.
  destruct (k_role_edit add_wl s r p) as [rp'| |] eqn:E; simpl in H; try discriminate.
  inversion H; subst s'; clear H. apply k_role_edit_Ok in E. destruct E as [rp [El Ea]].
  destruct (inv_roles s I r rp El) as [W _]. pose proof (wf_add_wl _ _ _ W Ea) as W'.
  apply add_wl_Some in Ea. destruct Ea as [_ [Hw ->]].
  unfold with_idx_pr, with_rperms; simpl. apply inv_role_update; simpl; auto; [congruence|].
  intros q r'. rewrite pmem_padd, pair_eqb_pair. destruct (Z.eqb_spec r r').
  - subst r'. rewrite (inv_pr s I), El, mem_app, mem_cons. simpl. rewrite Z.eqb_refl. btauto.
  - rewrite (Z.eqb_sym r' r). destruct (Z.eqb_spec r r'); [congruence|]. rewrite andb_false_r. reflexivity.
Qed.
Lemma k_bl_role_inv : forall s r p s', inv s -> k_bl_role s r p = Ok s' -> inv s'.
Proof.
  intros s r p s' I H. unfold k_bl_role in H.
  destruct (k_role_edit add_bl s r p) as [rp'| |] eqn:E; simpl in H; try discriminate.
  inversion H; subst s'; clear H. apply k_role_edit_Ok in E. destruct E as [rp [El Ea]].
  destruct (inv_roles s I r rp El) as [W _]. pose proof (wf_add_bl _ _ _ W Ea) as W'.
  apply add_bl_Some in Ea. destruct Ea as [_ [_ ->]].
  unfold with_rperms; simpl. apply inv_role_update; simpl; auto; [congruence|].
  intros q r'. destruct (Z.eqb_spec r r'); [subst r'; rewrite (inv_pr s I), El|]; reflexivity.
Qed.
Lemma k_rm_wl_role_inv : forall s r p s', inv s -> k_rm_wl_role s r p = Ok s' -> inv s'.
Proof.
  intros s r p s' I H. unfold k_rm_wl_role in H.
  destruct (k_role_edit rm_wl s r p) as [rp'| |] eqn:E; simpl in H; try discriminate.
  inversion H; subst s'; clear H. apply k_role_edit_Ok in E. destruct E as [rp [El Ea]].
  destruct (inv_roles s I r rp El) as [W _]. pose proof (wf_rm_wl _ _ _ W Ea) as W'. destruct W as [N _].
  apply rm_wl_Some in Ea. subst rp'.
  unfold with_idx_pr, with_rperms; simpl. apply inv_role_update; simpl; auto; [congruence|].
  intros q r'. rewrite pmem_pdel, pair_eqb_pair. destruct (Z.eqb_spec r r').
  - subst r'. rewrite (inv_pr s I), El, mem_remove_first by assumption. rewrite Z.eqb_refl. btauto.
  - rewrite (Z.eqb_sym r' r). destruct (Z.eqb_spec r r'); [congruence|]. rewrite andb_false_r. reflexivity.
Qed.
Lemma k_rm_bl_role_inv : forall s r p s', inv s -> k_rm_bl_role s r p = Ok s' -> inv s'.
Proof.
  intros s r p s' I H. unfold k_rm_bl_role in H.
  destruct (k_role_edit rm_bl s r p) as [rp'| |] eqn:E; simpl in H; try discriminate.
  inversion H; subst s'; clear H. apply k_role_edit_Ok in E. destruct E as [rp [El Ea]].
  destruct (inv_roles s I r rp El) as [W _]. pose proof (wf_rm_bl _ _ _ W Ea) as W'.
  apply rm_bl_Some in Ea. subst rp'.
  unfold with_rperms; simpl. apply inv_role_update; simpl; auto; [congruence|].
  intros q r'. destruct (Z.eqb_spec r r'); [subst r'; rewrite (inv_pr s I), El|]; reflexivity.
Qed.

Lemma k_assign_inv : forall s a r s', inv s -> k_assign s a r = Ok s' -> inv s'.
Proof.
  intros s a r s' I H. unfold k_assign in H. destruct (lookup r (rperms s)); [|discriminate].
  destruct (mem r (a_roles (actor_or_default s a))) eqn:Em; [discriminate|].
  inversion H; subst s'; clear H. destruct (aod_nd s a I) as [N1 N2].
  unfold k_assign_actor, with_idx_ra, save_actor, with_actors, set_role; rewrite Em; simpl.
  apply inv_actor_update; simpl; auto.
  - apply NoDup_snoc; [assumption|apply mem_false_In; assumption].
  - intros q a'. destruct (Z.eqb_spec a a'); [subst; apply aod_pa; assumption|reflexivity].
  - intros q a'. rewrite pmem_padd, pair_eqb_pair. destruct (Z.eqb_spec a a').
    + subst a'. rewrite (aod_ra s a q I), mem_app, mem_cons. simpl. rewrite Z.eqb_refl. btauto.
    + rewrite (Z.eqb_sym a' a). destruct (Z.eqb_spec a a'); [congruence|]. rewrite andb_false_r. reflexivity.
Qed.
Lemma k_unassign_inv : forall s a r s', inv s -> k_unassign s a r = Ok s' -> inv s'.
Proof.
  intros s a r s' I H. unfold k_unassign in H. destruct (lookup r (rperms s)); [|discriminate].
  destruct (mem r (a_roles (actor_or_default s a))) eqn:Em; [|discriminate].
  inversion H; subst s'; clear H. destruct (aod_nd s a I) as [N1 N2].
  unfold k_unassign_actor, with_idx_ra, save_actor, with_actors, remove_role; simpl.
  apply inv_actor_update; simpl; auto.
  - apply remove_first_NoDup; assumption.
  - intros q a'. destruct (Z.eqb_spec a a'); [subst; apply aod_pa; assumption|reflexivity].
  - intros q a'. rewrite pmem_pdel, pair_eqb_pair. destruct (Z.eqb_spec a a').
    + subst a'. rewrite (aod_ra s a q I), mem_remove_first by assumption. rewrite Z.eqb_refl. btauto.
    + rewrite (Z.eqb_sym a' a). destruct (Z.eqb_spec a a'); [congruence|]. rewrite andb_false_r. reflexivity.
Qed.

Lemma fold_out_inv : forall {B} (f : state -> B -> outcome state) (P : state -> Prop),
  (forall st b st', P st -> f st b = Ok st' -> P st') ->
  forall l st st', P st -> fold_out f st l = Ok st' -> P st'.
Proof.
  intros B f P Hf l; induction l as [|b l IH]; intros st st' HP H; simpl in H.
  - inversion H; subst; assumption.
  - destruct (f st b) as [st1| |] eqn:E; simpl in H; try discriminate. eapply IH; [eapply Hf; eauto|exact H].
Qed.

Lemma wf_no_perms : wf_perms no_perms.
Proof. unfold wf_perms; simpl. repeat split; try constructor. Qed.

(* SetRole for a role id that has no permission record yet *)
Lemma k_set_role_inv : forall s id sid nxt,
  inv s -> lookup id (rperms s) = None -> 1 <= id < nxt -> get_next_role s <= nxt ->
  inv (let s1 := k_set_role s id sid in mkState (actors s1) (rperms s1) (rinfo s1) (rsid s1) (Some nxt) (idx_pa s1) (idx_ra s1) (idx_pr s1)).
Proof.
  intros s id sid nxt I Hn Hid Hnx. unfold k_set_role; cbv zeta; sproj.
  constructor; sproj; unfold get_next_role; sproj.
  - apply (inv_actors s I).
  - intros r rp. rewrite !lookup_upd. destruct (Z.eqb_spec id r).
    + intros E; inversion E; subst. split; [apply wf_no_perms|]. split; [lia|discriminate].
    + intros E. destruct (inv_roles s I r rp E) as [W [R Hi]]. split; [assumption|]. split; [lia|assumption].
  - intros r sd. rewrite !lookup_upd. destruct (id =? r); [discriminate|]. apply (inv_info s I).
  - lia.
  - apply (inv_pa s I).
  - apply (inv_ra s I).
  - intros p r. rewrite lookup_upd, (inv_pr s I). destruct (Z.eqb_spec id r); [subst r; rewrite Hn|]; reflexivity.
Qed.

Lemma k_create_role_inv : forall s sid, inv s -> inv (fst (k_create_role s sid)).
Proof.
  intros s sid I. unfold k_create_role; cbn [fst].
  assert (Hn : lookup (get_next_role s) (rperms s) = None).
  { destruct (lookup (get_next_role s) (rperms s)) eqn:E; [|reflexivity].
    destruct (inv_roles s I _ _ E) as [_ [H _]]. lia. }
  pose proof (inv_next s I).
  apply (k_set_role_inv s (get_next_role s) sid (get_next_role s + 1) I Hn); lia.
Qed.

(* ---- the guard: operations whose index maintenance is refuted in the unrepaired variants *)
Definition claim_whitelists (s : state) (a : Z) : bool :=
  check_allowed s a PermClaimCouncilor &&
  match lookup a (actors s) with
  | Some act => match add_wl PermCreatePollProposal (a_perms act) with Some _ => true | None => false end
  | None => false end.

Lemma gated_Ok : forall b k s', gated b k = Ok s' -> k = Ok s'.
Proof. unfold gated; intros b k s'; destruct b; [auto|discriminate]. Qed.

(* ------------------------------------------------------------------ genesis export / import *)
Lemma lookup_canon : forall {V} (l : list (Z * V)) seen k,
  lookup k (canon seen l) = if mem k seen then None else lookup k l.
Proof.
  intros V l; induction l as [|[k0 v0] r IH]; intros seen k; simpl.
  - destruct (mem k seen); reflexivity.
  - destruct (mem k0 seen) eqn:E0.
    + rewrite IH. destruct (Z.eqb_spec k0 k); [subst; rewrite E0; reflexivity|reflexivity].
    + simpl. destruct (Z.eqb_spec k0 k).
      * subst. rewrite E0. reflexivity.
      * rewrite IH. rewrite mem_cons. destruct (Z.eqb_spec k k0); [congruence|]. reflexivity.
Qed.
Lemma canon_In_lookup : forall {V} (l : list (Z * V)) seen k v,
  In (k, v) (canon seen l) -> lookup k l = Some v /\ mem k seen = false.
Proof.
  intros V l; induction l as [|[k0 v0] r IH]; intros seen k v H; simpl in *; [contradiction|].
  destruct (mem k0 seen) eqn:E0.
  - destruct (IH _ _ _ H) as [H1 H2]. split; [|assumption].
    destruct (Z.eqb_spec k0 k); [subst; congruence|assumption].
  - destruct H as [H|H].
    + inversion H; subst. rewrite Z.eqb_refl. auto.
    + destruct (IH _ _ _ H) as [H1 H2]. rewrite mem_cons in H2. apply orb_false_iff in H2. destruct H2 as [H2 H3].
      split; [|assumption]. rewrite Z.eqb_sym in H2. rewrite H2. assumption.
Qed.
Lemma lookup_In_canon : forall {V} (l : list (Z * V)) seen k v,
  lookup k l = Some v -> mem k seen = false -> In (k, v) (canon seen l).
Proof.
  intros V l; induction l as [|[k0 v0] r IH]; intros seen k v H Hs; simpl in *; [discriminate|].
  destruct (Z.eqb_spec k0 k).
  - subst. inversion H; subst. rewrite Hs. left; reflexivity.
  - destruct (mem k0 seen); [apply IH; assumption|]. right. apply IH; [assumption|].
    rewrite mem_cons. destruct (Z.eqb_spec k k0); [congruence|assumption].
Qed.
Lemma canon_NoDup : forall {V} (l : list (Z * V)) seen, NoDup (map fst (canon seen l)).
Proof.
  intros V l; induction l as [|[k0 v0] r IH]; intros seen; simpl; [constructor|].
  destruct (mem k0 seen); [apply IH|]. simpl. constructor; [|apply IH].
  intros H. apply in_map_iff in H. destruct H as [[k v] [Hk Hin]]. simpl in Hk; subst k.
  apply canon_In_lookup in Hin. destruct Hin as [_ Hm]. rewrite mem_cons, Z.eqb_refl in Hm. discriminate.
Qed.
Lemma lookup_notin : forall {V} (l : list (Z * V)) k, ~ In k (map fst l) -> lookup k l = None.
Proof.
  intros V l; induction l as [|[k0 v0] r IH]; intros k H; simpl in *; [reflexivity|].
  destruct (Z.eqb_spec k0 k); [exfalso; apply H; auto|]. apply IH. tauto.
Qed.
Lemma In_lookup_NoDup : forall {V} (l : list (Z * V)) k v, NoDup (map fst l) -> In (k, v) l -> lookup k l = Some v.
Proof.
  intros V l; induction l as [|[k0 v0] r IH]; intros k v N H; simpl in *; [contradiction|].
  inversion N; subst. destruct H as [H|H].
  - inversion H; subst. rewrite Z.eqb_refl. reflexivity.
  - destruct (Z.eqb_spec k0 k); [|apply IH; assumption].
    subst. exfalso. apply H2. apply in_map_iff. exists (k, v); auto.
Qed.

Lemma pmem_padd_all : forall xs l x, pmem x (padd_all xs l) = pmem x l || pmem x xs.
Proof.
  unfold padd_all; intros xs; induction xs as [|y xs IH]; intros l x; simpl.
  - rewrite orb_false_r; reflexivity.
  - rewrite IH, pmem_padd. destruct (pair_eqb x y), (pmem x l), (pmem x xs); reflexivity.
Qed.
Lemma pmem_pdel_all : forall xs l x, pmem x (pdel_all xs l) = pmem x l && negb (pmem x xs).
Proof.
  unfold pdel_all; intros xs; induction xs as [|y xs IH]; intros l x; simpl.
  - rewrite andb_true_r; reflexivity.
  - rewrite IH, pmem_pdel. destruct (pair_eqb x y), (pmem x l), (pmem x xs); reflexivity.
Qed.
Lemma pmem_keys_for : forall a l x a', pmem (x, a') (keys_for a l) = (a' =? a) && mem x l.
Proof.
  unfold keys_for; intros a l x a'; induction l as [|y l IH]; simpl.
  - rewrite andb_false_r; reflexivity.
  - rewrite IH, pair_eqb_pair. destruct (x =? y), (a' =? a), (mem x l); reflexivity.
Qed.

Lemma import_actor_inv : forall st a act,
  inv st -> lookup a (actors st) = None -> NoDup (a_roles act) -> NoDup (wl (a_perms act)) ->
  inv (import_actor st (a, act)).
Proof.
  intros st a act I Hn N1 N2. unfold import_actor, with_idx_pa, with_idx_ra, save_actor, with_actors; sproj.
  apply inv_actor_update; auto.
  - intros p a'. rewrite pmem_padd_all, pmem_keys_for. destruct (Z.eqb_spec a a').
    + subst a'. rewrite (inv_pa st I), Hn, Z.eqb_refl. reflexivity.
    + rewrite (Z.eqb_sym a' a). destruct (Z.eqb_spec a a'); [congruence|]. simpl. apply orb_false_r.
  - intros r a'. rewrite pmem_padd_all, pmem_keys_for. destruct (Z.eqb_spec a a').
    + subst a'. rewrite (inv_ra st I), Hn, Z.eqb_refl. reflexivity.
    + rewrite (Z.eqb_sym a' a). destruct (Z.eqb_spec a a'); [congruence|]. simpl. apply orb_false_r.
Qed.

Definition same_roles (st' st : state) : Prop :=
  rperms st' = rperms st /\ rinfo st' = rinfo st /\ next_role st' = next_role st /\ idx_pr st' = idx_pr st.

Lemma import_actors_fold : forall l st,
  NoDup (map fst l) -> inv st ->
  (forall a act, In (a, act) l -> lookup a (actors st) = None /\ NoDup (a_roles act) /\ NoDup (wl (a_perms act))) ->
  inv (fold_left import_actor l st) /\ same_roles (fold_left import_actor l st) st /\
  (forall a, lookup a (actors (fold_left import_actor l st)) = match lookup a l with Some act => Some act | None => lookup a (actors st) end).
Proof.
  induction l as [|[a0 act0] r IH]; intros st N I H; cbn [fold_left].
  - split; [assumption|]. split; [repeat split|reflexivity].
  - inversion N as [|? ? Hnot N']; subst.
    destruct (H a0 act0 (or_introl eq_refl)) as [Hn [N1 N2]].
    pose proof (import_actor_inv st a0 act0 I Hn N1 N2) as I1.
    assert (Hl : forall a', lookup a' (actors (import_actor st (a0, act0))) = if a0 =? a' then Some act0 else lookup a' (actors st)).
    { intros a'. unfold import_actor, with_idx_pa, with_idx_ra, save_actor, with_actors; sproj. apply lookup_upd. }
    destruct (IH (import_actor st (a0, act0)) N' I1) as [I2 [S2 L2]].
    { intros a act Hin. destruct (H a act (or_intror Hin)) as [Hn' W]. split; [|assumption].
      rewrite Hl. destruct (Z.eqb_spec a0 a); [|assumption].
      subst. exfalso. apply Hnot. apply in_map_iff. exists (a, act); auto. }
    split; [assumption|]. split.
    + destruct S2 as [A [B [C D]]]. unfold same_roles. rewrite A, B, C, D. repeat split.
    + intros a. rewrite L2, Hl. cbn [lookup]. destruct (Z.eqb_spec a0 a); [|reflexivity].
      subst. rewrite (lookup_notin r a Hnot). reflexivity.
Qed.

Lemma k_set_role_inv' : forall s id sid,
  inv s -> lookup id (rperms s) = None -> 1 <= id < get_next_role s -> inv (k_set_role s id sid).
Proof.
  intros s id sid I Hn Hid. unfold k_set_role.
  constructor; sproj; unfold get_next_role; sproj; fold (get_next_role s).
  - apply (inv_actors s I).
  - intros r rp. rewrite !lookup_upd. destruct (Z.eqb_spec id r).
    + intros E; inversion E; subst. split; [apply wf_no_perms|]. split; [lia|discriminate].
    + intros E. apply (inv_roles s I r rp E).
  - intros r sd. rewrite !lookup_upd. destruct (id =? r); [discriminate|]. apply (inv_info s I).
  - apply (inv_next s I).
  - apply (inv_pa s I).
  - apply (inv_ra s I).
  - intros p r. rewrite lookup_upd, (inv_pr s I). destruct (Z.eqb_spec id r); [subst r; rewrite Hn|]; reflexivity.
Qed.

Definition same_actors (st' st : state) : Prop :=
  actors st' = actors st /\ idx_pa st' = idx_pa st /\ idx_ra st' = idx_ra st /\ next_role st' = next_role st.

Definition set_role_step (st : state) (e : Z * Z) : state := k_set_role st (fst e) (snd e).
Lemma import_roles_fold : forall l st,
  NoDup (map fst l) -> inv st ->
  (forall r sid, In (r, sid) l -> lookup r (rperms st) = None /\ 1 <= r < get_next_role st) ->
  inv (fold_left set_role_step l st) /\ same_actors (fold_left set_role_step l st) st /\
  idx_pr (fold_left set_role_step l st) = idx_pr st /\
  (forall r, lookup r (rperms (fold_left set_role_step l st)) = match lookup r l with Some _ => Some no_perms | None => lookup r (rperms st) end) /\
  (forall r, lookup r (rinfo (fold_left set_role_step l st)) = match lookup r l with Some sid => Some sid | None => lookup r (rinfo st) end).
Proof.
  induction l as [|[r0 sid0] l IH]; intros st N I H; cbn [fold_left].
  - split; [assumption|]. split; [repeat split|]. split; [reflexivity|]. split; reflexivity.
  - inversion N as [|? ? Hnot N']; subst.
    destruct (H r0 sid0 (or_introl eq_refl)) as [Hn Hr].
    pose proof (k_set_role_inv' st r0 sid0 I Hn Hr) as I1.
    unfold set_role_step at 2 4 6 8 10; cbn [fst snd].
    destruct (IH (k_set_role st r0 sid0) N' I1) as [I2 [S2 [P2 [L2 L3]]]].
    { intros r sid Hin. destruct (H r sid (or_intror Hin)) as [Hn' Hr']. split.
      - unfold k_set_role; sproj. rewrite lookup_upd. destruct (Z.eqb_spec r0 r); [|assumption].
        subst. exfalso. apply Hnot. apply in_map_iff. exists (r, sid); auto.
      - exact Hr'. }
    split; [assumption|]. split; [|split; [|split]].
    + destruct S2 as [A [B [C D]]]. unfold same_actors. rewrite A, B, C, D. repeat split.
    + rewrite P2. reflexivity.
    + intros r. rewrite L2. unfold k_set_role; sproj. rewrite lookup_upd. cbn [lookup].
      destruct (Z.eqb_spec r0 r); [|reflexivity]. subst. rewrite (lookup_notin l r Hnot). reflexivity.
    + intros r. rewrite L3. unfold k_set_role; sproj. rewrite lookup_upd. cbn [lookup].
      destruct (Z.eqb_spec r0 r); [|reflexivity]. subst. rewrite (lookup_notin l r Hnot). reflexivity.
Qed.

(* ---- phase 3: role whitelists (and, in the repaired variant, blacklists), errors ignored *)
Definition frame3 (st' st : state) : Prop := same_actors st' st /\ rinfo st' = rinfo st.
Lemma frame3_refl : forall st, frame3 st st.
Proof. intros st; unfold frame3, same_actors; repeat split. Qed.
Lemma frame3_trans : forall a b c, frame3 a b -> frame3 b c -> frame3 a c.
Proof.
  unfold frame3, same_actors; intros a b c [[A1 [A2 [A3 A4]]] A5] [[B1 [B2 [B3 B4]]] B5].
  rewrite A1, A2, A3, A4, A5, B1, B2, B3, B4, B5. repeat split.
Qed.

Definition keep (f : Z -> perms -> option perms) (cur : perms) (p : Z) : perms := match f p cur with Some x => x | None => cur end.
Definition imp_add (f : Z -> perms -> option perms) (cur : perms) (ps : list Z) : perms := fold_left (keep f) ps cur.

Definition role_step_spec (f : Z -> perms -> option perms) (r p : Z) (st st' : state) : Prop :=
  frame3 st' st /\ (forall r', r' <> r -> lookup r' (rperms st') = lookup r' (rperms st)) /\
  lookup r (rperms st') = option_map (fun cur => keep f cur p) (lookup r (rperms st)).

Lemma try_wl_step : forall r p st, inv st ->
  inv (try_edit k_wl_role r st p) /\ role_step_spec add_wl r p st (try_edit k_wl_role r st p).
Proof.
  intros r p st I. split.
  - unfold try_edit. destruct (k_wl_role st r p) eqn:E; try assumption. eapply k_wl_role_inv; eauto.
  - unfold role_step_spec, try_edit, k_wl_role, k_role_edit, opt_err, keep.
    destruct (lookup r (rperms st)) as [cur|] eqn:El; [destruct (add_wl p cur) as [x|] eqn:Ea|]; cbn [bind option_map].
    + unfold with_idx_pr, with_rperms; sproj. split; [unfold frame3, same_actors; sproj; repeat split|]. split.
      * intros r' Hr. rewrite lookup_upd. destruct (Z.eqb_spec r r'); [congruence|reflexivity].
      * rewrite lookup_upd, Z.eqb_refl, Ea. reflexivity.
    + split; [apply frame3_refl|]. split; [reflexivity|]. rewrite El, Ea. reflexivity.
    + split; [apply frame3_refl|]. split; [reflexivity|]. rewrite El. reflexivity.
Qed.
Lemma try_bl_step : forall r p st, inv st ->
  inv (try_edit k_bl_role r st p) /\ role_step_spec add_bl r p st (try_edit k_bl_role r st p).
Proof.
  intros r p st I. split.
  - unfold try_edit. destruct (k_bl_role st r p) eqn:E; try assumption. eapply k_bl_role_inv; eauto.
  - unfold role_step_spec, try_edit, k_bl_role, k_role_edit, opt_err, keep.
    destruct (lookup r (rperms st)) as [cur|] eqn:El; [destruct (add_bl p cur) as [x|] eqn:Ea|]; cbn [bind option_map].
    + unfold with_rperms; sproj. split; [unfold frame3, same_actors; sproj; repeat split|]. split.
      * intros r' Hr. rewrite lookup_upd. destruct (Z.eqb_spec r r'); [congruence|reflexivity].
      * rewrite lookup_upd, Z.eqb_refl, Ea. reflexivity.
    + split; [apply frame3_refl|]. split; [reflexivity|]. rewrite El, Ea. reflexivity.
    + split; [apply frame3_refl|]. split; [reflexivity|]. rewrite El. reflexivity.
Qed.

Definition role_fold_spec (g : perms -> perms) (r : Z) (st st' : state) : Prop :=
  frame3 st' st /\ (forall r', r' <> r -> lookup r' (rperms st') = lookup r' (rperms st)) /\
  lookup r (rperms st') = option_map g (lookup r (rperms st)).

Lemma try_fold : forall (ed : state -> Z -> Z -> outcome state) f r,
  (forall p st, inv st -> inv (try_edit ed r st p) /\ role_step_spec f r p st (try_edit ed r st p)) ->
  forall ps st, inv st ->
  inv (fold_left (try_edit ed r) ps st) /\ role_fold_spec (fun cur => imp_add f cur ps) r st (fold_left (try_edit ed r) ps st).
Proof.
  intros ed f r Hstep ps; induction ps as [|p ps IH]; intros st I; cbn [fold_left].
  - split; [assumption|]. unfold role_fold_spec, imp_add; simpl. split; [apply frame3_refl|]. split; [reflexivity|].
    destruct (lookup r (rperms st)); reflexivity.
  - destruct (Hstep p st I) as [I1 [F1 [O1 L1]]]. destruct (IH _ I1) as [I2 [F2 [O2 L2]]].
    split; [assumption|]. split; [eapply frame3_trans; eauto|]. split.
    + intros r' Hr. rewrite O2, O1 by assumption. reflexivity.
    + rewrite L2, L1. unfold imp_add; cbn [fold_left]. destruct (lookup r (rperms st)); reflexivity.
Qed.

Definition imp_perms (b : bool) (cur rp : perms) : perms :=
  let c1 := imp_add add_wl cur (wl rp) in if b then imp_add add_bl c1 (bl rp) else c1.

Lemma import_role_spec : forall b r rp st, inv st ->
  inv (import_role b st (r, rp)) /\ role_fold_spec (fun cur => imp_perms b cur rp) r st (import_role b st (r, rp)).
Proof.
  intros b r rp st I. unfold import_role.
  destruct (try_fold k_wl_role add_wl r (try_wl_step r) (wl rp) st I) as [I1 S1].
  destruct b.
  - destruct (try_fold k_bl_role add_bl r (try_bl_step r) (bl rp) _ I1) as [I2 [F2 [O2 L2]]].
    destruct S1 as [F1 [O1 L1]]. split; [assumption|]. split; [eapply frame3_trans; eauto|]. split.
    + intros r' Hr. rewrite O2, O1 by assumption. reflexivity.
    + rewrite L2, L1. unfold imp_perms. destruct (lookup r (rperms st)); reflexivity.
  - split; [assumption|]. exact S1.
Qed.

Lemma imp_add_wl_fresh : forall ws w, NoDup (w ++ ws) -> imp_add add_wl (mkPerms w []) ws = mkPerms (w ++ ws) [].
Proof.
  unfold imp_add; induction ws as [|p ws IH]; intros w N; cbn [fold_left].
  - rewrite app_nil_r; reflexivity.
  - assert (Hp : mem p w = false).
    { apply mem_false_In. intros Hin. apply NoDup_remove_2 in N. apply N. apply in_or_app; left; assumption. }
    assert (E : keep add_wl (mkPerms w []) p = mkPerms (w ++ [p]) []).
    { unfold keep, add_wl; cbn [wl bl]. change (mem p []) with false. cbv iota. rewrite Hp. reflexivity. }
    rewrite E.
    rewrite IH; [rewrite <- app_assoc; reflexivity|]. rewrite <- app_assoc. exact N.
Qed.
Lemma imp_add_bl_fresh : forall bs w b0, NoDup (b0 ++ bs) -> (forall q, In q bs -> mem q w = false) ->
  imp_add add_bl (mkPerms w b0) bs = mkPerms w (b0 ++ bs).
Proof.
  unfold imp_add; induction bs as [|p bs IH]; intros w b0 N D; cbn [fold_left].
  - rewrite app_nil_r; reflexivity.
  - assert (Hp : mem p b0 = false).
    { apply mem_false_In. intros Hin. apply NoDup_remove_2 in N. apply N. apply in_or_app; left; assumption. }
    assert (E : keep add_bl (mkPerms w b0) p = mkPerms w (b0 ++ [p])).
    { unfold keep, add_bl; cbn [wl bl]. rewrite (D p (or_introl eq_refl)), Hp. reflexivity. }
    rewrite E.
    rewrite IH; [rewrite <- app_assoc; reflexivity| |].
    + rewrite <- app_assoc. exact N.
    + intros q Hq. apply D. right; assumption.
Qed.
Lemma imp_perms_wf : forall b rp, wf_perms rp -> imp_perms b no_perms rp = if b then rp else mkPerms (wl rp) [].
Proof.
  intros b rp [N1 [N2 D]]. unfold imp_perms, no_perms. rewrite (imp_add_wl_fresh (wl rp) []) by exact N1. cbn [app].
  destruct b; [|reflexivity].
  rewrite (imp_add_bl_fresh (bl rp) (wl rp) []); [destruct rp; reflexivity|exact N2|].
  intros q Hq. apply mem_In in Hq. specialize (D q). rewrite Hq, andb_true_r in D. exact D.
Qed.

Lemma import_perms_fold : forall b l st,
  NoDup (map fst l) -> inv st ->
  inv (fold_left (import_role b) l st) /\ frame3 (fold_left (import_role b) l st) st /\
  (forall r, lookup r (rperms (fold_left (import_role b) l st)) =
             match lookup r l with Some rp => option_map (fun cur => imp_perms b cur rp) (lookup r (rperms st)) | None => lookup r (rperms st) end).
Proof.
  intros b l; induction l as [|[r0 rp0] l IH]; intros st N I; cbn [fold_left].
  - split; [assumption|]. split; [apply frame3_refl|reflexivity].
  - inversion N as [|? ? Hnot N']; subst.
    destruct (import_role_spec b r0 rp0 st I) as [I1 [F1 [O1 L1]]].
    destruct (IH _ N' I1) as [I2 [F2 L2]].
    split; [assumption|]. split; [eapply frame3_trans; eauto|].
    intros r. rewrite L2. cbn [lookup]. destruct (Z.eqb_spec r0 r).
    + subst. rewrite (lookup_notin l r Hnot). exact L1.
    + rewrite O1 by congruence. reflexivity.
Qed.

Lemma inv_import_start : forall s, inv s -> inv (import_start s).
Proof.
  intros s I. pose proof (inv_next s I). constructor; unfold import_start, get_next_role; sproj; simpl; intros; try discriminate; try reflexivity.
  fold (get_next_role s). assumption.
Qed.

Lemma import_facts : forall b s, inv s ->
  inv (export_import b s) /\
  (forall a, lookup a (actors (export_import b s)) = lookup a (actors s)) /\
  (forall r, lookup r (rperms (export_import b s)) = option_map (fun rp => if b then rp else mkPerms (wl rp) []) (lookup r (rperms s))).
Proof.
  intros b s I.
  (* phase 1 *)
  destruct (import_actors_fold (canon [] (actors s)) (import_start s) (canon_NoDup _ _) (inv_import_start s I)) as [I1 [[R1 [R2 [R3 R4]]] L1]].
  { intros a act Hin. apply canon_In_lookup in Hin. destruct Hin as [Hl _]. split; [reflexivity|]. apply (inv_actors s I a act Hl). }
  fold (import_phase1 s) in I1, R1, R2, R3, R4, L1.
  assert (Hnx : get_next_role (import_phase1 s) = get_next_role s).
  { unfold get_next_role at 1. rewrite R3. reflexivity. }
  (* phase 2 *)
  destruct (import_roles_fold (canon [] (rinfo s)) (import_phase1 s) (canon_NoDup _ _) I1) as [I2 [[A1 [A2 [A3 A4]]] [P2 [L2 L3]]]].
  { intros r sid Hin. apply canon_In_lookup in Hin. destruct Hin as [Hl _]. split; [rewrite R1; reflexivity|].
    rewrite Hnx. pose proof (inv_info s I r sid Hl) as Hp. destruct (lookup r (rperms s)) as [rp|] eqn:E; [|congruence].
    apply (inv_roles s I r rp E). }
  change (fold_left set_role_step (canon [] (rinfo s)) (import_phase1 s)) with (import_phase2 s) in *.
  (* phase 3 *)
  destruct (import_perms_fold b (canon [] (rperms s)) (import_phase2 s) (canon_NoDup _ _) I2) as [I3 [[[B1 [B2 [B3 B4]]] B5] L4]].
  change (fold_left (import_role b) (canon [] (rperms s)) (import_phase2 s)) with (export_import b s) in *.
  split; [assumption|]. split.
  - intros a. rewrite B1, A1, L1, lookup_canon. simpl. destruct (lookup a (actors s)); reflexivity.
  - intros r. rewrite L4, L2, !lookup_canon, R1. simpl.
    destruct (lookup r (rperms s)) as [rp|] eqn:E.
    + destruct (inv_roles s I r rp E) as [W [_ Hi]]. destruct (lookup r (rinfo s)); [|congruence]. cbn [option_map].
      rewrite imp_perms_wf by assumption. reflexivity.
    + destruct (lookup r (rinfo s)) as [sid|] eqn:Ei; [|reflexivity].
      exfalso. apply (inv_info s I r sid Ei). assumption.
Qed.

Theorem import_inv : forall b s, inv s -> inv (export_import b s).
Proof. intros b s I. apply (import_facts b s I). Qed.

(* with role blacklists re-imported, an export / import reproduces who holds what *)
Theorem import_preserves_holdings : forall s a p, inv s -> check_allowed (export_import true s) a p = check_allowed s a p.
Proof.
  intros s a p I. destruct (import_facts true s I) as [_ [La Lr]]. unfold check_allowed. rewrite La.
  destruct (lookup a (actors s)) as [act|]; [|reflexivity].
  replace (writes (export_import true s) act) with (writes s act); [reflexivity|].
  unfold writes, found_role_perms.
  assert (E : forall l, flat_map (fun r => match lookup r (rperms s) with Some rp => [rp] | None => [] end) l =
                        flat_map (fun r => match lookup r (rperms (export_import true s)) with Some rp => [rp] | None => [] end) l).
  { intros l. apply flat_map_ext. intros r. rewrite Lr. destruct (lookup r (rperms s)); reflexivity. }
  rewrite !E. reflexivity.
Qed.

(* ------------------------------------------------------------------ address rotation, repaired variant *)
Lemma inv_actor_delete : forall s a act, inv s -> lookup a (actors s) = Some act ->
  inv (mkState (del a (actors s)) (rperms s) (rinfo s) (rsid s) (next_role s)
               (pdel_all (keys_for a (wl (a_perms act))) (idx_pa s)) (pdel_all (keys_for a (a_roles act)) (idx_ra s)) (idx_pr s)).
Proof.
  intros s a act I E. constructor; sproj.
  - intros a0 act0. rewrite lookup_del. destruct (a =? a0); [discriminate|]. apply (inv_actors s I).
  - apply (inv_roles s I).
  - apply (inv_info s I).
  - apply (inv_next s I).
  - intros p a0. rewrite pmem_pdel_all, pmem_keys_for, lookup_del, (inv_pa s I). destruct (Z.eqb_spec a a0).
    + subst a0. rewrite E, Z.eqb_refl. simpl. destruct (mem p (wl (a_perms act))); reflexivity.
    + rewrite (Z.eqb_sym a0 a). destruct (Z.eqb_spec a a0); [congruence|]. simpl. apply andb_true_r.
  - intros r a0. rewrite pmem_pdel_all, pmem_keys_for, lookup_del, (inv_ra s I). destruct (Z.eqb_spec a a0).
    + subst a0. rewrite E, Z.eqb_refl. simpl. destruct (mem r (a_roles act)); reflexivity.
    + rewrite (Z.eqb_sym a0 a). destruct (Z.eqb_spec a a0); [congruence|]. simpl. apply andb_true_r.
  - apply (inv_pr s I).
Qed.

Lemma rotate_repaired_inv : forall s a b, inv s -> a <> b -> lookup b (actors s) = None -> inv (rotate_repaired s a b).
Proof.
  intros s a b I Hab Hb. unfold rotate_repaired. destruct (lookup a (actors s)) as [act|] eqn:E; [|assumption].
  unfold with_actors, with_idx_pa, with_idx_ra; sproj.
  change (rotate_install ?st b act) with (import_actor st (b, act)).
  destruct (inv_actors s I a act E) as [N1 N2].
  apply import_actor_inv; [apply inv_actor_delete; assumption| |assumption|assumption].
  sproj. rewrite lookup_del. destruct (Z.eqb_spec a b); [congruence|assumption].
Qed.

(* after a repaired rotation the old address holds nothing, the new one holds what the old one held *)
Theorem rotation_repaired_old_address : forall s a b p, a <> b -> lookup a (actors s) <> None ->
  check_allowed (rotate_repaired s a b) a p = false.
Proof.
  intros s a b p Hab Ha. unfold rotate_repaired. destruct (lookup a (actors s)) as [act|] eqn:E; [|congruence].
  unfold check_allowed, rotate_install, save_actor, with_idx_pa, with_idx_ra, with_actors; sproj.
  rewrite lookup_upd. destruct (Z.eqb_spec b a); [congruence|]. rewrite lookup_del, Z.eqb_refl. reflexivity.
Qed.
Theorem rotation_repaired_new_address : forall s a b p,
  check_allowed (rotate_repaired s a b) b p =
  match lookup a (actors s) with Some _ => check_allowed s a p | None => check_allowed s b p end.
Proof.
  intros s a b p. unfold rotate_repaired. destruct (lookup a (actors s)) as [act|] eqn:E; [|reflexivity].
  unfold check_allowed, rotate_install, save_actor, with_idx_pa, with_idx_ra, with_actors; sproj.
  rewrite lookup_upd, Z.eqb_refl, E. reflexivity.
Qed.

(* ------------------------------------------------------------------ histories, for every variant of the tree *)
Section WithCfg.
Variable c : cfg.

(* the guard excludes the operations whose index maintenance is refuted for the variant at hand:
   a councilor claim that newly whitelists (unless claims go through AddWhitelistPermission),
   a rotation of an address with an actor record (unless the rotation is repaired, the target
   differs and has no record of its own) *)
Definition safe (s : state) (o : op) : Prop :=
  match o with
  | OClaimCouncilor a => claim_indexed c = true \/ claim_whitelists s a = false
  | ORotate a b => lookup a (actors s) = None \/ (rotate_fixed c = true /\ a <> b /\ lookup b (actors s) = None)
  | _ => True
  end.

Lemma step_inv : forall s o s', inv s -> safe s o -> step c s o = Ok s' -> inv s'.
Proof.
  intros s o s' I S H. destruct o; cbn [step] in H.
  - apply gated_Ok in H; eapply k_add_wl_acc_inv; eauto.
  - apply gated_Ok in H; eapply k_add_bl_acc_inv; eauto.
  - apply gated_Ok in H; eapply k_rm_wl_acc_inv; eauto.
  - apply gated_Ok in H; eapply k_rm_bl_acc_inv; eauto.
  - apply gated_Ok in H; eapply k_wl_role_inv; eauto.
  - apply gated_Ok in H; eapply k_bl_role_inv; eauto.
  - apply gated_Ok in H; eapply k_rm_wl_role_inv; eauto.
  - apply gated_Ok in H; eapply k_rm_bl_role_inv; eauto.
  - apply gated_Ok in H. unfold create_role_checked in H. destruct (role_by_sid s sid); cbn [bind] in H; [discriminate|].
    destruct (fold_out (fun st p => k_wl_role st (snd (k_create_role s sid)) p) (fst (k_create_role s sid)) w) as [s1| |] eqn:E1;
      cbn [bind] in H; try discriminate.
    assert (I0 : inv (fst (k_create_role s sid))) by (apply k_create_role_inv; exact I).
    assert (I1 : inv s1).
    { eapply (fold_out_inv _ inv); [|exact I0|exact E1]. intros st b0 st' HI HK; cbv beta in HK; eapply k_wl_role_inv; eauto. }
    eapply (fold_out_inv _ inv); [|exact I1|exact H]. intros st b0 st' HI HK; cbv beta in HK; eapply k_bl_role_inv; eauto.
  - destruct (role_by_sid s sid); [discriminate|]. inversion H; subst s'; clear H.
    assert (H0 : lookup 0 (rperms s) = None).
    { destruct (lookup 0 (rperms s)) eqn:E; [|reflexivity]. destruct (inv_roles s I _ _ E) as [_ [HH _]]. lia. }
    constructor; sproj.
    + apply (inv_actors s I).
    + intros r rp. rewrite !lookup_del. destruct (0 =? r); [discriminate|]. apply (inv_roles s I).
    + intros r sd. rewrite !lookup_del. destruct (0 =? r); [discriminate|]. apply (inv_info s I).
    + apply (inv_next s I).
    + apply (inv_pa s I).
    + apply (inv_ra s I).
    + intros p r. rewrite lookup_del, (inv_pr s I). destruct (Z.eqb_spec 0 r); [subst r; rewrite H0|]; reflexivity.
  - apply gated_Ok in H; eapply k_assign_inv; eauto.
  - apply gated_Ok in H; eapply k_unassign_inv; eauto.
  - simpl in S. unfold gated in H. destruct (check_allowed s a PermClaimCouncilor) eqn:Ec; [|discriminate].
    destruct (lookup a (actors s)) as [act|] eqn:Ea; [|discriminate].
    destruct (claim_indexed c).
    + destruct (k_add_wl_acc s a PermCreatePollProposal) eqn:Ek; inversion H; subst; try assumption.
      eapply k_add_wl_acc_inv; eauto.
    + destruct S as [S|S]; [discriminate|]. unfold claim_whitelists in S. rewrite Ec, Ea in S. simpl in S.
      destruct (add_wl PermCreatePollProposal (a_perms act)); [discriminate|]. inversion H; subst; assumption.
  - unfold gated in H. destruct (check_allowed s x (gate_perm_coded c k)); inversion H; subst; assumption.
  - inversion H; subst. apply import_inv; assumption.
  - simpl in S. inversion H; subst. unfold rotate. destruct S as [S|[Hf [Hab Hb]]].
    + unfold rotate_repaired, rotate_buggy. rewrite S. destruct (rotate_fixed c); assumption.
    + rewrite Hf. apply rotate_repaired_inv; assumption.
Qed.

Fixpoint safe_run (s : state) (ops : list op) : Prop :=
  match ops with [] => True | o :: r => safe s o /\ safe_run (step_total c s o) r end.

Lemma step_total_inv : forall s o, inv s -> safe s o -> inv (step_total c s o).
Proof.
  intros s o I S. unfold step_total. destruct (step c s o) eqn:E; try assumption. eapply step_inv; eauto.
Qed.

Theorem indexes_refine_guarded : forall ops s, inv s -> safe_run s ops -> inv (run c s ops).
Proof.
  induction ops as [|o r IH]; intros s I S; simpl; [assumption|].
  destruct S as [S1 S2]. apply IH; [apply step_total_inv; assumption|assumption].
Qed.

(* with the councilor claim and the rotation repaired, the only remaining condition is that a
   rotation does not overwrite another actor's record *)
Fixpoint fresh_targets (s : state) (ops : list op) : Prop :=
  match ops with
  | [] => True
  | o :: r => match o with ORotate a b => lookup a (actors s) = None \/ (a <> b /\ lookup b (actors s) = None) | _ => True end
              /\ fresh_targets (step_total c s o) r
  end.
Theorem indexes_refine_repaired : claim_indexed c = true -> rotate_fixed c = true ->
  forall ops s, inv s -> fresh_targets s ops -> inv (run c s ops).
Proof.
  intros Hc Hr ops s I F. apply indexes_refine_guarded; [assumption|]. revert s I F.
  induction ops as [|o r IH]; intros s I F; [exact Logic.I|]. destruct F as [F1 F2].
  assert (S1 : safe s o).
  { destruct o; simpl; auto. destruct F1 as [F1|F1]; [left; assumption|right; split; assumption]. }
  split; [exact S1|]. apply IH; [|assumption]. apply step_total_inv; assumption.
Qed.
End WithCfg.

(* ------------------------------------------------------------------ voter enumeration *)
Lemma In_index_filter : forall k x (l : list (Z * Z)),
  In x (map snd (filter (fun e => fst e =? k) l)) <-> pmem (k, x) l = true.
Proof.
  intros k x l; induction l as [|[a b] l IH]; simpl.
  - split; [tauto|discriminate].
  - rewrite pair_eqb_pair. destruct (Z.eqb_spec a k); simpl.
    + subst a. rewrite Z.eqb_refl; simpl. rewrite IH. destruct (Z.eqb_spec x b).
      * subst; simpl; tauto.
      * simpl. split; [intros [H|H]; [congruence|assumption]|auto].
    + rewrite IH. destruct (Z.eqb_spec k a); [congruence|]. simpl. tauto.
Qed.

Lemma dedup_In : forall l seen x, In x (dedup seen l) <-> In x l /\ ~ In x seen.
Proof.
  induction l as [|y l IH]; intros seen x; simpl; [tauto|].
  destruct (mem y seen) eqn:E.
  - apply mem_In in E. rewrite IH. split; [intros [H1 H2]; auto|].
    intros [[->|H1] H2]; [contradiction|auto].
  - apply mem_false_In in E. simpl. rewrite IH. simpl. split.
    + intros [->|[H1 H2]]; [auto|]. split; [auto|]. intros H; apply H2; auto.
    + intros [[->|H1] H2]; [auto|]. destruct (Z.eq_dec y x); [auto|]. right; split; [assumption|].
      intros [H|H]; [congruence|contradiction].
Qed.
Lemma dedup_NoDup : forall l seen, NoDup (dedup seen l).
Proof.
  induction l as [|y l IH]; intros seen; simpl; [constructor|].
  destruct (mem y seen); [apply IH|]. constructor; [|apply IH].
  rewrite dedup_In. intros [_ H]; apply H; left; reflexivity.
Qed.

Lemma candidates_spec : forall s p a, inv s -> (In a (voter_candidates s p) <-> whitelisted s a p).
Proof.
  intros s p a I. unfold voter_candidates, whitelisted, wl_direct, has_role, wl_role.
  rewrite in_app_iff, in_flat_map. unfold addrs_of_perm, roles_of_perm, addrs_of_role.
  rewrite In_index_filter, (inv_pa s I). split.
  - intros [H|[r [Hr Ha]]].
    + left. destruct (lookup a (actors s)) as [act|]; [|discriminate]. exists act; split; [reflexivity|apply mem_In; assumption].
    + right. exists r. apply In_index_filter in Hr. apply In_index_filter in Ha.
      rewrite (inv_pr s I) in Hr. rewrite (inv_ra s I) in Ha. split.
      * destruct (lookup a (actors s)) as [act|]; [|discriminate]. exists act; split; [reflexivity|apply mem_In; assumption].
      * destruct (lookup r (rperms s)) as [rp|]; [|discriminate]. exists rp; split; [reflexivity|apply mem_In; assumption].
  - intros [[act [E H]]|[r [[act [E H]] [rp [Er Hp]]]]].
    + left. rewrite E. apply mem_In; assumption.
    + right. exists r. rewrite !In_index_filter, (inv_pr s I), (inv_ra s I), E, Er. split; apply mem_In; assumption.
Qed.

Theorem voters_exact : forall s p, inv s ->
  exists l, voters s p = Ok l /\ NoDup l /\ forall a, In a l <-> whitelisted s a p.
Proof.
  intros s p I. exists (dedup [] (voter_candidates s p)). split; [|split].
  - unfold voters. replace (forallb _ _) with true; [reflexivity|]. symmetry. apply forallb_forall.
    intros a Ha. apply dedup_In in Ha. destruct Ha as [Ha _]. apply candidates_spec in Ha; [|assumption].
    destruct Ha as [[act [E _]]|[r [[act [E _]] _]]]; rewrite E; reflexivity.
  - apply dedup_NoDup.
  - intros a. rewrite dedup_In, candidates_spec by assumption. simpl; tauto.
Qed.

(* the index equalities in set form *)
Lemma inv_sets : forall s, inv s ->
  (forall p a, pmem (p, a) (idx_pa s) = true <-> wl_direct s a p) /\
  (forall r a, pmem (r, a) (idx_ra s) = true <-> has_role s a r) /\
  (forall p r, pmem (p, r) (idx_pr s) = true <-> wl_role s r p).
Proof.
  intros s I. unfold wl_direct, has_role, wl_role. repeat split.
  - rewrite (inv_pa s I). destruct (lookup a (actors s)) as [act|]; [|discriminate]. intros H; exists act; split; [reflexivity|apply mem_In; assumption].
  - intros [act [E H]]. rewrite (inv_pa s I), E. apply mem_In; assumption.
  - rewrite (inv_ra s I). destruct (lookup a (actors s)) as [act|]; [|discriminate]. intros H; exists act; split; [reflexivity|apply mem_In; assumption].
  - intros [act [E H]]. rewrite (inv_ra s I), E. apply mem_In; assumption.
  - rewrite (inv_pr s I). destruct (lookup r (rperms s)) as [rp|]; [|discriminate]. intros H; exists rp; split; [reflexivity|apply mem_In; assumption].
  - intros [rp [E H]]. rewrite (inv_pr s I), E. apply mem_In; assumption.
Qed.

(* ------------------------------------------------------------------ every gated action is enforced *)
Definition msg_gate_holds (c : cfg) (s : state) (o : op) : Prop :=
  match o with
  | OWlAcc (ByMsg x) _ p | OBlAcc (ByMsg x) _ p | ORmWlAcc (ByMsg x) _ p | ORmBlAcc (ByMsg x) _ p =>
      holds s x PermSetPermissions \/ (p = PermClaimValidator /\ holds s x PermSetClaimValidatorPermission)
  | OWlRole (ByMsg x) _ _ | OBlRole (ByMsg x) _ _ | ORmWlRole (ByMsg x) _ _ | ORmBlRole (ByMsg x) _ _
  | OCreateRole (ByMsg x) _ _ _ | OAssign (ByMsg x) _ _ | OUnassign (ByMsg x) _ _ => holds s x PermUpsertRole
  | OClaimCouncilor a => holds s a PermClaimCouncilor
  | OGate k x => holds s x (gate_perm_coded c k)
  | _ => True
  end.

Lemma gated_true : forall b k s', gated b k = Ok s' -> b = true.
Proof. unfold gated; intros b k s'; destruct b; [reflexivity|discriminate]. Qed.
Lemma acc_gate_holds : forall s x p, acc_perm_gate s x p = true ->
  holds s x PermSetPermissions \/ (p = PermClaimValidator /\ holds s x PermSetClaimValidatorPermission).
Proof.
  unfold acc_perm_gate; intros s x p H. apply orb_true_iff in H. destruct H as [H|H].
  - left; apply check_allowed_iff; assumption.
  - apply andb_true_iff in H. destruct H as [H1 H2]. right; split; [apply Z.eqb_eq; assumption|apply check_allowed_iff; assumption].
Qed.

Theorem gated_only_with_permission : forall c s o s', step c s o = Ok s' -> msg_gate_holds c s o.
Proof.
  intros c s o s' H. destruct o; cbn [step] in H; try exact I; try (destruct v; [|exact I]);
    apply gated_true in H; cbn [via_gate msg_gate_holds] in *;
    try (apply acc_gate_holds; assumption); apply check_allowed_iff; assumption.
Qed.

(* the permission each non-editing gated message is MEANT to require *)
Definition gate_perm_intended (k : gkind) : Z :=
  match k with GPoll => PermCreatePollProposal | GSubmit => PermCreateSetPoorNetworkMessagesProposal
             | GVote => PermVoteSetPoorNetworkMessagesProposal | GDapp => PermCreateDappProposalWithoutBond | GOther p _ => p end.
(* full strength whenever layer2's wrapper hands the requested permission on *)
Theorem gate_intended : forall c, dapp_perm c = PermCreateDappProposalWithoutBond ->
  forall s k x s', step c s (OGate k x) = Ok s' -> holds s x (gate_perm_intended k).
Proof.
  intros c Hd s k x s' H. apply gated_only_with_permission in H. simpl in H. destruct k; simpl in *; try exact H. rewrite <- Hd. exact H.
Qed.
(* the unrepaired wrapper (always PermHandleBasketEmergency) *)
Theorem gate_intended_refuted : forall c, dapp_perm c = PermHandleBasketEmergency -> exists ops x s',
  step c (run c empty_state ops) (OGate GDapp x) = Ok s' /\ ~ holds (run c empty_state ops) x (gate_perm_intended GDapp).
Proof.
  intros [d ci ib rf] Hd; simpl in Hd; subst d.
  exists [OWlAcc ByProp 1 PermHandleBasketEmergency], 1. eexists. split; [vm_compute; reflexivity|].
  intros H. apply check_allowed_iff in H. vm_compute in H. discriminate.
Qed.

(* ------------------------------------------------------------------ refutations for the unrepaired variants
   (witnesses replayed on the real code by harness/cmd/c07 while the tree has the variant) *)
Definition claim_witness : list op := [OWlAcc ByProp 0 PermClaimCouncilor; OClaimCouncilor 0].

(* "every reachable state keeps the indexes equal to the records": refuted while ClaimCouncilor
   whitelists without the index *)
Theorem indexes_refine_refuted : forall c, claim_indexed c = false -> exists ops, ~ inv (run c empty_state ops).
Proof.
  intros [d ci ib rf] Hc; simpl in Hc; subst ci.
  exists claim_witness. intros I. pose proof (inv_pa _ I PermCreatePollProposal 0) as H. vm_compute in H. discriminate.
Qed.
Theorem voters_exact_refuted : forall c, claim_indexed c = false -> exists ops a p,
  whitelisted (run c empty_state ops) a p /\ voters (run c empty_state ops) p = Ok [].
Proof.
  intros [d ci ib rf] Hc; simpl in Hc; subst ci.
  exists claim_witness, 0, PermCreatePollProposal. split; [|vm_compute; reflexivity].
  left. eexists; split; [vm_compute; reflexivity|]. simpl; auto.
Qed.
(* the guard excludes exactly the claims that break the index *)
Theorem claim_breaks_index : forall c s a, claim_indexed c = false -> inv s -> claim_whitelists s a = true ->
  exists s', step c s (OClaimCouncilor a) = Ok s' /\ ~ inv s'.
Proof.
  intros c s a Hci I H. unfold claim_whitelists in H. apply andb_true_iff in H. destruct H as [Hc Hw].
  cbn [step]. rewrite Hc, Hci. cbn [gated].
  destruct (lookup a (actors s)) as [act|] eqn:Ea; [|discriminate].
  destruct (add_wl PermCreatePollProposal (a_perms act)) as [ps|] eqn:Eadd; [|discriminate].
  eexists; split; [reflexivity|]. intros I'.
  pose proof (inv_pa _ I' PermCreatePollProposal a) as Hpa.
  unfold save_actor, with_actors in Hpa; cbn [idx_pa actors] in Hpa. rewrite lookup_upd, Z.eqb_refl in Hpa.
  cbn [a_perms] in Hpa. apply add_wl_Some in Eadd. destruct Eadd as [_ [Hnw ->]]. cbn [wl] in Hpa.
  rewrite mem_app in Hpa. simpl in Hpa. rewrite orb_true_r in Hpa.
  rewrite (inv_pa s I), Ea, Hnw in Hpa. discriminate.
Qed.

Definition rotate_witness : list op :=
  [OCreateRole ByProp 1 [PermVoteSetPoorNetworkMessagesProposal] []; OAssign ByProp 1 1; OWlAcc ByProp 1 PermCreatePollProposal; ORotate 1 4].
(* "after a rotation the old address holds nothing": refuted for the unrepaired rotation *)
Theorem rotation_clears_old_address_refuted : forall c, rotate_fixed c = false -> exists ops a b p,
  last ops OExportImport = ORotate a b /\ a <> b /\ check_allowed (run c empty_state ops) a p = true /\ ~ inv (run c empty_state ops).
Proof.
  intros [d ci ib rf] Hc; simpl in Hc; subst rf.
  exists rotate_witness, 1, 4, PermCreatePollProposal. split; [reflexivity|]. split; [lia|]. split; [vm_compute; reflexivity|].
  intros I. pose proof (inv_pa _ I PermCreatePollProposal 1) as H. vm_compute in H. discriminate.
Qed.
Theorem rotation_clears_old_address_partial : forall s a b act p,
  lookup a (actors s) = Some act -> a_roles act = [] -> a <> b -> check_allowed (rotate_buggy s a b) a p = false.
Proof.
  intros s a b act p E Hr Hab. unfold rotate_buggy. rewrite E, Hr. cbn [List.length rotate_unassign].
  unfold check_allowed, rotate_install, save_actor, with_idx_pa, with_idx_ra, with_actors; sproj.
  rewrite lookup_upd. destruct (Z.eqb_spec b a); [congruence|]. rewrite lookup_del, Z.eqb_refl. reflexivity.
Qed.
(* even the repaired rotation overwrites the record of a target that has one: its index entries stay *)
Definition overwrite_witness : list op := [OWlAcc ByProp 1 PermCreatePollProposal; OWlAcc ByProp 4 PermClaimCouncilor; ORotate 1 4].
Theorem rotation_overwrite_refuted : forall c, exists ops, ~ inv (run c empty_state ops).
Proof.
  intros [d ci ib rf]. exists overwrite_witness. intros I. pose proof (inv_pa _ I PermClaimCouncilor 4) as H.
  destruct rf; vm_compute in H; discriminate.
Qed.

Definition import_witness : list op :=
  [OCreateRole ByProp 1 [PermVoteSetPoorNetworkMessagesProposal] []; OCreateRole ByProp 2 [] [PermVoteSetPoorNetworkMessagesProposal];
   OAssign ByProp 0 1; OAssign ByProp 0 2].
(* "an export / import reproduces who holds what": refuted while role blacklists are not re-imported *)
Theorem import_preserves_holdings_refuted : exists s a p,
  inv s /\ check_allowed s a p = false /\ check_allowed (export_import false s) a p = true.
Proof.
  exists (run cfg_pinned empty_state import_witness), 0, PermVoteSetPoorNetworkMessagesProposal. split; [|split; vm_compute; reflexivity].
  apply indexes_refine_guarded; [apply inv_empty|]. simpl. tauto.
Qed.

(* non-vacuity: a reachable state with roles, whitelists, blacklists satisfying the invariant *)
Definition example_ops : list op :=
  [OCreateRole ByProp 1 [1; 9] [17]; OCreateRole ByProp 2 [17; 66] []; OWlAcc ByProp 0 1; OWlAcc ByProp 0 9;
   OAssign (ByMsg 0) 1 2; OAssign (ByMsg 0) 1 1; OWlAcc (ByMsg 0) 2 17; OBlAcc (ByMsg 0) 2 66; OAssign (ByMsg 0) 2 2; OExportImport].

(* ------------------------------------------------------------------ the spec checker accepts the model
   (clauses "allow-*" and "gate"): what the checker computes from the dumped records is the
   model's decision procedure, for every state *)
From Sekai Require Import Model.C07Check.

Definition obs_of (ua up : list Z) (s : state) : obs :=
  mkObs (actors s) (rperms s) (rinfo s) (get_next_role s)
        (map (fun a => (a, filter (check_allowed s a) up)) ua)
        (map (fun p => (p, match voters s p with Ok l => Some l | _ => None end)) up)
        (idx_pa s) (idx_ra s) (idx_pr s).

Lemma via_role_found : forall s act (sel : perms -> list Z) p ua up,
  via_role (obs_of ua up s) act sel p = mem p (flat_map sel (found_role_perms s act)).
Proof.
  intros s act sel p ua up. unfold via_role, found_role_perms; cbn [o_roles obs_of].
  induction (a_roles act) as [|r l IH]; simpl; [reflexivity|].
  rewrite IH. destruct (lookup r (rperms s)) as [rp|]; simpl; [|reflexivity].
  rewrite mem_app. reflexivity.
Qed.

Lemma spec_holds_model : forall ua up s a p, spec_holds (obs_of ua up s) a p = check_allowed s a p.
Proof.
  intros ua up s a p. unfold spec_holds, spec_whitelisted, spec_own_bl, spec_role_bl, check_allowed; cbn [o_actors obs_of].
  destruct (lookup a (actors s)) as [act|]; [|reflexivity].
  rewrite last_write_writes; cbv zeta. rewrite !via_role_found.
  destruct (mem p (bl (a_perms act))), (mem p (flat_map bl (found_role_perms s act))),
           (mem p (wl (a_perms act))), (mem p (flat_map wl (found_role_perms s act))); reflexivity.
Qed.

Lemma flat_map_nil : forall {A B} (f : A -> list B) l, (forall x, In x l -> f x = []) -> flat_map f l = [].
Proof. intros A B f l; induction l as [|x l IH]; intros H; simpl; [reflexivity|]. rewrite H by (left; reflexivity). apply IH. intros y Hy; apply H; right; assumption. Qed.

Lemma lookup_map_key : forall {V} (f : Z -> V) l a, In a l -> lookup a (map (fun x => (x, f x)) l) = Some (f a).
Proof.
  intros V f l a; induction l as [|x l IH]; intros H; simpl; [contradiction|].
  destruct (Z.eqb_spec x a); [subst; reflexivity|]. apply IH. destruct H; [congruence|assumption].
Qed.
Lemma mem_filter : forall f x l, mem x (filter f l) = mem x l && f x.
Proof.
  intros f x l; induction l as [|y l IH]; simpl; [reflexivity|].
  destruct (f y) eqn:E; simpl; rewrite IH; destruct (Z.eqb_spec x y); subst; simpl; try rewrite E; try reflexivity.
  destruct (mem y l); reflexivity.
Qed.

Theorem chk_sound_allow : forall ua up s, allow_disc up (obs_of ua up s) = [].
Proof.
  intros ua up s. unfold allow_disc. apply flat_map_nil. intros [a p] Hin.
  unfold all_pairs in Hin. apply in_flat_map in Hin. destruct Hin as [a' [Ha Hp]].
  apply in_map_iff in Hp. destruct Hp as [p' [Heq Hp]]. inversion Heq; subst a' p'; clear Heq.
  cbn [o_allowed obs_of] in Ha. rewrite map_map in Ha. simpl in Ha. rewrite map_id in Ha.
  rewrite spec_holds_model. unfold obs_allowed; cbn [o_allowed obs_of].
  rewrite (lookup_map_key (fun a0 => filter (check_allowed s a0) up)) by assumption.
  rewrite mem_filter. apply mem_In in Hp. rewrite Hp. simpl.
  destruct (check_allowed s a p); reflexivity.
Qed.


(* gate clause: whatever the model accepts passes the checker's gate rule (the dapp waiver when the
   wrapper hands the requested permission on) *)
Theorem chk_sound_gate : forall c ua up s o s', step c s o = Ok s' ->
  (dapp_perm c = PermCreateDappProposalWithoutBond \/ forall x, o <> OGate GDapp x) ->
  gate_spec (obs_of ua up s) o = true.
Proof.
  intros c ua up s o s' H Hd. destruct o; cbn [step] in H; try reflexivity; try (destruct v; [|reflexivity]);
    try (destruct k); apply gated_true in H; cbn [via_gate gate_spec via_spec acc_gate_spec gate_perm_coded] in *; unfold acc_gate_spec;
    rewrite ?spec_holds_model; try exact H.
  destruct Hd as [Hd|Hd]; [rewrite <- Hd; exact H|exfalso; eapply Hd; reflexivity].
Qed.

(* index clauses: under the invariant the checker finds the dumped indexes equal to the sets it
   recomputes from the dumped records *)
Lemma In_pmem : forall x l, In x l -> pmem x l = true.
Proof. intros x l H. unfold pmem. apply existsb_exists. exists x; split; [assumption|apply pair_eqb_eq; reflexivity]. Qed.
Lemma pmem_In : forall x l, pmem x l = true -> In x l.
Proof. intros x l H. unfold pmem in H. apply existsb_exists in H. destruct H as [y [Hy E]]. apply pair_eqb_eq in E. subst; assumption. Qed.
Lemma filter_nil : forall {A} (f : A -> bool) l, (forall x, In x l -> f x = false) -> filter f l = [].
Proof. intros A f l; induction l as [|x l IH]; intros H; simpl; [reflexivity|]. rewrite H by (left; reflexivity). apply IH; intros y Hy; apply H; right; assumption. Qed.
Lemma pdiff_nil : forall l m, (forall x, In x l -> pmem x m = true) -> pdiff l m = [].
Proof. intros l m H. unfold pdiff. apply filter_nil. intros x Hx. rewrite (H x Hx). reflexivity. Qed.

Lemma index_sound : forall {V} (m : list (Z * V)) (sel : V -> list Z) (idx : list (Z * Z)),
  (forall x k, pmem (x, k) idx = match lookup k m with Some v => mem x (sel v) | None => false end) ->
  pdiff (flat_map (fun e => map (fun x => (x, fst e)) (sel (snd e))) (canon [] m)) idx = [] /\
  pdiff idx (flat_map (fun e => map (fun x => (x, fst e)) (sel (snd e))) (canon [] m)) = [].
Proof.
  intros V m sel idx H. split; apply pdiff_nil.
  - intros [x k] Hin. apply in_flat_map in Hin. destruct Hin as [[k' v] [Hc Hx]]. simpl in Hx.
    apply in_map_iff in Hx. destruct Hx as [x' [E Hx]]. inversion E; subst x' k'; clear E.
    apply canon_In_lookup in Hc. destruct Hc as [Hl _]. rewrite H, Hl. apply mem_In; assumption.
  - intros [x k] Hin. apply In_pmem in Hin. rewrite H in Hin.
    destruct (lookup k m) as [v|] eqn:El; [|discriminate].
    apply In_pmem. apply in_flat_map. exists (k, v). split; [apply lookup_In_canon; [assumption|reflexivity]|].
    simpl. apply in_map_iff. exists x; split; [reflexivity|apply mem_In; assumption].
Qed.

Theorem chk_sound_index : forall ua up s, inv s -> index_disc (obs_of ua up s) = [].
Proof.
  intros ua up s I. unfold index_disc, spec_ipa, spec_ira, spec_ipr; cbn [o_actors o_roles o_ipa o_ira o_ipr obs_of].
  destruct (index_sound (actors s) (fun act => wl (a_perms act)) (idx_pa s) (inv_pa s I)) as [A1 A2].
  destruct (index_sound (actors s) a_roles (idx_ra s) (inv_ra s I)) as [B1 B2].
  destruct (index_sound (rperms s) wl (idx_pr s) (inv_pr s I)) as [C1 C2].
  cbv beta in A1, A2. rewrite A1, A2, B1, B2, C1, C2. reflexivity.
Qed.

(* voter clauses *)
Lemma spec_whitelisted_model : forall ua up s a p, spec_whitelisted (obs_of ua up s) a p = true <-> whitelisted s a p.
Proof.
  intros ua up s a p. unfold spec_whitelisted, whitelisted, wl_direct, has_role, wl_role; cbn [o_actors obs_of].
  destruct (lookup a (actors s)) as [act|] eqn:E.
  - rewrite orb_true_iff, via_role_found, !mem_In, In_found_role_perms. split.
    + intros [H|[r [rp [Hr [Hl Hp]]]]]; [left; exists act; auto|right; exists r; split; [exists act; auto|exists rp; auto]].
    + intros [[act0 [E0 H]]|[r [[act0 [E0 Hr]] [rp [Hl Hp]]]]]; inversion E0; subst act0; [left; assumption|right; exists r, rp; auto].
  - split; [discriminate|]. intros [[act0 [E0 _]]|[r [[act0 [E0 _]] _]]]; discriminate.
Qed.

Lemma dup_elems_NoDup : forall l, NoDup l -> dup_elems l = [].
Proof.
  intros l H; induction H as [|x l Hx Hn IH]; simpl; [reflexivity|].
  apply mem_false_In in Hx. rewrite Hx. exact IH.
Qed.

Theorem chk_sound_voters : forall ua up s, inv s -> voters_disc (obs_of ua up s) = [].
Proof.
  intros ua up s I. unfold voters_disc; cbn [o_voters obs_of]. apply flat_map_nil. intros [p v] Hin.
  apply in_map_iff in Hin. destruct Hin as [p' [E _]]. inversion E; subst p' v; clear E. cbn [fst snd].
  destruct (voters_exact s p I) as [l [Hv [Hnd Hl]]]. rewrite Hv.
  rewrite (filter_nil (fun a => negb (mem a l))), (filter_nil (fun a => negb (mem a (spec_voters (obs_of ua up s) p)))),
          (dup_elems_NoDup l Hnd); [reflexivity| |].
  - intros a Ha. apply Hl in Ha. apply negb_false_iff, mem_In. unfold spec_voters. apply filter_In. split.
    + cbn [o_actors obs_of]. assert (exists act, lookup a (actors s) = Some act) as [act E].
      { destruct Ha as [[act [E _]]|[r [[act [E _]] _]]]; exists act; assumption. }
      apply in_map_iff. exists (a, act). split; [reflexivity|apply lookup_In_canon; [assumption|reflexivity]].
    + apply spec_whitelisted_model; assumption.
  - intros a Ha. unfold spec_voters in Ha. apply filter_In in Ha. destruct Ha as [_ Ha].
    apply spec_whitelisted_model in Ha. apply negb_false_iff, mem_In, Hl. assumption.
Qed.

(* record clauses: the invariant keeps role lists and permission lists free of repetitions *)
Theorem chk_sound_records : forall ua up s, inv s -> record_disc (obs_of ua up s) = [].
Proof.
  intros ua up s I. unfold record_disc; cbn [o_actors o_roles obs_of].
  rewrite !flat_map_nil; [reflexivity| |].
  - intros [r rp] Hin. apply canon_In_lookup in Hin. destruct Hin as [Hl _].
    destruct (inv_roles s I r rp Hl) as [[N1 [N2 _]] _]. cbn [fst snd].
    rewrite (dup_elems_NoDup _ N1), (dup_elems_NoDup _ N2). reflexivity.
  - intros [a act] Hin. apply canon_In_lookup in Hin. destruct Hin as [Hl _].
    destruct (inv_actors s I a act Hl) as [N1 N2]. cbn [fst snd].
    rewrite (dup_elems_NoDup _ N1), (dup_elems_NoDup _ N2). reflexivity.
Qed.

(* all state clauses together (allow, index, voters incl. duplicates, record): the checker accepts every state that satisfies the invariant, hence
   (indexes_refine_guarded) every state of a guarded model run *)
Theorem chk_sound_state : forall ua up s who, inv s -> state_clauses up who None (obs_of ua up s) = [].
Proof.
  intros ua up s who I. unfold state_clauses. rewrite chk_sound_allow, chk_sound_index, chk_sound_voters, chk_sound_records by assumption. reflexivity.
Qed.

(* ------------------------------------------------------------------ inclusion of string tables (for Gen/Gates.v) *)
Definition incl_strb (l m : list string) : bool := forallb (fun x => str_in x m) l.
Lemma str_in_In : forall x l, str_in x l = true -> In x l.
Proof.
  intros x l; induction l as [|y l IH]; simpl; [discriminate|].
  intros H. apply orb_true_iff in H. destruct H as [H|H]; [left; symmetry; apply String.eqb_eq; assumption|right; auto].
Qed.
Lemma incl_strb_sound : forall l m, incl_strb l m = true -> incl l m.
Proof. unfold incl_strb, incl; intros l m H x Hx. rewrite forallb_forall in H. apply str_in_In, H, Hx. Qed.

Lemma example_state_inv :
  let s := run cfg_pinned empty_state (removelast example_ops) in
  inv s /\ check_allowed s 1 1 = true /\ check_allowed s 1 17 = false /\ check_allowed s 2 17 = true /\ check_allowed s 2 66 = false
  /\ voters s 17 = Ok [2; 1] /\ inv (run cfg_repaired empty_state example_ops).
Proof.
  cbv zeta. split; [apply indexes_refine_guarded; [apply inv_empty|simpl; tauto]|].
  do 5 (split; [vm_compute; reflexivity|]).
  apply indexes_refine_guarded; [apply inv_empty|simpl; tauto].
Qed.

(* ------------------------------------------------------------------ blacklist beats whitelist along histories *)
(* at every state of every history, whatever the roles and whitelists (instance of the state-level law) *)
Theorem blacklist_beats_whitelist_history : forall c ops s a p,
  blacklisted (run c s ops) a p -> check_allowed (run c s ops) a p = false.
Proof. intros c ops s a p. apply blacklist_beats_whitelist. Qed.

(* a personal blacklist entry survives every role / permission edit except its own removal, so the
   actor is denied the permission after ANY such history, whatever is whitelisted meanwhile *)
Definition keeps_own_bl (a p : Z) (o : op) : bool :=
  match o with
  | OExportImport | ORotate _ _ => false
  | ORmBlAcc _ a' p' => negb ((a' =? a) && (p' =? p))
  | _ => true
  end.

Lemma remove_first_other : forall x y l, In y l -> y <> x -> In y (remove_first x l).
Proof.
  intros x y l; induction l as [|z l IH]; simpl; [tauto|]. intros [->|H] Hne.
  - destruct (Z.eqb_spec y x); [congruence|left; reflexivity].
  - destruct (z =? x); [assumption|right; auto].
Qed.

Lemma bl_direct_same_actors : forall s s' a p, actors s' = actors s -> bl_direct s a p -> bl_direct s' a p.
Proof. unfold bl_direct; intros s s' a p E H. rewrite E. exact H. Qed.
Lemma bl_direct_upd : forall s s' a p a' act',
  actors s' = upd a' act' (actors s) ->
  (a' = a -> forall act, lookup a (actors s) = Some act -> In p (bl (a_perms act)) -> In p (bl (a_perms act'))) ->
  bl_direct s a p -> bl_direct s' a p.
Proof.
  unfold bl_direct; intros s s' a p a' act' E H [act [El Hin]]. rewrite E, lookup_upd.
  destruct (Z.eqb_spec a' a); [subst; exists act'; split; [reflexivity|eapply H; eauto]|exists act; auto].
Qed.
Lemma aod_found : forall s a act, lookup a (actors s) = Some act -> actor_or_default s a = act.
Proof. unfold actor_or_default; intros s a act E; rewrite E; reflexivity. Qed.

Lemma fold_out_actors : forall (f : state -> Z -> outcome state),
  (forall st b st', f st b = Ok st' -> actors st' = actors st) ->
  forall l st st', fold_out f st l = Ok st' -> actors st' = actors st.
Proof.
  intros f Hf l; induction l as [|b l IH]; intros st st' H; simpl in H; [inversion H; reflexivity|].
  destruct (f st b) as [st1| |] eqn:E; simpl in H; try discriminate. rewrite (IH _ _ H). eapply Hf; eauto.
Qed.
Lemma role_edit_actors : forall s r p s',
  (k_wl_role s r p = Ok s' \/ k_bl_role s r p = Ok s' \/ k_rm_wl_role s r p = Ok s' \/ k_rm_bl_role s r p = Ok s') -> actors s' = actors s.
Proof.
  intros s r p s' H. unfold k_wl_role, k_bl_role, k_rm_wl_role, k_rm_bl_role in H.
  destruct H as [H|[H|[H|H]]];
    match type of H with context [k_role_edit ?f s r p] => destruct (k_role_edit f s r p) end; simpl in H; try discriminate; inversion H; reflexivity.
Qed.

Lemma bl_direct_step : forall c s o a p, keeps_own_bl a p o = true -> bl_direct s a p -> bl_direct (step_total c s o) a p.
Proof.
  intros c s o a p K B. unfold step_total. destruct (step c s o) as [s'| |] eqn:H; try assumption.
  destruct o; cbn [step] in H; simpl in K; try discriminate; try (apply gated_Ok in H).
  - (* wl acc *) unfold k_add_wl_acc in H. destruct (add_wl p0 _) as [ps|] eqn:E; simpl in H; [|discriminate]. inversion H; subst s'.
    apply add_wl_Some in E. destruct E as [_ [_ ->]]. eapply bl_direct_upd; [reflexivity| |exact B].
    intros -> act El Hin. rewrite (aod_found _ _ _ El). exact Hin.
  - unfold k_add_bl_acc in H. destruct (add_bl p0 _) as [ps|] eqn:E; simpl in H; [|discriminate]. inversion H; subst s'.
    apply add_bl_Some in E. destruct E as [_ [_ ->]]. eapply bl_direct_upd; [reflexivity| |exact B].
    intros -> act El Hin. rewrite (aod_found _ _ _ El). cbn [a_perms bl]. apply in_or_app; left; exact Hin.
  - unfold k_rm_wl_acc in H. destruct (rm_wl p0 _) as [ps|] eqn:E; simpl in H; [|discriminate]. inversion H; subst s'.
    apply rm_wl_Some in E. subst ps. eapply bl_direct_upd; [reflexivity| |exact B].
    intros -> act El Hin. rewrite (aod_found _ _ _ El). exact Hin.
  - unfold k_rm_bl_acc in H. destruct (rm_bl p0 _) as [ps|] eqn:E; simpl in H; [|discriminate]. inversion H; subst s'.
    apply rm_bl_Some in E. subst ps. eapply bl_direct_upd; [reflexivity| |exact B].
    intros -> act El Hin. rewrite (aod_found _ _ _ El). cbn [a_perms bl]. apply remove_first_other; [exact Hin|].
    intros ->. rewrite !Z.eqb_refl in K. discriminate.
  - eapply bl_direct_same_actors; [|exact B]. eapply role_edit_actors; eauto.
  - eapply bl_direct_same_actors; [|exact B]. eapply role_edit_actors; eauto.
  - eapply bl_direct_same_actors; [|exact B]. eapply role_edit_actors; eauto 6.
  - eapply bl_direct_same_actors; [|exact B]. eapply role_edit_actors; eauto 6.
  - (* create role *) eapply bl_direct_same_actors; [|exact B].
    unfold create_role_checked in H. destruct (role_by_sid s sid); cbn [bind] in H; [discriminate|].
    destruct (fold_out _ (fst (k_create_role s sid)) w) as [s1| |] eqn:E1; cbn [bind] in H; try discriminate.
    rewrite (fold_out_actors _ (fun st b0 st' HK => role_edit_actors st _ b0 st' (or_intror (or_introl HK))) _ _ _ H).
    rewrite (fold_out_actors _ (fun st b0 st' HK => role_edit_actors st _ b0 st' (or_introl HK)) _ _ _ E1). reflexivity.
  - destruct (role_by_sid s sid); [discriminate|]. inversion H; subst. eapply bl_direct_same_actors; [|exact B]. reflexivity.
  - unfold k_assign in H. destruct (lookup r (rperms s)); [|discriminate]. destruct (mem r _); [discriminate|]. inversion H; subst s'.
    eapply bl_direct_upd; [reflexivity| |exact B]. intros -> act El Hin. rewrite (aod_found _ _ _ El). unfold set_role. destruct (mem r (a_roles act)); exact Hin.
  - unfold k_unassign in H. destruct (lookup r (rperms s)); [|discriminate]. destruct (mem r _); [|discriminate]. inversion H; subst s'.
    eapply bl_direct_upd; [reflexivity| |exact B]. intros -> act El Hin. rewrite (aod_found _ _ _ El). exact Hin.
  - (* claim councilor *)
    destruct (lookup a0 (actors s)) as [act0|] eqn:Ea; [|discriminate]. destruct (claim_indexed c).
    + destruct (k_add_wl_acc s a0 PermCreatePollProposal) as [s1| |] eqn:Ek; inversion H; subst; try exact B.
      unfold k_add_wl_acc in Ek. destruct (add_wl _ _) as [ps|] eqn:E; simpl in Ek; [|discriminate]. inversion Ek; subst s'.
      apply add_wl_Some in E. destruct E as [_ [_ ->]]. eapply bl_direct_upd; [reflexivity| |exact B].
      intros -> act El Hin. rewrite (aod_found _ _ _ El). exact Hin.
    + destruct (add_wl PermCreatePollProposal (a_perms act0)) as [ps|] eqn:E; inversion H; subst; try exact B.
      apply add_wl_Some in E. destruct E as [_ [_ ->]]. eapply bl_direct_upd; [reflexivity| |exact B].
      intros -> act El Hin. rewrite Ea in El. inversion El; subst. exact Hin.
  - inversion H; subst; exact B.
Qed.

Theorem own_blacklist_denies_after_any_edits : forall c ops s a p,
  forallb (keeps_own_bl a p) ops = true -> bl_direct s a p ->
  bl_direct (run c s ops) a p /\ check_allowed (run c s ops) a p = false.
Proof.
  intros c ops; induction ops as [|o r IH]; intros s a p K B; simpl in *.
  - split; [exact B|apply blacklist_beats_whitelist; left; exact B].
  - apply andb_true_iff in K. destruct K as [K1 K2]. apply IH; [exact K2|apply bl_direct_step; assumption].
Qed.

(* genesis import as a step: with role blacklists re-imported it changes nobody's holdings *)
Theorem import_step_preserves_holdings : forall c s s', import_role_bl c = true -> inv s ->
  step c s OExportImport = Ok s' -> inv s' /\ forall a p, check_allowed s' a p = check_allowed s a p.
Proof.
  intros c s s' Hb I H. cbn [step] in H. rewrite Hb in H. inversion H; subst. split; [apply import_inv; assumption|].
  intros a p. apply import_preserves_holdings; assumption.
Qed.

(* voters along histories of the repaired variant *)
Theorem voters_exact_history : forall c, claim_indexed c = true -> rotate_fixed c = true ->
  forall ops s p, inv s -> fresh_targets c s ops ->
  exists l, voters (run c s ops) p = Ok l /\ NoDup l /\ forall a, In a l <-> whitelisted (run c s ops) a p.
Proof. intros c Hc Hr ops s p I F. apply voters_exact. apply indexes_refine_repaired; assumption. Qed.

Lemma incl_both_sound : forall l m, incl_strb l m && incl_strb m l = true -> incl l m /\ incl m l.
Proof. intros l m H. apply andb_true_iff in H. destruct H; split; apply incl_strb_sound; assumption. Qed.
Lemma gates_complete_sound : forall g eg p ep (errs : list string),
  incl_strb eg g && incl_strb ep p && (match errs with [] => true | _ => false end) = true ->
  incl eg g /\ incl ep p /\ errs = [].
Proof.
  intros g eg p ep errs H. apply andb_true_iff in H. destruct H as [H H3]. apply andb_true_iff in H. destruct H as [H1 H2].
  split; [apply incl_strb_sound; assumption|]. split; [apply incl_strb_sound; assumption|]. destruct errs; [reflexivity|discriminate].
Qed.
