(* C07 -- lemmas and proofs about Model/Perm.v *)
From Sekai Require Import Base.Prelude Model.Perm.
From Coq Require Import ZifyBool.

(* ------------------------------------------------------------------ basic list / map facts *)
Lemma mem_In : forall x l, mem x l = true <-> In x l.
Proof.
  unfold mem; intros x l; rewrite existsb_exists; split.
  - intros [y [Hy He]]. apply Z.eqb_eq in He. subst; auto.
  - intros H; exists x; split; auto. apply Z.eqb_refl.
Qed.
Lemma mem_false_In : forall x l, mem x l = false <-> ~ In x l.
Proof. intros x l. rewrite <- mem_In. destruct (mem x l); split; congruence. Qed.
Lemma mem_app : forall x l m, mem x (l ++ m) = mem x l || mem x m.
Proof. intros; unfold mem; apply existsb_app. Qed.
Lemma mem_cons : forall x y l, mem x (y :: l) = (x =? y) || mem x l.
Proof. reflexivity. Qed.

Lemma lookup_del : forall {V} k k' (l : list (Z * V)), lookup k' (del k l) = if k =? k' then None else lookup k' l.
Proof.
  intros V k k' l; induction l as [|[k0 v] l IH]; simpl.
  - destruct (k =? k'); reflexivity.
  - destruct (k0 =? k) eqn:E0; simpl.
    + apply Z.eqb_eq in E0; subst k0. rewrite IH. destruct (k =? k'); reflexivity.
    + destruct (k0 =? k') eqn:E1.
      * apply Z.eqb_eq in E1; subst k0. rewrite Z.eqb_sym in E0. rewrite E0. reflexivity.
      * exact IH.
Qed.
Lemma lookup_upd : forall {V} k k' (v : V) l, lookup k' (upd k v l) = if k =? k' then Some v else lookup k' l.
Proof. intros; unfold upd; simpl. rewrite lookup_del. destruct (k =? k'); reflexivity. Qed.

Lemma pair_eqb_eq : forall x y, pair_eqb x y = true <-> x = y.
Proof.
  intros [a b] [c d]; unfold pair_eqb; simpl. rewrite andb_true_iff, !Z.eqb_eq. split.
  - intros [-> ->]; reflexivity.
  - intros H; inversion H; auto.
Qed.
Lemma pair_eqb_pair : forall a b c d, pair_eqb (a, b) (c, d) = (a =? c) && (b =? d).
Proof. reflexivity. Qed.
Lemma pmem_padd : forall x y l, pmem x (padd y l) = pair_eqb x y || pmem x l.
Proof.
  intros x y l; unfold padd. destruct (pmem y l) eqn:E; [|reflexivity].
  destruct (pair_eqb x y) eqn:E2; [|reflexivity]. apply pair_eqb_eq in E2; subst. simpl; auto.
Qed.
Lemma pmem_pdel : forall x y l, pmem x (pdel y l) = negb (pair_eqb x y) && pmem x l.
Proof.
  intros x y l; induction l as [|z l IH]; simpl.
  - rewrite andb_false_r; reflexivity.
  - destruct (pair_eqb y z) eqn:E; simpl.
    + apply pair_eqb_eq in E; subst z. rewrite IH. destruct (pair_eqb x y); reflexivity.
    + rewrite IH. destruct (pair_eqb x z) eqn:E2; simpl.
      * apply pair_eqb_eq in E2; subst z. destruct (pair_eqb x y) eqn:E3; [|reflexivity].
        apply pair_eqb_eq in E3; subst. assert (pair_eqb y y = true) by (apply pair_eqb_eq; reflexivity). congruence.
      * reflexivity.
Qed.

Lemma remove_first_In : forall x y l, NoDup l -> (In y (remove_first x l) <-> In y l /\ y <> x).
Proof.
  intros x y l H; induction H as [|z l Hz Hnd IH]; simpl.
  - tauto.
  - destruct (z =? x) eqn:E.
    + apply Z.eqb_eq in E; subst z. split.
      * intros Hy; split; auto. intros ->; contradiction.
      * intros [[->|Hy] Hne]; [congruence|assumption].
    + apply Z.eqb_neq in E. simpl. rewrite IH. split.
      * intros [->|[Hy Hne]]; auto.
      * intros [[->|Hy] Hne]; auto.
Qed.
Lemma remove_first_NoDup : forall x l, NoDup l -> NoDup (remove_first x l).
Proof.
  intros x l H; induction H as [|z l Hz Hnd IH]; simpl; [constructor|].
  destruct (z =? x); [assumption|]. constructor; [|assumption].
  intros Hin. apply remove_first_In in Hin; [|assumption]. tauto.
Qed.
Lemma mem_remove_first : forall x y l, NoDup l -> mem y (remove_first x l) = mem y l && negb (y =? x).
Proof.
  intros x y l H. destruct (mem y (remove_first x l)) eqn:E.
  - apply mem_In, remove_first_In in E; [|assumption]. destruct E as [Hi Hn].
    apply mem_In in Hi. rewrite Hi. apply Z.eqb_neq in Hn. rewrite Hn. reflexivity.
  - apply mem_false_In in E. rewrite remove_first_In in E by assumption.
    destruct (mem y l) eqn:E1; [|reflexivity]. destruct (y =? x) eqn:E2; [reflexivity|].
    exfalso; apply E. split; [apply mem_In; assumption|apply Z.eqb_neq; assumption].
Qed.
Lemma NoDup_snoc : forall (x : Z) l, NoDup l -> ~ In x l -> NoDup (l ++ [x]).
Proof.
  intros x l H Hx; induction H as [|z l Hz Hnd IH]; simpl.
  - constructor; [auto|constructor].
  - constructor.
    + rewrite in_app_iff; simpl. intros [H|[H|[]]]; [contradiction|]. subst; apply Hx; left; reflexivity.
    + apply IH. intros H; apply Hx; right; assumption.
Qed.

(* ------------------------------------------------------------------ the decision procedure *)
Lemma last_write_acc : forall p b l acc,
  fold_left (fun (acc : option bool) (e : Z * bool) => if fst e =? p then Some (snd e) else acc) (map (fun q : Z => (q, b)) l) acc
  = if mem p l then Some b else acc.
Proof.
  intros p b l; induction l as [|q l IH]; intros acc; simpl; [reflexivity|].
  rewrite IH. rewrite (Z.eqb_sym p q). destruct (mem p l); simpl.
  - rewrite orb_true_r; reflexivity.
  - rewrite orb_false_r. reflexivity.
Qed.

Lemma last_write_writes : forall s act p,
  last_write p (writes s act) =
  let rps := found_role_perms s act in
  if mem p (bl (a_perms act)) then Some false
  else if mem p (flat_map bl rps) then Some false
  else if mem p (wl (a_perms act)) then Some true
  else if mem p (flat_map wl rps) then Some true else None.
Proof.
  intros s act p; unfold last_write, writes; cbv zeta.
  rewrite !fold_left_app, !last_write_acc. reflexivity.
Qed.

Lemma In_found_role_perms : forall s act (sel : perms -> list Z) p,
  In p (flat_map sel (found_role_perms s act)) <->
  exists r rp, In r (a_roles act) /\ lookup r (rperms s) = Some rp /\ In p (sel rp).
Proof.
  intros s act sel p; unfold found_role_perms. rewrite in_flat_map. split.
  - intros [rp [Hrp Hp]]. apply in_flat_map in Hrp. destruct Hrp as [r [Hr Hin]].
    destruct (lookup r (rperms s)) as [rp'|] eqn:E; simpl in Hin; [|contradiction].
    destruct Hin as [<-|[]]. exists r, rp'; auto.
  - intros [r [rp [Hr [Hl Hp]]]]. exists rp; split; [|assumption].
    apply in_flat_map. exists r; split; [assumption|]. rewrite Hl; left; reflexivity.
Qed.

(* the defining rule of the property *)
Definition wl_direct (s : state) (a p : Z) : Prop := exists act, lookup a (actors s) = Some act /\ In p (wl (a_perms act)).
Definition bl_direct (s : state) (a p : Z) : Prop := exists act, lookup a (actors s) = Some act /\ In p (bl (a_perms act)).
Definition has_role (s : state) (a r : Z) : Prop := exists act, lookup a (actors s) = Some act /\ In r (a_roles act).
Definition wl_role (s : state) (r p : Z) : Prop := exists rp, lookup r (rperms s) = Some rp /\ In p (wl rp).
Definition bl_role (s : state) (r p : Z) : Prop := exists rp, lookup r (rperms s) = Some rp /\ In p (bl rp).
Definition whitelisted (s : state) (a p : Z) : Prop := wl_direct s a p \/ exists r, has_role s a r /\ wl_role s r p.
Definition blacklisted (s : state) (a p : Z) : Prop := bl_direct s a p \/ exists r, has_role s a r /\ bl_role s r p.
Definition holds (s : state) (a p : Z) : Prop := whitelisted s a p /\ ~ blacklisted s a p.

Lemma check_allowed_iff : forall s a p, check_allowed s a p = true <-> holds s a p.
Proof.
  intros s a p; unfold check_allowed, holds, whitelisted, blacklisted, wl_direct, bl_direct, has_role, wl_role, bl_role.
  destruct (lookup a (actors s)) as [act|] eqn:Ea.
  2:{ split; [discriminate|]. intros [[[act [H _]]|[r [[act [H _]] _]]] _]; discriminate. }
  rewrite last_write_writes; cbv zeta.
  assert (RW : forall sel, (exists r, (exists act0, Some act = Some act0 /\ In r (a_roles act0)) /\
                                     (exists rp, lookup r (rperms s) = Some rp /\ In p (sel rp)))
                           <-> In p (flat_map sel (found_role_perms s act))).
  { intros sel; rewrite In_found_role_perms. split.
    - intros [r [[act0 [E Hr]] [rp [Hl Hp]]]]. inversion E; subst act0. exists r, rp; auto.
    - intros [r [rp [Hr [Hl Hp]]]]. exists r; split; [exists act; auto|exists rp; auto]. }
  rewrite !RW.
  assert (RD : forall sel : perms -> list Z, (exists act0, Some act = Some act0 /\ In p (sel (a_perms act0))) <-> In p (sel (a_perms act))).
  { intros sel; split; [intros [act0 [E H]]; inversion E; subst; assumption|intros H; exists act; auto]. }
  rewrite (RD wl), (RD bl). rewrite <- !mem_In.
  destruct (mem p (bl (a_perms act))), (mem p (flat_map bl (found_role_perms s act))),
           (mem p (wl (a_perms act))), (mem p (flat_map wl (found_role_perms s act)));
    split; intro H; try reflexivity; try discriminate H; try (exfalso; intuition congruence); intuition congruence.
Qed.

Lemma blacklist_beats_whitelist : forall s a p, blacklisted s a p -> check_allowed s a p = false.
Proof.
  intros s a p Hb. destruct (check_allowed s a p) eqn:E; [|reflexivity].
  apply check_allowed_iff in E. destruct E as [_ Hn]. contradiction.
Qed.
Lemma not_whitelisted_denied : forall s a p, ~ whitelisted s a p -> check_allowed s a p = false.
Proof.
  intros s a p Hb. destruct (check_allowed s a p) eqn:E; [|reflexivity].
  apply check_allowed_iff in E. destruct E as [Hw _]. contradiction.
Qed.

(* ------------------------------------------------------------------ index refinement invariant *)
From Coq Require Import Btauto.

Record inv (s : state) : Prop := mkInv {
  inv_actors : forall a act, lookup a (actors s) = Some act -> NoDup (a_roles act) /\ NoDup (wl (a_perms act));
  inv_roles : forall r rp, lookup r (rperms s) = Some rp -> NoDup (wl rp) /\ 1 <= r < get_next_role s;
  inv_next : 1 <= get_next_role s;
  inv_pa : forall p a, pmem (p, a) (idx_pa s) = match lookup a (actors s) with Some act => mem p (wl (a_perms act)) | None => false end;
  inv_ra : forall r a, pmem (r, a) (idx_ra s) = match lookup a (actors s) with Some act => mem r (a_roles act) | None => false end;
  inv_pr : forall p r, pmem (p, r) (idx_pr s) = match lookup r (rperms s) with Some rp => mem p (wl rp) | None => false end }.

Lemma inv_empty : inv empty_state.
Proof. constructor; simpl; intros; try discriminate; try reflexivity; unfold get_next_role; simpl; lia. Qed.

Ltac eqbs := repeat match goal with
  | |- context [?x =? ?y] => destruct (Z.eqb_spec x y); subst
  | H : context [?x =? ?y] |- _ => destruct (Z.eqb_spec x y); subst end.
Ltac bfin := simpl; try congruence; try lia; try btauto.

Lemma aod_pa : forall s a p, inv s -> pmem (p, a) (idx_pa s) = mem p (wl (a_perms (actor_or_default s a))).
Proof. intros s a p I. rewrite (inv_pa s I). unfold actor_or_default. destruct (lookup a (actors s)); reflexivity. Qed.
Lemma aod_ra : forall s a r, inv s -> pmem (r, a) (idx_ra s) = mem r (a_roles (actor_or_default s a)).
Proof. intros s a r I. rewrite (inv_ra s I). unfold actor_or_default. destruct (lookup a (actors s)); reflexivity. Qed.
Lemma aod_nd : forall s a, inv s -> NoDup (a_roles (actor_or_default s a)) /\ NoDup (wl (a_perms (actor_or_default s a))).
Proof.
  intros s a I. unfold actor_or_default. destruct (lookup a (actors s)) eqn:E.
  - exact (inv_actors s I a a0 E).
  - simpl; split; constructor.
Qed.

Lemma inv_actor_update : forall s a act' ipa ira,
  inv s -> NoDup (a_roles act') -> NoDup (wl (a_perms act')) ->
  (forall p a', pmem (p, a') ipa = if a =? a' then mem p (wl (a_perms act')) else pmem (p, a') (idx_pa s)) ->
  (forall r a', pmem (r, a') ira = if a =? a' then mem r (a_roles act') else pmem (r, a') (idx_ra s)) ->
  inv (mkState (upd a act' (actors s)) (rperms s) (rinfo s) (rsid s) (next_role s) ipa ira (idx_pr s)).
Proof.
  intros s a act' ipa ira I N1 N2 Hpa Hra. constructor; cbn [actors rperms rinfo rsid next_role idx_pa idx_ra idx_pr].
  - intros a0 act0. rewrite lookup_upd. destruct (a =? a0).
    + intros E; inversion E; subst; auto.
    + apply (inv_actors s I).
  - apply (inv_roles s I).
  - apply (inv_next s I).
  - intros p a0. rewrite Hpa, lookup_upd. destruct (a =? a0); [reflexivity|apply (inv_pa s I)].
  - intros r a0. rewrite Hra, lookup_upd. destruct (a =? a0); [reflexivity|apply (inv_ra s I)].
  - apply (inv_pr s I).
Qed.

Lemma inv_role_update : forall s r rp' ipr,
  inv s -> lookup r (rperms s) <> None -> NoDup (wl rp') ->
  (forall p r', pmem (p, r') ipr = if r =? r' then mem p (wl rp') else pmem (p, r') (idx_pr s)) ->
  inv (mkState (actors s) (upd r rp' (rperms s)) (rinfo s) (rsid s) (next_role s) (idx_pa s) (idx_ra s) ipr).
Proof.
  intros s r rp' ipr I Hex N Hpr. constructor; cbn [actors rperms rinfo rsid next_role idx_pa idx_ra idx_pr].
  - apply (inv_actors s I).
  - intros r0 rp0. rewrite lookup_upd. destruct (Z.eqb_spec r r0).
    + subst r0. intros E; inversion E; subst. split; [assumption|].
      destruct (lookup r (rperms s)) eqn:El; [|congruence]. apply (inv_roles s I r p El).
    + apply (inv_roles s I).
  - apply (inv_next s I).
  - apply (inv_pa s I).
  - apply (inv_ra s I).
  - intros p r0. rewrite Hpr, lookup_upd. destruct (r =? r0); [reflexivity|apply (inv_pr s I)].
Qed.

Ltac inv_ok H := unfold opt_err in H; simpl in H.

Lemma add_wl_Some : forall p ps ps', add_wl p ps = Some ps' -> mem p (bl ps) = false /\ mem p (wl ps) = false /\ ps' = mkPerms (wl ps ++ [p]) (bl ps).
Proof. unfold add_wl; intros p ps ps'. destruct (mem p (bl ps)), (mem p (wl ps)); intros H; inversion H; auto. Qed.
Lemma add_bl_Some : forall p ps ps', add_bl p ps = Some ps' -> ps' = mkPerms (wl ps) (bl ps ++ [p]).
Proof. unfold add_bl; intros p ps ps'. destruct (mem p (wl ps)), (mem p (bl ps)); intros H; inversion H; auto. Qed.
Lemma rm_wl_Some : forall p ps ps', rm_wl p ps = Some ps' -> ps' = mkPerms (remove_first p (wl ps)) (bl ps).
Proof. unfold rm_wl; intros p ps ps'. destruct (mem p (wl ps)); intros H; inversion H; auto. Qed.
Lemma rm_bl_Some : forall p ps ps', rm_bl p ps = Some ps' -> ps' = mkPerms (wl ps) (remove_first p (bl ps)).
Proof. unfold rm_bl; intros p ps ps'. destruct (mem p (bl ps)); intros H; inversion H; auto. Qed.

Lemma k_add_wl_acc_inv : forall s a p s', inv s -> k_add_wl_acc s a p = Ok s' -> inv s'.
Proof.
  intros s a p s' I H. unfold k_add_wl_acc in H.
  destruct (add_wl p (a_perms (actor_or_default s a))) as [ps|] eqn:E; simpl in H; [|discriminate].
  inversion H; subst s'; clear H. apply add_wl_Some in E. destruct E as [_ [Hw ->]].
  destruct (aod_nd s a I) as [N1 N2].
  unfold with_idx_pa, save_actor, with_actors; simpl. apply inv_actor_update; simpl; auto.
  - apply NoDup_snoc; [assumption|]. apply mem_false_In; assumption.
  - intros q a'. rewrite pmem_padd, pair_eqb_pair. destruct (Z.eqb_spec a a').
    + subst a'. rewrite (aod_pa s a q I), mem_app, mem_cons. simpl. rewrite Z.eqb_refl. btauto.
    + rewrite (Z.eqb_sym a' a). destruct (Z.eqb_spec a a'); [congruence|]. rewrite andb_false_r. reflexivity.
  - intros r a'. destruct (Z.eqb_spec a a'); [subst; apply aod_ra; assumption|reflexivity].
Qed.

Lemma k_add_bl_acc_inv : forall s a p s', inv s -> k_add_bl_acc s a p = Ok s' -> inv s'.
Proof.
  intros s a p s' I H. unfold k_add_bl_acc in H.
  destruct (add_bl p (a_perms (actor_or_default s a))) as [ps|] eqn:E; simpl in H; [|discriminate].
  inversion H; subst s'; clear H. apply add_bl_Some in E. subst ps.
  destruct (aod_nd s a I) as [N1 N2].
  unfold save_actor, with_actors; simpl. apply inv_actor_update; simpl; auto.
  - intros q a'. destruct (Z.eqb_spec a a'); [subst; apply aod_pa; assumption|reflexivity].
  - intros r a'. destruct (Z.eqb_spec a a'); [subst; apply aod_ra; assumption|reflexivity].
Qed.

Lemma k_rm_wl_acc_inv : forall s a p s', inv s -> k_rm_wl_acc s a p = Ok s' -> inv s'.
Proof.
  intros s a p s' I H. unfold k_rm_wl_acc in H.
  destruct (rm_wl p (a_perms (actor_or_default s a))) as [ps|] eqn:E; simpl in H; [|discriminate].
  inversion H; subst s'; clear H. apply rm_wl_Some in E. subst ps.
  destruct (aod_nd s a I) as [N1 N2].
  unfold with_idx_pa, save_actor, with_actors; simpl. apply inv_actor_update; simpl; auto.
  - apply remove_first_NoDup; assumption.
  - intros q a'. rewrite pmem_pdel, pair_eqb_pair. destruct (Z.eqb_spec a a').
    + subst a'. rewrite (aod_pa s a q I), mem_remove_first by assumption. rewrite Z.eqb_refl. btauto.
    + rewrite (Z.eqb_sym a' a). destruct (Z.eqb_spec a a'); [congruence|]. rewrite andb_false_r. reflexivity.
  - intros r a'. destruct (Z.eqb_spec a a'); [subst; apply aod_ra; assumption|reflexivity].
Qed.

Lemma k_rm_bl_acc_inv : forall s a p s', inv s -> k_rm_bl_acc s a p = Ok s' -> inv s'.
Proof.
  intros s a p s' I H. unfold k_rm_bl_acc in H.
  destruct (rm_bl p (a_perms (actor_or_default s a))) as [ps|] eqn:E; simpl in H; [|discriminate].
  inversion H; subst s'; clear H. apply rm_bl_Some in E. subst ps.
  destruct (aod_nd s a I) as [N1 N2].
  unfold save_actor, with_actors; simpl. apply inv_actor_update; simpl; auto.
  - intros q a'. destruct (Z.eqb_spec a a'); [subst; apply aod_pa; assumption|reflexivity].
  - intros r a'. destruct (Z.eqb_spec a a'); [subst; apply aod_ra; assumption|reflexivity].
Qed.

Lemma k_role_edit_Ok : forall f s r p rp', k_role_edit f s r p = Ok rp' ->
  exists rp, lookup r (rperms s) = Some rp /\ f p rp = Some rp'.
Proof.
  unfold k_role_edit; intros f s r p rp'. destruct (lookup r (rperms s)) as [rp|]; [|discriminate].
  unfold opt_err. destruct (f p rp) eqn:E; intros H; inversion H; subst. exists rp; auto.
Qed.

Lemma k_wl_role_inv : forall s r p s', inv s -> k_wl_role s r p = Ok s' -> inv s'.
Proof.
  intros s r p s' I H. unfold k_wl_role in H.
  destruct (k_role_edit add_wl s r p) as [rp'| |] eqn:E; simpl in H; try discriminate.
  inversion H; subst s'; clear H. apply k_role_edit_Ok in E. destruct E as [rp [El Ea]].
  apply add_wl_Some in Ea. destruct Ea as [_ [Hw ->]].
  destruct (inv_roles s I r rp El) as [N _].
  unfold with_idx_pr, with_rperms; simpl. apply inv_role_update; simpl; auto; [congruence| |].
  - apply NoDup_snoc; [assumption|apply mem_false_In; assumption].
  - intros q r'. rewrite pmem_padd, pair_eqb_pair. destruct (Z.eqb_spec r r').
    + subst r'. rewrite (inv_pr s I), El, mem_app, mem_cons. simpl. rewrite Z.eqb_refl. btauto.
    + rewrite (Z.eqb_sym r' r). destruct (Z.eqb_spec r r'); [congruence|]. rewrite andb_false_r. reflexivity.
Qed.
Lemma k_bl_role_inv : forall s r p s', inv s -> k_bl_role s r p = Ok s' -> inv s'.
Proof.
  intros s r p s' I H. unfold k_bl_role in H.
  destruct (k_role_edit add_bl s r p) as [rp'| |] eqn:E; simpl in H; try discriminate.
  inversion H; subst s'; clear H. apply k_role_edit_Ok in E. destruct E as [rp [El Ea]].
  apply add_bl_Some in Ea. subst rp'. destruct (inv_roles s I r rp El) as [N _].
  unfold with_rperms; simpl. apply inv_role_update; simpl; auto; [congruence|].
  intros q r'. destruct (Z.eqb_spec r r'); [subst r'; rewrite (inv_pr s I), El|]; reflexivity.
Qed.
Lemma k_rm_wl_role_inv : forall s r p s', inv s -> k_rm_wl_role s r p = Ok s' -> inv s'.
Proof.
  intros s r p s' I H. unfold k_rm_wl_role in H.
  destruct (k_role_edit rm_wl s r p) as [rp'| |] eqn:E; simpl in H; try discriminate.
  inversion H; subst s'; clear H. apply k_role_edit_Ok in E. destruct E as [rp [El Ea]].
  apply rm_wl_Some in Ea. subst rp'. destruct (inv_roles s I r rp El) as [N _].
  unfold with_idx_pr, with_rperms; simpl. apply inv_role_update; simpl; auto; [congruence| |].
  - apply remove_first_NoDup; assumption.
  - intros q r'. rewrite pmem_pdel, pair_eqb_pair. destruct (Z.eqb_spec r r').
    + subst r'. rewrite (inv_pr s I), El, mem_remove_first by assumption. rewrite Z.eqb_refl. btauto.
    + rewrite (Z.eqb_sym r' r). destruct (Z.eqb_spec r r'); [congruence|]. rewrite andb_false_r. reflexivity.
Qed.
Lemma k_rm_bl_role_inv : forall s r p s', inv s -> k_rm_bl_role s r p = Ok s' -> inv s'.
Proof.
  intros s r p s' I H. unfold k_rm_bl_role in H.
  destruct (k_role_edit rm_bl s r p) as [rp'| |] eqn:E; simpl in H; try discriminate.
  inversion H; subst s'; clear H. apply k_role_edit_Ok in E. destruct E as [rp [El Ea]].
  apply rm_bl_Some in Ea. subst rp'. destruct (inv_roles s I r rp El) as [N _].
  unfold with_rperms; simpl. apply inv_role_update; simpl; auto; [congruence|].
  intros q r'. destruct (Z.eqb_spec r r'); [subst r'; rewrite (inv_pr s I), El|]; reflexivity.
Qed.

Lemma k_assign_inv : forall s a r s', inv s -> k_assign s a r = Ok s' -> inv s'.
Proof.
  intros s a r s' I H. unfold k_assign in H. destruct (lookup r (rperms s)); [|discriminate].
  destruct (mem r (a_roles (actor_or_default s a))) eqn:Em; [discriminate|].
  inversion H; subst s'; clear H. destruct (aod_nd s a I) as [N1 N2].
  unfold k_assign_actor, with_idx_ra, save_actor, with_actors, set_role; rewrite Em; simpl.
  apply inv_actor_update; simpl; auto.
  - apply NoDup_snoc; [assumption|apply mem_false_In; assumption].
  - intros q a'. destruct (Z.eqb_spec a a'); [subst; apply aod_pa; assumption|reflexivity].
  - intros q a'. rewrite pmem_padd, pair_eqb_pair. destruct (Z.eqb_spec a a').
    + subst a'. rewrite (aod_ra s a q I), mem_app, mem_cons. simpl. rewrite Z.eqb_refl. btauto.
    + rewrite (Z.eqb_sym a' a). destruct (Z.eqb_spec a a'); [congruence|]. rewrite andb_false_r. reflexivity.
Qed.
Lemma k_unassign_inv : forall s a r s', inv s -> k_unassign s a r = Ok s' -> inv s'.
Proof.
  intros s a r s' I H. unfold k_unassign in H. destruct (lookup r (rperms s)); [|discriminate].
  destruct (mem r (a_roles (actor_or_default s a))) eqn:Em; [|discriminate].
  inversion H; subst s'; clear H. destruct (aod_nd s a I) as [N1 N2].
  unfold k_unassign_actor, with_idx_ra, save_actor, with_actors, remove_role; simpl.
  apply inv_actor_update; simpl; auto.
  - apply remove_first_NoDup; assumption.
  - intros q a'. destruct (Z.eqb_spec a a'); [subst; apply aod_pa; assumption|reflexivity].
  - intros q a'. rewrite pmem_pdel, pair_eqb_pair. destruct (Z.eqb_spec a a').
    + subst a'. rewrite (aod_ra s a q I), mem_remove_first by assumption. rewrite Z.eqb_refl. btauto.
    + rewrite (Z.eqb_sym a' a). destruct (Z.eqb_spec a a'); [congruence|]. rewrite andb_false_r. reflexivity.
Qed.

Lemma fold_out_inv : forall {B} (f : state -> B -> outcome state) (P : state -> Prop),
  (forall st b st', P st -> f st b = Ok st' -> P st') ->
  forall l st st', P st -> fold_out f st l = Ok st' -> P st'.
Proof.
  intros B f P Hf l; induction l as [|b l IH]; intros st st' HP H; simpl in H.
  - inversion H; subst; assumption.
  - destruct (f st b) as [st1| |] eqn:E; simpl in H; try discriminate. eapply IH; [eapply Hf; eauto|exact H].
Qed.

Lemma k_create_role_inv : forall s sid, inv s -> inv (fst (k_create_role s sid)).
Proof.
  intros s sid I. unfold k_create_role, k_set_role; simpl.
  assert (Hn : lookup (get_next_role s) (rperms s) = None).
  { destruct (lookup (get_next_role s) (rperms s)) eqn:E; [|reflexivity].
    destruct (inv_roles s I _ _ E) as [_ H]. lia. }
  constructor; cbn [actors rperms rinfo rsid next_role idx_pa idx_ra idx_pr].
  - apply (inv_actors s I).
  - intros r rp. rewrite lookup_upd. unfold get_next_role at 2 3; simpl. destruct (Z.eqb_spec (get_next_role s) r).
    + intros E; inversion E; subst. simpl. split; [constructor|]. pose proof (inv_next s I). lia.
    + intros E. destruct (inv_roles s I r rp E). split; [assumption|lia].
  - unfold get_next_role at 1; simpl. pose proof (inv_next s I). lia.
  - apply (inv_pa s I).
  - apply (inv_ra s I).
  - intros p r. rewrite lookup_upd, (inv_pr s I). destruct (Z.eqb_spec (get_next_role s) r); [subst r; rewrite Hn|]; reflexivity.
Qed.

(* ---- the guard: operations whose index maintenance is refuted (see *_refuted below) *)
Definition claim_whitelists (s : state) (a : Z) : bool :=
  check_allowed s a PermClaimCouncilor &&
  match lookup a (actors s) with
  | Some act => match add_wl PermCreatePollProposal (a_perms act) with Some _ => true | None => false end
  | None => false end.
Definition safe (s : state) (o : op) : Prop :=
  match o with
  | OClaimCouncilor a => claim_whitelists s a = false
  | ORotate a _ => lookup a (actors s) = None
  | OExportImport => inv (export_import s)
  | _ => True
  end.

Lemma gated_Ok : forall b k s', gated b k = Ok s' -> k = Ok s'.
Proof. unfold gated; intros b k s'; destruct b; [auto|discriminate]. Qed.

Lemma step_inv : forall s o s', inv s -> safe s o -> step s o = Ok s' -> inv s'.
Proof.
  intros s o s' I S H. destruct o; cbn [step] in H.
  - apply gated_Ok in H; eapply k_add_wl_acc_inv; eauto.
  - apply gated_Ok in H; eapply k_add_bl_acc_inv; eauto.
  - apply gated_Ok in H; eapply k_rm_wl_acc_inv; eauto.
  - apply gated_Ok in H; eapply k_rm_bl_acc_inv; eauto.
  - apply gated_Ok in H; eapply k_wl_role_inv; eauto.
  - apply gated_Ok in H; eapply k_bl_role_inv; eauto.
  - apply gated_Ok in H; eapply k_rm_wl_role_inv; eauto.
  - apply gated_Ok in H; eapply k_rm_bl_role_inv; eauto.
  - apply gated_Ok in H. unfold create_role_checked in H. destruct (role_by_sid s sid); cbn [bind] in H; [discriminate|].
    destruct (fold_out (fun st p => k_wl_role st (snd (k_create_role s sid)) p) (fst (k_create_role s sid)) w) as [s1| |] eqn:E1;
      cbn [bind] in H; try discriminate.
    assert (I0 : inv (fst (k_create_role s sid))) by (apply k_create_role_inv; exact I).
    assert (I1 : inv s1).
    { eapply (fold_out_inv _ inv); [|exact I0|exact E1]. intros st b0 st' HI HK; cbv beta in HK; eapply k_wl_role_inv; eauto. }
    eapply (fold_out_inv _ inv); [|exact I1|exact H]. intros st b0 st' HI HK; cbv beta in HK; eapply k_bl_role_inv; eauto.
  - destruct (role_by_sid s sid); [discriminate|]. inversion H; subst s'; clear H.
    assert (H0 : lookup 0 (rperms s) = None).
    { destruct (lookup 0 (rperms s)) eqn:E; [|reflexivity]. destruct (inv_roles s I _ _ E) as [_ HH]. lia. }
    constructor; cbn [actors rperms rinfo rsid next_role idx_pa idx_ra idx_pr].
    + apply (inv_actors s I).
    + intros r rp. rewrite lookup_del. destruct (0 =? r); [discriminate|]. apply (inv_roles s I).
    + apply (inv_next s I).
    + apply (inv_pa s I).
    + apply (inv_ra s I).
    + intros p r. rewrite lookup_del, (inv_pr s I). destruct (Z.eqb_spec 0 r); [subst r; rewrite H0|]; reflexivity.
  - apply gated_Ok in H; eapply k_assign_inv; eauto.
  - apply gated_Ok in H; eapply k_unassign_inv; eauto.
  - simpl in S. unfold claim_whitelists in S. unfold gated in H.
    destruct (check_allowed s a PermClaimCouncilor); [|discriminate]. simpl in S.
    destruct (lookup a (actors s)) as [act|]; [|discriminate].
    destruct (add_wl PermCreatePollProposal (a_perms act)); [discriminate|]. inversion H; subst; assumption.
  - unfold gated in H. destruct (check_allowed s x (gate_perm_coded k)); inversion H; subst; assumption.
  - inversion H; subst. exact S.
  - simpl in S. inversion H; subst. unfold rotate. rewrite S. assumption.
Qed.

Fixpoint safe_run (s : state) (ops : list op) : Prop :=
  match ops with [] => True | o :: r => safe s o /\ safe_run (step_total s o) r end.

Lemma step_total_inv : forall s o, inv s -> safe s o -> inv (step_total s o).
Proof.
  intros s o I S. unfold step_total. destruct (step s o) eqn:E; try assumption. eapply step_inv; eauto.
Qed.

Theorem indexes_refine_partial : forall ops s, inv s -> safe_run s ops -> inv (run s ops).
Proof.
  induction ops as [|o r IH]; intros s I S; simpl; [assumption|].
  destruct S as [S1 S2]. apply IH; [apply step_total_inv; assumption|assumption].
Qed.

(* ------------------------------------------------------------------ voter enumeration *)
Lemma In_index_filter : forall k x (l : list (Z * Z)),
  In x (map snd (filter (fun e => fst e =? k) l)) <-> pmem (k, x) l = true.
Proof.
  intros k x l; induction l as [|[a b] l IH]; simpl.
  - split; [tauto|discriminate].
  - rewrite pair_eqb_pair. destruct (Z.eqb_spec a k); simpl.
    + subst a. rewrite Z.eqb_refl; simpl. rewrite IH. destruct (Z.eqb_spec x b).
      * subst; simpl; tauto.
      * simpl. split; [intros [H|H]; [congruence|assumption]|auto].
    + rewrite IH. destruct (Z.eqb_spec k a); [congruence|]. simpl. tauto.
Qed.

Lemma dedup_In : forall l seen x, In x (dedup seen l) <-> In x l /\ ~ In x seen.
Proof.
  induction l as [|y l IH]; intros seen x; simpl; [tauto|].
  destruct (mem y seen) eqn:E.
  - apply mem_In in E. rewrite IH. split; [intros [H1 H2]; auto|].
    intros [[->|H1] H2]; [contradiction|auto].
  - apply mem_false_In in E. simpl. rewrite IH. simpl. split.
    + intros [->|[H1 H2]]; [auto|]. split; [auto|]. intros H; apply H2; auto.
    + intros [[->|H1] H2]; [auto|]. destruct (Z.eq_dec y x); [auto|]. right; split; [assumption|].
      intros [H|H]; [congruence|contradiction].
Qed.
Lemma dedup_NoDup : forall l seen, NoDup (dedup seen l).
Proof.
  induction l as [|y l IH]; intros seen; simpl; [constructor|].
  destruct (mem y seen); [apply IH|]. constructor; [|apply IH].
  rewrite dedup_In. intros [_ H]; apply H; left; reflexivity.
Qed.

Lemma candidates_spec : forall s p a, inv s -> (In a (voter_candidates s p) <-> whitelisted s a p).
Proof.
  intros s p a I. unfold voter_candidates, whitelisted, wl_direct, has_role, wl_role.
  rewrite in_app_iff, in_flat_map. unfold addrs_of_perm, roles_of_perm, addrs_of_role.
  rewrite In_index_filter, (inv_pa s I). split.
  - intros [H|[r [Hr Ha]]].
    + left. destruct (lookup a (actors s)) as [act|]; [|discriminate]. exists act; split; [reflexivity|apply mem_In; assumption].
    + right. exists r. apply In_index_filter in Hr. apply In_index_filter in Ha.
      rewrite (inv_pr s I) in Hr. rewrite (inv_ra s I) in Ha. split.
      * destruct (lookup a (actors s)) as [act|]; [|discriminate]. exists act; split; [reflexivity|apply mem_In; assumption].
      * destruct (lookup r (rperms s)) as [rp|]; [|discriminate]. exists rp; split; [reflexivity|apply mem_In; assumption].
  - intros [[act [E H]]|[r [[act [E H]] [rp [Er Hp]]]]].
    + left. rewrite E. apply mem_In; assumption.
    + right. exists r. rewrite !In_index_filter, (inv_pr s I), (inv_ra s I), E, Er. split; apply mem_In; assumption.
Qed.

Theorem voters_exact : forall s p, inv s ->
  exists l, voters s p = Ok l /\ NoDup l /\ forall a, In a l <-> whitelisted s a p.
Proof.
  intros s p I. exists (dedup [] (voter_candidates s p)). split; [|split].
  - unfold voters. replace (forallb _ _) with true; [reflexivity|]. symmetry. apply forallb_forall.
    intros a Ha. apply dedup_In in Ha. destruct Ha as [Ha _]. apply candidates_spec in Ha; [|assumption].
    destruct Ha as [[act [E _]]|[r [[act [E _]] _]]]; rewrite E; reflexivity.
  - apply dedup_NoDup.
  - intros a. rewrite dedup_In, candidates_spec by assumption. simpl; tauto.
Qed.

(* the index equalities in set form *)
Lemma inv_sets : forall s, inv s ->
  (forall p a, pmem (p, a) (idx_pa s) = true <-> wl_direct s a p) /\
  (forall r a, pmem (r, a) (idx_ra s) = true <-> has_role s a r) /\
  (forall p r, pmem (p, r) (idx_pr s) = true <-> wl_role s r p).
Proof.
  intros s I. unfold wl_direct, has_role, wl_role. repeat split.
  - rewrite (inv_pa s I). destruct (lookup a (actors s)) as [act|]; [|discriminate]. intros H; exists act; split; [reflexivity|apply mem_In; assumption].
  - intros [act [E H]]. rewrite (inv_pa s I), E. apply mem_In; assumption.
  - rewrite (inv_ra s I). destruct (lookup a (actors s)) as [act|]; [|discriminate]. intros H; exists act; split; [reflexivity|apply mem_In; assumption].
  - intros [act [E H]]. rewrite (inv_ra s I), E. apply mem_In; assumption.
  - rewrite (inv_pr s I). destruct (lookup r (rperms s)) as [rp|]; [|discriminate]. intros H; exists rp; split; [reflexivity|apply mem_In; assumption].
  - intros [rp [E H]]. rewrite (inv_pr s I), E. apply mem_In; assumption.
Qed.

(* ------------------------------------------------------------------ every gated action is enforced *)
Definition msg_gate_holds (s : state) (o : op) : Prop :=
  match o with
  | OWlAcc (ByMsg x) _ p | OBlAcc (ByMsg x) _ p | ORmWlAcc (ByMsg x) _ p | ORmBlAcc (ByMsg x) _ p =>
      holds s x PermSetPermissions \/ (p = PermClaimValidator /\ holds s x PermSetClaimValidatorPermission)
  | OWlRole (ByMsg x) _ _ | OBlRole (ByMsg x) _ _ | ORmWlRole (ByMsg x) _ _ | ORmBlRole (ByMsg x) _ _
  | OCreateRole (ByMsg x) _ _ _ | OAssign (ByMsg x) _ _ | OUnassign (ByMsg x) _ _ => holds s x PermUpsertRole
  | OClaimCouncilor a => holds s a PermClaimCouncilor
  | OGate k x => holds s x (gate_perm_coded k)
  | _ => True
  end.

Lemma gated_true : forall b k s', gated b k = Ok s' -> b = true.
Proof. unfold gated; intros b k s'; destruct b; [reflexivity|discriminate]. Qed.
Lemma acc_gate_holds : forall s x p, acc_perm_gate s x p = true ->
  holds s x PermSetPermissions \/ (p = PermClaimValidator /\ holds s x PermSetClaimValidatorPermission).
Proof.
  unfold acc_perm_gate; intros s x p H. apply orb_true_iff in H. destruct H as [H|H].
  - left; apply check_allowed_iff; assumption.
  - apply andb_true_iff in H. destruct H as [H1 H2]. right; split; [apply Z.eqb_eq; assumption|apply check_allowed_iff; assumption].
Qed.

Theorem gated_only_with_permission : forall s o s', step s o = Ok s' -> msg_gate_holds s o.
Proof.
  intros s o s' H. destruct o; cbn [step] in H; try exact I; try (destruct v; [|exact I]);
    apply gated_true in H; cbn [via_gate msg_gate_holds] in *;
    try (apply acc_gate_holds; assumption); apply check_allowed_iff; assumption.
Qed.

(* ------------------------------------------------------------------ refutations (witnesses replayed on the real code by harness/cmd/c07) *)
Definition claim_witness : list op := [OWlAcc ByProp 0 PermClaimCouncilor; OClaimCouncilor 0].

(* full-strength statement "every reachable state keeps the indexes equal to the records": refuted *)
Theorem indexes_refine_refuted : exists ops, ~ inv (run empty_state ops).
Proof.
  exists claim_witness. intros I. pose proof (inv_pa _ I PermCreatePollProposal 0) as H. vm_compute in H. discriminate.
Qed.
Theorem voters_exact_refuted : exists ops a p,
  whitelisted (run empty_state ops) a p /\ voters (run empty_state ops) p = Ok [].
Proof.
  exists claim_witness, 0, PermCreatePollProposal. split; [|vm_compute; reflexivity].
  left. eexists; split; [vm_compute; reflexivity|]. simpl; auto.
Qed.
(* the guard excludes exactly the claims that break the index *)
Theorem claim_breaks_index : forall s a, inv s -> claim_whitelists s a = true ->
  exists s', step s (OClaimCouncilor a) = Ok s' /\ ~ inv s'.
Proof.
  intros s a I H. unfold claim_whitelists in H. apply andb_true_iff in H. destruct H as [Hc Hw].
  cbn [step]. rewrite Hc. cbn [gated].
  destruct (lookup a (actors s)) as [act|] eqn:Ea; [|discriminate].
  destruct (add_wl PermCreatePollProposal (a_perms act)) as [ps|] eqn:Eadd; [|discriminate].
  eexists; split; [reflexivity|]. intros I'.
  pose proof (inv_pa _ I' PermCreatePollProposal a) as Hpa.
  unfold save_actor, with_actors in Hpa; cbn [idx_pa actors] in Hpa. rewrite lookup_upd, Z.eqb_refl in Hpa.
  cbn [a_perms] in Hpa. apply add_wl_Some in Eadd. destruct Eadd as [_ [Hnw ->]]. cbn [wl] in Hpa.
  rewrite mem_app in Hpa. simpl in Hpa. rewrite orb_true_r in Hpa.
  rewrite (inv_pa s I), Ea, Hnw in Hpa. discriminate.
Qed.

Definition rotate_witness : list op :=
  [OCreateRole ByProp 1 [PermVoteSetPoorNetworkMessagesProposal] []; OAssign ByProp 1 1; OWlAcc ByProp 1 PermCreatePollProposal; ORotate 1 4].
(* "after a rotation the old address holds nothing": refuted (old actor re-saved with its whitelist) *)
Theorem rotation_clears_old_address_refuted : exists ops a b p,
  last ops OExportImport = ORotate a b /\ a <> b /\ check_allowed (run empty_state ops) a p = true /\ ~ inv (run empty_state ops).
Proof.
  exists rotate_witness, 1, 4, PermCreatePollProposal. split; [reflexivity|]. split; [lia|]. split; [vm_compute; reflexivity|].
  intros I. pose proof (inv_pa _ I PermCreatePollProposal 1) as H. vm_compute in H. discriminate.
Qed.
Lemma fold_idx_pa_actors : forall (f : state -> Z -> list (Z * Z)) l st,
  actors (fold_left (fun st p => with_idx_pa st (f st p)) l st) = actors st.
Proof. intros f l; induction l as [|p l IH]; intros st; simpl; [reflexivity|]. rewrite IH. reflexivity. Qed.
Theorem rotation_clears_old_address_partial : forall s a b act p,
  lookup a (actors s) = Some act -> a_roles act = [] -> a <> b -> check_allowed (rotate s a b) a p = false.
Proof.
  intros s a b act p E Hr Hab. unfold rotate. rewrite E, Hr. cbn [List.length rotate_unassign fold_left].
  unfold check_allowed.
  rewrite (fold_idx_pa_actors (fun st p0 => padd (p0, b) (idx_pa st))).
  unfold save_actor, with_actors; cbn [actors]. rewrite lookup_upd.
  destruct (Z.eqb_spec b a); [congruence|].
  rewrite (fold_idx_pa_actors (fun st p0 => pdel (p0, a) (idx_pa st))). cbn [actors].
  rewrite lookup_del, Z.eqb_refl. reflexivity.
Qed.

Definition import_witness : list op :=
  [OCreateRole ByProp 1 [PermVoteSetPoorNetworkMessagesProposal] []; OCreateRole ByProp 2 [] [PermVoteSetPoorNetworkMessagesProposal];
   OAssign ByProp 0 1; OAssign ByProp 0 2].
(* "an export / import reproduces who holds what": refuted (role blacklists are not re-imported) *)
Theorem import_preserves_holdings_refuted : exists ops a p,
  let s := run empty_state ops in inv s /\ check_allowed s a p = false /\ check_allowed (export_import s) a p = true.
Proof.
  exists import_witness, 0, PermVoteSetPoorNetworkMessagesProposal. cbv zeta. split; [|split; vm_compute; reflexivity].
  apply indexes_refine_partial; [apply inv_empty|]. simpl. tauto.
Qed.

(* the permission each non-editing gated message is MEANT to require *)
Definition gate_perm_intended (k : gkind) : Z :=
  match k with GDapp => PermCreateDappProposalWithoutBond | _ => gate_perm_coded k end.
Theorem gate_intended_partial : forall s k x s', k <> GDapp -> step s (OGate k x) = Ok s' -> holds s x (gate_perm_intended k).
Proof.
  intros s k x s' Hk H. apply gated_only_with_permission in H. simpl in H. destruct k; try exact H. congruence.
Qed.
Theorem gate_intended_refuted : exists ops x s',
  step (run empty_state ops) (OGate GDapp x) = Ok s' /\ ~ holds (run empty_state ops) x (gate_perm_intended GDapp).
Proof.
  exists [OWlAcc ByProp 1 PermHandleBasketEmergency], 1. eexists. split; [vm_compute; reflexivity|].
  intros H. apply check_allowed_iff in H. vm_compute in H. discriminate.
Qed.

(* non-vacuity: a reachable state with roles, whitelists, blacklists satisfying the invariant *)
Definition example_ops : list op :=
  [OCreateRole ByProp 1 [1; 9] [17]; OCreateRole ByProp 2 [17; 66] []; OWlAcc ByProp 0 1; OWlAcc ByProp 0 9;
   OAssign (ByMsg 0) 1 2; OAssign (ByMsg 0) 1 1; OWlAcc (ByMsg 0) 2 17; OBlAcc (ByMsg 0) 2 66; OAssign (ByMsg 0) 2 2; OExportImport].

(* ------------------------------------------------------------------ the spec checker accepts the model
   (clauses "allow-*" and "gate"): what the checker computes from the dumped records is the
   model's decision procedure, for every state *)
From Sekai Require Import Model.C07Check.

Definition obs_of (ua up : list Z) (s : state) : obs :=
  mkObs (actors s) (rperms s) (rinfo s) (get_next_role s)
        (map (fun a => (a, filter (check_allowed s a) up)) ua)
        (map (fun p => (p, match voters s p with Ok l => Some l | _ => None end)) up)
        (idx_pa s) (idx_ra s) (idx_pr s).

Lemma via_role_found : forall s act (sel : perms -> list Z) p ua up,
  via_role (obs_of ua up s) act sel p = mem p (flat_map sel (found_role_perms s act)).
Proof.
  intros s act sel p ua up. unfold via_role, found_role_perms; cbn [o_roles obs_of].
  induction (a_roles act) as [|r l IH]; simpl; [reflexivity|].
  rewrite IH. destruct (lookup r (rperms s)) as [rp|]; simpl; [|reflexivity].
  rewrite mem_app. reflexivity.
Qed.

Lemma spec_holds_model : forall ua up s a p, spec_holds (obs_of ua up s) a p = check_allowed s a p.
Proof.
  intros ua up s a p. unfold spec_holds, spec_whitelisted, spec_own_bl, spec_role_bl, check_allowed; cbn [o_actors obs_of].
  destruct (lookup a (actors s)) as [act|]; [|reflexivity].
  rewrite last_write_writes; cbv zeta. rewrite !via_role_found.
  destruct (mem p (bl (a_perms act))), (mem p (flat_map bl (found_role_perms s act))),
           (mem p (wl (a_perms act))), (mem p (flat_map wl (found_role_perms s act))); reflexivity.
Qed.

Lemma flat_map_nil : forall {A B} (f : A -> list B) l, (forall x, In x l -> f x = []) -> flat_map f l = [].
Proof. intros A B f l; induction l as [|x l IH]; intros H; simpl; [reflexivity|]. rewrite H by (left; reflexivity). apply IH. intros y Hy; apply H; right; assumption. Qed.

Lemma lookup_map_key : forall {V} (f : Z -> V) l a, In a l -> lookup a (map (fun x => (x, f x)) l) = Some (f a).
Proof.
  intros V f l a; induction l as [|x l IH]; intros H; simpl; [contradiction|].
  destruct (Z.eqb_spec x a); [subst; reflexivity|]. apply IH. destruct H; [congruence|assumption].
Qed.
Lemma mem_filter : forall f x l, mem x (filter f l) = mem x l && f x.
Proof.
  intros f x l; induction l as [|y l IH]; simpl; [reflexivity|].
  destruct (f y) eqn:E; simpl; rewrite IH; destruct (Z.eqb_spec x y); subst; simpl; try rewrite E; try reflexivity.
  destruct (mem y l); reflexivity.
Qed.

Theorem chk_sound_allow : forall ua up s, allow_disc up (obs_of ua up s) = [].
Proof.
  intros ua up s. unfold allow_disc. apply flat_map_nil. intros [a p] Hin.
  unfold all_pairs in Hin. apply in_flat_map in Hin. destruct Hin as [a' [Ha Hp]].
  apply in_map_iff in Hp. destruct Hp as [p' [Heq Hp]]. inversion Heq; subst a' p'; clear Heq.
  cbn [o_allowed obs_of] in Ha. rewrite map_map in Ha. simpl in Ha. rewrite map_id in Ha.
  rewrite spec_holds_model. unfold obs_allowed; cbn [o_allowed obs_of].
  rewrite (lookup_map_key (fun a0 => filter (check_allowed s a0) up)) by assumption.
  rewrite mem_filter. apply mem_In in Hp. rewrite Hp. simpl.
  destruct (check_allowed s a p); reflexivity.
Qed.

(* gate clause: whatever the model accepts passes the checker's gate rule, except the dapp waiver *)
Theorem chk_sound_gate : forall ua up s o s', step s o = Ok s' -> (forall x, o <> OGate GDapp x) ->
  gate_spec (obs_of ua up s) o = true.
Proof.
  intros ua up s o s' H Hd. destruct o; cbn [step] in H; try reflexivity; try (destruct v; [|reflexivity]);
    try (destruct k); try (exfalso; eapply Hd; reflexivity);
    apply gated_true in H; cbn [via_gate gate_spec via_spec acc_gate_spec] in *; unfold acc_gate_spec;
    rewrite ?spec_holds_model; exact H.
Qed.

(* ------------------------------------------------------------------ inclusion of string tables (for Gen/Gates.v) *)
Definition incl_strb (l m : list string) : bool := forallb (fun x => str_in x m) l.
Lemma str_in_In : forall x l, str_in x l = true -> In x l.
Proof.
  intros x l; induction l as [|y l IH]; simpl; [discriminate|].
  intros H. apply orb_true_iff in H. destruct H as [H|H]; [left; symmetry; apply String.eqb_eq; assumption|right; auto].
Qed.
Lemma incl_strb_sound : forall l m, incl_strb l m = true -> incl l m.
Proof. unfold incl_strb, incl; intros l m H x Hx. rewrite forallb_forall in H. apply str_in_In, H, Hx. Qed.

Lemma example_state_inv :
  let s := run empty_state (removelast example_ops) in
  inv s /\ check_allowed s 1 1 = true /\ check_allowed s 1 17 = false /\ check_allowed s 2 17 = true /\ check_allowed s 2 66 = false
  /\ voters s 17 = Ok [2; 1].
Proof.
  cbv zeta. split; [apply indexes_refine_partial; [apply inv_empty|simpl; tauto]|].
  repeat split; vm_compute; reflexivity.
Qed.
