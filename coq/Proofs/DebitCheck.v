(* C03 -- the spec checker of Model/C03Check.v accepts every run of a handler that passes the
   static authorisation check: whatever finite set of (account, denom) points is observed, no
   balance row of the observation built from the model run raises a clause. *)
From Coq Require Import ZifyBool.
From Sekai Require Import Base.Prelude Model.Debit Model.C03Check Proofs.Debit.

Definition rows_of_run (s s' : state) (pts : list (Z * string)) : list (Z * string * Z * Z) :=
  map (fun p => (fst p, snd p, bal s (fst p) (snd p), bal s' (fst p) (snd p))) pts.

Lemma coin_rows_clean :
  forall h m s s', wf_auth h = true -> mods_ok std_is_module h = true -> claims_nonneg (claims s) = true ->
  exec h m s = Ok s' ->
  forall c, k_signers c = m_signers m -> forall pts,
  flat_map (fun e => let '(a, d, b, f) := e in coin_clause c a d b f) (rows_of_run s s' pts) = [].
Proof.
  intros h m s s' Hwf Hmo Hnn Hex c Hc.
  induction pts as [|[a d] pts IH]; [reflexivity|].
  unfold rows_of_run in *. cbn [map flat_map fst snd].
  rewrite IH. rewrite app_nil_r.
  unfold coin_clause, signed. rewrite Hc.
  destruct (is_user a) eqn:U; [|rewrite orb_true_r; auto].
  destruct (in_accts a (m_signers m)) eqn:Sg; [rewrite orb_true_r; auto|].
  assert (Hb : bal s' a d >= bal s a d).
  { eapply (wf_handler_no_foreign_coin_debit std_is_module h m s s'); eauto.
    - intros I. apply in_accts_In in I. congruence.
    - unfold is_user, std_is_module in *. lia. }
  assert (E : (bal s a d <=? bal s' a d) = true) by lia. rewrite E. auto.
Qed.

Lemma c03_chk_sound_coins :
  forall h m s s', wf_auth h = true -> mods_ok std_is_module h = true -> claims_nonneg (claims s) = true ->
  exec h m s = Ok s' ->
  forall pts crows facts,
  let c := mkCase 0 (m_signers m) (rows_of_run s s' pts) crows facts None in
  flat_map (fun e => let '(a, d, b, f) := e in coin_clause c a d b f) (k_bal c) = [].
Proof.
  intros h m s s' Hwf Hmo Hnn Hex pts crows facts c. subst c. cbn [k_bal].
  eapply coin_rows_clean; eauto.
Qed.
