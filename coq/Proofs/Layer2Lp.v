(* LP pool: the exact (rational) constant-product rule gives no free money on a round trip, the integer
   keeper functions round every payout up (in the user's favour, by less than one unit), and that
   rounding is enough for free money: witness on the keeper-level model. *)
From Sekai Require Import Base.Prelude Base.Dec Model.Layer2.
From Coq Require Import QArith Lqa.

(* ================================================================ exact rule *)
Section Exact.
Open Scope Q_scope.
Lemma pos_factor (a c : Q) : 0 < c -> 0 < a * c -> 0 < a.
Proof.
  intros Hc H. destruct (Qlt_le_dec 0 a) as [|Hn]; [assumption|]. exfalso.
  assert (0 <= (- a) * c) by (apply Qmult_le_0_compat; lra). nra.
Qed.
Lemma nonneg_factor (a c : Q) : 0 < c -> 0 <= a * c -> 0 <= a.
Proof.
  intros Hc H. destruct (Qlt_le_dec a 0) as [Hn|]; [|assumption]. exfalso.
  assert (0 < (- a) * c) by (apply Qmult_lt_0_compat; lra). nra.
Qed.
Lemma le_factor (a b c : Q) : 0 < c -> a * c <= b * c -> a <= b.
Proof. intros Hc H. assert (0 <= (b - a) * c) by nra. apply nonneg_factor in H0; lra. Qed.

Lemma round_trip_exact (T S b f1 f2 out sb : Q) :
  0 < T -> 0 < S -> 0 < b -> 0 <= f1 -> f1 <= 1 -> 0 <= f2 -> f2 <= 1 ->
  out * (T + b) == S * b ->
  sb * ((S - f1 * out) + out * (1 - f1)) == (T + b) * (out * (1 - f1)) ->
  sb * (1 - f2) <= b.
Proof.
  intros HT HS Hb Hf1 Hf1' Hf2 Hf2' Hout Hsb.
  assert (Ho : 0 < out). { apply (pos_factor out (T + b)); [lra|]. rewrite Hout. nra. }
  assert (ST : 0 < S * T) by (apply Qmult_lt_0_compat; assumption).
  assert (Ho2 : out < S). { assert (0 < (S - out) * (T + b)). { setoid_replace ((S - out) * (T + b)) with (S * T + S * b - out * (T + b)) by ring. rewrite Hout. lra. } apply pos_factor in H; lra. }
  assert (P1 : 0 <= out * (1 - f1)) by (apply Qmult_le_0_compat; lra).
  assert (D : 0 < (S - f1 * out) + out * (1 - f1)). { setoid_replace ((S - f1 * out) + out * (1 - f1)) with ((S - out) + 2 * (out * (1 - f1))) by ring. lra. }
  assert (Hsb0 : 0 <= sb).
  { apply (nonneg_factor sb ((S - f1 * out) + out * (1 - f1))); [exact D|]. rewrite Hsb. apply Qmult_le_0_compat; lra. }
  assert (P2 : 0 <= b * (out * (1 - f1))) by (apply Qmult_le_0_compat; lra).
  assert (P3 : 0 <= b * (f1 * (S - out))) by (apply Qmult_le_0_compat; [lra|apply Qmult_le_0_compat; lra]).
  assert (G : sb <= b).
  { apply (le_factor sb b ((S - f1 * out) + out * (1 - f1))); [exact D|]. rewrite Hsb.
    setoid_replace ((T + b) * (out * (1 - f1))) with ((out * (T + b)) * (1 - f1)) by ring. rewrite Hout.
    setoid_replace (b * (S - f1 * out + out * (1 - f1))) with (S * b * (1 - f1) + (b * (out * (1 - f1)) + b * (f1 * (S - out)))) by ring.
    lra. }
  assert (P4 : 0 <= sb * f2) by (apply Qmult_le_0_compat; lra).
  setoid_replace (sb * (1 - f2)) with (sb - sb * f2) by ring. lra.
Qed.
End Exact.

(* ================================================================ integer rounding of the keeper functions *)
Open Scope Z_scope.
(* RedeemDappPoolTx pays swapBond = T - T*S/(S+x): the exact amount T*x/(S+x) rounded UP *)
Lemma redeem_rounds_up T S x : 0 <= T -> 0 <= S -> 0 < x ->
  let sb := T - Z.quot (T * S) (S + x) in T * x <= sb * (S + x) < T * x + (S + x).
Proof.
  intros HT HS Hx sb. unfold sb. rewrite Z.quot_div_nonneg by nia.
  pose proof (Z.div_mod (T * S) (S + x) ltac:(lia)). pose proof (Z.mod_pos_bound (T * S) (S + x) ltac:(lia)). nia.
Qed.
(* SwapDappPoolTx hands out S - T*S/(T+b): the exact amount S*b/(T+b) rounded UP *)
Lemma swap_rounds_up T S b : 0 <= T -> 0 <= S -> 0 < b ->
  let out := S - Z.quot (T * S) (T + b) in S * b <= out * (T + b) < S * b + (T + b).
Proof.
  intros HT HS Hb out. unfold out. rewrite Z.quot_div_nonneg by nia.
  pose proof (Z.div_mod (T * S) (T + b) ltac:(lia)). pose proof (Z.mod_pos_bound (T * S) (T + b) ltac:(lia)). nia.
Qed.

(* ================================================================ the integer rule gives free money *)
Definition lp_op_of (u : string) (o : op) : bool :=
  match o with
  | KSwap u' _ _ _ _ | KRedeem u' _ _ _ _ | KConvert u' _ _ _ _ => String.eqb u u'
  | _ => false
  end.
(* the full-strength statement for the keeper-level functions: whoever ends a sequence of swaps,
   redemptions and conversions with at least the LP tokens he started with has not gained ukex *)
Definition no_free_money_integer (v : variant) (c : config) : Prop :=
  forall st u ops, forallb (lp_op_of u) ops = true ->
    (forall den, den <> UKEX -> bal u den (led st) <= bal u den (led (run v c ops st))) ->
    bal u UKEX (led (run v c ops st)) <= bal u UKEX (led st).

Definition wU0 : string := "kira1vverqatnv4erqh6lta047h6lta047h6ljxphls".
Definition wU1 : string := "kira1vverqatnv4erzh6lta047h6lta047h6lhvk0gt".
Definition wU4 : string := "kira1vverqatnv4ergh6lta047h6lta047h6lx80v38".
Definition wcfg : config := mkConfig 1 10 1000 2419200 100000000000 100000000000000 1000000000000000.
Definition wst0 : state := mkState 0 [] [] [(wU0, UKEX, 2000000000); (wU1, UKEX, 2000000000)].
(* reachable through messages: a dApp with one million ukex bonded and fifty LP tokens in circulation *)
Definition wsetup : list op :=
  [OCreate wU0 false false "x" 1000000 (mkParams "lp/x" true 10000000000000 0 40 0 wU4 100 false); OTick 1000].
Definition wexploit : list op := [KSwap wU1 "x" false 1 0; KRedeem wU1 "x" "lp/x" 1 0].

Lemma integer_witness :
  let st := run as_is wcfg wsetup wst0 in
  forallb (lp_op_of wU1) wexploit = true
  /\ (forall den, bal wU1 den (led st) <= bal wU1 den (led (run as_is wcfg wexploit st)) \/ den = UKEX)
  /\ bal wU1 UKEX (led (run as_is wcfg wexploit st)) = bal wU1 UKEX (led st) + 19607.
Proof.
  cbv zeta. split; [vm_compute; reflexivity|]. split; [|vm_compute; reflexivity].
  intros den. destruct (String.eqb den UKEX) eqn:E; [right; now apply String.eqb_eq|left].
  destruct (String.eqb den "lp/x") eqn:E2.
  - apply String.eqb_eq in E2. subst. vm_compute. discriminate.
  - assert (G : forall l : ledger, (forall a d z, In (a, d, z) l -> d = UKEX \/ d = "lp/x"%string) -> forall a, bal a den l = 0).
    { induction l as [|[[a' d'] z] l IH]; intros Hl a; simpl; [reflexivity|].
      destruct (key_eqb a den a' d') eqn:K.
      - unfold key_eqb in K. apply andb_true_iff in K. destruct K as [_ K]. apply String.eqb_eq in K. subst d'.
        destruct (Hl a' den z (or_introl eq_refl)) as [->| ->]; [rewrite String.eqb_refl in E|rewrite String.eqb_refl in E2]; discriminate.
      - apply IH. intros; eapply Hl; right; eauto. }
    rewrite !G; [lia| |].
    + vm_compute. intros a d z H. repeat (destruct H as [H|H]; [inversion H; subst; auto|]). destruct H.
    + vm_compute. intros a d z H. repeat (destruct H as [H|H]; [inversion H; subst; auto|]). destruct H.
Qed.

Lemma no_free_money_integer_refuted_lemma : ~ no_free_money_integer as_is wcfg.
Proof.
  intros H. destruct integer_witness as (A & B & C).
  specialize (H (run as_is wcfg wsetup wst0) wU1 wexploit A).
  assert (P : forall den, den <> UKEX -> bal wU1 den (led (run as_is wcfg wsetup wst0)) <= bal wU1 den (led (run as_is wcfg wexploit (run as_is wcfg wsetup wst0)))).
  { intros den Hd. destruct (B den); [assumption|contradiction]. }
  specialize (H P). rewrite C in H. lia.
Qed.
