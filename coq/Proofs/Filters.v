(* C14 -- lemmas about the freeze predicate and the two message filters (Model/Filters.v). *)
From Sekai Require Import Base.Prelude Model.Filters.
From Coq Require Import ZifyBool.

(* ---------------------------------------------------------------- small facts *)
Lemma str_in_In : forall x l, str_in x l = true <-> In x l.
Proof.
  induction l as [|y l IH]; simpl.
  - split; [discriminate | tauto].
  - rewrite Bool.orb_true_iff, IH, String.eqb_eq. split; intros [H|H]; auto.
Qed.

Lemma find_index_from_range : forall l x i, find_index_from l x i = -1 \/ i <= find_index_from l x i.
Proof.
  induction l as [|y l IH]; intros x i; simpl; [left; reflexivity|].
  destruct (String.eqb y x); [right; lia|].
  destruct (IH x (i + 1)) as [H|H]; [left; exact H | right; lia].
Qed.

Lemma find_index_from_In : forall l x i, 0 <= i -> (0 <= find_index_from l x i <-> In x l).
Proof.
  induction l as [|y l IH]; intros x i Hi; simpl.
  - split; [lia | tauto].
  - destruct (String.eqb y x) eqn:E.
    + apply String.eqb_eq in E. split; [intros _; left; exact E | intros _; lia].
    + rewrite (IH x (i + 1)) by lia. apply String.eqb_neq in E. split; [auto | intros [H|H]; [contradiction | exact H]].
Qed.

Lemma find_index_In : forall l x, 0 <= find_index l x <-> In x l.
Proof. intros; apply find_index_from_In; lia. Qed.

Lemma find_index_neg : forall l x, find_index l x < 0 <-> ~ In x l.
Proof. intros l x. rewrite <- find_index_In. lia. Qed.

(* ---------------------------------------------------------------- IsFrozen *)
Lemma native_never_frozen : forall t d en_black en_white, is_frozen t d d en_black en_white = false.
Proof. intros. unfold is_frozen. rewrite String.eqb_refl. reflexivity. Qed.

(* frozen = not the native token, and blacklisted (while the blacklist is on) or absent from the
   whitelist (while whitelisting is on) *)
Lemma is_frozen_spec : forall t d nat_ b w,
  is_frozen t d nat_ b w = true <->
  d <> nat_ /\ ((b = true /\ In d (bw_black t)) \/ (w = true /\ ~ In d (bw_white t))).
Proof.
  intros t d n b w. unfold is_frozen.
  destruct (String.eqb d n) eqn:E.
  - apply String.eqb_eq in E. split; [discriminate | intros [H _]; contradiction].
  - apply String.eqb_neq in E.
    destruct b, w; simpl.
    + destruct (0 <=? find_index (bw_black t) d) eqn:B.
      * apply Z.leb_le, find_index_In in B. split; auto.
      * apply Z.leb_gt in B. destruct (find_index (bw_white t) d <? 0) eqn:W.
        -- apply Z.ltb_lt, find_index_neg in W. split; auto.
        -- apply Z.ltb_ge in W. split; [discriminate|].
           intros [_ [[_ H]|[_ H]]]; [apply find_index_In in H; lia | apply find_index_neg in H; lia].
    + destruct (0 <=? find_index (bw_black t) d) eqn:B.
      * apply Z.leb_le, find_index_In in B. split; auto.
      * apply Z.leb_gt in B. split; [discriminate|].
        intros [_ [[_ H]|[H _]]]; [apply find_index_In in H; lia | discriminate].
    + destruct (find_index (bw_white t) d <? 0) eqn:W.
      * apply Z.ltb_lt, find_index_neg in W. split; auto.
      * apply Z.ltb_ge in W. split; [discriminate|].
        intros [_ [[H _]|[_ H]]]; [discriminate | apply find_index_neg in H; lia].
    + split; [discriminate | intros [_ [[H _]|[H _]]]; discriminate].
Qed.

(* ---------------------------------------------------------------- freeze filter *)
Definition bw_complete (types : list string) : bool := forallb (fun t => str_in t types) transfer_types.

Lemma bw_loop_ok : forall sh f ms,
  bw_loop sh f ms = Ok tt <->
  (forall m, In m ms -> str_in (msg_type m) (sh_bw_types sh) = true -> forall d, In d (moved_by (f_native f) m) -> frozen f d = false).
Proof.
  induction ms as [|m ms IH]; simpl.
  - split; [intros _ m [] | reflexivity].
  - destruct (str_in (msg_type m) (sh_bw_types sh)) eqn:T; simpl.
    + destruct (existsb (frozen f) (moved_by (f_native f) m)) eqn:E.
      * split; [discriminate|]. intros H. exfalso.
        apply existsb_exists in E. destruct E as [d [Hd Hf]].
        rewrite (H m (or_introl eq_refl) T d Hd) in Hf. discriminate.
      * rewrite IH. split.
        -- intros H m' [<-|Hin] Ht d Hd.
           ++ destruct (frozen f d) eqn:F; [|reflexivity].
              assert (existsb (frozen f) (moved_by (f_native f) m) = true) by (apply existsb_exists; eauto). congruence.
           ++ eapply H; eauto.
        -- intros H m' Hin. apply H. right; exact Hin.
    + rewrite IH. split.
      * intros H m' [<-|Hin] Ht; [congruence | eapply H; eauto].
      * intros H m' Hin. apply H. right; exact Hin.
Qed.

(* a message outside the three caller-chosen-denomination types moves at most the native token *)
Lemma moved_type : forall nat m d, In d (moved_by nat m) -> In (msg_type m) transfer_types \/ d = nat.
Proof.
  intros nat m d H. destruct m; simpl; auto.
  - unfold moved_by in H. simpl in H. destruct H as [H|[]]. right. auto.
Qed.

(* the freeze filter is sound for every message position as soon as it inspects all three
   message types that move a caller-chosen denomination (an Ethereum native send moves the native
   token only, which is never frozen) *)
Lemma frozen_never_moves_complete : forall sh f ms,
  bw_complete (sh_bw_types sh) = true ->
  bw_loop sh f ms = Ok tt ->
  forall m, In m ms -> forall d, In d (moved_by (f_native f) m) -> frozen f d = false.
Proof.
  intros sh f ms C H m Hin d Hd.
  destruct (moved_type _ _ _ Hd) as [T| ->].
  - rewrite bw_loop_ok in H. eapply H; eauto.
    unfold bw_complete in C. rewrite forallb_forall in C. apply C. exact T.
  - apply native_never_frozen.
Qed.

(* whatever the inspected types are, a bank send of a frozen token is refused at any position *)
Lemma frozen_never_moves_partial : forall sh f ms,
  str_in "send" (sh_bw_types sh) = true ->
  bw_loop sh f ms = Ok tt ->
  forall from to amt, In (MSend from to amt) ms -> forall d, In d (denoms amt) -> frozen f d = false.
Proof.
  intros sh f ms S H from to amt Hin d Hd.
  rewrite bw_loop_ok in H. eapply (H _ Hin S).
  unfold moved_by; simpl. rewrite app_nil_r. exact Hd.
Qed.

Definition wit_filt : filt := mkFilt "ukex" (mkBW ["frozen"%string] []) true false 1 1 [] 1000.

(* ... and it is unsound as soon as one of them is missing: a message of the missing type carries
   a frozen token through *)
Lemma frozen_never_moves_incomplete : forall sh,
  bw_complete (sh_bw_types sh) = false ->
  exists f ms, bw_loop sh f ms = Ok tt /\
               exists m d, In m ms /\ In d (moved_by (f_native f) m) /\ frozen f d = true.
Proof.
  intros sh C. unfold bw_complete, transfer_types in C. simpl in C.
  destruct (str_in "send" (sh_bw_types sh)) eqn:S; simpl in C.
  - destruct (str_in "multisend" (sh_bw_types sh)) eqn:M; simpl in C.
    + destruct (str_in "custody_send" (sh_bw_types sh)) eqn:K; simpl in C; [discriminate|].
      exists wit_filt, [MCustody "a" "b" [("frozen"%string, 5)] []]. split.
      * simpl. rewrite K. reflexivity.
      * eexists _, "frozen"%string. split; [left; reflexivity|]. split; [simpl; auto | reflexivity].
    + exists wit_filt, [MMulti "a" [("frozen"%string, 5)] [("b"%string, [("frozen"%string, 5)])]]. split.
      * simpl. rewrite M. reflexivity.
      * eexists _, "frozen"%string. split; [left; reflexivity|]. split; [simpl; auto | reflexivity].
  - exists wit_filt, [MSend "a" "b" [("frozen"%string, 5)]]. split.
    + simpl. rewrite S. reflexivity.
    + eexists _, "frozen"%string. split; [left; reflexivity|]. split; [simpl; auto | reflexivity].
Qed.

Lemma frozen_never_moves_iff : forall sh,
  (forall f ms, bw_loop sh f ms = Ok tt -> forall m, In m ms -> forall d, In d (moved_by (f_native f) m) -> frozen f d = false)
  <-> bw_complete (sh_bw_types sh) = true.
Proof.
  intros sh. split.
  - intros H. destruct (bw_complete (sh_bw_types sh)) eqn:C; [reflexivity|].
    destruct (frozen_never_moves_incomplete sh C) as [f [ms [Hok [m [d [Hm [Hd Hf]]]]]]].
    rewrite (H f ms Hok m Hm d Hd) in Hf. discriminate.
  - intros C f ms. apply frozen_never_moves_complete. exact C.
Qed.

(* ---------------------------------------------------------------- weak-network filter *)
Definition poor_shape_ok (sh : shape) : bool := (negb (sh_poor_send_returns sh) && negb (sh_poor_allowed_returns sh))%bool.

Lemma poor_loop_head : forall sh f m ms, poor_loop sh f (m :: ms) = Ok tt -> allowed_on_weak f m = true.
Proof.
  intros sh f m ms H. unfold allowed_on_weak. destruct m as [fr to amt|fr inp outs|fr to amt rw|fr to v|ty ss fl mk]; simpl in H.
  - destruct amt as [|[d a] rest]; [discriminate|].
    destruct rest as [|c rest']; simpl in H.
    + destruct (String.eqb d (f_native f)) eqn:E; simpl in H; [|discriminate].
      destruct (u64_ok a); simpl in H; [|discriminate].
      destruct (f_max_send f <? a) eqn:L; [discriminate|].
      simpl. rewrite E. apply Z.ltb_ge in L. assert (a <=? f_max_send f = true) as -> by lia. reflexivity.
    + discriminate.
  - simpl. destruct (str_in "multisend" (f_poor_msgs f)); [reflexivity | discriminate].
  - simpl. destruct (str_in "custody_send" (f_poor_msgs f)); [reflexivity | discriminate].
  - simpl. destruct (str_in "ethereum_tx" (f_poor_msgs f)); [reflexivity | discriminate].
  - simpl. destruct (str_in ty (f_poor_msgs f)); [reflexivity | discriminate].
Qed.

Lemma poor_loop_tail : forall sh f m ms,
  poor_shape_ok sh = true -> poor_loop sh f (m :: ms) = Ok tt -> poor_loop sh f ms = Ok tt.
Proof.
  intros sh f m ms S H. unfold poor_shape_ok in S. apply Bool.andb_true_iff in S. destruct S as [S1 S2].
  apply Bool.negb_true_iff in S1, S2.
  destruct m as [fr to amt|fr inp outs|fr to amt rw|fr to v|ty ss fl mk]; simpl in H; rewrite ?S1, ?S2 in H.
  - destruct amt as [|[d a] rest]; [discriminate|].
    destruct (negb (is_nil rest) || negb (String.eqb d (f_native f)))%bool; [discriminate|].
    destruct (negb (u64_ok a)); [discriminate|].
    destruct (f_max_send f <? a); [discriminate | exact H].
  - destruct (str_in "multisend" (f_poor_msgs f)); [exact H | discriminate].
  - destruct (str_in "custody_send" (f_poor_msgs f)); [exact H | discriminate].
  - destruct (str_in "ethereum_tx" (f_poor_msgs f)); [exact H | discriminate].
  - destruct (str_in ty (f_poor_msgs f)); [exact H | discriminate].
Qed.

Lemma poor_loop_all : forall sh f ms,
  poor_shape_ok sh = true -> poor_loop sh f ms = Ok tt -> Forall (fun m => allowed_on_weak f m = true) ms.
Proof.
  induction ms as [|m ms IH]; intros S H; constructor.
  - eapply poor_loop_head; eauto.
  - apply IH; [exact S | eapply poor_loop_tail; eauto].
Qed.

Lemma as_int64_small : forall z, 0 <= z < two63 -> as_int64 z = z.
Proof.
  intros z H. unfold as_int64, wrap64, two63, two64 in *.
  rewrite Z.mod_small by lia. assert (z <? 9223372036854775808 = true) as -> by lia. reflexivity.
Qed.

Lemma weak_not_active : forall f, 0 <= f_minvals f < two63 -> weak_network f = true -> network_active f = false.
Proof.
  intros f R W. unfold weak_network in W. unfold network_active. rewrite as_int64_small by exact R. lia.
Qed.

(* repaired loop shape (both arms `continue`): every message of an admitted transaction on a
   weak network is allowed *)
Lemma weak_network_only_allowed_ok : forall sh f ms,
  poor_shape_ok sh = true -> 0 <= f_minvals f < two63 ->
  weak_network f = true -> poor_check sh f ms = Ok tt ->
  Forall (fun m => allowed_on_weak f m = true) ms.
Proof.
  intros sh f ms S R W H. unfold poor_check in H. rewrite (weak_not_active f R W) in H.
  eapply poor_loop_all; eauto.
Qed.

(* any loop shape: the FIRST message is always checked *)
Lemma weak_network_first_checked : forall sh f m ms,
  0 <= f_minvals f < two63 -> weak_network f = true -> poor_check sh f (m :: ms) = Ok tt ->
  allowed_on_weak f m = true.
Proof.
  intros sh f m ms R W H. unfold poor_check in H. rewrite (weak_not_active f R W) in H.
  eapply poor_loop_head; eauto.
Qed.

Definition weak_filt (allowed : list string) : filt := mkFilt "ukex" (mkBW [] []) false false 1 2 allowed 1000.

(* `return next(...)` inside the loop in either arm: a disallowed message rides behind an allowed one *)
Lemma weak_network_only_allowed_broken : forall sh,
  poor_shape_ok sh = false ->
  exists f ms, 0 <= f_minvals f < two63 /\ weak_network f = true /\ poor_check sh f ms = Ok tt /\
               ~ Forall (fun m => allowed_on_weak f m = true) ms.
Proof.
  intros sh S. unfold poor_shape_ok in S.
  destruct (sh_poor_send_returns sh) eqn:S1.
  - exists (weak_filt []), [MSend "a" "b" [("ukex"%string, 1)]; MMulti "a" [("ukex"%string, 999999)] [("b"%string, [("ukex"%string, 999999)])]].
    split; [unfold two63; simpl; lia|]. split; [reflexivity|]. split.
    + unfold poor_check. simpl. rewrite S1. reflexivity.
    + intro F. inversion F as [|? ? _ F2]; subst. inversion F2 as [|? ? H _]; subst. discriminate H.
  - simpl in S. destruct (sh_poor_allowed_returns sh) eqn:S2; [|discriminate].
    exists (weak_filt ["ok"%string]), [MOther "ok" ["a"%string] false ""; MOther "bad" ["a"%string] false ""].
    split; [unfold two63; simpl; lia|]. split; [reflexivity|]. split.
    + unfold poor_check. simpl. rewrite S2. reflexivity.
    + intro F. inversion F as [|? ? _ F2]; subst. inversion F2 as [|? ? H _]; subst. discriminate H.
Qed.

Lemma weak_network_only_allowed_iff : forall sh,
  (forall f ms, 0 <= f_minvals f < two63 -> weak_network f = true -> poor_check sh f ms = Ok tt ->
                Forall (fun m => allowed_on_weak f m = true) ms)
  <-> poor_shape_ok sh = true.
Proof.
  intros sh. split.
  - intros H. destruct (poor_shape_ok sh) eqn:S; [reflexivity|].
    destruct (weak_network_only_allowed_broken sh S) as [f [ms [R [W [Hok Hn]]]]].
    exfalso. apply Hn. eapply H; eauto.
  - intros S f ms. apply weak_network_only_allowed_ok. exact S.
Qed.

(* int(MinValidators): with a minimum of 2^63 or more the cast is negative and a network with
   fewer validators than the minimum counts as healthy, for every loop shape *)
Lemma weak_network_cast_refuted : forall sh,
  exists f ms, weak_network f = true /\ poor_check sh f ms = Ok tt /\ ~ Forall (fun m => allowed_on_weak f m = true) ms.
Proof.
  intros sh.
  exists (mkFilt "ukex" (mkBW [] []) false false 1 two63 [] 1000), [MOther "bad" ["a"%string] false ""].
  split; [reflexivity|]. split; [reflexivity|].
  intro F. inversion F as [|? ? H _]; subst. discriminate H.
Qed.

(* a healthy network applies no restriction *)
Lemma healthy_network_unrestricted : forall sh f ms, network_active f = true -> poor_check sh f ms = Ok tt.
Proof. intros sh f ms H. unfold poor_check. rewrite H. reflexivity. Qed.

(* ---------------------------------------------------------------- governance of the freeze lists *)
Lemma add_tokens_In : forall addings origin x, In x (add_tokens origin addings) <-> In x origin \/ In x addings.
Proof.
  induction addings as [|a r IH]; intros origin x; simpl; [tauto|].
  destruct (0 <=? find_index origin a) eqn:E.
  - rewrite IH. apply Z.leb_le, find_index_In in E. split; [tauto|]. intros [H|[H|H]]; subst; auto.
  - rewrite IH, in_app_iff. simpl. tauto.
Qed.

Lemma add_tokens_NoDup : forall addings origin, NoDup origin -> NoDup (add_tokens origin addings).
Proof.
  induction addings as [|a r IH]; intros origin H; simpl; [exact H|].
  destruct (0 <=? find_index origin a) eqn:E; [apply IH; exact H|].
  apply IH. apply Z.leb_gt in E. assert (~ In a origin) by (rewrite <- find_index_In; lia).
  clear -H H0. induction origin as [|z l IHl]; simpl; [constructor; [tauto | constructor]|].
  inversion H; subst. constructor.
  - rewrite in_app_iff. simpl. intros [K|[K|[]]]; [contradiction | subst; apply H0; left; reflexivity].
  - apply IHl; [assumption | intro; apply H0; right; assumption].
Qed.

(* a passed "add" proposal: EVERY named token is on the list afterwards, nothing else changes *)
Lemma add_proposal_freezes_all : forall t toks x,
  In x toks -> In x (bw_black (apply_prop t (mkProp true true toks))).
Proof. intros. simpl. rewrite add_tokens_In. right. assumption. Qed.

Lemma add_proposal_then_frozen : forall f toks x,
  f_en_black f = true -> In x toks -> x <> f_native f ->
  frozen (with_bw f (apply_prop (f_bw f) (mkProp true true toks))) x = true.
Proof.
  intros f toks x E Hin Hn. unfold frozen. apply is_frozen_spec. simpl. split; [exact Hn|].
  left. split; [exact E|]. rewrite add_tokens_In. right. exact Hin.
Qed.

(* removal: position arithmetic of the "fast remove" *)
Lemma find_index_from_nth : forall l x i, 0 <= find_index_from l x i ->
  nth_error l (Z.to_nat (find_index_from l x i - i)) = Some x.
Proof.
  induction l as [|y l IH]; intros x i H; simpl in *; [lia|].
  destruct (String.eqb y x) eqn:E.
  - apply String.eqb_eq in E. subst. replace (i - i) with 0 by lia. reflexivity.
  - destruct (find_index_from_range l x (i + 1)) as [R|R]; [lia|].
    specialize (IH x (i + 1) H).
    replace (Z.to_nat (find_index_from l x (i + 1) - i)) with (S (Z.to_nat (find_index_from l x (i + 1) - (i + 1)))) by lia.
    exact IH.
Qed.
