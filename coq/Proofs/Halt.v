(* C06 -- lemmas about Model/Halt.v. *)
From Coq Require Import ZifyBool.
From Sekai Require Import Base.Prelude Base.Dec Model.Halt Model.C06Check.

Local Open Scope Z_scope.

(* ------------------------------------------------------------------ Dec helpers *)
Lemma PREC_pos : 0 < PREC. Proof. reflexivity. Qed.

Lemma dec_in_range_small : forall z, Z.abs z < 2 ^ 315 -> dec_in_range z = true.
Proof.
  intros z H. unfold dec_in_range, bitlen, max_dec_bits.
  destruct (Z.abs z =? 0) eqn:E; [reflexivity|].
  apply Z.eqb_neq in E. assert (0 < Z.abs z) by lia.
  assert (Z.log2 (Z.abs z) < 315) by (apply Z.log2_lt_pow2; lia). lia.
Qed.

Lemma chop_round_pos_bounds : forall d k, 0 <= d -> d <= k * PREC -> 0 <= chop_round_pos d <= k.
Proof.
  intros d k Hd Hk. unfold chop_round_pos.
  pose proof (Z.div_mod d PREC ltac:(unfold PREC; lia)) as E.
  pose proof (Z.mod_pos_bound d PREC PREC_pos) as B.
  set (q := d / PREC) in *. set (r := d mod PREC) in *.
  assert (0 <= q) by (subst q; apply Z.div_pos; [lia|exact PREC_pos]).
  unfold PREC, HALF in *.
  destruct (r =? 0) eqn:E0; [lia|].
  destruct (r <? 500000000000000000) eqn:E1; [lia|].
  destruct (500000000000000000 <? r) eqn:E2; [lia|].
  destruct (Z.even q); lia.
Qed.

Lemma chop_round_nonneg_bounds : forall d k, 0 <= d -> d <= k * PREC -> 0 <= chop_round d <= k.
Proof.
  intros d k Hd Hk. unfold chop_round. destruct (d <? 0) eqn:E; [lia|].
  apply chop_round_pos_bounds; assumption.
Qed.

Lemma chop_round_mul_exact : forall k, 0 <= k -> chop_round (k * PREC) = k.
Proof.
  intros k Hk. unfold chop_round.
  assert (0 <= k * PREC) by (unfold PREC; lia).
  destruct (k * PREC <? 0) eqn:E; [lia|].
  unfold chop_round_pos. rewrite Z.mod_mul by (unfold PREC; lia). rewrite Z.div_mul by (unfold PREC; lia). reflexivity.
Qed.

Lemma pow2_315_split : 2 ^ 315 = 2 ^ 190 * 2 ^ 125. Proof. reflexivity. Qed.

(* ------------------------------------------------------------------ list-of-Z set helpers *)
Lemma zmem_In : forall x l, zmem x l = true <-> In x l.
Proof.
  induction l as [|y l IH]; simpl; [split; [discriminate|tauto]|].
  rewrite Bool.orb_true_iff, IH, Z.eqb_eq. split; intros [H|H]; auto.
Qed.
Lemma zadd_In : forall x v l, In x (zadd v l) <-> x = v \/ In x l.
Proof.
  intros. unfold zadd. destruct (zmem v l) eqn:E.
  - apply zmem_In in E. split; [auto|intros [->|H]; auto].
  - simpl. split; intros [H|H]; auto.
Qed.
Lemma zremove_In : forall x v l, In x (zremove v l) -> In x l.
Proof.
  induction l as [|y l IH]; simpl; [tauto|]. destruct (v =? y); simpl; intuition.
Qed.
Lemma zremove_notin : forall v l, ~ In v (zremove v l).
Proof.
  induction l as [|y l IH]; simpl; [tauto|]. destruct (v =? y) eqn:E; simpl; [assumption|].
  apply Z.eqb_neq in E. intros [H|H]; [congruence|auto].
Qed.
Lemma zadd_NoDup : forall v l, NoDup l -> NoDup (zadd v l).
Proof.
  intros. unfold zadd. destruct (zmem v l) eqn:E; [assumption|].
  constructor; [|assumption]. intro H1. apply zmem_In in H1. congruence.
Qed.
Lemma zremove_NoDup : forall v l, NoDup l -> NoDup (zremove v l).
Proof.
  induction l as [|y l IH]; simpl; intros H; [constructor|]. inversion H; subst.
  destruct (v =? y); [auto|]. constructor; [|auto]. intro H1. apply zremove_In in H1. contradiction.
Qed.

(* ------------------------------------------------------------------ gov quorum *)
(* IsQuorum fails exactly when there are more votes than voters or the quorum exceeds 1 *)
Lemma is_quorum_err_iff : forall q votes voters, 0 <= q -> 0 <= voters < 2 ^ 64 ->
  (exists e, is_quorum q votes voters = Err e) <-> (voters < votes \/ PREC < q).
Proof.
  intros q votes voters Hq Hv. unfold is_quorum.
  destruct (voters <? votes) eqn:E1; [split; [left; lia|eauto]|].
  destruct (PREC <? q) eqn:E2; [split; [right; lia|eauto]|].
  assert (R : dec_in_range (chop_round (dec_of_int voters * q)) = true).
  { apply dec_in_range_small.
    assert (0 <= chop_round (dec_of_int voters * q) <= voters * PREC).
    { apply chop_round_nonneg_bounds; unfold dec_of_int; unfold PREC in *; nia. }
    unfold PREC in *. change (2 ^ 315) with (2 ^ 64 * 2 ^ 251). change (2^64) with 18446744073709551616 in *.
    assert (1000000000000000000 < 2 ^ 251) by reflexivity. nia. }
  unfold dmul. rewrite R. simpl. split; [intros [e H]; discriminate|lia].
Qed.

Lemma process_quorum_panics_iff : forall q votes voters, 0 <= q -> 0 <= voters < 2 ^ 64 ->
  is_panic (process_quorum q votes voters) = true <-> (voters < votes \/ PREC < q).
Proof.
  intros q votes voters Hq Hv. rewrite <- (is_quorum_err_iff q votes voters Hq Hv).
  unfold process_quorum. destruct (is_quorum q votes voters) eqn:E; simpl.
  - split; [discriminate|intros [e H]; discriminate].
  - split; eauto.
  - exfalso. unfold is_quorum in E.
    destruct (voters <? votes); [discriminate|]. destruct (PREC <? q) eqn:E2; [discriminate|].
    assert (R : dec_in_range (chop_round (dec_of_int voters * q)) = true).
    { apply dec_in_range_small.
      assert (0 <= chop_round (dec_of_int voters * q) <= voters * PREC).
      { apply chop_round_nonneg_bounds; unfold dec_of_int; unfold PREC in *; nia. }
      unfold PREC in *. change (2 ^ 315) with (2 ^ 64 * 2 ^ 251). change (2^64) with 18446744073709551616 in *.
      assert (1000000000000000000 < 2 ^ 251) by reflexivity. nia. }
    unfold dmul in E. rewrite R in E. simpl in E. discriminate.
Qed.

(* votes come only from current holders: while nobody is revoked, votes stay a duplicate-free subset of
   the duplicate-free holder list, hence |votes| <= |holders| *)
Definition g_inv (s : gstate) : Prop :=
  NoDup s.(g_holders) /\ NoDup s.(g_votes) /\ incl s.(g_votes) s.(g_holders).

Lemma gstep_inv : forall s o, is_revoke o = false -> g_inv s -> g_inv (gstep s o).
Proof.
  intros s o Ho (H1 & H2 & H3). destruct o as [a|a|a]; simpl in *; [|discriminate|].
  - repeat split; [apply zadd_NoDup; assumption|assumption|].
    intros x Hx. apply zadd_In. right. auto.
  - destruct (zmem a (g_holders s)) eqn:E; [|repeat split; assumption].
    simpl. repeat split; [assumption|apply zadd_NoDup; assumption|].
    intros x Hx. apply zadd_In in Hx. destruct Hx as [->|Hx]; [apply zmem_In; assumption|auto].
Qed.

Lemma grun_inv : forall ops s, forallb is_revoke ops = false \/ True ->
  (forall o, In o ops -> is_revoke o = false) -> g_inv s -> g_inv (grun ops s).
Proof.
  induction ops as [|o ops IH]; intros s _ Hall Hs; [exact Hs|].
  simpl. apply IH; [right; exact I| |].
  - intros o' Ho'. apply Hall. right. assumption.
  - apply gstep_inv; [apply Hall; left; reflexivity|assumption].
Qed.

Lemma gov_never_panics_without_revocation : forall ops s q,
  g_inv s -> (forall o, In o ops -> is_revoke o = false) -> 0 <= q <= PREC ->
  Z.of_nat (List.length (g_holders (grun ops s))) < 2 ^ 64 ->
  is_panic (gprocess q (grun ops s)) = false.
Proof.
  intros ops s q Hs Hall Hq Hb.
  pose proof (grun_inv ops s (or_intror I) Hall Hs) as (H1 & H2 & H3).
  unfold gprocess. destruct (is_panic _) eqn:E; [|reflexivity].
  apply process_quorum_panics_iff in E; [|lia|lia].
  pose proof (NoDup_incl_length H2 H3). lia.
Qed.

(* the full statement (no restriction on the operations) is false: a voter is revoked after voting *)
Lemma gov_votes_gt_voters_refuted : exists ops s q, g_inv s /\ 0 <= q <= PREC /\
  gprocess q (grun ops s) = Panic "votes-gt-voters".
Proof.
  exists [GGrant 1; GGrant 2; GVote 1; GVote 2; GRevoke 1], (mkG [] []), 330000000000000000.
  split; [repeat split; try constructor; intros x []|]. split; [unfold PREC; lia|reflexivity].
Qed.

(* a dynamic (spending-pool) proposal takes the quorum from the pool record, which any account may create *)
Lemma gov_dynamic_quorum_refuted : exists q, process_quorum q 0 1 = Panic "quorum-gt-1".
Proof. exists (2 * PREC). reflexivity. Qed.

(* ------------------------------------------------------------------ spending EndBlocker *)
Definition psafe (B : Z) (p : spool) : Prop :=
  (sp_dyn p = true -> 0 < sp_period p < two63) /\ 0 <= sp_weight p <= B /\
  Forall (fun b => 0 <= b < amt_bound) (sp_bals p).

Lemma psafe_mono : forall B B' p, B <= B' -> psafe B p -> psafe B' p.
Proof. intros B B' p H (H1 & H2 & H3). repeat split; try tauto; lia. Qed.

Lemma as_int64_small : forall z, 0 <= z < two63 -> as_int64 z = z.
Proof.
  intros z H. unfold as_int64, wrap64. unfold two63, two64 in *.
  rewrite Z.mod_small by lia. destruct (z <? 9223372036854775808) eqn:E; lia.
Qed.

Lemma pool_rates_ok : forall den bals, 1 <= den -> Forall (fun b => 0 <= b < amt_bound) bals ->
  exists rs, pool_rates den bals = Ok rs.
Proof.
  intros den bals Hden H. induction H as [|b l Hb Hl IH]; [eexists; reflexivity|].
  destruct IH as [rs IH]. simpl.
  assert (Q : 0 <= Z.quot (dec_of_int b * PREC * PREC) den <= b * PREC * PREC * PREC).
  { unfold dec_of_int. assert (0 <= b * PREC * PREC * PREC) by (unfold PREC; lia).
    split; [apply Z.quot_pos; lia|].
    rewrite Z.quot_div_nonneg by lia. apply Z.div_le_upper_bound; [lia|]. unfold PREC in *; nia. }
  assert (C : 0 <= chop_round (Z.quot (dec_of_int b * PREC * PREC) den) <= b * PREC * PREC).
  { apply chop_round_nonneg_bounds; lia. }
  assert (R : dec_in_range (chop_round (Z.quot (dec_of_int b * PREC * PREC) den)) = true).
  { apply dec_in_range_small. rewrite pow2_315_split. unfold amt_bound in Hb.
    assert (PREC * PREC < 2 ^ 125) by reflexivity. unfold PREC in *.
    set (x := chop_round _) in *. clearbody x. clear Q Hl IH. rewrite Z.abs_eq by lia.
    assert (2 ^ 190 > 0) by reflexivity. nia. }
  unfold dquo. destruct (den =? 0) eqn:E; [lia|]. rewrite R. simpl.
  unfold new_dec_coin. destruct (chop_round _ <? 0) eqn:E2; [lia|]. simpl. rewrite IH. simpl. eauto.
Qed.

Lemma spend_pool_step_safe : forall g now p B, B <= 2 ^ 150 -> psafe B p ->
  exists p', spend_pool_step g now p = Ok p' /\ psafe B p'.
Proof.
  intros g now p B HB Hp. pose proof Hp as (H1 & H2 & H3). unfold spend_pool_step.
  destruct (sp_dyn p) eqn:D; simpl; [|eauto].
  destruct (now <? wrap64 (sp_period p + sp_last p)); [eauto|].
  destruct (sp_weight p =? 0) eqn:W; [eauto|].
  specialize (H1 eq_refl). rewrite as_int64_small by lia.
  assert (M : dec_of_int (sp_period p) * sp_weight p = (sp_period p * sp_weight p) * PREC) by (unfold dec_of_int; ring).
  assert (0 <= sp_period p * sp_weight p) by nia.
  assert (R : dec_in_range (sp_period p * sp_weight p) = true).
  { apply dec_in_range_small. rewrite Z.abs_eq by lia. unfold two63 in *.
    change (2 ^ 315) with (9223372036854775808 * 2 ^ 252). assert (2 ^ 150 < 2 ^ 252) by reflexivity. nia. }
  unfold dmul. rewrite M, chop_round_mul_exact by lia. rewrite R. simpl.
  assert (G : g && (sp_period p * sp_weight p <=? 0) = false).
  { apply Z.eqb_neq in W. destruct g; [|reflexivity]. simpl. apply Z.leb_gt. nia. }
  rewrite G.
  destruct (pool_rates_ok (sp_period p * sp_weight p) (sp_bals p)) as [rs Hrs]; [nia|assumption|].
  rewrite Hrs. simpl. eexists; split; [reflexivity|]. repeat split; simpl; try tauto; try lia.
Qed.

Lemma spend_endblock_safe : forall g now ps B, B <= 2 ^ 150 -> Forall (psafe B) ps ->
  exists ps', spend_endblock g now ps = Ok ps' /\ Forall (psafe B) ps'.
Proof.
  intros g now ps B HB H. induction H as [|p l Hp Hl IH]; [exists []; split; [reflexivity|constructor]|].
  destruct (spend_pool_step_safe g now p B HB Hp) as (p' & E & Hp').
  destruct IH as (l' & El & Hl'). simpl. rewrite E. simpl. rewrite El. simpl.
  eexists; split; [reflexivity|constructor; assumption].
Qed.

Lemma upd_Forall : forall {A} (P Q : A -> Prop) f i l, (forall x, P x -> Q x) -> (forall x, P x -> Q (f x)) ->
  Forall P l -> Forall Q (upd i f l).
Proof.
  intros A P Q f i l HPQ Hf H. revert i. induction H as [|x l Hx Hl IH]; intros i; [destruct i; constructor|].
  destruct i; simpl; constructor; auto. eapply Forall_impl; [|exact Hl]. auto.
Qed.

Lemma sstep_safe : forall g o ps B, B + 2 ^ 100 <= 2 ^ 150 -> 0 <= B -> sop_ok o = true -> Forall (psafe B) ps ->
  exists ps', sstep g (Ok ps) o = Ok ps' /\ Forall (psafe (B + 2 ^ 100)) ps'.
Proof.
  intros g o ps B HB HB0 Ho H. assert (P100 : 0 < 2 ^ 100) by reflexivity.
  assert (Hm : Forall (psafe (B + 2 ^ 100)) ps) by (eapply Forall_impl; [|exact H]; intros; eapply psafe_mono; [|eassumption]; lia).
  destruct o as [dyn period now|i w|i amt|now]; unfold sop_ok in Ho.
  - eexists; split; [reflexivity|]. apply Forall_app. split; [assumption|]. constructor; [|constructor].
    unfold psafe; cbn [sp_dyn sp_period sp_weight sp_bals sp_last]. split; [|split; [lia|constructor]].
    intros ->. cbn [negb orb] in Ho. lia.
  - eexists; split; [reflexivity|]. eapply upd_Forall; [| |exact H].
    + intros; eapply psafe_mono; [|eassumption]; lia.
    + intros p (H1 & H2 & H3). unfold psafe; cbn [sp_dyn sp_period sp_weight sp_bals sp_last]. repeat split; try tauto; lia.
  - eexists; split; [reflexivity|]. eapply upd_Forall; [| |exact H].
    + intros; eapply psafe_mono; [|eassumption]; lia.
    + intros p (H1 & H2 & H3). unfold psafe; cbn [sp_dyn sp_period sp_weight sp_bals sp_last]. repeat split; try tauto; try lia.
      constructor; [lia|assumption].
  - destruct (spend_endblock_safe g now ps (B + 2 ^ 100) HB Hm) as (ps' & E & H'). exists ps'. split; [exact E|assumption].
Qed.

Lemma srun_safe_gen : forall g ops ps B, 0 <= B -> B + Z.of_nat (List.length ops) * 2 ^ 100 <= 2 ^ 150 ->
  forallb sop_ok ops = true -> Forall (psafe B) ps ->
  exists ps', fold_left (sstep g) ops (Ok ps) = Ok ps' /\ Forall (psafe (B + Z.of_nat (List.length ops) * 2 ^ 100)) ps'.
Proof.
  intros g. induction ops as [|o ops IH]; intros ps B HB0 HB Hok H.
  - exists ps. split; [reflexivity|]. simpl. rewrite Z.add_0_r. assumption.
  - simpl in Hok. apply andb_prop in Hok as [Ho Hok]. assert (P100 : 0 < 2 ^ 100) by reflexivity.
    replace (Z.of_nat (List.length (o :: ops))) with (1 + Z.of_nat (List.length ops)) in * by (simpl List.length; lia).
    destruct (sstep_safe g o ps B ltac:(nia) HB0 Ho H) as (ps1 & E1 & H1).
    cbn [fold_left]. rewrite E1. destruct (IH ps1 (B + 2 ^ 100) ltac:(lia) ltac:(nia) Hok H1) as (ps' & E & H').
    exists ps'. split; [assumption|]. eapply Forall_impl; [|exact H']. intros; eapply psafe_mono; [|eassumption]. nia.
Qed.

(* every history of guarded operations (of up to 2^40 operations: the Dec overflow at 2^315 is the only
   thing the bound excludes) runs every end-blocker to completion *)
Lemma spend_history_never_panics : forall g ops, forallb sop_ok ops = true -> Z.of_nat (List.length ops) <= 2 ^ 40 ->
  exists ps, srun g ops = Ok ps.
Proof.
  intros g ops Hok Hlen. assert (2 ^ 40 * 2 ^ 100 <= 2 ^ 150) by (vm_compute; discriminate).
  destruct (srun_safe_gen g ops [] 0 ltac:(lia) ltac:(nia) Hok (Forall_nil _)) as (ps & E & _). eauto.
Qed.

(* the unguarded code: three reachable histories that stop the chain *)
Lemma spend_period_zero_refuted : exists ops, srun false ops = Panic "div-by-zero".
Proof. exists [SCreate true 0 100; SRegister 0 PREC; SDeposit 0 1000; SEnd 105]. reflexivity. Qed.
Lemma spend_period_wraps_refuted : exists ops, srun false ops = Panic "neg-deccoin".
Proof. exists [SCreate true (two64 - 1) 100; SRegister 0 PREC; SDeposit 0 1000; SEnd 105]. reflexivity. Qed.
Lemma spend_negative_weight_refuted : exists ops, srun false ops = Panic "neg-deccoin".
Proof. exists [SCreate true 1 100; SRegister 0 (- PREC); SDeposit 0 1000; SEnd 105]. reflexivity. Qed.

(* WITH the guard (the proposed fix: skip a pool whose denominator is not positive) the end-blocker
   completes on EVERY stored pool list -- no condition on signs, zero periods or wrap-around, only magnitudes *)
Lemma chop_round_mul_exact_any : forall k, chop_round (k * PREC) = k.
Proof.
  intros k. destruct (Z.leb_spec 0 k) as [H|H]; [apply chop_round_mul_exact; assumption|].
  unfold chop_round. assert (k * PREC < 0) by (unfold PREC; lia). destruct (k * PREC <? 0) eqn:E; [|lia].
  replace (- (k * PREC)) with ((- k) * PREC) by ring. unfold chop_round_pos.
  rewrite Z.mod_mul by (unfold PREC; lia). rewrite Z.div_mul by (unfold PREC; lia). simpl. lia.
Qed.
Lemma as_int64_bounds : forall z, - two63 <= as_int64 z < two63.
Proof.
  intros z. unfold as_int64, wrap64. pose proof (Z.mod_pos_bound z two64 ltac:(reflexivity)) as B.
  unfold two63, two64 in *. destruct (z mod 18446744073709551616 <? 9223372036854775808) eqn:E; lia.
Qed.
Lemma spend_pool_step_guarded : forall now p, pool_bounded p = true -> exists p', spend_pool_step true now p = Ok p'.
Proof.
  intros now p H. unfold pool_bounded in H. repeat (apply andb_prop in H as [H ?]).
  unfold spend_pool_step. destruct (negb (sp_dyn p)); [eauto|].
  destruct (now <? wrap64 (sp_period p + sp_last p)); [eauto|]. destruct (sp_weight p =? 0); [eauto|].
  pose proof (as_int64_bounds (sp_period p)) as Bp. set (k := as_int64 (sp_period p)) in *.
  assert (M : dec_of_int k * sp_weight p = (k * sp_weight p) * PREC) by (unfold dec_of_int; ring).
  assert (Habs : Z.abs (k * sp_weight p) < 2 ^ 315).
  { rewrite Z.abs_mul. assert (Z.abs k <= two63) by lia. assert (Z.abs (sp_weight p) < 2 ^ 150) by lia.
    unfold two63 in *. change (2 ^ 315) with (9223372036854775808 * 2 ^ 252). assert (2 ^ 150 < 2 ^ 252) by reflexivity.
    assert (0 <= Z.abs (sp_weight p)) by apply Z.abs_nonneg. nia. }
  unfold dmul. rewrite M, chop_round_mul_exact_any. rewrite (dec_in_range_small _ Habs). simpl.
  destruct (k * sp_weight p <=? 0) eqn:E; [eauto|].
  destruct (pool_rates_ok (k * sp_weight p) (sp_bals p)) as [rs Hrs]; [lia| |rewrite Hrs; simpl; eauto].
  apply Forall_forall. intros b Hb. rewrite forallb_forall in H0. specialize (H0 b Hb). lia.
Qed.
Lemma spend_endblock_guarded_never_panics : forall now ps, forallb pool_bounded ps = true ->
  is_panic (spend_endblock true now ps) = false.
Proof.
  intros now ps. induction ps as [|p l IH]; intros H; [reflexivity|].
  simpl in H. apply andb_prop in H as [Hp Hl]. cbn [spend_endblock].
  destruct (spend_pool_step_guarded now p Hp) as [p' E]. rewrite E. cbn [bind].
  specialize (IH Hl). destruct (spend_endblock true now l); simpl in *; congruence.
Qed.
(* and the three histories that stop the unguarded chain run through *)
Lemma spend_refuted_histories_fixed_by_guard :
  is_ok (srun true [SCreate true 0 100; SRegister 0 PREC; SDeposit 0 1000; SEnd 105]) = true /\
  is_ok (srun true [SCreate true (two64 - 1) 100; SRegister 0 PREC; SDeposit 0 1000; SEnd 105]) = true /\
  is_ok (srun true [SCreate true 1 100; SRegister 0 (- PREC); SDeposit 0 1000; SEnd 105]) = true.
Proof. repeat split; reflexivity. Qed.

(* ------------------------------------------------------------------ proposal enactment *)
(* content whose Apply panics on EVERY state fails the submission (the dry run), so it is never enacted *)
Lemma input_only_panics_filtered : forall {S} (h : S -> outcome S),
  (forall s, is_panic (h s) = true) -> forall s1 s2, lifecycle h s1 s2 = None.
Proof.
  intros S h H s1 s2. unfold lifecycle, submit_accepts. specialize (H s1). destruct (h s1); simpl in *; congruence.
Qed.
(* more generally: if whether Apply panics does not depend on the state, an accepted proposal never panics at enactment *)
Lemma state_independent_panics_filtered : forall {S} (h : S -> outcome S),
  (forall s s', is_panic (h s) = is_panic (h s')) ->
  forall s1 s2 o, lifecycle h s1 s2 = Some o -> is_panic o = false.
Proof.
  intros S h H s1 s2 o. unfold lifecycle, submit_accepts, apply_proposal.
  destruct (h s1) eqn:E1; simpl; try discriminate. intros [= <-].
  specialize (H s1 s2). rewrite E1 in H. simpl in H. destruct (h s2); simpl in *; congruence.
Qed.
(* enactment on the very state of the dry run is safe *)
Lemma enact_same_state_safe : forall {S} (h : S -> outcome S) s o, lifecycle h s s = Some o -> is_panic o = false.
Proof.
  intros S h s o. unfold lifecycle, submit_accepts, apply_proposal. destruct (h s); simpl; try discriminate. intros [= <-]. reflexivity.
Qed.

Lemma withdraw_safe : forall n amt modbal poolbal, 0 <= amt -> Z.of_nat n * amt <= poolbal ->
  is_panic (withdraw_loop n modbal poolbal amt) = false.
Proof.
  induction n as [|n IH]; intros amt modbal poolbal Ha Hp; [reflexivity|].
  simpl withdraw_loop. destruct (amt =? 0) eqn:E0; [apply IH; nia|].
  destruct (modbal <? amt); [reflexivity|]. destruct (poolbal <? amt) eqn:E; [nia|]. apply IH; nia.
Qed.
(* state-dependent panic: accepted at submission, the pool is drained by a claim, enactment panics *)
Lemma withdraw_drained_refuted : exists n amt s1 s2,
  lifecycle (withdraw_handler n amt) s1 s2 = Some (Panic "neg-coin").
Proof. exists 1%nat, 900, (500000001000, 1000), (500000000500, 500). reflexivity. Qed.

(* the claim made at enactment covers more time than the one of the dry run *)
Lemma distribution_outgrows_pool_refuted : exists poolbal rate w cstart last now1 now2 cend expiry,
  now1 <= now2 /\
  lifecycle (fun pb => claim pb rate w cstart last now1 cend expiry) poolbal poolbal = Some (Ok (poolbal - 3000)) /\
  lifecycle (fun pb => claim pb rate w cstart last now1 cend expiry) poolbal poolbal <> None /\
  apply_proposal (fun pb => claim pb rate w cstart last now2 cend expiry) poolbal = Panic "neg-coin".
Proof.
  exists 5000, (1000 * PREC), PREC, 0, 1700000005, 1700000008, 1700000031, 0, 1000000.
  split; [lia|]. split; [vm_compute; reflexivity|]. split; [vm_compute; discriminate|vm_compute; reflexivity].
Qed.

(* UBI: the amount is never checked against int64; with amount = 2^63 the hard-cap product wraps to 0 *)
Lemma ubi_mint_safe : forall amount, 0 <= amount < two63 -> is_panic (ubi_mint amount) = false.
Proof.
  intros amount H. unfold ubi_mint. rewrite as_int64_small by assumption.
  destruct (amount * 1000000 <? 0) eqn:E; [lia|reflexivity].
Qed.
Lemma ubi_amount_wraps_refuted : exists ubi_sum amount period hardcap, 0 <= amount < two64 /\
  is_ok (ubi_apply ubi_sum amount period hardcap) = true /\ ubi_mint amount = Panic "neg-coin".
Proof. exists 0, two63, 86400, 6000000. split; [unfold two63, two64; lia|]. split; vm_compute; reflexivity. Qed.
Lemma ubi_period_zero_filtered : forall ubi_sum amount hardcap s1 s2,
  lifecycle (fun _ : unit => do _ <- ubi_apply ubi_sum amount 0 hardcap; Ok tt) s1 s2 = None.
Proof. intros. apply input_only_panics_filtered. intros []. reflexivity. Qed.

(* ------------------------------------------------------------------ staking validator-set updates *)
Lemma forallb_zmem : forall l vals, forallb (fun v => zmem v vals) l = true <-> incl l vals.
Proof.
  intros l vals. rewrite forallb_forall. split; intros H x Hx; [apply zmem_In; auto|apply zmem_In; auto].
Qed.
Lemma v_inv_spec : forall s, v_inv s = true <-> incl (v_removing s) (v_vals s) /\ incl (v_reactivating s) (v_vals s).
Proof. intros s. unfold v_inv. rewrite Bool.andb_true_iff, !forallb_zmem. tauto. Qed.

Lemma vstep_inv : forall st o, v_inv st = true -> exists st', vstep (Ok st) o = Ok st' /\ v_inv st' = true.
Proof.
  intros st o H. pose proof H as H0. apply v_inv_spec in H as [H1 H2].
  assert (K : forall v, (zmem v (v_vals st) = true ->
             exists st', Ok (mkV (v_vals st) (zadd v (v_removing st)) (zremove v (v_reactivating st))) = Ok st' /\ v_inv st' = true)).
  { intros v E. eexists; split; [reflexivity|]. apply v_inv_spec; simpl. split.
    - intros x Hx. apply zadd_In in Hx as [->|Hx]; [apply zmem_In; assumption|auto].
    - intros x Hx. apply zremove_In in Hx. auto. }
  destruct o as [v|v|v|v|v|]; simpl.
  - eexists; split; [reflexivity|]. apply v_inv_spec; simpl. split; intros x Hx; apply zadd_In; right; auto.
  - destruct (zmem v (v_vals st)) eqn:E; [apply K; assumption|eauto].
  - destruct (zmem v (v_vals st)) eqn:E; [apply K; assumption|eauto].
  - destruct (zmem v (v_vals st)) eqn:E; [apply K; assumption|eauto].
  - destruct (zmem v (v_vals st)) eqn:E; [|eauto]. eexists; split; [reflexivity|]. apply v_inv_spec; simpl. split.
    + intros x Hx. apply zremove_In in Hx. auto.
    + intros x Hx. apply zadd_In in Hx as [->|Hx]; [apply zmem_In; assumption|auto].
  - unfold vend. unfold v_inv in H0. rewrite H0. eexists; split; [reflexivity|]. reflexivity.
Qed.

Lemma staking_updates_never_panic : forall ops s, v_inv s = true -> exists s', vrun ops s = Ok s' /\ v_inv s' = true.
Proof.
  unfold vrun. intros ops. induction ops as [|o1 ops1 IH]; intros s H; [exists s; split; [reflexivity|assumption]|].
  cbn [fold_left]. destruct (vstep_inv s o1 H) as (s1 & E & H1). rewrite E. apply IH. assumption.
Qed.
(* the invariant matters: a queue entry without a validator record stops the chain *)
Lemma staking_orphan_queue_entry_panics : vend (mkV [1] [2] []) = Panic "validator-not-found".
Proof. reflexivity. Qed.

(* ------------------------------------------------------------------ fee collector *)
Lemma allocate_never_panics : forall collector treasury power snap share,
  0 <= treasury -> 0 <= collector < 2 ^ 200 -> 0 < snap -> 0 <= power <= snap -> 0 <= share ->
  is_panic (allocate collector treasury power snap share) = false.
Proof.
  intros collector treasury power snap share Ht Hc Hs Hp Hsh. unfold allocate.
  set (fees := if treasury <=? collector then collector - treasury else 0).
  assert (Hf : 0 <= fees <= collector) by (subst fees; destruct (treasury <=? collector) eqn:E; lia).
  destruct (snap =? 0) eqn:E0; [lia|].
  set (cut := Z.quot (fees * power) snap).
  assert (Hcut : 0 <= cut <= fees).
  { subst cut. rewrite Z.quot_div_nonneg by nia. split; [apply Z.div_pos; nia|]. apply Z.div_le_upper_bound; nia. }
  set (sh := if PREC <? share then PREC else share).
  assert (Hsh' : 0 <= sh <= PREC) by (subst sh; destruct (PREC <? share) eqn:E; unfold PREC in *; lia).
  assert (C : 0 <= chop_round (dec_of_int cut * sh) <= cut * PREC).
  { apply chop_round_nonneg_bounds; unfold dec_of_int; unfold PREC in *; nia. }
  assert (R : dec_in_range (chop_round (dec_of_int cut * sh)) = true).
  { apply dec_in_range_small. rewrite Z.abs_eq by lia. change (2 ^ 315) with (2 ^ 200 * 2 ^ 115).
    assert (PREC < 2 ^ 115) by reflexivity. assert (0 < 2 ^ 200) by reflexivity. unfold PREC in *. nia. }
  unfold dmul. rewrite R. simpl.
  assert (C2 : 0 <= round_int (chop_round (dec_of_int cut * sh)) <= cut).
  { unfold round_int. apply chop_round_nonneg_bounds; lia. }
  unfold pay_from_collector. destruct (_ <=? 0); [reflexivity|].
  destruct (collector <? _) eqn:E; [lia|reflexivity].
Qed.
(* crediting more than the collector holds (C04 / C10 over-crediting) is what makes these sites reachable *)
Lemma collector_shortfall_panics : forall collector amount, 0 < amount -> collector < amount ->
  pay_from_collector collector amount = Panic "insufficient-funds".
Proof. intros. unfold pay_from_collector. destruct (amount <=? 0) eqn:E; [lia|]. destruct (collector <? amount) eqn:E2; [reflexivity|lia]. Qed.

(* one staked denom with cap <= 1: the credit never exceeds the reward, the collector (which received the reward) covers it *)
Lemma credit_one_le : forall reward cap, 0 <= reward < 2 ^ 200 -> 0 <= cap <= PREC ->
  exists c, credit_one reward cap = Ok c /\ 0 <= c <= reward.
Proof.
  intros reward cap Hr Hc. unfold credit_one.
  assert (C : 0 <= chop_round (dec_of_int reward * cap) <= reward * PREC).
  { apply chop_round_nonneg_bounds; unfold dec_of_int; unfold PREC in *; nia. }
  assert (R : dec_in_range (chop_round (dec_of_int reward * cap)) = true).
  { apply dec_in_range_small. rewrite Z.abs_eq by lia. change (2 ^ 315) with (2 ^ 200 * 2 ^ 115).
    assert (PREC < 2 ^ 115) by reflexivity. assert (0 < 2 ^ 200) by reflexivity. unfold PREC in *. nia. }
  unfold dmul. rewrite R. cbn [relabel bind]. eexists; split; [reflexivity|].
  unfold round_int. apply chop_round_nonneg_bounds; lia.
Qed.
(* two staked denoms whose caps sum to 1: per-denom rounding credits reward+1, and paying that credit out of a
   collector that received exactly the reward panics (autocompound / claim / proposer payout) *)
Lemma overcredit_shortfall_refuted : exists reward cap1 cap2, cap1 + cap2 = PREC /\
  credit_two reward cap1 cap2 = Ok (reward + 1) /\ pay_from_collector reward (reward + 1) = Panic "insufficient-funds".
Proof. exists 3, HALF, HALF. split; [reflexivity|]. split; vm_compute; reflexivity. Qed.

(* recovery holders: with exact-denom listing (duplicate-free holders whose balances sum to at most the supply) the
   truncated allocations never exceed the amount *)
Lemma rr_sum_floor_le : forall amount supply (bal : Z -> Z) (l : list Z), 0 <= amount -> 0 < supply -> (forall h, 0 <= bal h) ->
  zsum (map (fun h => Z.quot (amount * bal h) supply) l) * supply <= amount * zsum (map bal l)
  /\ 0 <= zsum (map (fun h => Z.quot (amount * bal h) supply) l).
Proof.
  intros amount supply bal l Ha Hs Hb. induction l as [|h l [IH1 IH2]]; [simpl; lia|].
  cbn [map zsum fold_right]. fold (zsum (map (fun h0 => Z.quot (amount * bal h0) supply) l)). fold (zsum (map bal l)).
  specialize (Hb h). assert (0 <= amount * bal h) by nia.
  rewrite Z.quot_div_nonneg by lia.
  pose proof (Z.mul_div_le (amount * bal h) supply Hs). pose proof (Z.div_pos (amount * bal h) supply ltac:(lia) Hs). nia.
Qed.
Lemma rr_allocate_safe : forall amount supply bal listed, 0 <= amount -> 0 < supply -> (forall h, 0 <= bal h) ->
  zsum (map bal listed) <= supply -> is_panic (rr_allocate amount supply bal listed) = false.
Proof.
  intros amount supply bal listed Ha Hs Hb Hsum. unfold rr_allocate.
  destruct (rr_sum_floor_le amount supply bal listed Ha Hs Hb) as [H1 H2].
  destruct (amount <? _) eqn:E; [|reflexivity]. exfalso. apply Z.ltb_lt in E. nia.
Qed.
Lemma rr_by_flag : forall b : bool,
  if b then (forall d, rr_listed b d [("rr/node1"%string, 4); ("rr/node10"%string, 4)] = (if String.eqb d "rr/node1"%string then [4] else if String.eqb d "rr/node10"%string then [4] else []))
  else (exists index bal, rr_listed b "rr/node1"%string index = [4; 4] /\ (forall h, 0 <= bal h) /\ bal 4 <= 10 /\
        rr_allocate 51 10 bal (rr_listed b "rr/node1"%string index) = Panic "neg-coin").
Proof.
  intros [|].
  - intros d. unfold rr_listed. cbn [filter fst snd map]. destruct (String.eqb "rr/node1"%string d) eqn:E1.
    + apply String.eqb_eq in E1. subst d. reflexivity.
    + rewrite String.eqb_sym in E1. rewrite E1. destruct (String.eqb "rr/node10"%string d) eqn:E2.
      * apply String.eqb_eq in E2. subst d. reflexivity.
      * rewrite String.eqb_sym in E2. rewrite E2. reflexivity.
  - exists [("rr/node1"%string, 4); ("rr/node10"%string, 4)], (fun _ => 6). split; [reflexivity|]. split; [intros; lia|]. split; [lia|]. vm_compute. reflexivity.
Qed.

(* rotation onto an existing actor and away again orphans that actor's index entries; refusing such a target keeps the history whole *)
Definition rot_hist (refuse : bool) : astate :=
  let s0 := mkA [(1, [7]); (9, [5])] [(7, 1); (5, 9)] in      (* validator owner 1 holds permission 7, the unused address 9 holds 5 *)
  a_rotate refuse (a_rotate refuse s0 1 9) 9 20.               (* 1 -> 9 (onto the actor), then 9 -> 20 (away) *)
Lemma rotation_by_flag : forall b : bool,
  if b then (a_enumerate 5 (a_actors (rot_hist b)) (a_index (rot_hist b)) = Ok [20] /\ a_enumerate 7 (a_actors (rot_hist b)) (a_index (rot_hist b)) = Ok [1])
  else a_enumerate 5 (a_actors (rot_hist b)) (a_index (rot_hist b)) = Panic "actor-missing".
Proof. intros [|]; vm_compute; [split; reflexivity|reflexivity]. Qed.

(* ------------------------------------------------------------------ upgrade: the only deliberate stop *)
Lemma upgrade_halt_only_when_due : forall due processed instate h skip,
  is_panic (upgrade_begin due processed instate h skip) = true -> due = true /\ processed = true.
Proof. intros [] [] [] [] []; simpl; intros; try discriminate; auto. Qed.

(* ------------------------------------------------------------------ one block of the modelled modules *)
Definition world_inv (w : world) : Prop :=
  Forall (fun qg => 0 <= fst qg <= PREC /\ g_inv (snd qg) /\ Z.of_nat (List.length (g_holders (snd qg))) < 2 ^ 64) (w_due w)
  /\ v_inv (w_val w) = true /\ Forall (psafe (2 ^ 150)) (w_pools w).

Lemma gov_endblock_safe : forall l,
  Forall (fun qg => 0 <= fst qg <= PREC /\ g_inv (snd qg) /\ Z.of_nat (List.length (g_holders (snd qg))) < 2 ^ 64) l ->
  gov_endblock l = Ok tt.
Proof.
  intros l H. induction H as [|[q g] l (Hq & Hg & Hb) Hl IH]; [reflexivity|]. simpl in *.
  pose proof (gov_never_panics_without_revocation [] g q Hg (fun o H => match H with end) Hq Hb) as P. simpl in P.
  unfold gprocess in *. destruct (process_quorum _ _ _) eqn:E; simpl in *; try discriminate; [assumption|].
  exfalso. unfold process_quorum in E. destruct (is_quorum _ _ _); discriminate.
Qed.

Lemma blocks_never_panic : forall g now w, world_inv w ->
  exists w', end_block g now w = Ok w' /\ world_inv w'.
Proof.
  intros g now w (Hg & Hv & Hp). unfold end_block. rewrite (gov_endblock_safe _ Hg). simpl.
  unfold vend. unfold v_inv in Hv. rewrite Hv. simpl.
  destruct (spend_endblock_safe g now (w_pools w) (2 ^ 150) ltac:(lia) Hp) as (ps & E & Hps). rewrite E. simpl.
  eexists; split; [reflexivity|]. repeat split; simpl; [constructor|assumption].
Qed.

Lemma blocks_never_panic_refuted : exists now w, v_inv (w_val w) = true /\ end_block false now w = Panic "div-by-zero".
Proof. exists 105, (mkW [] (mkV [] [] []) [mkSpool true 0 100 PREC [1000]]). split; reflexivity. Qed.

(* ------------------------------------------------------------------ the steps as the tree has them (flags regenerated by gen_panics) *)
Lemma is_quorum_never_panics : forall q votes voters, 0 <= q -> 0 <= voters < 2 ^ 64 ->
  is_panic (is_quorum q votes voters) = false.
Proof.
  intros q votes voters Hq Hv. unfold is_quorum.
  destruct (voters <? votes); [reflexivity|]. destruct (PREC <? q) eqn:E2; [reflexivity|].
  assert (R : dec_in_range (chop_round (dec_of_int voters * q)) = true).
  { apply dec_in_range_small.
    assert (0 <= chop_round (dec_of_int voters * q) <= voters * PREC).
    { apply chop_round_nonneg_bounds; unfold dec_of_int; unfold PREC in *; nia. }
    unfold PREC in *. change (2 ^ 315) with (2 ^ 64 * 2 ^ 251). change (2^64) with 18446744073709551616 in *.
    assert (1000000000000000000 < 2 ^ 251) by reflexivity. nia. }
  unfold dmul. rewrite R. reflexivity.
Qed.
(* with the IsQuorum error treated as "quorum not reached" NO vote/voter combination panics *)
Lemma process_quorum_off_never_panics : forall q votes voters, 0 <= q -> 0 <= voters < 2 ^ 64 ->
  is_panic (process_quorum_on false q votes voters) = false.
Proof.
  intros q votes voters Hq Hv. pose proof (is_quorum_never_panics q votes voters Hq Hv) as H.
  unfold process_quorum_on. destruct (is_quorum q votes voters); simpl in *; congruence.
Qed.
Lemma quorum_by_flag : forall b : bool,
  if b then (exists q votes voters, 0 <= q <= PREC /\ 0 <= voters < 2 ^ 64 /\ is_panic (process_quorum_on b q votes voters) = true)
  else (forall q votes voters, 0 <= q -> 0 <= voters < 2 ^ 64 -> is_panic (process_quorum_on b q votes voters) = false).
Proof.
  intros [|]; [|exact process_quorum_off_never_panics].
  exists 330000000000000000, 2, 1. split; [unfold PREC; lia|]. split; [lia|reflexivity].
Qed.
Lemma withdraw_checked_never_panics : forall n modbal poolbal amt, is_panic (withdraw_loop_checked n modbal poolbal amt) = false.
Proof.
  induction n as [|n IH]; intros; [reflexivity|]. simpl. destruct (amt =? 0); [apply IH|].
  destruct (modbal <? amt); [reflexivity|]. destruct (poolbal <? amt); [reflexivity|apply IH].
Qed.
Lemma withdraw_by_flag : forall b : bool,
  if b then (exists n amt s1 s2, lifecycle (withdraw_handler_on b n amt) s1 s2 = Some (Panic "neg-coin"))
  else (forall n amt s, is_panic (apply_proposal (withdraw_handler_on b n amt) s) = false).
Proof.
  intros [|].
  - exists 1%nat, 900, (500000001000, 1000), (500000000500, 500). reflexivity.
  - intros n amt [m p]. unfold apply_proposal, withdraw_handler_on. cbn [fst snd].
    pose proof (withdraw_checked_never_panics n m p amt) as H.
    destruct (withdraw_loop_checked n m p amt); simpl in *; congruence.
Qed.
(* the checked claim never raises the coin panics (only the 315-bit Dec overflow remains) *)
Lemma relabel_dmul_cases : forall a b, (exists r, relabel (dmul a b) = Ok r) \/ relabel (dmul a b) = Panic "int-overflow".
Proof. intros a b. unfold dmul. destruct (dec_in_range _); [left; simpl; eexists; reflexivity|right; reflexivity]. Qed.
Lemma claim_checked_no_coin_panic : forall poolbal rate w cstart last now cend expiry,
  claim_checked poolbal rate w cstart last now cend expiry <> Panic "neg-coin".
Proof.
  intros. unfold claim_checked. destruct (w =? 0); [discriminate|].
  destruct (_ <=? _); [discriminate|].
  destruct (relabel_dmul_cases rate (dec_of_int (Z.min ((if negb (cend =? 0) && (cend <? now) then cend else now) - Z.max cstart last) expiry))) as [[r ->]| ->]; [|discriminate].
  cbn [bind]. destruct (relabel_dmul_cases r w) as [[r2 ->]| ->]; [|discriminate]. cbn [bind].
  destruct (_ <? 0); [discriminate|]. destruct (_ <? _); discriminate.
Qed.
Lemma claim_by_flag : forall b : bool,
  if b then (exists poolbal rate w cstart last now cend expiry, claim_on b poolbal rate w cstart last now cend expiry = Panic "neg-coin")
  else (forall poolbal rate w cstart last now cend expiry, claim_on b poolbal rate w cstart last now cend expiry <> Panic "neg-coin").
Proof.
  intros [|]; [|exact claim_checked_no_coin_panic].
  exists 5000, (1000 * PREC), PREC, 0, 1700000005, 1700000031, 0, 1000000. vm_compute. reflexivity.
Qed.
(* the same for the dynamic-rate claim: the guarded code returns an error on a negative duration *)
Lemma claim_dyn_checked_no_coin_panic : forall poolbal rate w cstart last now cend expiry dyn lastcalc,
  claim_dyn false poolbal rate w cstart last now cend expiry dyn lastcalc <> Panic "neg-coin".
Proof.
  intros. unfold claim_dyn. destruct (w =? 0); [discriminate|].
  destruct (_ <=? _); [discriminate|].
  match goal with |- context [relabel (dmul rate ?d)] => destruct (relabel_dmul_cases rate d) as [[r ->]| ->]; [|discriminate] end.
  cbn [bind]. destruct (relabel_dmul_cases r w) as [[r2 ->]| ->]; [|discriminate]. cbn [bind].
  destruct (_ <? 0); [discriminate|]. destruct (_ <? _); discriminate.
Qed.
(* TIME dimension: the dry run (before the claim end) succeeds, the rate is recalculated after the claim end,
   enactment computes a negative duration: without the amount guard sdk.NewCoin panics *)
Lemma claim_negative_duration_refuted : exists poolbal rate w cstart last now1 now2 cend expiry lastcalc1 lastcalc2,
  now1 <= cend /\ cend < lastcalc2 <= now2 /\
  is_ok (claim_dyn true poolbal rate w cstart last now1 cend expiry true lastcalc1) = true /\
  claim_dyn true poolbal rate w cstart last now2 cend expiry true lastcalc2 = Panic "neg-coin".
Proof.
  exists 1000000, PREC, PREC, 0, 1700000010, 1700000020, 1700000100, 1700000050, 1000000, 1700000005, 1700000060.
  split; [lia|]. split; [lia|]. split; vm_compute; reflexivity.
Qed.
Lemma claim_dyn_by_flag : forall b : bool,
  if b then (exists poolbal rate w cstart last now cend expiry dyn lastcalc, claim_dyn b poolbal rate w cstart last now cend expiry dyn lastcalc = Panic "neg-coin")
  else (forall poolbal rate w cstart last now cend expiry dyn lastcalc, claim_dyn b poolbal rate w cstart last now cend expiry dyn lastcalc <> Panic "neg-coin").
Proof.
  intros [|]; [|exact claim_dyn_checked_no_coin_panic].
  exists 1000000, PREC, PREC, 0, 1700000010, 1700000100, 1700000050, 1000000, true, 1700000060. vm_compute. reflexivity.
Qed.
Lemma ubi_by_flag : forall b : bool,
  if b then (exists amount, 0 <= amount < two64 /\ ubi_mint_on b amount = Panic "neg-coin")
  else (forall amount, is_panic (ubi_mint_on b amount) = false).
Proof. intros [|]; [exists two63; split; [unfold two63, two64; lia|reflexivity]|reflexivity]. Qed.
Lemma ubi_apply_by_flag : forall b : bool,
  if b then (exists s a h, ubi_apply_on b s a 0 h = Panic "div-by-zero")
  else (forall s a p h, is_panic (ubi_apply_on b s a p h) = false).
Proof.
  intros [|]; [exists 0, 1, 1; reflexivity|]. intros s a p h. unfold ubi_apply_on, ubi_apply_exact.
  destruct (p =? 0); [reflexivity|]. destruct (h <? _); reflexivity.
Qed.
Lemma spend_by_flag : forall b : bool,
  if b then (forall now ps, forallb pool_bounded ps = true -> is_panic (spend_endblock b now ps) = false)
  else (exists ops, srun b ops = Panic "div-by-zero").
Proof. intros [|]; [exact spend_endblock_guarded_never_panics|exact spend_period_zero_refuted]. Qed.

(* one EndBlock of gov + staking + spending with the guard: NO condition on the pools beyond magnitudes *)
Lemma blocks_never_panic_guarded : forall now w,
  Forall (fun qg => 0 <= fst qg <= PREC /\ g_inv (snd qg) /\ Z.of_nat (List.length (g_holders (snd qg))) < 2 ^ 64) (w_due w) ->
  v_inv (w_val w) = true -> forallb pool_bounded (w_pools w) = true ->
  is_panic (end_block true now w) = false.
Proof.
  intros now w Hg Hv Hp. unfold end_block. rewrite (gov_endblock_safe _ Hg). cbn [bind].
  unfold vend. unfold v_inv in Hv. rewrite Hv. cbn [bind].
  pose proof (spend_endblock_guarded_never_panics now (w_pools w) Hp) as H.
  destruct (spend_endblock true now (w_pools w)); simpl in *; congruence.
Qed.

(* ------------------------------------------------------------------ the spec checker accepts exactly the non-panicking model runs *)
Lemma c06_chk_sound : forall {A} due site (o : outcome A),
  blk_clauses (mkBlk due PhOk [] (obs_of site o) PhOk) = [] <-> is_panic o = false.
Proof. intros A due site [a|e|m]; simpl; split; intros; try reflexivity; try discriminate. Qed.
Lemma c06_chk_accepts_upgrade_halt : forall due processed instate h skip,
  blk_clauses (mkBlk due (obs_of "x.upgrade.keeper.Keeper.ApplyUpgradePlan" (upgrade_begin due processed instate h skip)) [] PhOk PhOk) = [].
Proof. intros [] [] [] [] []; reflexivity. Qed.
Lemma c06_chk_rejects_other_begin_panics : forall site cls,
  blk_clauses (mkBlk false (PhPanic site cls) [] PhOk PhOk) <> [].
Proof. intros. simpl. discriminate. Qed.
