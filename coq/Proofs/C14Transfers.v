(* C14 -- the table of account-to-account transfer call sites, regenerated from x/*/keeper/*.go
   (Gen/TransferSites.v), against the reviewed table: which handler can hand a token to another
   account, where the coins come from, and whether the freeze filter of the current tree
   (Gen/AnteChain.v, [sh_bw_types gen_shape]) inspects the handler's message type. *)
From Sekai Require Import Base.Prelude Model.Filters Gen.AnteChain Gen.TransferSites.

Definition site := (string * string * string * string)%type.
Definition site_mod (s : site) := fst (fst (fst s)).
Definition site_fn (s : site) := snd (fst (fst s)).
Definition site_type (s : site) := snd (fst s).
Definition site_class (s : site) := snd s.

(* the table as reviewed by hand (bank MsgSend / MsgMultiSend are SDK handlers, outside x/) *)
Definition reviewed_sites : list site := [
  ("collectives", "WithdrawCollective", "", "derived");       (* collective escrow -> contributor, bonds recorded at deposit *)
  ("collectives", "WithdrawCollective", "", "derived");
  ("collectives", "CreateCollective", "create_collective", "caller");      (* signer -> collective escrow address *)
  ("collectives", "ContributeCollective", "bond_collective", "caller");    (* signer -> collective escrow address *)
  ("collectives", "ContributeCollective", "bond_collective", "caller");    (* escrow -> donation escrow *)
  ("collectives", "DonateCollective", "donate_collective", "caller");      (* escrow <-> donation escrow *)
  ("collectives", "DonateCollective", "donate_collective", "caller");
  ("custody", "ApproveTransaction", "add_to_custody_custodians", "caller"); (* release of a parked custody send (its Type() names another message) *)
  ("custody", "sendReward", "", "caller");                                  (* reward of a parked custody send -> custodian *)
  ("custody", "Send", "custody_send", "caller");                            (* modelled: MCustody *)
  ("custody", "PasswordConfirm", "password_confirm_transaction", "caller"); (* release of a parked custody send *)
  ("ethereum", "Relay", "create_custody", "caller");                        (* relayed bank MsgSend (its Type() names another message) *)
  ("layer2", "MintIssueTx", "mint_issue_tx", "native");                     (* minting fee -> token owner, native only *)
  ("recovery", "RotateRecoveryAddress", "rotate_recovery_address", "balances"); (* whole balance -> rotated address *)
  ("tokens", "EthereumTx", "ethereum_tx", "native")                         (* modelled: MEth, native only *)
]%string.

(* a site can carry a frozen token to another account unless it is native-only or its message type
   is inspected by the freeze filter *)
Definition site_filtered (sh : shape) (s : site) : bool :=
  (String.eqb (site_class s) "native" || str_in (site_type s) (sh_bw_types sh))%bool.
Definition unfiltered (sh : shape) (l : list site) : list (string * string) :=
  map (fun s => (site_mod s, site_fn s)) (filter (fun s => negb (site_filtered sh s)) l).

(* handlers through which, on the tree as reviewed, a frozen token can still reach another account
   (bank MsgMultiSend, an SDK handler, is the sixth path; see C14_frozen_never_moves_refuted) *)
Definition reviewed_unfiltered : list (string * string) := [
  ("collectives", "WithdrawCollective"); ("collectives", "WithdrawCollective"); ("collectives", "CreateCollective");
  ("collectives", "ContributeCollective"); ("collectives", "ContributeCollective");
  ("collectives", "DonateCollective"); ("collectives", "DonateCollective");
  ("custody", "ApproveTransaction"); ("custody", "sendReward"); ("custody", "Send"); ("custody", "PasswordConfirm");
  ("ethereum", "Relay"); ("recovery", "RotateRecoveryAddress")]%string.

Fixpoint pair_in (x : string * string) (l : list (string * string)) : bool :=
  match l with [] => false | y :: r => ((String.eqb (fst x) (fst y) && String.eqb (snd x) (snd y)) || pair_in x r)%bool end.

(* the regenerated table is the reviewed one: no transfer path has appeared or changed origin *)
Lemma transfer_table_reviewed : transfer_gen_errors = [] /\ transfer_sites = reviewed_sites.
Proof. vm_compute. auto. Qed.

(* every path the current filter leaves open is one of the reviewed (known) ones *)
Lemma unfiltered_paths_known : forallb (fun p => pair_in p reviewed_unfiltered) (unfiltered gen_shape transfer_sites) = true.
Proof. vm_compute. reflexivity. Qed.

(* the two transfer messages the model represents beside the SDK's bank messages are in the table *)
Lemma modelled_paths_in_table :
  existsb (fun s => String.eqb (site_type s) "custody_send" && String.eqb (site_class s) "caller")%bool transfer_sites = true /\
  existsb (fun s => String.eqb (site_type s) "ethereum_tx" && String.eqb (site_class s) "native")%bool transfer_sites = true.
Proof. vm_compute. auto. Qed.

(* FULL STATEMENT at table level -- "no handler can hand a caller-chosen or whole-balance token to
   another account without the freeze filter looking at its message" -- is refuted for the reviewed
   table and the filter as written (bank MsgSend only) *)
Lemma all_paths_filtered_refuted : unfiltered shape_at_writing reviewed_sites <> [].
Proof. vm_compute. discriminate. Qed.

(* ---------------------------------------------------------------- who writes the state the rules read *)
(* every call site of the setters of the token registry, the freeze lists, the execution-fee table,
   the allowed-message list and the feeprocessing records, as reviewed: the proposal handlers
   (tokens Apply x6, gov Apply x2) are driven by the harnesses (configuration "written through
   proposal handlers"), the ante / post / end-block sites are the modelled decorators, genesis and
   the message handlers of tokens / gov / layer2 are not driven *)
Definition reviewed_writers : list (string * string * string) := [
  ("app/ante", "AnteHandle", "AddExecutionStart");
  ("app/posthandler", "PostHandle", "SetExecutionStatusSuccess");
  ("feeprocessing", "EndBlocker", "ProcessExecutionFeeReturn");
  ("feeprocessing", "SendCoinsFromModuleToAccount", "SetSenderCoinsHistory");
  ("feeprocessing", "SendCoinsFromAccountToModule", "SetSenderCoinsHistory");
  ("gov", "InitGenesis", "SetExecutionFee");
  ("gov", "InitGenesis", "SavePoorNetworkMessages");
  ("gov", "NewHandler", "SetExecutionFee");
  ("gov", "SetExecutionFee", "SetExecutionFee");
  ("gov", "Apply", "SavePoorNetworkMessages");
  ("gov", "Apply", "SetExecutionFee");
  ("layer2", "MintCreateFtTx", "UpsertTokenInfo");
  ("layer2", "MintCreateNftTx", "UpsertTokenInfo");
  ("tokens", "NewHandler", "UpsertTokenInfo");
  ("tokens", "BurnCoins", "UpsertTokenInfo");
  ("tokens", "AddTokensToBlacklist", "SetTokenBlackWhites");
  ("tokens", "RemoveTokensFromBlacklist", "SetTokenBlackWhites");
  ("tokens", "AddTokensToWhitelist", "SetTokenBlackWhites");
  ("tokens", "RemoveTokensFromWhitelist", "SetTokenBlackWhites");
  ("tokens", "MintCoins", "UpsertTokenInfo");
  ("tokens", "UpsertTokenInfo", "UpsertTokenInfo");
  ("tokens", "UpsertTokenInfo", "UpsertTokenInfo");
  ("tokens", "InitGenesis", "UpsertTokenInfo");
  ("tokens", "InitGenesis", "SetTokenBlackWhites");
  ("tokens", "Apply", "UpsertTokenInfo");
  ("tokens", "Apply", "UpsertTokenInfo");
  ("tokens", "Apply", "AddTokensToBlacklist");
  ("tokens", "Apply", "RemoveTokensFromBlacklist");
  ("tokens", "Apply", "AddTokensToWhitelist");
  ("tokens", "Apply", "RemoveTokensFromWhitelist")
]%string.

Lemma state_writers_reviewed : state_writers = reviewed_writers.
Proof. vm_compute. reflexivity. Qed.
