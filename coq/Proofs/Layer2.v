(* Proofs about the layer-2 bond / bootstrap model (Model/Layer2.v). *)
From Sekai Require Import Base.Prelude Base.Dec Model.Layer2.
From Coq Require Import ZifyBool.

(* ================================================================ ledger *)
Lemma key_eqb_refl a d : key_eqb a d a d = true.
Proof. unfold key_eqb. now rewrite !String.eqb_refl. Qed.
Lemma key_eqb_sym a d a' d' : key_eqb a d a' d' = key_eqb a' d' a d.
Proof. unfold key_eqb. now rewrite (String.eqb_sym a), (String.eqb_sym d). Qed.
Lemma key_eqb_true a d a' d' : key_eqb a d a' d' = true <-> a = a' /\ d = d'.
Proof. unfold key_eqb. rewrite andb_true_iff, !String.eqb_eq. tauto. Qed.

Lemma bal_set a d a' d' z l : bal a d (set_bal a' d' z l) = if key_eqb a d a' d' then z else bal a d l.
Proof. reflexivity. Qed.

Definition delta (a d a' d' : string) (z : Z) : Z := if key_eqb a d a' d' then z else 0.

Lemma send_spec from to den amt l l' :
  send from to den amt l = Ok l' ->
  0 < amt /\ amt <= bal from den l /\
  forall a d, bal a d l' = bal a d l - delta a d from den amt + delta a d to den amt.
Proof.
  unfold send. destruct (amt <=? 0) eqn:E1; [discriminate|]. destruct (bal from den l <? amt) eqn:E2; [discriminate|].
  intros H; inversion H; subst; clear H. split; [lia|]. split; [lia|]. intros a d. unfold delta.
  rewrite !bal_set.
  destruct (key_eqb to den from den) eqn:K0, (key_eqb a d to den) eqn:K1, (key_eqb a d from den) eqn:K2;
    repeat match goal with H : key_eqb _ _ _ _ = true |- _ => apply key_eqb_true in H; destruct H; subst end;
    rewrite ?key_eqb_refl in *; try discriminate; try lia.
Qed.

Lemma send_ok from to den amt l : 0 < amt -> amt <= bal from den l -> exists l', send from to den amt l = Ok l'.
Proof. intros. unfold send. destruct (amt <=? 0) eqn:E1; [lia|]. destruct (bal from den l <? amt) eqn:E2; [lia|]. eauto. Qed.

Lemma send_not_panic from to den amt l s : send from to den amt l <> Panic s.
Proof. unfold send. destruct (amt <=? 0); [discriminate|]. destruct (bal from den l <? amt); discriminate. Qed.

Lemma sup_mod den : key_eqb SUPPLY den MOD den = false. Proof. reflexivity. Qed.
Lemma mod_sup den : key_eqb MOD den SUPPLY den = false. Proof. reflexivity. Qed.

Ltac keys :=
  repeat match goal with H : key_eqb _ _ _ _ = true |- _ => apply key_eqb_true in H; destruct H; subst end;
  rewrite ?key_eqb_refl, ?sup_mod, ?mod_sup in *; try discriminate; try lia.

Lemma mint_spec den amt l l' : mint den amt l = Ok l' ->
  0 < amt /\ forall a d, bal a d l' = bal a d l + delta a d MOD den amt + delta a d SUPPLY den amt.
Proof.
  unfold mint. destruct (amt <=? 0) eqn:E; [discriminate|]. intros H; inversion H; subst; clear H. split; [lia|].
  intros a d. unfold delta. rewrite !bal_set.
  destruct (key_eqb a d SUPPLY den) eqn:K1, (key_eqb a d MOD den) eqn:K2; keys.
Qed.

Lemma burn_spec den amt l l' : burn den amt l = Ok l' ->
  0 < amt /\ amt <= bal MOD den l /\ forall a d, bal a d l' = bal a d l - delta a d MOD den amt - delta a d SUPPLY den amt.
Proof.
  unfold burn. destruct (amt <=? 0) eqn:E; [discriminate|]. destruct (bal MOD den l <? amt) eqn:E2; [discriminate|].
  intros H; inversion H; subst; clear H. split; [lia|]. split; [lia|].
  intros a d. unfold delta. rewrite !bal_set.
  destruct (key_eqb a d SUPPLY den) eqn:K1, (key_eqb a d MOD den) eqn:K2; keys.
Qed.

(* ================================================================ user bond records *)
Lemma zsum_app l m : zsum (l ++ m) = zsum l + zsum m.
Proof. induction l; simpl; lia. Qed.

Lemma bmatch_true d u e : bmatch d u e = true <-> fst (fst e) = d /\ snd (fst e) = u.
Proof. unfold bmatch. rewrite key_eqb_true. intuition congruence. Qed.
Lemma of_dapp_true d e : of_dapp d e = true <-> fst (fst e) = d.
Proof. unfold of_dapp. apply String.eqb_eq. Qed.

Lemma sum_bonds_cons d e bs : sum_bonds d (e :: bs) = (if of_dapp d e then snd e else 0) + sum_bonds d bs.
Proof. unfold sum_bonds. simpl. destruct (of_dapp d e); simpl; lia. Qed.
Lemma bond_amt_cons d u e bs : bond_amt d u (e :: bs) = (if bmatch d u e then snd e else 0) + bond_amt d u bs.
Proof. unfold bond_amt. simpl. destruct (bmatch d u e); simpl; lia. Qed.

Lemma sum_bonds_del d n u bs :
  sum_bonds d (del_bond n u bs) = sum_bonds d bs - (if String.eqb n d then bond_amt n u bs else 0).
Proof.
  induction bs as [|e bs IH]; [simpl; destruct (String.eqb n d); reflexivity|].
  unfold del_bond in *. simpl. rewrite sum_bonds_cons, bond_amt_cons.
  destruct (bmatch n u e) eqn:B; simpl.
  - rewrite IH. apply bmatch_true in B. destruct B as [B1 B2]. unfold of_dapp. rewrite B1.
    destruct (String.eqb n d); lia.
  - rewrite sum_bonds_cons, IH. destruct (String.eqb n d), (of_dapp d e); lia.
Qed.

Lemma sum_bonds_set d n u a bs :
  sum_bonds d (set_bond n u a bs) = sum_bonds d bs + (if String.eqb n d then a - bond_amt n u bs else 0).
Proof.
  unfold set_bond. rewrite sum_bonds_cons, sum_bonds_del. unfold of_dapp. simpl. destruct (String.eqb n d); lia.
Qed.

Lemma bond_amt_del d u n u' bs :
  bond_amt d u (del_bond n u' bs) = if key_eqb d u n u' then 0 else bond_amt d u bs.
Proof.
  induction bs as [|e bs IH]; [simpl; destruct (key_eqb d u n u'); reflexivity|].
  unfold del_bond in *. simpl. rewrite bond_amt_cons. destruct (bmatch n u' e) eqn:B; simpl.
  - rewrite IH. destruct (key_eqb d u n u') eqn:K; [reflexivity|].
    destruct (bmatch d u e) eqn:B2; [|lia]. apply bmatch_true in B, B2. destruct B, B2.
    assert (key_eqb d u n u' = true) by (apply key_eqb_true; split; congruence). congruence.
  - rewrite bond_amt_cons, IH. destruct (key_eqb d u n u') eqn:K; [|reflexivity].
    apply key_eqb_true in K. destruct K; subst. rewrite B. lia.
Qed.

Lemma bond_amt_set d u n u' a bs :
  bond_amt d u (set_bond n u' a bs) = if key_eqb d u n u' then a else bond_amt d u bs.
Proof.
  unfold set_bond. rewrite bond_amt_cons, bond_amt_del. unfold bmatch. simpl. destruct (key_eqb d u n u'); lia.
Qed.

Lemma has_bond_false d u bs : has_bond d u bs = false -> bond_amt d u bs = 0.
Proof.
  unfold has_bond, bond_amt. induction bs as [|e bs IH]; simpl; [reflexivity|].
  intros H. apply orb_false_iff in H. destruct H as [H1 H2]. rewrite H1. auto.
Qed.

(* ================================================================ dApp records *)
Definition sum_totals (ds : list dapp) : Z := zsum (map d_total ds).
Definition uniq (ds : list dapp) : Prop := NoDup (map d_name ds).

Lemma find_dapp_In n ds d : find_dapp n ds = Some d -> In d ds /\ d_name d = n.
Proof. unfold find_dapp. intros H. apply find_some in H. rewrite String.eqb_eq in H. exact H. Qed.

Lemma find_dapp_None n ds : find_dapp n ds = None <-> ~ In n (map d_name ds).
Proof.
  unfold find_dapp. induction ds as [|e r IH]; simpl; [tauto|].
  destruct (String.eqb (d_name e) n) eqn:E.
  - apply String.eqb_eq in E. split; [discriminate|]. intros H. exfalso. apply H. now left.
  - apply String.eqb_neq in E. rewrite IH. tauto.
Qed.

Lemma In_find n ds d : uniq ds -> In d ds -> d_name d = n -> find_dapp n ds = Some d.
Proof.
  unfold uniq, find_dapp. induction ds as [|e r IH]; simpl; [tauto|]. intros U HI Hn. inversion U; subst.
  destruct HI as [->|HI].
  - now rewrite String.eqb_refl.
  - destruct (String.eqb (d_name e) (d_name d)) eqn:E.
    + apply String.eqb_eq in E. exfalso. apply H1. rewrite E. now apply in_map.
    + auto.
Qed.

Lemma find_remove n m ds : find_dapp n (remove_dapp m ds) = if String.eqb m n then None else find_dapp n ds.
Proof.
  unfold find_dapp, remove_dapp. induction ds as [|e r IH]; simpl; [now destruct (String.eqb m n)|].
  destruct (String.eqb (d_name e) m) eqn:E1; simpl.
  - rewrite IH. apply String.eqb_eq in E1. subst m. destruct (String.eqb (d_name e) n); reflexivity.
  - destruct (String.eqb (d_name e) n) eqn:E2.
    + apply String.eqb_eq in E2. subst n. rewrite String.eqb_sym, E1. reflexivity.
    + exact IH.
Qed.

Lemma find_insert n d ds : find_dapp (d_name d) ds = None ->
  find_dapp n (insert_dapp d ds) = if String.eqb (d_name d) n then Some d else find_dapp n ds.
Proof.
  unfold find_dapp. induction ds as [|e r IH]; simpl; [reflexivity|]. intros H.
  destruct (String.eqb (d_name e) (d_name d)) eqn:E; [discriminate|].
  destruct (String.leb (d_name d) (d_name e)); simpl; [reflexivity|].
  rewrite IH by exact H. destruct (String.eqb (d_name e) n) eqn:E2; [|reflexivity].
  apply String.eqb_eq in E2. subst n. rewrite String.eqb_sym, E. reflexivity.
Qed.

Lemma find_set n d ds : find_dapp n (set_dapp d ds) = if String.eqb (d_name d) n then Some d else find_dapp n ds.
Proof.
  unfold set_dapp. rewrite find_insert.
  - rewrite find_remove. destruct (String.eqb (d_name d) n); reflexivity.
  - rewrite find_remove, String.eqb_refl. reflexivity.
Qed.

Lemma names_remove m ds x : In x (map d_name (remove_dapp m ds)) <-> In x (map d_name ds) /\ x <> m.
Proof.
  unfold remove_dapp. rewrite !in_map_iff. split.
  - intros [d [<- H]]. apply filter_In in H. destruct H as [H1 H2]. apply negb_true_iff, String.eqb_neq in H2. split; eauto.
  - intros [[d [<- H]] Hn]. exists d. split; [reflexivity|]. apply filter_In. split; [exact H|].
    apply negb_true_iff, String.eqb_neq. exact Hn.
Qed.

Lemma uniq_remove m ds : uniq ds -> uniq (remove_dapp m ds).
Proof.
  unfold uniq, remove_dapp. induction ds as [|e r IH]; simpl; [auto|]. intros U. inversion U; subst.
  destruct (negb (String.eqb (d_name e) m)); simpl; [|auto]. constructor; [|auto].
  intros H. apply H1. apply (names_remove m r (d_name e)) in H. tauto.
Qed.

Lemma names_insert d ds x : In x (map d_name (insert_dapp d ds)) <-> x = d_name d \/ In x (map d_name ds).
Proof.
  induction ds as [|e r IH]; simpl; [intuition|].
  destruct (String.leb (d_name d) (d_name e)); simpl; [intuition|]. rewrite IH. intuition.
Qed.

Lemma uniq_insert d ds : uniq ds -> ~ In (d_name d) (map d_name ds) -> uniq (insert_dapp d ds).
Proof.
  unfold uniq. induction ds as [|e r IH]; simpl; intros U Hn.
  - constructor; [tauto|constructor].
  - inversion U; subst. destruct (String.leb (d_name d) (d_name e)); simpl.
    + constructor; [simpl; tauto|exact U].
    + constructor; [|apply IH; tauto]. intros H. apply names_insert in H. destruct H as [H|H]; [|tauto].
      apply Hn. left. exact H.
Qed.

Lemma uniq_set d ds : uniq ds -> uniq (set_dapp d ds).
Proof.
  intros U. unfold set_dapp. apply uniq_insert; [now apply uniq_remove|].
  intros H. apply names_remove in H. tauto.
Qed.

Lemma sum_insert d ds : sum_totals (insert_dapp d ds) = d_total d + sum_totals ds.
Proof.
  unfold sum_totals. induction ds as [|e r IH]; simpl; [lia|].
  destruct (String.leb (d_name d) (d_name e)); simpl; [lia|]. rewrite IH. lia.
Qed.

Definition total_of (n : string) (ds : list dapp) : Z := match find_dapp n ds with Some d => d_total d | None => 0 end.

Lemma sum_remove m ds : uniq ds -> sum_totals (remove_dapp m ds) = sum_totals ds - total_of m ds.
Proof.
  unfold uniq, sum_totals, remove_dapp, total_of, find_dapp. induction ds as [|e r IH]; simpl; [reflexivity|].
  intros U. inversion U; subst. destruct (String.eqb (d_name e) m) eqn:E; simpl.
  - rewrite IH by assumption. apply String.eqb_eq in E. subst m.
    assert (F : find (fun d => String.eqb (d_name d) (d_name e)) r = None) by (apply find_dapp_None; exact H1).
    rewrite F. lia.
  - rewrite IH by assumption. lia.
Qed.

Lemma sum_set d ds : uniq ds -> sum_totals (set_dapp d ds) = sum_totals ds - total_of (d_name d) ds + d_total d.
Proof. intros U. unfold set_dapp. rewrite sum_insert, sum_remove by assumption. lia. Qed.

Lemma In_set x d ds : In x (set_dapp d ds) <-> x = d \/ (In x ds /\ d_name x <> d_name d).
Proof.
  unfold set_dapp. assert (G : forall l, In x (insert_dapp d l) <-> x = d \/ In x l).
  { induction l as [|e r IH]; simpl; [intuition|]. destruct (String.leb (d_name d) (d_name e)); simpl; [intuition|]. rewrite IH. intuition. }
  rewrite G. unfold remove_dapp. rewrite filter_In, negb_true_iff, String.eqb_neq. intuition.
Qed.

Definition user_of (u : string) (e : string * string * Z) : bool := String.eqb (snd (fst e)) u.
(* everything user u has recorded as bonded, over all dApps *)
Definition user_bonds (u : string) (bs : bonds_t) : Z := zsum (map snd (filter (user_of u) bs)).

Lemma user_bonds_cons u e bs : user_bonds u (e :: bs) = (if user_of u e then snd e else 0) + user_bonds u bs.
Proof. unfold user_bonds. simpl. destruct (user_of u e); simpl; lia. Qed.
Lemma user_bonds_del u n u' bs :
  user_bonds u (del_bond n u' bs) = user_bonds u bs - (if String.eqb u' u then bond_amt n u' bs else 0).
Proof.
  induction bs as [|e bs IH]; [simpl; destruct (String.eqb u' u); reflexivity|].
  unfold del_bond in *. simpl. rewrite user_bonds_cons, bond_amt_cons.
  destruct (bmatch n u' e) eqn:B; simpl.
  - rewrite IH. apply bmatch_true in B. destruct B as [B1 B2]. unfold user_of. rewrite B2. destruct (String.eqb u' u); lia.
  - rewrite user_bonds_cons, IH. destruct (String.eqb u' u), (user_of u e); lia.
Qed.
Lemma user_bonds_set u n u' a bs :
  user_bonds u (set_bond n u' a bs) = user_bonds u bs + (if String.eqb u' u then a - bond_amt n u' bs else 0).
Proof. unfold set_bond. rewrite user_bonds_cons, user_bonds_del. unfold user_of. simpl. destruct (String.eqb u' u); lia. Qed.

Lemma no_bonds_zero n bs : (forall e, In e bs -> fst (fst e) <> n) -> sum_bonds n bs = 0 /\ forall u, bond_amt n u bs = 0.
Proof.
  induction bs as [|e bs IH]; intros H; [split; reflexivity|].
  destruct IH as [I1 I2]; [intros; apply H; now right|]. split; [|intros u]; rewrite ?sum_bonds_cons, ?bond_amt_cons, ?I1, ?I2.
  - destruct (of_dapp n e) eqn:E; [|lia]. apply of_dapp_true in E. exfalso. apply (H e); [now left|exact E].
  - destruct (bmatch n u e) eqn:E; [|lia]. apply bmatch_true in E. exfalso. apply (H e); [now left|tauto].
Qed.

Lemma bond_amt_nonneg n u bs : (forall e, In e bs -> 0 <= snd e) -> 0 <= bond_amt n u bs.
Proof.
  induction bs as [|e bs IH]; intros H; [unfold bond_amt; simpl; lia|]. rewrite bond_amt_cons.
  assert (0 <= snd e) by (apply H; now left). assert (0 <= bond_amt n u bs) by (apply IH; intros; apply H; now right).
  destruct (bmatch n u e); lia.
Qed.
Lemma sum_bonds_nonneg n bs : (forall e, In e bs -> 0 <= snd e) -> 0 <= sum_bonds n bs.
Proof.
  induction bs as [|e bs IH]; intros H; [unfold sum_bonds; simpl; lia|]. rewrite sum_bonds_cons.
  assert (0 <= snd e) by (apply H; now left). assert (0 <= sum_bonds n bs) by (apply IH; intros; apply H; now right).
  destruct (of_dapp n e); lia.
Qed.

Lemma In_del e n u bs : In e (del_bond n u bs) -> In e bs.
Proof. unfold del_bond. intros H. apply filter_In in H. tauto. Qed.
Lemma In_set_bond e n u a bs : In e (set_bond n u a bs) -> e = (n, u, a) \/ In e bs.
Proof. unfold set_bond. simpl. intros [H|H]; [left; auto|right; eapply In_del; eauto]. Qed.

(* ================================================================ the invariant *)
Section Hist.
Variable v : variant.
Variable c : config.
Variable N : list string.     (* dApp names used by the history *)
Variable Us : list string.    (* user accounts used by the history *)
Variable k : Z.               (* ukex the module account holds beyond the recorded bonds (its balance before the history) *)

(* the store iteration of one dApp's bonds returns exactly that dApp's bonds: true for every name in
   the repaired tree; in the unchanged tree only when no name is a prefix of another name ++ user *)
Definition separated : Prop :=
  (forall n n' u a, In n N -> In n' N -> In u Us -> covers v n (n', u, a) = String.eqb n' n)
  /\ (v_prefix v = true -> ~ In ""%string N).
Definition users_ok : Prop := forall u, In u Us -> u <> MOD.
(* every user spells its address in the canonical (lower-case) form: account = record key *)
Definition canonical : Prop := forall u, In u Us -> acct u = u.

Definition op_in (o : op) : Prop :=
  match o with
  | OCreate u priv foreign n amt p =>
      In u Us /\ In n N /\ (priv && foreign)%bool = false /\ 0 <= amt /\ p_lp p <> UKEX
      /\ (v_create_unchecked v = true -> amt <= max_thr c)
  | OBond u n _ _ => In u Us
  | OReclaim u n _ _ => In u Us
  | OTick _ => True
  | OLpMsg _ _ _ _ _ _ => True
  | _ => False
  end.

Record Inv (st : state) : Prop := mkInv {
  i_uniq : uniq (dapps st);
  i_sum : forall n d, find_dapp n (dapps st) = Some d -> d_status d = 0 -> d_total d = sum_bonds n (bonds st);
  i_held : sum_totals (dapps st) + k = bal MOD UKEX (led st);
  i_max : forall n d, find_dapp n (dapps st) = Some d -> d_status d = 0 -> d_total d <= max_thr c;
  i_bonds : forall e, In e (bonds st) ->
            In (fst (fst e)) N /\ In (snd (fst e)) Us /\ 0 <= snd e /\ find_dapp (fst (fst e)) (dapps st) <> None;
  i_names : forall n d, find_dapp n (dapps st) = Some d -> In n N /\ 0 <= d_total d /\ d_lp d <> UKEX;
  i_empty : find_dapp ""%string (dapps st) = None }.

Hypothesis Hsep : separated.
Hypothesis Hus : users_ok.
Hypothesis Hcan : canonical.
Hypothesis Hk : 0 <= k.

Lemma sum_totals_nonneg ds : (forall x, In x ds -> 0 <= d_total x) -> 0 <= sum_totals ds.
Proof.
  unfold sum_totals. induction ds as [|e r IH]; simpl; intros H; [lia|].
  assert (0 <= d_total e) by (apply H; now left). assert (0 <= zsum (map d_total r)) by (apply IH; intros; apply H; now right). lia.
Qed.
Lemma total_le_sum d ds : (forall x, In x ds -> 0 <= d_total x) -> In d ds -> d_total d <= sum_totals ds.
Proof.
  induction ds as [|e r IH]; simpl; intros H HI; [tauto|]. unfold sum_totals in *. simpl.
  assert (0 <= d_total e) by (apply H; now left).
  assert (0 <= zsum (map d_total r)) by (apply sum_totals_nonneg; intros; apply H; now right).
  destruct HI as [->|HI]; [lia|]. assert (d_total d <= zsum (map d_total r)) by (apply IH; auto). lia.
Qed.

Lemma get_dapp_find n st d : get_dapp n st = Some d -> find_dapp n (dapps st) = Some d /\ n <> ""%string.
Proof. unfold get_dapp. destruct (String.eqb n "") eqn:E; [discriminate|]. apply String.eqb_neq in E. auto. Qed.

Ltac inv_ok H := match type of H with
  | (if ?b then _ else _) = Ok _ => let E := fresh "E" in destruct b eqn:E; [discriminate H|]
  | (do _ <- ?x ; _) = Ok _ => let E := fresh "E" in let l := fresh "l" in destruct x as [l| |] eqn:E; [cbn [bind] in H|discriminate H|discriminate H]
  end.

Lemma not_mod_key u : u <> MOD -> key_eqb u UKEX MOD UKEX = false /\ key_eqb MOD UKEX u UKEX = false.
Proof.
  intros H. split.
  - destruct (key_eqb u UKEX MOD UKEX) eqn:K; [|reflexivity]. apply key_eqb_true in K. destruct K; congruence.
  - destruct (key_eqb MOD UKEX u UKEX) eqn:K; [|reflexivity]. apply key_eqb_true in K. destruct K; congruence.
Qed.

(* ---------------------------------------------------------------- create *)
Lemma create_inv st u priv foreign n amt p st' :
  Inv st -> op_in (OCreate u priv foreign n amt p) -> create v c st u priv foreign n amt p = Ok st' ->
  Inv st' /\ (forall u', u' <> MOD -> bal u' UKEX (led st') + user_bonds u' (bonds st') = bal u' UKEX (led st) + user_bonds u' (bonds st))
  /\ (forall n' u', bond_amt n' u' (bonds st') = bond_amt n' u' (bonds st) + if key_eqb n' u' n u then amt else 0)
  /\ (forall u', u' <> MOD -> bal u' UKEX (led st') = bal u' UKEX (led st) - if String.eqb u' u then amt else 0).
Proof.
  intros I (Hu & Hn & Hpf & Hamt & Hlp & Hmax) H. unfold create in H. rewrite Hpf, (Hcan u Hu) in H.
  destruct (negb (v_fee_unchecked v) && ((p_fee p <? 0) || (PREC <? p_fee p)))%bool eqn:CF; [discriminate|].
  destruct (negb (v_create_negative v) && (amt <? 0))%bool eqn:C0; [discriminate|].
  destruct (negb priv && foreign)%bool eqn:C1; [discriminate|].
  destruct (negb priv && (amt * 100 <? min_thr c))%bool eqn:C2; [discriminate|].
  destruct (negb (v_create_unchecked v) && (max_thr c <? amt))%bool eqn:E0; [discriminate|].
  destruct (negb (v_prefix v) && String.eqb n "")%bool eqn:E1; [discriminate|].
  destruct (if 0 <? amt then send u MOD UKEX amt (led st) else Ok (led st)) as [l| |] eqn:E2; [|discriminate|discriminate].
  cbn [bind] in H.
  assert (Hne : n <> ""%string).
  { destruct (v_prefix v) eqn:P.
    - intros ->. destruct Hsep as [_ S2]. now apply S2.
    - simpl in E1. now apply String.eqb_neq in E1. }
  assert (F : find_dapp n (dapps st) = None).
  { destruct (find_dapp n (dapps st)); [|reflexivity]. apply String.eqb_neq in Hne. rewrite Hne in H. discriminate. }
  rewrite F in H. inversion H; subst; clear H.
  assert (Hnb : forall e, In e (bonds st) -> fst (fst e) <> n).
  { intros e He Heq. apply (i_bonds _ I) in He. rewrite Heq in He. tauto. }
  destruct (no_bonds_zero n (bonds st) Hnb) as [Z1 Z2].
  assert (Hu' : u <> MOD) by now apply Hus.
  assert (L : forall a d, bal a d l = bal a d (led st) - delta a d u UKEX amt + delta a d MOD UKEX amt).
  { destruct (0 <? amt) eqn:P.
    - apply send_spec in E2. tauto.
    - inversion E2; subst. intros a d. unfold delta. assert (amt = 0) by lia. subst. destruct (key_eqb a d u UKEX), (key_eqb a d MOD UKEX); lia. }
  assert (Lm : bal MOD UKEX l = bal MOD UKEX (led st) + amt).
  { rewrite L. unfold delta. rewrite key_eqb_refl. destruct (key_eqb MOD UKEX u UKEX) eqn:K; [|lia].
    apply key_eqb_true in K. destruct K; congruence. }
  split; [constructor; simpl|split; [|split]]; simpl.
  - apply uniq_set. apply (i_uniq _ I).
  - intros m d F' S. rewrite find_set in F'. simpl in F'. rewrite sum_bonds_set. destruct (String.eqb n m) eqn:E.
    + inversion F'; subst. simpl. apply String.eqb_eq in E. subst m. rewrite Z1, Z2. lia.
    + rewrite Z.add_0_r. now apply (i_sum _ I).
  - rewrite sum_set by apply (i_uniq _ I). simpl. unfold total_of. rewrite F. pose proof (i_held _ I). lia.
  - intros m d F' S. rewrite find_set in F'. simpl in F'. destruct (String.eqb n m) eqn:E.
    + inversion F'; subst. simpl. destruct (v_create_unchecked v) eqn:V; [now apply Hmax|]. simpl in E0. lia.
    + now apply (i_max _ I m).
  - intros e He. apply In_set_bond in He. rewrite find_set. simpl. destruct He as [->|He]; simpl.
    + rewrite String.eqb_refl. repeat split; auto. discriminate.
    + destruct (i_bonds _ I e He) as (A & B & C & D). repeat split; auto. destruct (String.eqb n (fst (fst e))); [discriminate|exact D].
  - intros m d F'. rewrite find_set in F'. simpl in F'. destruct (String.eqb n m) eqn:E.
    + inversion F'; subst. simpl. apply String.eqb_eq in E. subst. auto.
    + now apply (i_names _ I).
  - rewrite find_set. simpl. apply String.eqb_neq in Hne. rewrite Hne. apply (i_empty _ I).
  - intros u' Hu'm. rewrite user_bonds_set, L, Z2. unfold delta.
    assert (K1 : key_eqb u' UKEX MOD UKEX = false).
    { destruct (key_eqb u' UKEX MOD UKEX) eqn:K; [|reflexivity]. apply key_eqb_true in K. destruct K; congruence. }
    rewrite K1. unfold key_eqb. rewrite String.eqb_refl, andb_true_r, (String.eqb_sym u' u). destruct (String.eqb u u'); lia.
  - intros n' u'. rewrite bond_amt_set. destruct (key_eqb n' u' n u) eqn:K; [|lia]. apply key_eqb_true in K. destruct K; subst. rewrite Z2. lia.
  - intros u' Hm. rewrite L. unfold delta. destruct (not_mod_key u' Hm) as [K3 _]. rewrite K3.
    unfold key_eqb. rewrite String.eqb_refl, andb_true_r. destruct (String.eqb u' u); lia.
Qed.

Lemma bonds_nonneg st : Inv st -> forall e, In e (bonds st) -> 0 <= snd e.
Proof. intros I e He. now apply (i_bonds _ I) in He. Qed.

(* ---------------------------------------------------------------- bond *)
Lemma bond_inv st u n foreign amt st' :
  Inv st -> In u Us -> bond c st u n foreign amt = Ok st' ->
  Inv st' /\ (forall u', u' <> MOD -> bal u' UKEX (led st') + user_bonds u' (bonds st') = bal u' UKEX (led st) + user_bonds u' (bonds st))
  /\ (forall n' u', bond_amt n' u' (bonds st') = bond_amt n' u' (bonds st) + if key_eqb n' u' n u then amt else 0)
  /\ (forall u', u' <> MOD -> bal u' UKEX (led st') = bal u' UKEX (led st) - if String.eqb u' u then amt else 0) /\ 0 < amt.
Proof.
  intros I Hu H. unfold bond in H. rewrite (Hcan u Hu) in H. destruct (get_dapp n st) as [d|] eqn:G; [|discriminate].
  apply get_dapp_find in G. destruct G as [F Hne].
  destruct foreign; [discriminate|].
  destruct (max_thr c <? d_total d + amt) eqn:E0; [discriminate|].
  destruct (send u MOD UKEX amt (led st)) as [l| |] eqn:E2; [|discriminate|discriminate]. cbn [bind] in H.
  inversion H; subst; clear H. apply send_spec in E2. destruct E2 as (Hpos & Hbal & L).
  assert (Hu' : u <> MOD) by now apply Hus. destruct (not_mod_key u Hu') as [K1 K2].
  assert (A : (if has_bond n u (bonds st) then bond_amt n u (bonds st) + amt else amt) = bond_amt n u (bonds st) + amt).
  { destruct (has_bond n u (bonds st)) eqn:Hb; [reflexivity|]. rewrite (has_bond_false _ _ _ Hb). lia. }
  rewrite A.
  assert (Lm : bal MOD UKEX l = bal MOD UKEX (led st) + amt). { rewrite L. unfold delta. rewrite key_eqb_refl, K2. lia. }
  destruct (i_names _ I n d F) as (HnN & Htot & Hlp).
  assert (Hdn : d_name d = n) by (apply find_dapp_In in F; tauto).
  split; [constructor; simpl|split; [|split; [|split]]]; simpl.
  - apply uniq_set. apply (i_uniq _ I).
  - intros m x F' S. rewrite find_set in F'. simpl in F'. rewrite Hdn in F'. rewrite sum_bonds_set. destruct (String.eqb n m) eqn:E.
    + inversion F'; subst x. simpl in *. apply String.eqb_eq in E. subst m. rewrite (i_sum _ I n d F S). lia.
    + rewrite Z.add_0_r. now apply (i_sum _ I).
  - rewrite sum_set by apply (i_uniq _ I). simpl. unfold total_of. rewrite Hdn, F. pose proof (i_held _ I). lia.
  - intros m x F' S. rewrite find_set in F'. simpl in F'. rewrite Hdn in F'. destruct (String.eqb n m) eqn:E.
    + inversion F'; subst x. simpl. lia.
    + now apply (i_max _ I m).
  - intros e He. apply In_set_bond in He. rewrite find_set. simpl. rewrite Hdn. destruct He as [->|He]; simpl.
    + rewrite String.eqb_refl. repeat split; auto; [|discriminate].
      pose proof (bond_amt_nonneg n u (bonds st) (bonds_nonneg st I)). lia.
    + destruct (i_bonds _ I e He) as (A1 & B & C & D). repeat split; auto. destruct (String.eqb n (fst (fst e))); [discriminate|exact D].
  - intros m x F'. rewrite find_set in F'. simpl in F'. rewrite Hdn in F'. destruct (String.eqb n m) eqn:E.
    + inversion F'; subst x. simpl. apply String.eqb_eq in E. subst. repeat split; auto. lia.
    + now apply (i_names _ I).
  - rewrite find_set. simpl. rewrite Hdn. apply String.eqb_neq in Hne. rewrite Hne. apply (i_empty _ I).
  - intros u' Hu'm. rewrite user_bonds_set, L. unfold delta. destruct (not_mod_key u' Hu'm) as [K3 K4]. rewrite K3.
    unfold key_eqb. rewrite String.eqb_refl, andb_true_r, (String.eqb_sym u' u). destruct (String.eqb u u'); lia.
  - intros n' u'. rewrite bond_amt_set. destruct (key_eqb n' u' n u) eqn:K; [|lia]. apply key_eqb_true in K. destruct K; subst. lia.
  - intros u' Hm. rewrite L. unfold delta. destruct (not_mod_key u' Hm) as [K3 _]. rewrite K3.
    unfold key_eqb. rewrite String.eqb_refl, andb_true_r. destruct (String.eqb u' u); lia.
  - exact Hpos.
Qed.

(* ---------------------------------------------------------------- reclaim *)
Lemma reclaim_inv st u n foreign amt st' :
  Inv st -> In u Us -> reclaim st u n foreign amt = Ok st' ->
  Inv st' /\ (forall u', u' <> MOD -> bal u' UKEX (led st') + user_bonds u' (bonds st') = bal u' UKEX (led st) + user_bonds u' (bonds st))
  /\ (forall n' u', bond_amt n' u' (bonds st') = bond_amt n' u' (bonds st) - if key_eqb n' u' n u then amt else 0)
  /\ (forall u', u' <> MOD -> bal u' UKEX (led st') = bal u' UKEX (led st) + if String.eqb u' u then amt else 0) /\ 0 < amt.
Proof.
  intros I Hu H. unfold reclaim in H. rewrite (Hcan u Hu) in H. destruct (get_dapp n st) as [d|] eqn:G; [|discriminate].
  apply get_dapp_find in G. destruct G as [F Hne].
  destruct (negb (has_bond n u (bonds st))) eqn:Hb; [discriminate|].
  destruct foreign; [discriminate|].
  destruct (bond_amt n u (bonds st) <? amt) eqn:E0; [discriminate|].
  destruct (d_total d - amt <? 0) eqn:E1; [discriminate|].
  destruct (send MOD u UKEX amt (led st)) as [l| |] eqn:E2; [|discriminate|discriminate]. cbn [bind] in H.
  inversion H; subst; clear H. apply send_spec in E2. destruct E2 as (Hpos & Hbal & L).
  assert (Hu' : u <> MOD) by now apply Hus. destruct (not_mod_key u Hu') as [K1 K2].
  assert (Lm : bal MOD UKEX l = bal MOD UKEX (led st) - amt). { rewrite L. unfold delta. rewrite key_eqb_refl, K2. lia. }
  destruct (i_names _ I n d F) as (HnN & Htot & Hlp).
  assert (Hdn : d_name d = n) by (apply find_dapp_In in F; tauto).
  split; [constructor; simpl|split; [|split; [|split]]]; simpl.
  - apply uniq_set. apply (i_uniq _ I).
  - intros m x F' S. rewrite find_set in F'. simpl in F'. rewrite Hdn in F'. rewrite sum_bonds_set. destruct (String.eqb n m) eqn:E.
    + inversion F'; subst x. simpl in *. apply String.eqb_eq in E. subst m. rewrite (i_sum _ I n d F S). lia.
    + rewrite Z.add_0_r. now apply (i_sum _ I).
  - rewrite sum_set by apply (i_uniq _ I). simpl. unfold total_of. rewrite Hdn, F. pose proof (i_held _ I). lia.
  - intros m x F' S. rewrite find_set in F'. simpl in F'. rewrite Hdn in F'. destruct (String.eqb n m) eqn:E.
    + inversion F'; subst x. simpl in *. pose proof (i_max _ I n d F S). lia.
    + now apply (i_max _ I m).
  - intros e He. apply In_set_bond in He. rewrite find_set. simpl. rewrite Hdn. destruct He as [->|He]; simpl.
    + rewrite String.eqb_refl. repeat split; auto; [lia|discriminate].
    + destruct (i_bonds _ I e He) as (A1 & B & C & D). repeat split; auto. destruct (String.eqb n (fst (fst e))); [discriminate|exact D].
  - intros m x F'. rewrite find_set in F'. simpl in F'. rewrite Hdn in F'. destruct (String.eqb n m) eqn:E.
    + inversion F'; subst x. simpl. apply String.eqb_eq in E. subst. repeat split; auto. lia.
    + now apply (i_names _ I).
  - rewrite find_set. simpl. rewrite Hdn. apply String.eqb_neq in Hne. rewrite Hne. apply (i_empty _ I).
  - intros u' Hu'm. rewrite user_bonds_set, L. unfold delta. destruct (not_mod_key u' Hu'm) as [K3 K4]. rewrite K3.
    unfold key_eqb. rewrite String.eqb_refl, andb_true_r, (String.eqb_sym u' u). destruct (String.eqb u u'); lia.
  - intros n' u'. rewrite bond_amt_set. destruct (key_eqb n' u' n u) eqn:K; [|lia]. apply key_eqb_true in K. destruct K; subst. lia.
  - intros u' Hm. rewrite L. unfold delta. destruct (not_mod_key u' Hm) as [K3 _]. rewrite K3.
    unfold key_eqb. rewrite String.eqb_refl, andb_true_r. destruct (String.eqb u' u); lia.
  - exact Hpos.
Qed.

(* ---------------------------------------------------------------- end of block: iteration, refund, launch *)
Lemma filter_filter {A} (f g : A -> bool) l : filter f (filter g l) = filter (fun x => (g x && f x)%bool) l.
Proof. induction l as [|x l IH]; simpl; [reflexivity|]. destruct (g x); simpl; [destruct (f x)|]; now rewrite IH. Qed.
Lemma filter_all {A} (f : A -> bool) l : (forall x, In x l -> f x = true) -> filter f l = l.
Proof. induction l as [|x l IH]; simpl; intros H; [reflexivity|]. rewrite (H x) by now left. f_equal. apply IH. intros; apply H; now right. Qed.

Lemma del_all_char n cs : forall bs,
  del_all n cs bs = filter (fun e => negb (of_dapp n e && existsb (fun x => String.eqb (snd (fst x)) (snd (fst e))) cs)) bs.
Proof.
  induction cs as [|x r IH]; intros bs; simpl.
  - symmetry. apply filter_all. intros e _. now rewrite andb_false_r.
  - rewrite IH. unfold del_bond. rewrite filter_filter. apply filter_ext. intros e.
    unfold bmatch, key_eqb, of_dapp. rewrite (String.eqb_sym n).
    destruct (String.eqb (fst (fst e)) n), (String.eqb (snd (fst x)) (snd (fst e))); simpl; try reflexivity.
Qed.

Lemma del_all_own n bs : del_all n (filter (of_dapp n) bs) bs = filter (fun e => negb (of_dapp n e)) bs.
Proof.
  rewrite del_all_char. apply filter_ext_in. intros e He. destruct (of_dapp n e) eqn:E; [|reflexivity]. simpl. apply negb_false_iff.
  apply existsb_exists. exists e. split; [apply filter_In; auto|apply String.eqb_refl].
Qed.

Lemma sum_bonds_others m n bs :
  sum_bonds m (filter (fun e => negb (of_dapp n e)) bs) = if String.eqb n m then 0 else sum_bonds m bs.
Proof.
  induction bs as [|e bs IH]; simpl; [now destruct (String.eqb n m)|]. rewrite sum_bonds_cons.
  destruct (of_dapp n e) eqn:E; simpl.
  - rewrite IH. destruct (String.eqb n m) eqn:E2; [reflexivity|]. apply of_dapp_true in E. unfold of_dapp. rewrite E, E2. lia.
  - rewrite sum_bonds_cons, IH. destruct (String.eqb n m) eqn:E2; [|reflexivity]. apply String.eqb_eq in E2. subst. rewrite E. lia.
Qed.
Lemma bond_amt_others m u n bs :
  bond_amt m u (filter (fun e => negb (of_dapp n e)) bs) = if String.eqb n m then 0 else bond_amt m u bs.
Proof.
  induction bs as [|e bs IH]; simpl; [now destruct (String.eqb n m)|]. rewrite bond_amt_cons.
  destruct (of_dapp n e) eqn:E; simpl.
  - rewrite IH. destruct (String.eqb n m) eqn:E2; [reflexivity|]. destruct (bmatch m u e) eqn:B; [|lia].
    apply of_dapp_true in E. apply bmatch_true in B. destruct B as [B _]. rewrite E in B. subst. now rewrite String.eqb_refl in E2.
  - rewrite bond_amt_cons, IH. destruct (String.eqb n m) eqn:E2; [|reflexivity]. apply String.eqb_eq in E2. subst.
    destruct (bmatch m u e) eqn:B; [|lia]. apply bmatch_true in B. destruct B as [B _]. apply of_dapp_true in B. congruence.
Qed.
Lemma user_bonds_others u n bs :
  user_bonds u (filter (fun e => negb (of_dapp n e)) bs) = user_bonds u bs - bond_amt n u bs.
Proof.
  induction bs as [|e bs IH]; simpl; [reflexivity|]. rewrite user_bonds_cons, bond_amt_cons. unfold bmatch, key_eqb.
  unfold of_dapp in *. rewrite (String.eqb_sym n). unfold user_of in *. rewrite (String.eqb_sym u).
  destruct (String.eqb (fst (fst e)) n) eqn:E; simpl.
  - rewrite IH. destruct (String.eqb (snd (fst e)) u); lia.
  - rewrite user_bonds_cons, IH. unfold user_of. destruct (String.eqb (snd (fst e)) u); lia.
Qed.

Definition paid_to (a d : string) (cs : bonds_t) : Z := zsum (map (fun e => delta a d (snd (fst e)) UKEX (snd e)) cs).

Lemma pay_all_spec sk cs : forall l l', (forall e, In e cs -> 0 <= snd e /\ acct (snd (fst e)) = snd (fst e)) -> pay_all sk cs l = Ok l' ->
  forall a d, bal a d l' = bal a d l - delta a d MOD UKEX (zsum (map snd cs)) + paid_to a d cs.
Proof.
  induction cs as [|e r IH]; intros l l' Hnn H a d; simpl in H.
  - inversion H; subst. unfold paid_to, delta. simpl. destruct (key_eqb a d MOD UKEX); lia.
  - destruct (Hnn e (or_introl eq_refl)) as [He Hce]. rewrite Hce in H.
    assert (Hr : forall x, In x r -> 0 <= snd x /\ acct (snd (fst x)) = snd (fst x)) by (intros; apply Hnn; now right).
    unfold paid_to in *. simpl. destruct (sk && (snd e <=? 0))%bool eqn:S.
    + rewrite (IH l l' Hr H a d). assert (snd e = 0) by lia. rewrite H0. unfold delta.
      destruct (key_eqb a d MOD UKEX), (key_eqb a d (snd (fst e)) UKEX); lia.
    + destruct (send MOD (snd (fst e)) UKEX (snd e) l) as [l1| |] eqn:E; [|discriminate|discriminate]. cbn [bind] in H.
      rewrite (IH l1 l' Hr H a d). apply send_spec in E. destruct E as (_ & _ & L). rewrite L. unfold delta.
      destruct (key_eqb a d MOD UKEX), (key_eqb a d (snd (fst e)) UKEX); lia.
Qed.

Lemma pay_all_ok sk cs : forall l, (sk = true \/ forall e, In e cs -> 0 < snd e) ->
  (forall e, In e cs -> 0 <= snd e /\ snd (fst e) <> MOD /\ acct (snd (fst e)) = snd (fst e)) -> zsum (map snd cs) <= bal MOD UKEX l ->
  exists l', pay_all sk cs l = Ok l'.
Proof.
  induction cs as [|e r IH]; intros l Hp Hnn Hb; simpl; [eauto|].
  destruct (Hnn e (or_introl eq_refl)) as (He & Hm & Hce). simpl in Hb. rewrite Hce.
  assert (Hr : forall x, In x r -> 0 <= snd x /\ snd (fst x) <> MOD /\ acct (snd (fst x)) = snd (fst x)) by (intros; apply Hnn; now right).
  assert (Hrs : 0 <= zsum (map snd r)).
  { clear -Hr. induction r as [|x r IH]; simpl; [lia|]. assert (0 <= snd x) by (apply (Hr x); now left).
    assert (0 <= zsum (map snd r)) by (apply IH; intros; apply Hr; now right). lia. }
  assert (Hp' : sk = true \/ forall x, In x r -> 0 < snd x) by (destruct Hp as [Hp|Hp]; [now left|right; intros; apply Hp; now right]).
  destruct (sk && (snd e <=? 0))%bool eqn:S.
  - apply IH; auto. lia.
  - assert (0 < snd e). { destruct Hp as [->|Hp]; [simpl in S; lia|apply Hp; now left]. }
    destruct (send_ok MOD (snd (fst e)) UKEX (snd e) l) as [l1 E]; [lia|lia|]. rewrite E. cbn [bind].
    apply IH; auto. apply send_spec in E. destruct E as (_ & _ & L). rewrite L. unfold delta. rewrite key_eqb_refl.
    destruct (not_mod_key _ Hm) as [_ K]. rewrite K. lia.
Qed.

Lemma pay_all_not_panic sk cs : forall l s, pay_all sk cs l <> Panic s.
Proof.
  induction cs as [|e r IH]; intros l s; simpl; [discriminate|]. destruct (sk && (snd e <=? 0))%bool; [apply IH|].
  destruct (send MOD (acct (snd (fst e))) UKEX (snd e) l) eqn:E; cbn [bind]; [apply IH|discriminate|]. now apply send_not_panic in E.
Qed.

Lemma paid_to_own n u bs : paid_to u UKEX (filter (of_dapp n) bs) = bond_amt n u bs.
Proof.
  unfold paid_to. induction bs as [|e bs IH]; simpl; [reflexivity|]. rewrite bond_amt_cons. unfold bmatch, key_eqb, of_dapp in *.
  rewrite (String.eqb_sym n). destruct (String.eqb (fst (fst e)) n); simpl; [|exact IH]. rewrite IH. unfold delta, key_eqb.
  rewrite String.eqb_refl, andb_true_r. reflexivity.
Qed.
Lemma sum_own n bs : zsum (map snd (filter (of_dapp n) bs)) = sum_bonds n bs.
Proof. reflexivity. Qed.

Lemma covered_own st n : Inv st -> In n N -> covered v n (bonds st) = filter (of_dapp n) (bonds st).
Proof.
  intros I Hn. unfold covered. apply filter_ext_in. intros [[n' u] a] He. destruct (i_bonds _ I _ He) as (A & B & _). simpl in *.
  destruct Hsep as [S _]. rewrite (S n n' u a Hn A B). reflexivity.
Qed.

Lemma delta_den a d x den z : d <> den -> delta a d x den z = 0.
Proof. intros H. unfold delta, key_eqb. apply String.eqb_neq in H. rewrite H, andb_false_r. reflexivity. Qed.

(* removing a dApp together with all its bond records, the module balance dropping by its total *)
Lemma removal_inv st n d l :
  Inv st -> find_dapp n (dapps st) = Some d -> d_status d = 0 ->
  bal MOD UKEX l = bal MOD UKEX (led st) - d_total d ->
  Inv (mkState (now st) (remove_dapp n (dapps st)) (filter (fun e => negb (of_dapp n e)) (bonds st)) l).
Proof.
  intros I F S Lm. constructor; simpl.
  - apply uniq_remove, (i_uniq _ I).
  - intros m x F'. rewrite find_remove in F'. rewrite sum_bonds_others. destruct (String.eqb n m); [discriminate|]. now apply (i_sum _ I).
  - rewrite sum_remove by apply (i_uniq _ I). unfold total_of. rewrite F. pose proof (i_held _ I). lia.
  - intros m x F'. rewrite find_remove in F'. destruct (String.eqb n m); [discriminate|]. now apply (i_max _ I m).
  - intros e He. apply filter_In in He. destruct He as [He Ho]. destruct (i_bonds _ I e He) as (A & B & C & D).
    repeat split; auto. rewrite find_remove. apply negb_true_iff in Ho. unfold of_dapp in Ho. rewrite String.eqb_sym, Ho. exact D.
  - intros m x F'. rewrite find_remove in F'. destruct (String.eqb n m); [discriminate|]. now apply (i_names _ I).
  - rewrite find_remove. destruct (String.eqb n ""); [reflexivity|apply (i_empty _ I)].
Qed.

Lemma refund_spec st n d st' :
  Inv st -> find_dapp n (dapps st) = Some d -> d_status d = 0 -> refund v n st = Ok st' ->
  Inv st' /\ now st' = now st /\ dapps st' = remove_dapp n (dapps st)
  /\ bonds st' = filter (fun e => negb (of_dapp n e)) (bonds st)
  /\ (forall u, u <> MOD -> bal u UKEX (led st') = bal u UKEX (led st) + bond_amt n u (bonds st))
  /\ (forall a den, den <> UKEX -> bal a den (led st') = bal a den (led st)).
Proof.
  intros I F S H. unfold refund in H. destruct (i_names _ I n d F) as (HnN & _).
  rewrite (covered_own st n I HnN) in H.
  destruct (pay_all (negb (v_zero_blocks v)) (filter (of_dapp n) (bonds st)) (led st)) as [l| |] eqn:E; [|discriminate|discriminate].
  cbn [bind] in H. inversion H; subst; clear H. simpl.
  assert (Hnn : forall e, In e (filter (of_dapp n) (bonds st)) -> 0 <= snd e /\ acct (snd (fst e)) = snd (fst e)).
  { intros e He. apply filter_In in He. destruct He as [He _]. destruct (i_bonds _ I e He) as (_ & B & C & _). split; [exact C|now apply Hcan]. }
  pose proof (pay_all_spec _ _ _ _ Hnn E) as L. rewrite del_all_own.
  assert (PM : paid_to MOD UKEX (filter (of_dapp n) (bonds st)) = 0).
  { unfold paid_to. assert (G : forall bs : bonds_t, (forall e, In e bs -> snd (fst e) <> MOD) -> zsum (map (fun e => delta MOD UKEX (snd (fst e)) UKEX (snd e)) bs) = 0).
    { induction bs as [|e bs IH]; simpl; intros Hb; [reflexivity|]. rewrite IH by (intros; apply Hb; now right).
      unfold delta. destruct (not_mod_key (snd (fst e))) as [_ K]; [apply Hb; now left|]. rewrite K. reflexivity. }
    apply G. intros e He. apply filter_In in He. destruct He as [He _]. apply (i_bonds _ I) in He. apply Hus. tauto. }
  split; [|repeat split; auto].
  - apply (removal_inv st n d l I F S). rewrite L, PM. unfold delta. rewrite key_eqb_refl, sum_own, (i_sum _ I n d F S). lia.
  - intros u Hu. rewrite L, paid_to_own. destruct (not_mod_key u Hu) as [K _]. unfold delta at 1. rewrite K. lia.
  - intros a den Hd. rewrite L. rewrite delta_den by exact Hd. unfold paid_to.
    assert (G : forall bs : bonds_t, zsum (map (fun e => delta a den (snd (fst e)) UKEX (snd e)) bs) = 0).
    { induction bs as [|e bs IH]; simpl; [reflexivity|]. rewrite IH, delta_den by exact Hd. reflexivity. }
    rewrite G. lia.
Qed.

Lemma refund_succeeds st n d :
  Inv st -> find_dapp n (dapps st) = Some d -> d_status d = 0 ->
  (v_zero_blocks v = false \/ forall u a, In (n, u, a) (bonds st) -> 0 < a) ->
  exists st', refund v n st = Ok st'.
Proof.
  intros I F S G. unfold refund. destruct (i_names _ I n d F) as (HnN & _). rewrite (covered_own st n I HnN).
  destruct (pay_all_ok (negb (v_zero_blocks v)) (filter (of_dapp n) (bonds st)) (led st)) as [l E].
  - destruct G as [G|G]; [left; now rewrite G|right]. intros [[n' u] a] He. apply filter_In in He. destruct He as [He Ho].
    apply of_dapp_true in Ho. simpl in *. subst n'. eapply G; eauto.
  - intros e He. apply filter_In in He. destruct He as [He _]. destruct (i_bonds _ I e He) as (_ & B & C & _). split; [exact C|split; [now apply Hus|now apply Hcan]].
  - rewrite sum_own, <- (i_sum _ I n d F S).
    assert (d_total d <= sum_totals (dapps st)).
    { apply total_le_sum; [|apply find_dapp_In in F; tauto]. intros x Hx.
      assert (Fx : find_dapp (d_name x) (dapps st) = Some x) by (apply In_find; auto; apply (i_uniq _ I)).
      now apply (i_names _ I) in Fx. }
    pose proof (i_held _ I). lia.
  - rewrite E. cbn [bind]. eauto.
Qed.

(* ---------------------------------------------------------------- launch *)
Lemma send_other_den from to den amt l l' a : send from to den amt l = Ok l' -> den <> UKEX -> bal a UKEX l' = bal a UKEX l.
Proof. intros H Hd. apply send_spec in H. destruct H as (_ & _ & L). rewrite L, !delta_den by congruence. lia. Qed.
Lemma mint_other_den den amt l l' a : mint den amt l = Ok l' -> den <> UKEX -> bal a UKEX l' = bal a UKEX l.
Proof. intros H Hd. apply mint_spec in H. destruct H as (_ & L). rewrite L, !delta_den by congruence. lia. Qed.

Lemma launch_spec st d st' :
  Inv st -> find_dapp (d_name d) (dapps st) = Some d -> d_status d = 0 -> launch v d st = Ok st' ->
  Inv st' /\ now st' = now st /\ (forall a, bal a UKEX (led st') = bal a UKEX (led st))
  /\ (st' = st \/ (dapps st' = set_dapp (with_ptime (with_status d 3) (now st)) (dapps st)
                   /\ bonds st' = filter (fun e => negb (of_dapp (d_name d) e)) (bonds st))).
Proof.
  intros I F S H. unfold launch in H. destruct (negb (d_lp_ok d)); [inversion H; subst; auto 6|].
  destruct (lp_deposit d) as [dep| |]; [|discriminate|discriminate]. cbn [bind] in H.
  destruct (dep + d_postmint d + d_premint d <? 0); [discriminate|].
  destruct (mint (d_lp d) (dep + d_postmint d + d_premint d) (led st)) as [l1| |] eqn:M; [|discriminate|discriminate]. cbn [bind] in H.
  destruct (i_names _ I _ d F) as (HnN & Htot & Hlp).
  set (l2 := match send MOD SPEND (d_lp d) dep l1 with Ok l => l | _ => l1 end) in *.
  assert (L2 : forall a, bal a UKEX l2 = bal a UKEX (led st)).
  { intros a. unfold l2. destruct (send MOD SPEND (d_lp d) dep l1) eqn:E2.
    - rewrite (send_other_den _ _ _ _ _ _ a E2 Hlp). now apply (mint_other_den _ _ _ _ a M).
    - now apply (mint_other_den _ _ _ _ a M).
    - now apply (mint_other_den _ _ _ _ a M). }
  destruct (if 0 <? d_premint d then match send MOD (acct (d_team d)) (d_lp d) (d_premint d) l2 with Ok l => Ok l | _ => Panic "premint" end else Ok l2)
    as [l3| |] eqn:E3; [|discriminate|discriminate]. cbn [bind] in H. inversion H; subst; clear H. simpl.
  assert (L3 : forall a, bal a UKEX l3 = bal a UKEX (led st)).
  { intros a. destruct (0 <? d_premint d).
    - destruct (send MOD (acct (d_team d)) (d_lp d) (d_premint d) l2) eqn:E4; inversion E3; subst.
      rewrite (send_other_den _ _ _ _ _ _ a E4 Hlp). apply L2.
    - inversion E3; subst. apply L2. }
  rewrite (covered_own st _ I HnN), del_all_own.
  split; [|repeat split; auto].
  constructor; simpl.
  - apply uniq_set, (i_uniq _ I).
  - intros m x F' Sx. rewrite find_set in F'. simpl in F'. destruct (String.eqb (d_name d) m) eqn:E.
    + inversion F'; subst. discriminate.
    + rewrite sum_bonds_others, E. now apply (i_sum _ I).
  - rewrite sum_set by apply (i_uniq _ I). simpl. unfold total_of. rewrite F, L3. pose proof (i_held _ I). lia.
  - intros m x F' Sx. rewrite find_set in F'. simpl in F'. destruct (String.eqb (d_name d) m) eqn:E.
    + inversion F'; subst. discriminate.
    + now apply (i_max _ I m).
  - intros e He. apply filter_In in He. destruct He as [He _]. destruct (i_bonds _ I e He) as (A & B & C & D).
    repeat split; auto. rewrite find_set. simpl. destruct (String.eqb (d_name d) (fst (fst e))); [discriminate|exact D].
  - intros m x F'. rewrite find_set in F'. simpl in F'. destruct (String.eqb (d_name d) m) eqn:E.
    + inversion F'; subst. simpl. apply String.eqb_eq in E. subst. auto.
    + now apply (i_names _ I).
  - rewrite find_set. simpl. destruct (String.eqb (d_name d) "") eqn:E; [|apply (i_empty _ I)].
    apply String.eqb_eq in E. rewrite E, (i_empty _ I) in F. discriminate.
Qed.

Lemma finish_spec st d st' :
  Inv st -> find_dapp (d_name d) (dapps st) = Some d -> d_status d = 0 -> finish v c d st = Ok st' ->
  Inv st' /\ now st' = now st
  /\ (forall m, m <> d_name d -> find_dapp m (dapps st') = find_dapp m (dapps st))
  /\ (forall m u, m <> d_name d -> bond_amt m u (bonds st') = bond_amt m u (bonds st)).
Proof.
  intros I F S H. unfold finish in H. destruct (d_total d <? min_thr c).
  - destruct (refund v (d_name d) st) as [s| |] eqn:R; inversion H; subst; [|auto].
    destruct (refund_spec st _ d st' I F S R) as (I' & Hn & Hd & Hb & _). rewrite Hd, Hb. split; [exact I'|split; [exact Hn|split]].
    + intros m Hm. rewrite find_remove. apply not_eq_sym, String.eqb_neq in Hm. now rewrite Hm.
    + intros m u Hm. rewrite bond_amt_others. apply not_eq_sym, String.eqb_neq in Hm. now rewrite Hm.
  - destruct (launch_spec st d st' I F S H) as (I' & Hn & _ & [->|[Hd Hb]]); [auto|]. rewrite Hd, Hb. split; [exact I'|split; [exact Hn|split]].
    + intros m Hm. rewrite find_set. simpl. apply not_eq_sym, String.eqb_neq in Hm. now rewrite Hm.
    + intros m u Hm. rewrite bond_amt_others. apply not_eq_sym, String.eqb_neq in Hm. now rewrite Hm.
Qed.

(* storing a record with the same name, total and LP denomination and a status other than Bootstrap *)
Lemma relabel_inv st d d' l :
  Inv st -> find_dapp (d_name d') (dapps st) = Some d -> d_total d' = d_total d -> d_lp d' = d_lp d -> d_status d' <> 0 ->
  (forall a, bal a UKEX l = bal a UKEX (led st)) ->
  Inv (mkState (now st) (set_dapp d' (dapps st)) (bonds st) l).
Proof.
  intros I F Ht Hl Hs L. destruct (i_names _ I _ d F) as (HnN & Htot & Hlp). constructor; simpl.
  - apply uniq_set, (i_uniq _ I).
  - intros m x F' Sx. rewrite find_set in F'. destruct (String.eqb (d_name d') m) eqn:E.
    + inversion F'; subst. contradiction.
    + now apply (i_sum _ I).
  - rewrite sum_set by apply (i_uniq _ I). unfold total_of. rewrite F, L, Ht. pose proof (i_held _ I). lia.
  - intros m x F' Sx. rewrite find_set in F'. destruct (String.eqb (d_name d') m) eqn:E.
    + inversion F'; subst. contradiction.
    + now apply (i_max _ I m).
  - intros e He. destruct (i_bonds _ I e He) as (A & B & C & D). repeat split; auto. rewrite find_set.
    destruct (String.eqb (d_name d') (fst (fst e))); [discriminate|exact D].
  - intros m x F'. rewrite find_set in F'. destruct (String.eqb (d_name d') m) eqn:E.
    + inversion F'; subst. apply String.eqb_eq in E. subst. rewrite Ht, Hl. auto.
    + now apply (i_names _ I).
  - rewrite find_set. destruct (String.eqb (d_name d') "") eqn:E; [|apply (i_empty _ I)].
    apply String.eqb_eq in E. rewrite E, (i_empty _ I) in F. discriminate.
Qed.

Lemma active_step_spec st d s :
  Inv st -> (d_status d = 1 -> find_dapp (d_name d) (dapps st) = Some d) -> active_step c d st = Ok s ->
  Inv s /\ now s = now st
  /\ (forall m, m <> d_name d -> find_dapp m (dapps s) = find_dapp m (dapps st))
  /\ bonds s = bonds st /\ (forall a, bal a UKEX (led s) = bal a UKEX (led st)).
Proof.
  intros I F H. unfold active_step in H. destruct (d_status d =? 1) eqn:S; simpl in H; [|inversion H; subst; auto 6].
  apply Z.eqb_eq in S. specialize (F S). destruct (i_names _ I _ d F) as (HnN & Htot & Hlp).
  assert (Hs1 : d_status d <> 0) by lia.
  set (pay := ((wrap64 (x_ptime (d_x d) + x_drip (d_x d)) <? now st) && (0 <? d_postmint d))%bool) in *.
  assert (P : forall s1, (if pay then if d_premint d <? 0 then Panic "negative coin amount"
                 else match send MOD (acct (d_team d)) (d_lp d) (d_premint d) (led st) with
                      | Ok l => Ok (mkState (now st) (set_dapp d (dapps st)) (bonds st) l)
                      | _ => Panic "postmint" end else Ok st) = Ok s1 ->
              Inv s1 /\ now s1 = now st /\ (forall m, m <> d_name d -> find_dapp m (dapps s1) = find_dapp m (dapps st))
              /\ bonds s1 = bonds st /\ (forall a, bal a UKEX (led s1) = bal a UKEX (led st))
              /\ find_dapp (d_name d) (dapps s1) = Some d).
  { intros s1 H1. destruct pay; [|inversion H1; subst; auto 7].
    destruct (d_premint d <? 0); [discriminate|].
    destruct (send MOD (acct (d_team d)) (d_lp d) (d_premint d) (led st)) as [l| |] eqn:E; inversion H1; subst; clear H1. simpl.
    assert (L : forall a, bal a UKEX l = bal a UKEX (led st)) by (intros a; eapply send_other_den; eauto).
    split; [apply (relabel_inv st d d l I F eq_refl eq_refl Hs1 L)|]. split; [reflexivity|]. split.
    - intros m Hm. rewrite find_set. apply not_eq_sym, String.eqb_neq in Hm. now rewrite Hm.
    - split; [reflexivity|]. split; [exact L|]. rewrite find_set, String.eqb_refl. reflexivity. }
  match type of H with (do s1 <- ?X; _) = _ => destruct X as [s1| |] eqn:E1; [|discriminate|discriminate] end. cbn [bind] in H.
  destruct (P s1 eq_refl) as (I1 & N1 & Fr1 & B1 & L1 & F1).
  destruct (wrap64 (x_liq (d_x d) + c_liq_period c) <? now st); inversion H; subst; clear H; [|auto 6]. simpl.
  split; [apply (relabel_inv s1 d (with_status d 3) (led s1) I1 F1 eq_refl eq_refl); [simpl; lia|auto]|].
  split; [exact N1|]. split; [|auto].
  intros m Hm. rewrite find_set. simpl. pose proof Hm as Hm'. apply not_eq_sym, String.eqb_neq in Hm'. rewrite Hm'. now apply Fr1.
Qed.

Lemma end_loop_inv ds : forall st st',
  Inv st -> NoDup (map d_name ds) -> (forall d, In d ds -> find_dapp (d_name d) (dapps st) = Some d) ->
  end_loop v c ds st = Ok st' -> Inv st' /\ now st' = now st.
Proof.
  induction ds as [|d r IH]; intros st st' I U Hf H; simpl in H; [inversion H; subst; auto|].
  inversion U; subst.
  destruct (if expired c (now st) d then finish v c d st else Ok st) as [s| |] eqn:E; [|discriminate|discriminate]. cbn [bind] in H.
  destruct (active_step c d s) as [s2| |] eqn:E2; [|discriminate|discriminate]. cbn [bind] in H.
  assert (Step : Inv s2 /\ now s2 = now st /\ (forall m, m <> d_name d -> find_dapp m (dapps s2) = find_dapp m (dapps st))).
  { destruct (expired c (now st) d) eqn:X.
    - unfold expired in X. apply andb_true_iff in X. destruct X as [X _]. apply Z.eqb_eq in X.
      destruct (finish_spec st d s I (Hf d (or_introl eq_refl)) X E) as (I' & Hn & Hfr & _).
      destruct (active_step_spec s d s2 I') as (I2 & N2 & Fr2 & _); [intros; lia|exact E2|].
      split; [exact I2|]. split; [congruence|]. intros m Hm. rewrite Fr2, Hfr; auto.
    - inversion E; subst.
      destruct (active_step_spec s d s2 I) as (I2 & N2 & Fr2 & _); [intros; apply Hf; now left|exact E2|]. auto. }
  destruct Step as (I2 & N2 & Fr2).
  destruct (IH s2 st' I2 H3) as [I'' Hn'']; [|exact H|split; [exact I''|congruence]].
  intros x Hx. rewrite Fr2; [apply Hf; now right|]. intros Heq. apply H2. rewrite <- Heq. now apply in_map.
Qed.

Lemma Inv_now st t : Inv st -> Inv (mkState t (dapps st) (bonds st) (led st)).
Proof. intros [A B C D E F G]. constructor; auto. Qed.

Lemma end_block_inv st st' : Inv st -> end_block v c st = Ok st' -> Inv st'.
Proof.
  intros I H. unfold end_block in H. apply (end_loop_inv (dapps st) st st' I) in H; [tauto|apply (i_uniq _ I)|].
  intros d Hd. apply In_find; auto. apply (i_uniq _ I).
Qed.

(* ---------------------------------------------------------------- whole histories *)
Lemma step_inv st o st' : Inv st -> op_in o -> step v c st o = Ok st' -> Inv st'.
Proof.
  intros I Ho H. destruct o; simpl in *; try tauto; try discriminate.
  - eapply create_inv; eauto.
  - eapply bond_inv; eauto.
  - eapply reclaim_inv; eauto.
  - eapply end_block_inv; [|exact H]. now apply Inv_now.
Qed.

Lemma apply_inv st o : Inv st -> op_in o -> Inv (apply v c st o).
Proof. intros I Ho. unfold apply. destruct (step v c st o) eqn:E; auto. eapply step_inv; eauto. Qed.

Lemma run_inv ops : forall st, Inv st -> Forall op_in ops -> Inv (run v c ops st).
Proof.
  induction ops as [|o r IH]; intros st I Ho; simpl; [exact I|]. inversion Ho; subst. apply IH; auto. now apply apply_inv.
Qed.

Definition empty_state (l : ledger) : state := mkState 0 [] [] l.
Lemma Inv_empty l : bal MOD UKEX l = k -> Inv (empty_state l).
Proof.
  intros H. constructor; simpl; try (intros; discriminate); try tauto; [constructor|unfold sum_totals; simpl; lia].
Qed.

(* signed amount an accepted user message moves from the user's account into the bond record (n, u) *)
Definition flow (o : op) (n u : string) : Z :=
  match o with
  | OCreate u' _ _ n' amt _ => if key_eqb n u n' u' then amt else 0
  | OBond u' n' _ amt => if key_eqb n u n' u' then amt else 0
  | OReclaim u' n' _ amt => if key_eqb n u n' u' then - amt else 0
  | _ => 0
  end.
Definition outflow (o : op) (u : string) : Z :=
  match o with
  | OCreate u' _ _ _ amt _ => if String.eqb u u' then amt else 0
  | OBond u' _ _ amt => if String.eqb u u' then amt else 0
  | OReclaim u' _ _ amt => if String.eqb u u' then - amt else 0
  | _ => 0
  end.
(* deposits minus reclaims of user u into dApp n over the accepted messages of a history *)
Fixpoint net_flow (ops : list op) (st : state) (n u : string) : Z :=
  match ops with
  | [] => 0
  | o :: r => (if is_ok (step v c st o) then flow o n u else 0) + net_flow r (apply v c st o) n u
  end.
Fixpoint net_out (ops : list op) (st : state) (u : string) : Z :=
  match ops with
  | [] => 0
  | o :: r => (if is_ok (step v c st o) then outflow o u else 0) + net_out r (apply v c st o) u
  end.

Lemma user_step st o st' : Inv st -> op_in o -> is_user_op o = true -> step v c st o = Ok st' ->
  (forall n u, bond_amt n u (bonds st') = bond_amt n u (bonds st) + flow o n u)
  /\ (forall u, u <> MOD -> bal u UKEX (led st') = bal u UKEX (led st) - outflow o u).
Proof.
  intros I Ho Hu H. destruct o; simpl in *; try discriminate.
  - destruct (create_inv _ _ _ _ _ _ _ _ I Ho H) as (_ & _ & A & B). split; [exact A|exact B].
  - destruct (bond_inv _ _ _ _ _ _ I Ho H) as (_ & _ & A & B & _). split; [exact A|exact B].
  - destruct (reclaim_inv _ _ _ _ _ _ I Ho H) as (_ & _ & A & B & _). split.
    + intros n0 u0. rewrite A. destruct (key_eqb n0 u0 n u); lia.
    + intros u0 Hm. rewrite B by exact Hm. destruct (String.eqb u0 u); lia.
Qed.

Lemma bonds_follow_flows ops : forall st, Inv st -> Forall op_in ops -> forallb is_user_op ops = true ->
  (forall n u, bond_amt n u (bonds (run v c ops st)) = bond_amt n u (bonds st) + net_flow ops st n u)
  /\ (forall u, u <> MOD -> bal u UKEX (led (run v c ops st)) = bal u UKEX (led st) - net_out ops st u).
Proof.
  induction ops as [|o r IH]; intros st I Ho Hu; simpl; [split; intros; lia|].
  inversion Ho; subst. apply andb_true_iff in Hu. destruct Hu as [Hu1 Hu2].
  destruct (IH (apply v c st o) (apply_inv st o I H1) H2 Hu2) as [A B]. unfold apply in *.
  destruct (step v c st o) as [s| |] eqn:E; simpl.
  - destruct (user_step st o s I H1 Hu1 E) as [P Q]. split.
    + intros n u. rewrite A, P. lia.
    + intros u Hm. rewrite B, Q by exact Hm. lia.
  - split; intros; [rewrite A|rewrite B by assumption]; lia.
  - split; intros; [rewrite A|rewrite B by assumption]; lia.
Qed.
End Hist.

(* ================================================================ when is a history "separated"? *)
Lemma repaired_separated v N Us : v_prefix v = false -> separated v N Us.
Proof. intros H. split; [|congruence]. intros n n' u a _ _ _. unfold covers. rewrite H. reflexivity. Qed.

(* decidable check for the unchanged tree: no used name is a prefix of another used name ++ user, none is empty *)
Definition sepb (N Us : list string) : bool :=
  (forallb (fun n => forallb (fun n' => forallb (fun u => Bool.eqb (String.prefix n (n' ++ u)) (String.eqb n' n)) Us) N) N
   && negb (existsb (String.eqb "") N))%bool.
Lemma sepb_separated v N Us : sepb N Us = true -> separated v N Us.
Proof.
  unfold sepb. intros H. apply andb_true_iff in H. destruct H as [H1 H2]. split.
  - intros n n' u a Hn Hn' Hu. unfold covers. simpl. destruct (v_prefix v); [|reflexivity].
    rewrite forallb_forall in H1. specialize (H1 n Hn). rewrite forallb_forall in H1. specialize (H1 n' Hn').
    rewrite forallb_forall in H1. specialize (H1 u Hu). now apply Bool.eqb_prop in H1.
  - intros _ Hin. apply negb_true_iff in H2. assert (existsb (String.eqb "") N = true); [|congruence].
    apply existsb_exists. exists ""%string. split; [exact Hin|reflexivity].
Qed.

(* ================================================================ a failed bootstrap refunds everybody *)
Lemma failed_bootstrap_refund v c N Us k st d :
  separated v N Us -> users_ok Us -> canonical Us -> 0 <= k -> Inv c N Us k st ->
  find_dapp (d_name d) (dapps st) = Some d -> d_status d = 0 -> d_total d < min_thr c ->
  (v_zero_blocks v = false \/ forall u a, In (d_name d, u, a) (bonds st) -> 0 < a) ->
  exists st', finish v c d st = Ok st'
    /\ find_dapp (d_name d) (dapps st') = None
    /\ (forall e, In e (bonds st') -> fst (fst e) <> d_name d)
    /\ (forall u, u <> MOD -> bal u UKEX (led st') = bal u UKEX (led st) + bond_amt (d_name d) u (bonds st))
    /\ Inv c N Us k st'.
Proof.
  intros Hs Hu Hc Hk I F S Hmin G. destruct (refund_succeeds v c N Us k Hs Hu Hc Hk st _ d I F S G) as [st' R].
  exists st'. unfold finish. assert (X : (d_total d <? min_thr c) = true) by lia. rewrite X, R.
  destruct (refund_spec v c N Us k Hs Hu Hc st _ d st' I F S R) as (I' & _ & Hd & Hb & Hbal & _).
  split; [reflexivity|]. split; [rewrite Hd, find_remove, String.eqb_refl; reflexivity|]. split; [|split; [exact Hbal|exact I']].
  intros e He. rewrite Hb in He. apply filter_In in He. destruct He as [_ He]. apply negb_true_iff in He.
  unfold of_dapp in He. now apply String.eqb_neq in He.
Qed.

(* ================================================================ refutations on the unchanged tree *)
Definition rU0 : string := "kira1vverqatnv4erqh6lta047h6lta047h6ljxphls".
Definition rU1 : string := "kira1vverqatnv4erzh6lta047h6lta047h6lhvk0gt".
Definition rU2 : string := "kira1vverqatnv4eryh6lta047h6lta047h6lcjxwc0".
Definition rcfg : config := mkConfig 1 10 1000 2419200 100000000000 100000000000000 1000000000000000.
Definition rst0 : state := mkState 0 [] [] [(rU0, UKEX, 2000000000); (rU1, UKEX, 2000000000); (rU2, UKEX, 2000000000)].
Definition rp (lp : string) : dparams := mkParams lp true 500000000000000000 7 11 0 rU2 100 false.

(* the creation bond is not compared with the maximum *)
Definition w_max : list op := [OCreate rU0 false false "big" 50000000 (rp "lp/big")].
Lemma w_max_ok : exists d, find_dapp "big" (dapps (run as_is rcfg w_max rst0)) = Some d /\ d_status d = 0 /\ max_thr rcfg < d_total d.
Proof. eexists. vm_compute. repeat split; reflexivity. Qed.

(* a bonder who reclaimed everything leaves a zero record behind; the refund of the others then fails *)
Definition w_zero : list op :=
  [OCreate rU0 false false "aa" 20000 (rp "lp/aa"); OBond rU1 "aa" false 500; OReclaim rU1 "aa" false 500; OTick 2000].
Definition w_zero_final : state := Eval vm_compute in run as_is rcfg w_zero rst0.
Lemma w_zero_run : run as_is rcfg w_zero rst0 = w_zero_final.
Proof. vm_cast_no_check (eq_refl w_zero_final). Qed.
Lemma w_zero_ok :
  let st := run as_is rcfg w_zero rst0 in
  exists d, find_dapp "aa" (dapps st) = Some d /\ d_status d = 0 /\ d_total d < min_thr rcfg
            /\ bal rU0 UKEX (led st) = 2000000000 - 20000 /\ now st = 2000.
Proof. cbv zeta. rewrite w_zero_run. unfold w_zero_final. eexists. repeat split; try reflexivity. Qed.

(* "ab" is a prefix of "abc": the failed bootstrap of "ab" also pays out the bonders of "abc", whose
   records and total stay -- the module no longer holds the recorded bond of "abc" *)
Definition w_prefix : list op :=
  [OCreate rU0 false false "ab" 20000 (rp "lp/ab"); OTick 500; OCreate rU1 false false "abc" 30000 (rp "lp/abc");
   OBond rU2 "abc" false 700; OTick 600].
Lemma w_prefix_ok :
  let st := run as_is rcfg w_prefix rst0 in
  sum_totals (dapps st) = 30700 /\ bal MOD UKEX (led st) = 0 /\ bond_amt "abc" rU2 (bonds st) = 700
  /\ bal rU2 UKEX (led st) = 2000000000.
Proof. vm_compute. repeat split; reflexivity. Qed.
(* the same history on the repaired tree *)
Lemma w_prefix_repaired :
  let st := run repaired rcfg w_prefix rst0 in sum_totals (dapps st) = 30700 /\ bal MOD UKEX (led st) = 30700.
Proof. vm_compute. repeat split; reflexivity. Qed.

(* ================================================================ LP messages *)
Lemma lp_message_rejected v c st k u n n2 den amt : apply v c st (OLpMsg k u n n2 den amt) = st.
Proof. reflexivity. Qed.

(* ConvertDappPoolTx with source = target writes the stale second record: the recorded bond exceeds the balance *)
Definition w_convert : list op :=
  [OCreate rU0 false false "x" 1000000 (mkParams "lp/x" true 1000000000000000 0 5000000 0 rU2 100 false); OTick 1000;
   KSwap rU1 "x" false 1000 0; KConvert rU1 "x" "x" "lp/x" 1].
Lemma w_convert_ok :
  let st := run as_is rcfg w_convert rst0 in bal MOD UKEX (led st) < sum_totals (dapps st).
Proof. vm_compute. reflexivity. Qed.

(* ================================================================ statements over whole histories *)
Section Statements.
Variable v : variant.
Variable c : config.
Variable N Us : list string.
Hypothesis Hsep : separated v N Us.
Hypothesis Hus : users_ok Us.
Hypothesis Hcan : canonical Us.

Lemma history_inv ops l : 0 <= bal MOD UKEX l -> Forall (op_in v c N Us) ops -> Inv c N Us (bal MOD UKEX l) (run v c ops (empty_state l)).
Proof. intros Hl Ho. apply (run_inv v c N Us _ Hsep Hus Hcan); [now apply Inv_empty|exact Ho]. Qed.

Lemma total_is_sum ops l : 0 <= bal MOD UKEX l -> Forall (op_in v c N Us) ops ->
  forall n d, find_dapp n (dapps (run v c ops (empty_state l))) = Some d -> d_status d = 0 ->
  d_total d = sum_bonds n (bonds (run v c ops (empty_state l))).
Proof. intros Hl Ho. apply (i_sum _ _ _ _ _ (history_inv ops l Hl Ho)). Qed.

Lemma total_max ops l : 0 <= bal MOD UKEX l -> Forall (op_in v c N Us) ops ->
  forall n d, find_dapp n (dapps (run v c ops (empty_state l))) = Some d -> d_status d = 0 -> d_total d <= max_thr c.
Proof. intros Hl Ho. apply (i_max _ _ _ _ _ (history_inv ops l Hl Ho)). Qed.

Lemma bond_held ops l : 0 <= bal MOD UKEX l -> Forall (op_in v c N Us) ops ->
  sum_totals (dapps (run v c ops (empty_state l))) + bal MOD UKEX l = bal MOD UKEX (led (run v c ops (empty_state l))).
Proof. intros Hl Ho. apply (i_held _ _ _ _ _ (history_inv ops l Hl Ho)). Qed.

Lemma deposits_minus_reclaims k ops st : Inv c N Us k st -> Forall (op_in v c N Us) ops -> forallb is_user_op ops = true ->
  (forall n u, bond_amt n u (bonds (run v c ops st)) = bond_amt n u (bonds st) + net_flow v c ops st n u)
  /\ (forall u, u <> MOD -> bal u UKEX (led (run v c ops st)) = bal u UKEX (led st) - net_out v c ops st u).
Proof. apply (bonds_follow_flows v c N Us k Hsep Hus Hcan). Qed.

(* the refund at the end of block, for any state reached by a history *)
Lemma refund_after_history ops l d :
  0 <= bal MOD UKEX l -> Forall (op_in v c N Us) ops ->
  let st := run v c ops (empty_state l) in
  find_dapp (d_name d) (dapps st) = Some d -> d_status d = 0 -> d_total d < min_thr c ->
  (v_zero_blocks v = false \/ forall u a, In (d_name d, u, a) (bonds st) -> 0 < a) ->
  exists st', finish v c d st = Ok st'
    /\ find_dapp (d_name d) (dapps st') = None
    /\ (forall e, In e (bonds st') -> fst (fst e) <> d_name d)
    /\ (forall u, u <> MOD -> bal u UKEX (led st') = bal u UKEX (led st) + bond_amt (d_name d) u (bonds st)).
Proof.
  intros Hl Ho st F S M G.
  destruct (failed_bootstrap_refund v c N Us _ st d Hsep Hus Hcan Hl (history_inv ops l Hl Ho) F S M G) as (st' & A & B & C & D & _).
  exists st'. auto.
Qed.
End Statements.

(* non-vacuity: a history of the unchanged tree inside the guards *)
Definition ex_names : list string := ["alpha"; "beta"]%string.
Definition ex_users : list string := [rU0; rU1; rU2].
Definition ex_ops : list op :=
  [OCreate rU0 false false "alpha" 20000 (rp "lp/alpha"); OBond rU1 "alpha" false 700; OCreate rU1 false false "beta" 2000000 (rp "lp/beta");
   OReclaim rU1 "alpha" false 200; OTick 2000].
Lemma ex_guards : sepb ex_names ex_users = true /\ users_ok ex_users /\ canonical ex_users /\ Forall (op_in as_is rcfg ex_names ex_users) ex_ops.
Proof.
  split; [vm_compute; reflexivity|]. split; [|split].
  - intros u Hu. simpl in Hu. intros ->. repeat (destruct Hu as [Hu|Hu]; [discriminate|]). exact Hu.
  - intros u Hu. simpl in Hu. repeat (destruct Hu as [<-|Hu]; [vm_compute; reflexivity|]). destruct Hu.
  - unfold ex_ops, ex_names, ex_users. repeat apply Forall_cons; try apply Forall_nil; simpl; repeat split;
      try discriminate; try lia; try (simpl; auto 8; fail); try (intros; vm_compute; discriminate).
Qed.
Lemma ex_result :
  let st := run as_is rcfg ex_ops (empty_state (led rst0)) in
  find_dapp "alpha" (dapps st) = None /\ bal rU1 UKEX (led st) = 2000000000 - 2000000 /\ bal rU0 UKEX (led st) = 2000000000
  /\ map d_status (dapps st) = [3].
Proof. vm_compute. repeat split; reflexivity. Qed.

(* ================================================================ full strength on the repaired tree *)
(* the three repaired defects are absent (what the probes find on the current tree) *)
Definition fixed (v : variant) : Prop := v_prefix v = false /\ v_zero_blocks v = false /\ v_create_unchecked v = false.
(* well-formed inputs: senders are not the module account, the LP denomination is not ukex (it is "lp/"+Denom),
   and the two inputs outside the modelled domain: a negative or foreign-denominated creation bond of a
   holder of the bond-free creation permission *)
Definition wf_op (o : op) : Prop :=
  match o with
  | OCreate u priv foreign _ amt p => (u <> MOD /\ acct u = u) /\ (priv && foreign)%bool = false /\ 0 <= amt /\ p_lp p <> UKEX
  | OBond u _ _ _ | OReclaim u _ _ _ => u <> MOD /\ acct u = u
  | OTick _ | OLpMsg _ _ _ _ _ _ => True
  | _ => False
  end.
Definition op_names (o : op) : list string := match o with OCreate _ _ _ n _ _ => [n] | _ => [] end.
Definition op_users (o : op) : list string :=
  match o with OCreate u _ _ _ _ _ | OBond u _ _ _ | OReclaim u _ _ _ => [u] | _ => [] end.
Definition names_of (ops : list op) : list string := flat_map op_names ops.
Definition users_of (ops : list op) : list string := flat_map op_users ops.

Lemma wf_op_in v c N Us o : v_create_unchecked v = false -> wf_op o -> incl (op_names o) N -> incl (op_users o) Us -> op_in v c N Us o.
Proof.
  intros Hv W HN HU. destruct o; simpl in *; try tauto.
  - destruct W as (A & B & C & D). repeat split; auto; [apply HU; now left|apply HN; now left|congruence].
  - apply HU; now left.
  - apply HU; now left.
Qed.
Lemma wf_ops_in v c ops : v_create_unchecked v = false -> Forall wf_op ops ->
  forall N Us, incl (names_of ops) N -> incl (users_of ops) Us -> Forall (op_in v c N Us) ops.
Proof.
  intros Hv W. induction W as [|o r Wo Wr IH]; intros N Us HN HU; constructor.
  - apply wf_op_in; auto; intros x Hx; [apply HN|apply HU]; unfold names_of, users_of; simpl; apply in_or_app; now left.
  - apply IH; intros x Hx; [apply HN|apply HU]; unfold names_of, users_of; simpl; apply in_or_app; now right.
Qed.
Lemma wf_users_ok ops : Forall wf_op ops -> users_ok (users_of ops).
Proof.
  intros W u Hu. unfold users_of in Hu. apply in_flat_map in Hu. destruct Hu as (o & Ho & Hu).
  rewrite Forall_forall in W. specialize (W o Ho). destruct o; simpl in *; try tauto; destruct Hu as [<-|[]]; tauto.
Qed.
Lemma wf_canonical ops : Forall wf_op ops -> canonical (users_of ops).
Proof.
  intros W u Hu. unfold users_of in Hu. apply in_flat_map in Hu. destruct Hu as (o & Ho & Hu).
  rewrite Forall_forall in W. specialize (W o Ho). destruct o; simpl in *; try tauto; destruct Hu as [<-|[]]; tauto.
Qed.

Section Fixed.
Variable v : variant.
Variable c : config.
Hypothesis Hfix : fixed v.

Lemma fixed_inv ops l : 0 <= bal MOD UKEX l -> Forall wf_op ops ->
  Inv c (names_of ops) (users_of ops) (bal MOD UKEX l) (run v c ops (empty_state l)).
Proof.
  intros Hl W. destruct Hfix as (F1 & F2 & F3). apply history_inv; auto.
  - now apply repaired_separated.
  - now apply wf_users_ok.
  - now apply wf_canonical.
  - apply wf_ops_in; auto; apply incl_refl.
Qed.

Lemma total_is_sum_fixed ops l : 0 <= bal MOD UKEX l -> Forall wf_op ops ->
  forall n d, find_dapp n (dapps (run v c ops (empty_state l))) = Some d -> d_status d = 0 ->
  d_total d = sum_bonds n (bonds (run v c ops (empty_state l))).
Proof. intros Hl W. apply (i_sum _ _ _ _ _ (fixed_inv ops l Hl W)). Qed.

Lemma total_max_fixed ops l : 0 <= bal MOD UKEX l -> Forall wf_op ops ->
  forall n d, find_dapp n (dapps (run v c ops (empty_state l))) = Some d -> d_status d = 0 -> d_total d <= max_thr c.
Proof. intros Hl W. apply (i_max _ _ _ _ _ (fixed_inv ops l Hl W)). Qed.

Lemma bond_held_fixed ops l : 0 <= bal MOD UKEX l -> Forall wf_op ops ->
  sum_totals (dapps (run v c ops (empty_state l))) + bal MOD UKEX l = bal MOD UKEX (led (run v c ops (empty_state l))).
Proof. intros Hl W. apply (i_held _ _ _ _ _ (fixed_inv ops l Hl W)). Qed.

Lemma refund_fixed ops l d : 0 <= bal MOD UKEX l -> Forall wf_op ops ->
  let st := run v c ops (empty_state l) in
  find_dapp (d_name d) (dapps st) = Some d -> d_status d = 0 -> d_total d < min_thr c ->
  exists st', finish v c d st = Ok st'
    /\ find_dapp (d_name d) (dapps st') = None
    /\ (forall e, In e (bonds st') -> fst (fst e) <> d_name d)
    /\ (forall u, u <> MOD -> bal u UKEX (led st') = bal u UKEX (led st) + bond_amt (d_name d) u (bonds st)).
Proof.
  intros Hl W st F S M. destruct Hfix as (F1 & F2 & F3).
  destruct (failed_bootstrap_refund v c (names_of ops) (users_of ops) (bal MOD UKEX l) st d) as (st' & A & B & C & D & _); auto.
  - now apply repaired_separated.
  - now apply wf_users_ok.
  - now apply wf_canonical.
  - now apply fixed_inv.
  - exists st'. auto.
Qed.

(* bond records follow the money: after any history [pre], over any further create / bond / reclaim messages *)
Lemma deposits_fixed pre ops l : 0 <= bal MOD UKEX l -> Forall wf_op (pre ++ ops) -> forallb is_user_op ops = true ->
  let st := run v c pre (empty_state l) in
  (forall n u, bond_amt n u (bonds (run v c ops st)) = bond_amt n u (bonds st) + net_flow v c ops st n u)
  /\ (forall u, u <> MOD -> bal u UKEX (led (run v c ops st)) = bal u UKEX (led st) - net_out v c ops st u).
Proof.
  intros Hl W Hu st. destruct Hfix as (F1 & F2 & F3).
  set (N := names_of (pre ++ ops)). set (Us := users_of (pre ++ ops)).
  assert (Hs : separated v N Us) by now apply repaired_separated.
  assert (Hk : users_ok Us) by now apply wf_users_ok.
  assert (Hcn : canonical Us) by now apply wf_canonical.
  assert (Hall : Forall (op_in v c N Us) (pre ++ ops)) by (apply wf_ops_in; auto; apply incl_refl).
  apply Forall_app in Hall. destruct Hall as [Hp Ho].
  apply (bonds_follow_flows v c N Us (bal MOD UKEX l) Hs Hk Hcn); auto. apply history_inv; auto.
Qed.
End Fixed.

Lemma repaired_fixed : fixed repaired.
Proof. repeat split. Qed.
(* the tree now: every repair but the one of the upsert proposal handler *)
Lemma current_fixed : fixed (mkVariant false false false false false true true).
Proof. repeat split. Qed.
