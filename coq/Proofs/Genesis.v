(* Proofs for C12 (genesis export / re-import). *)
From Sekai Require Import Base.Prelude Gen.GenesisCoverage Model.Genesis Model.C12Check.
Open Scope Z_scope.

Local Ltac inv H := inversion H; subst; clear H.

(* ================================================================ 1. class level *)

(* the table regenerated from the code: every store class is exported and imported, or audited with a
   reason that agrees with what the translator saw; no audit entry is stale; the translator stayed
   inside its fragment; the initialisation order respects the dependencies *)
Lemma coverage_complete : uncovered_unaudited = [] /\ stale_audits = [] /\ gen_errors = [] /\ order_ok = true.
Proof. vm_compute. repeat split; reflexivity. Qed.

Lemma filter_nil_forall : forall {A} (f : A -> bool) l, filter f l = [] -> forall x, In x l -> f x = false.
Proof.
  induction l as [|a l IH]; cbn; intros H x Hx; [tauto|].
  destruct (f a) eqn:E; [discriminate|]. destruct Hx as [Hx|Hx]; [subst; assumption|auto].
Qed.

Lemma every_class_ok : forall c, In c classes -> class_ok c = true.
Proof.
  intros c Hc. destruct coverage_complete as [H _]. unfold uncovered_unaudited in H.
  apply map_eq_nil in H. pose proof (filter_nil_forall _ _ H c Hc) as E.
  apply negb_false_iff in E. exact E.
Qed.

Section ClassLevel.
  Variable content : Type.
  Variable empty : content.
  Variable derive : cls -> mstate content -> content.
  Notation reimp := (reimport_m content empty derive).
  Notation exp := (export_m content empty).

  (* a class read by export and written by import survives, whatever it holds *)
  Lemma covered_class_preserved : forall (s : mstate content) c, covered c = true -> reimp s c = s c.
  Proof.
    intros s c H. unfold covered in H. apply andb_true_iff in H as [He Hi].
    unfold reimport_m, import_m, export_m. rewrite Hi, He. reflexivity.
  Qed.
  (* a derived class survives exactly when it agrees with what InitGenesis rebuilds *)
  Lemma derived_class_preserved : forall (s : mstate content) c,
    c_imported c = true -> c_exported c = false -> (reimp s c = s c <-> s c = derive c (exp s)).
  Proof.
    intros s c Hi He. unfold reimport_m, import_m. rewrite Hi, He. split; intro H; congruence.
  Qed.
  (* a class InitGenesis never writes is empty after the re-import: whatever it held is lost *)
  Lemma unimported_class_lost : forall (s : mstate content) c, c_imported c = false -> reimp s c = empty.
  Proof. intros s c Hi. unfold reimport_m, import_m. rewrite Hi. reflexivity. Qed.

  (* full-strength statement at class level and its refutation *)
  Definition class_roundtrip := forall (s : mstate content) c, In c classes -> reimp s c = s c.

  Lemma class_roundtrip_partial : forall (s : mstate content) c, In c classes ->
    audit_of (c_module c) (c_name c) audited = None -> reimp s c = s c.
  Proof.
    intros s c Hc Ha. pose proof (every_class_ok c Hc) as Hk. unfold class_ok in Hk. rewrite Ha in Hk.
    destruct (covered c) eqn:E; [|discriminate]. apply covered_class_preserved; assumption.
  Qed.

  Lemma class_roundtrip_refuted : forall x : content, x <> empty -> ~ class_roundtrip.
  Proof.
    intros x Hx H.
    (* witness: any class InitGenesis does not write (e.g. multistaking KeyLastUndelegationId) *)
    assert (Hex : exists c, find (fun c => negb (c_imported c)) classes = Some c) by (vm_compute; eexists; reflexivity).
    destruct Hex as [c Hf]. apply find_some in Hf as [Hc Hi]. apply negb_true_iff in Hi.
    specialize (H (fun _ => x) c Hc). rewrite unimported_class_lost in H by exact Hi. congruence.
  Qed.
  (* exact characterisation: when the derived indexes are consistent (InitGenesis rebuilds exactly what the
     store holds), a class survives the re-import for every state IF AND ONLY IF InitGenesis writes it; the
     lost classes are exactly the classes of the generated table with [c_imported = false] *)
  Lemma class_roundtrip_exact : forall x : content, x <> empty ->
    forall c, (forall s : mstate content, c_exported c = false -> s c = derive c (exp s)) ->
    ((forall s : mstate content, reimp s c = s c) <-> c_imported c = true).
  Proof.
    intros x Hx c Hd. split.
    - intro H. destruct (c_imported c) eqn:Hi; [reflexivity|]. exfalso.
      specialize (H (fun _ => x)). rewrite unimported_class_lost in H by exact Hi. congruence.
    - intros Hi s. destruct (c_exported c) eqn:He.
      + apply covered_class_preserved. unfold covered. rewrite He, Hi. reflexivity.
      + apply derived_class_preserved; auto.
  Qed.
End ClassLevel.

(* every class whose status is "lost" is a class InitGenesis never writes (so, by
   [unimported_class_lost], whatever it holds is gone after the re-import) *)
Lemma lost_status_not_imported : forall c, In c classes -> status_of (c_store c) (c_name c) = SLost -> c_imported c = false.
Proof.
  assert (H : forallb (fun c => match status_of (c_store c) (c_name c) with SLost => negb (c_imported c) | _ => true end) classes = true)
    by (vm_compute; reflexivity).
  intros c Hc Hs. rewrite forallb_forall in H. specialize (H c Hc). rewrite Hs in H. apply negb_true_iff in H. exact H.
Qed.

Lemma lost_class_emptied : forall (content : Type) (empty : content) derive (s : mstate content) c,
  In c classes -> status_of (c_store c) (c_name c) = SLost -> reimport_m content empty derive s c = empty.
Proof.
  intros content empty derive s c Hc Hs. apply unimported_class_lost. exact (lost_status_not_imported c Hc Hs).
Qed.

(* ================================================================ 2a. roles *)

Lemma zmem_spec : forall x l, zmem x l = true <-> In x l.
Proof.
  intros x l. unfold zmem. rewrite existsb_exists. split.
  - intros [y [Hy E]]. apply Z.eqb_eq in E. subst; assumption.
  - intro H. exists x. split; [assumption|apply Z.eqb_refl].
Qed.
Lemma zmem_false : forall x l, zmem x l = false <-> ~ In x l.
Proof. intros. rewrite <- zmem_spec. destruct (zmem x l); split; intro H; try congruence; exfalso; auto. Qed.

Lemma NoDup_app_one : forall {A} (l : list A) x, NoDup l -> ~ In x l -> NoDup (l ++ [x]).
Proof.
  induction l as [|a l IH]; intros x Hn Hx; cbn; [constructor; [tauto|constructor]|].
  inversion Hn as [|? ? Ha Hl]; subst. constructor.
  - intro H. apply in_app_or in H as [H|[H|[]]]; [tauto|subst; apply Hx; left; reflexivity].
  - apply IH; [assumption|]. intro H. apply Hx. right; assumption.
Qed.

Lemma fold_add_whitelist : forall ws p, bl p = [] -> NoDup (wl p ++ ws) ->
  fold_left add_whitelist ws p = mkPerms (wl p ++ ws) [].
Proof.
  induction ws as [|w ws IH]; intros p Hb Hn; cbn.
  - rewrite app_nil_r. destruct p; cbn in *; subst; reflexivity.
  - assert (Hw : ~ In w (wl p)).
    { intro Hin. apply NoDup_remove_2 in Hn. apply Hn. apply in_or_app; left; assumption. }
    unfold add_whitelist at 2. rewrite Hb. cbn [zmem existsb orb].
    apply zmem_false in Hw. rewrite Hw.
    rewrite IH; cbn [wl bl]; [rewrite <- app_assoc; reflexivity|reflexivity|].
    rewrite <- app_assoc. cbn. exact Hn.
Qed.

Lemma fold_add_blacklist : forall bs q, NoDup (bl q ++ bs) -> (forall x, In x bs -> ~ In x (wl q)) ->
  fold_left add_blacklist bs q = mkPerms (wl q) (bl q ++ bs).
Proof.
  induction bs as [|b bs IH]; intros q Hn Hd; cbn.
  - rewrite app_nil_r. destruct q; reflexivity.
  - assert (Hb : ~ In b (bl q)).
    { intro Hin. apply NoDup_remove_2 in Hn. apply Hn. apply in_or_app; left; assumption. }
    assert (Hw : ~ In b (wl q)) by (apply Hd; left; reflexivity).
    unfold add_blacklist at 2. apply zmem_false in Hb. apply zmem_false in Hw. rewrite Hb, Hw. cbn [orb].
    rewrite IH; cbn [wl bl]; [rewrite <- app_assoc; reflexivity| |].
    + rewrite <- app_assoc. cbn. exact Hn.
    + intros x Hx. apply Hd. right; assumption.
Qed.

Definition perm_ok (p : perms) : Prop := NoDup (wl p) /\ NoDup (bl p) /\ (forall x, In x (wl p) -> ~ In x (bl p)).

Lemma import_perms_false : forall p, NoDup (wl p) -> import_perms false p = mkPerms (wl p) [].
Proof. intros p H. unfold import_perms. rewrite fold_add_whitelist; cbn; auto. Qed.
Lemma import_perms_true : forall p, perm_ok p -> import_perms true p = p.
Proof.
  intros p (Hw & Hb & Hd). unfold import_perms. rewrite fold_add_whitelist by (cbn; auto). cbn [app wl].
  rewrite fold_add_blacklist; cbn [wl bl app].
  - destruct p; reflexivity.
  - exact Hb.
  - intros x Hx Hin. exact (Hd x Hin Hx).
Qed.

Lemma lookup_perms_in : forall l id p, NoDup (map fst l) -> In (id, p) l -> lookup_perms id l = Some p.
Proof.
  induction l as [|[i q] l IH]; cbn; intros id p Hn Hin; [tauto|].
  inv Hn. destruct Hin as [E|Hin].
  - inv E. rewrite Z.eqb_refl. reflexivity.
  - destruct (i =? id) eqn:E; [|apply IH; assumption].
    apply Z.eqb_eq in E; subst. exfalso. apply H1. change id with (fst (id, p)). apply in_map; assumption.
Qed.

(* what the re-import makes of a reachable role state.  Without the blacklist loop (unrepaired tree)
   everything is restored except that EVERY role blacklist is empty afterwards; with it, everything. *)
Definition drop_blacklists (l : list (Z * perms)) : list (Z * perms) := map (fun e => (fst e, mkPerms (wl (snd e)) [])) l.

Lemma reimport_registry : forall blk s, roles_wf s ->
  registry (reimport_roles blk s) = if blk then registry s else drop_blacklists (registry s).
Proof.
  intros blk s (Hi & Hn & Hw & _).
  change (registry (reimport_roles blk s)) with
    (map (fun id => (id, match lookup_perms id (registry s) with Some p => import_perms blk p | None => empty_perms end)) (infos s)).
  rewrite Hi. rewrite map_map. destruct blk.
  - rewrite <- (map_id (registry s)) at 2. apply map_ext_in.
    intros [id p] Hin. cbn [fst]. rewrite (lookup_perms_in _ _ _ Hn Hin). rewrite import_perms_true; [reflexivity|]. eapply Hw; eassumption.
  - unfold drop_blacklists. apply map_ext_in.
    intros [id p] Hin. cbn [fst snd]. rewrite (lookup_perms_in _ _ _ Hn Hin).
    rewrite import_perms_false; [reflexivity|]. eapply Hw; eassumption.
Qed.

Lemma index_drop_blacklists : forall l,
  flat_map (fun e => index_of_perms (fst e) (snd e)) (drop_blacklists l) = flat_map (fun e => index_of_perms (fst e) (snd e)) l.
Proof. unfold drop_blacklists. induction l as [|[i p] l IH]; cbn; [reflexivity|]. rewrite IH. reflexivity. Qed.

Lemma reimport_roles_characterised : forall blk s, roles_wf s ->
  registry (reimport_roles blk s) = (if blk then registry s else drop_blacklists (registry s)) /\
  infos (reimport_roles blk s) = infos s /\ next_role (reimport_roles blk s) = next_role s /\
  (forall e, In e (windex (reimport_roles blk s)) <-> In e (windex s)).
Proof.
  intros blk s Hwf. pose proof (reimport_registry blk s Hwf) as Hr. split; [exact Hr|]. split; [reflexivity|]. split; [reflexivity|].
  destruct Hwf as (_ & _ & _ & Hx). intro e. rewrite Hx.
  change (windex (reimport_roles blk s)) with (flat_map (fun e => index_of_perms (fst e) (snd e)) (registry (reimport_roles blk s))).
  rewrite Hr. destruct blk; [tauto|]. rewrite index_drop_blacklists. tauto.
Qed.

Lemma drop_blacklists_id : forall l, (forall id p, In (id, p) l -> bl p = []) -> drop_blacklists l = l.
Proof.
  induction l as [|[i p] l IH]; intro H; [reflexivity|].
  change (drop_blacklists ((i, p) :: l)) with ((i, mkPerms (wl p) []) :: drop_blacklists l).
  rewrite IH by (intros; eapply H; right; eassumption).
  pose proof (H i p (or_introl eq_refl)) as Hb. destruct p as [w b]; cbn in *; subst. reflexivity.
Qed.

(* with the blacklist loop: the full round trip of the role state *)
Lemma roundtrip_roles_with_blacklists : forall s, roles_wf s ->
  registry (reimport_roles true s) = registry s /\ infos (reimport_roles true s) = infos s /\
  next_role (reimport_roles true s) = next_role s /\ (forall e, In e (windex (reimport_roles true s)) <-> In e (windex s)).
Proof. intros s Hwf. exact (reimport_roles_characterised true s Hwf). Qed.

(* without it: only for states without role blacklists *)
Lemma roundtrip_roles_partial : forall s, roles_wf s -> no_blacklists s ->
  registry (reimport_roles false s) = registry s /\ infos (reimport_roles false s) = infos s /\
  next_role (reimport_roles false s) = next_role s /\ (forall e, In e (windex (reimport_roles false s)) <-> In e (windex s)).
Proof.
  intros s Hwf Hnb. destruct (reimport_roles_characterised false s Hwf) as (Hr & H2 & H3 & H4).
  rewrite drop_blacklists_id in Hr by exact Hnb. auto.
Qed.

(* the witness: role 3 whitelists 10 and blacklists 11, role 4 whitelists 11 *)
Definition roles_witness : roles_state :=
  mkRoles [(3, mkPerms [10] [11]); (4, mkPerms [11] [])] [3; 4] [(10, 3); (11, 4)] 5.
Lemma roles_witness_wf : roles_wf roles_witness.
Proof.
  unfold roles_wf. split; [reflexivity|]. split; [cbn; repeat constructor; cbn; intuition discriminate|]. split.
  - intros id p H. cbn in H. destruct H as [E|[E|[]]]; inv E; cbn; (split; [|split]);
      try (repeat constructor; cbn; tauto); intros x Hx Hb; cbn in *; intuition (subst; discriminate).
  - intro e. cbn. tauto.
Qed.
Lemma roundtrip_roles_refuted :
  exists s, roles_wf s /\ registry (reimport_roles false s) <> registry s /\
            (* an account holding roles 3 and 4 is denied permission 11 before and allowed after *)
            role_allows s [3; 4] 11 = false /\ role_allows (reimport_roles false s) [3; 4] 11 = true.
Proof.
  exists roles_witness. split; [exact roles_witness_wf|]. split; [|split; vm_compute; reflexivity].
  vm_compute. intro H; discriminate.
Qed.

(* ---- histories: the well-formedness above is an invariant of the role operations *)
Inductive role_op :=
| OCreateRole
| OWhitelistRole (id perm : Z)
| OBlacklistRole (id perm : Z)
| ORemoveWhitelistRole (id perm : Z)
| ORemoveBlacklistRole (id perm : Z).

Definition update_perms (id : Z) (f : perms -> perms) (l : list (Z * perms)) : list (Z * perms) :=
  map (fun e => if fst e =? id then (fst e, f (snd e)) else e) l.
Definition zremove (x : Z) (l : list Z) : list Z := filter (fun y => negb (y =? x)) l.

(* keeper CreateRole / WhitelistRolePermission / BlacklistRolePermission / Remove*; a rejected
   operation leaves the state unchanged.  Role ids are allocated from next_role. *)
Definition role_step (s : roles_state) (o : role_op) : roles_state :=
  match o with
  | OCreateRole =>
      if existsb (fun e => fst e =? next_role s) (registry s) then s else
      mkRoles (registry s ++ [(next_role s, empty_perms)]) (infos s ++ [next_role s]) (windex s) (next_role s + 1)
  | OWhitelistRole id w =>
      match lookup_perms id (registry s) with
      | None => s
      | Some p => if (zmem w (bl p) || zmem w (wl p))%bool then s else
                  mkRoles (update_perms id (fun p => mkPerms (wl p ++ [w]) (bl p)) (registry s)) (infos s) ((w, id) :: windex s) (next_role s)
      end
  | OBlacklistRole id b =>
      match lookup_perms id (registry s) with
      | None => s
      | Some p => if (zmem b (wl p) || zmem b (bl p))%bool then s else
                  mkRoles (update_perms id (fun p => mkPerms (wl p) (bl p ++ [b])) (registry s)) (infos s) (windex s) (next_role s)
      end
  | ORemoveWhitelistRole id w =>
      match lookup_perms id (registry s) with
      | None => s
      | Some p => if zmem w (wl p) then
                    mkRoles (update_perms id (fun p => mkPerms (zremove w (wl p)) (bl p)) (registry s)) (infos s)
                            (filter (fun e => negb (zpair_eqb e (w, id))) (windex s)) (next_role s)
                  else s
      end
  | ORemoveBlacklistRole id b =>
      match lookup_perms id (registry s) with
      | None => s
      | Some p => if zmem b (bl p) then
                    mkRoles (update_perms id (fun p => mkPerms (wl p) (zremove b (bl p))) (registry s)) (infos s) (windex s) (next_role s)
                  else s
      end
  end.
Definition roles_init : roles_state := mkRoles [] [] [] 1.
Definition roles_run (ops : list role_op) : roles_state := fold_left role_step ops roles_init.

Lemma map_fst_update : forall id f l, map fst (update_perms id f l) = map fst l.
Proof. intros. unfold update_perms. rewrite map_map. apply map_ext. intros [i p]; cbn. destruct (i =? id); reflexivity. Qed.

Lemma in_update_perms : forall id f l i p, In (i, p) (update_perms id f l) ->
  exists q, In (i, q) l /\ p = (if i =? id then f q else q).
Proof.
  intros id f l i p H. unfold update_perms in H. apply in_map_iff in H as [[j q] [E Hin]]. cbn in E.
  destruct (j =? id) eqn:Ej; injection E as Ei Ep; exists q; rewrite <- Ei, Ej, <- Ep; auto.
Qed.

Lemma lookup_perms_some_in : forall l id p, lookup_perms id l = Some p -> In (id, p) l.
Proof.
  induction l as [|[i q] l IH]; cbn; intros id p H; [discriminate|].
  destruct (i =? id) eqn:E; [apply Z.eqb_eq in E; inv H; auto|right; auto].
Qed.

Lemma nodup_zremove : forall x l, NoDup l -> NoDup (zremove x l).
Proof. intros. unfold zremove. apply NoDup_filter. assumption. Qed.
Lemma in_zremove : forall x y l, In y (zremove x l) -> In y l.
Proof. intros x y l H. unfold zremove in H. apply filter_In in H. tauto. Qed.

Lemma zpair_eqb_eq : forall a b, zpair_eqb a b = true <-> a = b.
Proof.
  intros [a1 a2] [b1 b2]. unfold zpair_eqb; cbn. rewrite andb_true_iff, !Z.eqb_eq. split; [intros [-> ->]; reflexivity|intro H; inv H; auto].
Qed.

(* per-operation preservation of [perm_ok] *)
Lemma perm_ok_empty : perm_ok empty_perms.
Proof. unfold perm_ok; cbn. repeat split; try constructor. tauto. Qed.
Lemma perm_ok_whitelist : forall p w, perm_ok p -> ~ In w (wl p) -> ~ In w (bl p) -> perm_ok (mkPerms (wl p ++ [w]) (bl p)).
Proof.
  intros p w (Hw & Hb & Hd) H1 H2. unfold perm_ok; cbn. repeat split; [apply NoDup_app_one; assumption|assumption|].
  intros x Hx. apply in_app_or in Hx as [Hx|[<-|[]]]; [apply Hd; assumption|assumption].
Qed.
Lemma perm_ok_blacklist : forall p b, perm_ok p -> ~ In b (wl p) -> ~ In b (bl p) -> perm_ok (mkPerms (wl p) (bl p ++ [b])).
Proof.
  intros p b (Hw & Hb & Hd) H1 H2. unfold perm_ok; cbn. repeat split; [assumption|apply NoDup_app_one; assumption|].
  intros x Hx Hin. apply in_app_or in Hin as [Hin|[<-|[]]]; [exact (Hd x Hx Hin)|contradiction].
Qed.
Lemma perm_ok_remove_wl : forall p w, perm_ok p -> perm_ok (mkPerms (zremove w (wl p)) (bl p)).
Proof.
  intros p w (Hw & Hb & Hd). unfold perm_ok; cbn. repeat split; [apply nodup_zremove; assumption|assumption|].
  intros x Hx. apply Hd. eapply in_zremove; eassumption.
Qed.
Lemma perm_ok_remove_bl : forall p b, perm_ok p -> perm_ok (mkPerms (wl p) (zremove b (bl p))).
Proof.
  intros p b (Hw & Hb & Hd). unfold perm_ok; cbn. repeat split; [assumption|apply nodup_zremove; assumption|].
  intros x Hx Hin. apply (Hd x Hx). eapply in_zremove; eassumption.
Qed.

(* index characterisation through membership *)
Lemma in_index : forall l w id, In (w, id) (flat_map (fun e => index_of_perms (fst e) (snd e)) l) <-> exists p, In (id, p) l /\ In w (wl p).
Proof.
  intros l w id. rewrite in_flat_map. split.
  - intros [[i p] [Hin H]]. unfold index_of_perms in H; cbn in H. apply in_map_iff in H as [x [E Hx]]. inv E. eauto.
  - intros [p [Hin Hw]]. exists (id, p). split; [assumption|]. unfold index_of_perms; cbn. apply in_map_iff. eauto.
Qed.

Definition roles_inv (s : roles_state) : Prop :=
  roles_wf s /\ (forall id p, In (id, p) (registry s) -> id < next_role s).

Lemma unique_perms : forall (l : list (Z * perms)) id p q, NoDup (map fst l) -> In (id, p) l -> In (id, q) l -> p = q.
Proof.
  intros l id p q Hn Hp Hq. pose proof (lookup_perms_in _ _ _ Hn Hp). pose proof (lookup_perms_in _ _ _ Hn Hq). congruence.
Qed.

(* the permissions clause of [roles_wf] after an update of one role *)
Lemma perms_clause_update : forall (l : list (Z * perms)) id p f,
  NoDup (map fst l) -> (forall i q, In (i, q) l -> perm_ok q) -> In (id, p) l -> perm_ok (f p) ->
  forall i q, In (i, q) (update_perms id f l) -> perm_ok q.
Proof.
  intros l id p f Hn Hw Hp Hf i q Hin. apply in_update_perms in Hin as [q0 [Hq0 ->]].
  destruct (i =? id) eqn:E; [|eapply Hw; eassumption].
  apply Z.eqb_eq in E; subst. assert (q0 = p) by (eapply unique_perms; eassumption). subst. assumption.
Qed.

Lemma role_step_inv : forall s o, roles_inv s -> roles_inv (role_step s o).
Proof.
  intros s o [(Hi & Hn & Hw & Hx) Hlt].
  assert (Hwf0 : roles_inv s) by (repeat split; auto; try apply Hx; try (eapply Hw; eassumption)).
  assert (Hw' : forall i q, In (i, q) (registry s) -> perm_ok q) by (intros; eapply Hw; eassumption).
  destruct o as [|id w|id b|id w|id b]; cbn [role_step].
  - (* create *)
    destruct (existsb _ _) eqn:Ee; [exact Hwf0|].
    split; [unfold roles_wf; cbn [registry infos windex next_role]; split; [|split; [|split; [|intro e; split]]]|].
    + rewrite map_app, Hi. reflexivity.
    + rewrite map_app. cbn. apply NoDup_app_one; [assumption|].
      intro Hin. apply in_map_iff in Hin as [[i p] [E Hin]]. cbn in E; subst. specialize (Hlt _ _ Hin). lia.
    + intros id p Hin. apply in_app_or in Hin as [Hin|[E|[]]]; [eapply Hw; eassumption|inv E; exact perm_ok_empty].
    + intro H. destruct e as [w i]. apply Hx in H. apply in_index in H as [p [Hp Hwp]]. apply in_index. exists p. split; [apply in_or_app; auto|assumption].
    + intro H. destruct e as [w i]. apply in_index in H as [p [Hp Hwp]]. apply in_app_or in Hp as [Hp|[E|[]]].
      * apply Hx. apply in_index. eauto.
      * inv E. cbn in Hwp. tauto.
    + cbn. intros id p Hin. apply in_app_or in Hin as [Hin|[E|[]]]; [specialize (Hlt _ _ Hin); lia|inv E; lia].
  - (* whitelist *)
    destruct (lookup_perms id (registry s)) as [p|] eqn:El; [|exact Hwf0].
    destruct (zmem w (bl p) || zmem w (wl p))%bool eqn:Em; [exact Hwf0|].
    apply orb_false_iff in Em as [Emb Emw]. apply zmem_false in Emw. apply zmem_false in Emb.
    pose proof (lookup_perms_some_in _ _ _ El) as Hp.
    split; [unfold roles_wf; cbn [registry infos windex next_role]; split; [|split; [|split; [|intro e; split]]]|].
    + rewrite map_fst_update. assumption.
    + rewrite map_fst_update. assumption.
    + eapply perms_clause_update; try eassumption. apply perm_ok_whitelist; auto; eapply Hw'; eassumption.
    + intro H. destruct e as [w' i]. apply in_index. destruct H as [E|H].
      * injection E as Ew Ei; subst w' i. exists (mkPerms (wl p ++ [w]) (bl p)). split; [|cbn; apply in_or_app; right; left; reflexivity].
        unfold update_perms. apply in_map_iff. exists (id, p). cbn. rewrite Z.eqb_refl. auto.
      * apply Hx in H. apply in_index in H as [q [Hq Hwq]].
        exists (if i =? id then mkPerms (wl q ++ [w]) (bl q) else q). split.
        -- unfold update_perms. apply in_map_iff. exists (i, q). cbn. destruct (i =? id); auto.
        -- destruct (i =? id); [cbn; apply in_or_app; auto|assumption].
    + intro H. destruct e as [w' i]. apply in_index in H as [q [Hq Hwq]]. apply in_update_perms in Hq as [q0 [Hq0 ->]].
      destruct (i =? id) eqn:E.
      * apply Z.eqb_eq in E; subst. cbn in Hwq. apply in_app_or in Hwq as [Hwq|[<-|[]]]; [|left; reflexivity].
        right. apply Hx. apply in_index. eauto.
      * right. apply Hx. apply in_index. eauto.
    + cbn. intros i q Hin. apply in_update_perms in Hin as [q0 [Hq0 _]]. eapply Hlt; eassumption.
  - (* blacklist *)
    destruct (lookup_perms id (registry s)) as [p|] eqn:El; [|exact Hwf0].
    destruct (zmem b (wl p) || zmem b (bl p))%bool eqn:Em; [exact Hwf0|].
    apply orb_false_iff in Em as [Emw Emb]. apply zmem_false in Emw. apply zmem_false in Emb.
    pose proof (lookup_perms_some_in _ _ _ El) as Hp.
    split; [unfold roles_wf; cbn [registry infos windex next_role]; split; [|split; [|split; [|intro e; split]]]|].
    + rewrite map_fst_update. assumption.
    + rewrite map_fst_update. assumption.
    + eapply perms_clause_update; try eassumption. apply perm_ok_blacklist; auto; eapply Hw'; eassumption.
    + intro H. destruct e as [w' i]. apply Hx in H. apply in_index in H as [q [Hq Hwq]]. apply in_index.
      exists (if i =? id then mkPerms (wl q) (bl q ++ [b]) else q). split.
      * unfold update_perms. apply in_map_iff. exists (i, q). cbn. destruct (i =? id); auto.
      * destruct (i =? id); assumption.
    + intro H. destruct e as [w' i]. apply in_index in H as [q [Hq Hwq]]. apply in_update_perms in Hq as [q0 [Hq0 ->]].
      apply Hx. apply in_index. exists q0. split; [assumption|]. destruct (i =? id); assumption.
    + cbn. intros i q Hin. apply in_update_perms in Hin as [q0 [Hq0 _]]. eapply Hlt; eassumption.
  - (* remove whitelist *)
    destruct (lookup_perms id (registry s)) as [p|] eqn:El; [|exact Hwf0].
    destruct (zmem w (wl p)) eqn:Em; [|exact Hwf0].
    pose proof (lookup_perms_some_in _ _ _ El) as Hp.
    split; [unfold roles_wf; cbn [registry infos windex next_role]; split; [|split; [|split; [|intro e; split]]]|].
    + rewrite map_fst_update. assumption.
    + rewrite map_fst_update. assumption.
    + eapply perms_clause_update; try eassumption. apply perm_ok_remove_wl; eapply Hw'; eassumption.
    + intro H. destruct e as [w' i]. apply filter_In in H as [H Hne]. apply Hx in H. apply in_index in H as [q [Hq Hwq]]. apply in_index.
      exists (if i =? id then mkPerms (zremove w (wl q)) (bl q) else q). split.
      * unfold update_perms. apply in_map_iff. exists (i, q). cbn. destruct (i =? id); auto.
      * destruct (i =? id) eqn:E; [|assumption]. cbn. unfold zremove. apply filter_In. split; [assumption|].
        apply Z.eqb_eq in E; subst. apply negb_true_iff. apply Z.eqb_neq. intro; subst.
        apply negb_true_iff in Hne. rewrite (proj2 (zpair_eqb_eq (w, id) (w, id)) eq_refl) in Hne. discriminate.
    + intro H. destruct e as [w' i]. apply in_index in H as [q [Hq Hwq]]. apply in_update_perms in Hq as [q0 [Hq0 ->]].
      apply filter_In. destruct (i =? id) eqn:E.
      * apply Z.eqb_eq in E; subst. cbn in Hwq. unfold zremove in Hwq. apply filter_In in Hwq as [Hwq Hne]. split.
        -- apply Hx. apply in_index. eauto.
        -- apply negb_true_iff. destruct (zpair_eqb (w', id) (w, id)) eqn:Ep; [|reflexivity].
           apply zpair_eqb_eq in Ep. inv Ep. rewrite Z.eqb_refl in Hne. discriminate.
      * split; [apply Hx; apply in_index; eauto|].
        apply negb_true_iff. destruct (zpair_eqb (w', i) (w, id)) eqn:Ep; [|reflexivity].
        apply zpair_eqb_eq in Ep. inv Ep. rewrite Z.eqb_refl in E. discriminate.
    + cbn. intros i q Hin. apply in_update_perms in Hin as [q0 [Hq0 _]]. eapply Hlt; eassumption.
  - (* remove blacklist *)
    destruct (lookup_perms id (registry s)) as [p|] eqn:El; [|exact Hwf0].
    destruct (zmem b (bl p)) eqn:Em; [|exact Hwf0].
    pose proof (lookup_perms_some_in _ _ _ El) as Hp.
    split; [unfold roles_wf; cbn [registry infos windex next_role]; split; [|split; [|split; [|intro e; split]]]|].
    + rewrite map_fst_update. assumption.
    + rewrite map_fst_update. assumption.
    + eapply perms_clause_update; try eassumption. apply perm_ok_remove_bl; eapply Hw'; eassumption.
    + intro H. destruct e as [w' i]. apply Hx in H. apply in_index in H as [q [Hq Hwq]]. apply in_index.
      exists (if i =? id then mkPerms (wl q) (zremove b (bl q)) else q). split.
      * unfold update_perms. apply in_map_iff. exists (i, q). cbn. destruct (i =? id); auto.
      * destruct (i =? id); assumption.
    + intro H. destruct e as [w' i]. apply in_index in H as [q [Hq Hwq]]. apply in_update_perms in Hq as [q0 [Hq0 ->]].
      apply Hx. apply in_index. exists q0. split; [assumption|]. destruct (i =? id); assumption.
    + cbn. intros i q Hin. apply in_update_perms in Hin as [q0 [Hq0 _]]. eapply Hlt; eassumption.
Qed.

Lemma roles_init_inv : roles_inv roles_init.
Proof. unfold roles_inv, roles_wf, roles_init; cbn. repeat split; try tauto; try constructor; contradiction. Qed.

Lemma roles_run_inv : forall ops, roles_inv (roles_run ops).
Proof.
  intro ops. unfold roles_run. generalize roles_init roles_init_inv.
  induction ops as [|o ops IH]; intros s Hs; cbn; [assumption|]. apply IH. apply role_step_inv. assumption.
Qed.

(* every history of role operations, then export + re-import: without the blacklist loop exactly the
   blacklists are gone, with it nothing is *)
Lemma reimport_after_history : forall blk ops,
  let s := roles_run ops in
  registry (reimport_roles blk s) = (if blk then registry s else drop_blacklists (registry s)) /\
  infos (reimport_roles blk s) = infos s /\ next_role (reimport_roles blk s) = next_role s /\
  (forall e, In e (windex (reimport_roles blk s)) <-> In e (windex s)).
Proof. intros blk ops s. apply reimport_roles_characterised. apply roles_run_inv. Qed.

Lemma roundtrip_after_history_refuted :
  exists ops, registry (reimport_roles false (roles_run ops)) <> registry (roles_run ops).
Proof. exists [OCreateRole; OBlacklistRole 1 7]. vm_compute. intro H; discriminate. Qed.

(* ================================================================ 2b. proposals *)

Lemma roundtrip_props_iff : forall now s, reimport_props false now s = s <-> active_q s = [] /\ enact_q s = [].
Proof.
  intros now [ps a e n]; unfold reimport_props, import_props, export_props; cbn. split.
  - intro H; inv H. auto.
  - intros [-> ->]. reflexivity.
Qed.

Lemma roundtrip_props_refuted : exists now s, reimport_props false now s <> s.
Proof. exists 0, (mkProps [mkProp 1 Pending 600 900] [1] [] 2). intro H. apply roundtrip_props_iff in H as [H _]. discriminate. Qed.

Lemma end_block_empty_queues : forall decide s t, active_q s = [] -> enact_q s = [] -> end_block decide s t = s.
Proof. intros decide [ps a e n] t Ha He; cbn in *; subst. unfold end_block; cbn. reflexivity. Qed.

(* after a re-import that does not rebuild the queues no block, at any time, ever changes a proposal
   again: a proposal exported while in voting or in enactment stays Pending / Enactment for ever *)
Lemma reimport_freezes_proposals : forall decide now ts s, run_blocks decide (reimport_props false now s) ts = reimport_props false now s.
Proof.
  intros decide now ts s. unfold run_blocks. induction ts as [|t ts IH]; cbn; [reflexivity|].
  rewrite end_block_empty_queues by reflexivity. exact IH.
Qed.

(* with the rebuild: proposals, counter and (as sets) both queues survive whenever the queues held
   exactly the proposals in the respective phase *)
Lemma roundtrip_props_with_rebuild : forall now s, queues_sound now s ->
  proposals (reimport_props true now s) = proposals s /\ next_prop (reimport_props true now s) = next_prop s /\
  (forall id, In id (active_q (reimport_props true now s)) <-> In id (active_q s)) /\
  (forall id, In id (enact_q (reimport_props true now s)) <-> In id (enact_q s)).
Proof.
  intros now [ps a e n] [Ha He]. unfold reimport_props, import_props, export_props; cbn in *.
  repeat split; try (intro H; apply Ha; assumption); try (intro H; apply He; assumption).
Qed.

(* whatever the genesis time of the restart, a proposal waiting for enactment (or still in voting) is back
   in its queue after the re-import *)
Lemma reimport_requeues_at_any_genesis_time : forall now s p, In p (proposals s) ->
  (p_result p = Enactment -> In (p_id p) (enact_q (reimport_props true now s))) /\
  (p_result p = Pending -> In (p_id p) (active_q (reimport_props true now s))).
Proof.
  intros now [ps a e n] p Hin. unfold reimport_props, import_props, export_props; cbn [fst snd proposals enact_q active_q] in *.
  split; intro Hr; apply in_map; apply filter_In; (split; [assumption|]).
  - unfold in_enactment. rewrite Hr. reflexivity.
  - unfold in_voting. rewrite Hr. reflexivity.
Qed.

(* the time-gated variant strands it when the chain is restarted after the enactment end: the original
   chain applies the proposal at its next block, the re-imported chain never does *)
Lemma timegated_rebuild_strands_enactment :
  exists s now ts, map p_result (proposals (run_blocks (fun _ => Passed) s ts)) = [Passed] /\
    (forall ts', map p_result (proposals (run_blocks (fun _ => Passed) (import_props_timegated now (export_props s)) ts')) = [Enactment]) /\
    map p_result (proposals (run_blocks (fun _ => Passed) (reimport_props true now s) ts)) = [Passed].
Proof.
  exists (mkProps [mkProp 1 Enactment 600 900] [] [1] 2), 1000, [1005].
  split; [vm_compute; reflexivity|]. split; [|vm_compute; reflexivity].
  intro ts'. assert (H : import_props_timegated 1000 (export_props (mkProps [mkProp 1 Enactment 600 900] [] [1] 2))
                         = mkProps [mkProp 1 Enactment 600 900] [] [] 2) by (vm_compute; reflexivity).
  rewrite H. unfold run_blocks. induction ts' as [|t ts' IH]; [reflexivity|]. cbn [fold_left].
  rewrite end_block_empty_queues by reflexivity. exact IH.
Qed.

(* ================================================================ 2c. multistaking *)

Lemma roundtrip_ms_iff : forall s, reimport_ms false s = s <-> last_pool s = 0 /\ last_undel s = 0 /\ delegators s = [] /\ compound s = [].
Proof.
  intros [lp lu ps us ds cs]; unfold reimport_ms, import_ms, export_ms; cbn. split.
  - intro H; inv H. auto.
  - intros (-> & -> & -> & ->). reflexivity.
Qed.

Lemma zlookup_upsert_same : forall l k v, zlookup k (upsert k v l) = Some v.
Proof.
  induction l as [|[k' v'] l IH]; intros k v; cbn; [rewrite Z.eqb_refl; reflexivity|].
  destruct (k' =? k) eqn:E; cbn; rewrite ?Z.eqb_refl, ?E; auto.
Qed.
Lemma zlookup_upsert_other : forall l k v k', k' <> k -> zlookup k' (upsert k v l) = zlookup k' l.
Proof.
  induction l as [|[k0 v0] l IH]; intros k v k' Hne; cbn.
  - destruct (Z.eqb_spec k k'); [congruence|reflexivity].
  - destruct (Z.eqb_spec k0 k) as [->|Hk]; cbn.
    + destruct (Z.eqb_spec k k'); [congruence|reflexivity].
    + destruct (Z.eqb_spec k0 k'); [reflexivity|]. apply IH; assumption.
Qed.
Lemma length_upsert_present : forall l k v o, zlookup k l = Some o -> List.length (upsert k v l) = List.length l.
Proof.
  induction l as [|[k' v'] l IH]; intros k v o H; cbn in *; [discriminate|].
  destruct (k' =? k) eqn:E; cbn; [reflexivity|]. f_equal. eapply IH; eassumption.
Qed.
Lemma length_upsert_absent : forall l k v, zlookup k l = None -> List.length (upsert k v l) = S (List.length l).
Proof.
  induction l as [|[k' v'] l IH]; intros k v H; cbn in *; [reflexivity|].
  destruct (k' =? k) eqn:E; [discriminate|]. cbn. f_equal. apply IH; assumption.
Qed.

(* without the counters: the first undelegation after a re-import reuses id 1 and overwrites the
   restored record: the old owner's pending undelegation disappears, no new record is added *)
Lemma reimport_undelegation_overwrites : forall s o o',
  zlookup 1 (undels s) = Some o ->
  let s' := undelegate (reimport_ms false s) o' in
  last_undel s' = 1 /\ zlookup 1 (undels s') = Some o' /\ List.length (undels s') = List.length (undels s).
Proof.
  intros s o o' H. cbn. split; [reflexivity|]. split; [apply zlookup_upsert_same|].
  eapply length_upsert_present; eassumption.
Qed.

(* with the counters re-derived from the highest imported id: every restored undelegation survives the
   next undelegation, which adds a fresh record -- for EVERY state, no reachability condition needed *)
Lemma zlookup_le_max : forall l k v, zlookup k l = Some v -> k <= zmax_list (map fst l).
Proof.
  induction l as [|[k' v'] l IH]; intros k v H; [discriminate|].
  change (zmax_list (map fst ((k', v') :: l))) with (Z.max k' (zmax_list (map fst l))).
  cbn [zlookup] in H. destruct (Z.eqb_spec k' k) as [->|Hne]; [lia|]. specialize (IH _ _ H). lia.
Qed.
Lemma zmax_list_nonneg : forall l, 0 <= zmax_list l.
Proof. induction l as [|a l IH]; [cbn; lia|]. change (zmax_list (a :: l)) with (Z.max a (zmax_list l)). lia. Qed.
Lemma in_le_zmax : forall l x, In x l -> x <= zmax_list l.
Proof.
  induction l as [|a l IH]; intros x Hx; [contradiction|].
  change (zmax_list (a :: l)) with (Z.max a (zmax_list l)). destruct Hx as [->|Hx]; [lia|]. specialize (IH _ Hx). lia.
Qed.
Lemma reimport_with_counters_preserves_undelegations : forall s o',
  let s' := undelegate (reimport_ms true s) o' in
  (forall id o, zlookup id (undels s) = Some o -> zlookup id (undels s') = Some o) /\
  List.length (undels s') = S (List.length (undels s)).
Proof.
  intros s o'. cbv zeta. unfold undelegate, reimport_ms, import_ms, export_ms. cbn [undels last_undel last_pool pools fst snd]. split.
  - intros id o H. rewrite zlookup_upsert_other; [assumption|]. apply zlookup_le_max in H. lia.
  - apply length_upsert_absent. destruct (zlookup (zmax_list (map fst (undels s)) + 1) (undels s)) eqn:E; [|reflexivity].
    apply zlookup_le_max in E. lia.
Qed.
(* and the next pool gets an id no imported pool has *)
Lemma reimport_with_counters_fresh_pool_id : forall s v,
  let s' := new_pool (reimport_ms true s) v in ~ In (last_pool s') (map fst (pools s)).
Proof.
  intros s v. cbv zeta. unfold new_pool, reimport_ms, import_ms, export_ms. cbn [undels last_undel last_pool pools fst snd]. intro H. apply in_le_zmax in H. lia.
Qed.

(* on the original chain (ids never exceed the counter) the same message adds a fresh record *)
Definition ms_wf (s : ms_state) : Prop := forall id o, zlookup id (undels s) = Some o -> 1 <= id <= last_undel s.
Lemma zlookup_none_of_wf : forall s, ms_wf s -> zlookup (last_undel s + 1) (undels s) = None.
Proof.
  intros s H. destruct (zlookup (last_undel s + 1) (undels s)) eqn:E; [|reflexivity]. apply H in E. lia.
Qed.
Lemma original_undelegation_adds : forall s o', ms_wf s -> List.length (undels (undelegate s o')) = S (List.length (undels s)).
Proof. intros s o' H. cbn. apply length_upsert_absent. apply zlookup_none_of_wf; assumption. Qed.

(* without the counters the first pool created after a re-import takes id 1 again: two pools share the share denom v1/... *)
Lemma reimport_pool_id_collision : forall s v v',
  In (1, v) (pools s) -> let s' := new_pool (reimport_ms false s) v' in In (1, v) (pools s') /\ In (1, v') (pools s').
Proof. intros s v v' H. cbn. split; apply in_or_app; [left; assumption|right; left; reflexivity]. Qed.

Lemma roundtrip_ms_refuted : exists s, ms_wf s /\ reimport_ms false s <> s.
Proof.
  exists (mkMsState 1 1 [(1, 100)] [(1, 7)] [(1, 7)] []). split.
  - intros id o H. cbn [undels last_undel] in *. change (zlookup id [(1, 7)]) with (if 1 =? id then Some 7 else None) in H.
    destruct (Z.eqb_spec 1 id); [lia|discriminate].
  - intro H. apply roundtrip_ms_iff in H as [H _]. discriminate.
Qed.

(* ================================================================ 2h. the import does not depend on the order of the genesis lists *)
From Coq Require Import Permutation.

Lemma zmax_list_perm : forall l l', Permutation l l' -> zmax_list l = zmax_list l'.
Proof.
  induction 1 as [|x l l' _ IH|x y l|l l' l'' _ IH1 _ IH2]; [reflexivity| | |congruence].
  - change (zmax_list (x :: l)) with (Z.max x (zmax_list l)). change (zmax_list (x :: l')) with (Z.max x (zmax_list l')). rewrite IH. reflexivity.
  - change (Z.max y (Z.max x (zmax_list l)) = Z.max x (Z.max y (zmax_list l))). lia.
Qed.

(* multistaking: for ANY permutation of the pool and undelegation lists the counters are the same and the
   same records are stored *)
Lemma import_ms_order_independent : forall ctr ps ps' us us', Permutation ps ps' -> Permutation us us' ->
  last_pool (import_ms ctr (ps', us')) = last_pool (import_ms ctr (ps, us)) /\
  last_undel (import_ms ctr (ps', us')) = last_undel (import_ms ctr (ps, us)) /\
  Permutation (pools (import_ms ctr (ps, us))) (pools (import_ms ctr (ps', us'))) /\
  Permutation (undels (import_ms ctr (ps, us))) (undels (import_ms ctr (ps', us'))).
Proof.
  intros ctr ps ps' us us' Hp Hu. unfold import_ms; cbn [last_pool last_undel pools undels fst snd].
  destruct ctr; repeat split; auto; apply zmax_list_perm; apply Permutation_map; apply Permutation_sym; assumption.
Qed.

(* the last-entry variant depends on the order, and on the unsorted list the next undelegation overwrites
   an imported one (account 30 destroys the pending undelegation of account 10) *)
Lemma import_ms_lastentry_order_dependent :
  exists ps us us', Permutation us us' /\
    last_undel (import_ms_lastentry (ps, us)) <> last_undel (import_ms_lastentry (ps, us')) /\
    zlookup 2 (undels (import_ms_lastentry (ps, us'))) = Some 10 /\
    zlookup 2 (undels (undelegate (import_ms_lastentry (ps, us')) 30)) = Some 30 /\
    zlookup 2 (undels (undelegate (import_ms true (ps, us')) 30)) = Some 10.
Proof.
  exists [(1, 100)], [(1, 20); (2, 10)], [(2, 10); (1, 20)].
  split; [apply perm_swap|]. repeat split; try (vm_compute; reflexivity). vm_compute. discriminate.
Qed.

(* gov proposals: the rebuilt queues hold the same ids whatever the order of the proposal list *)
Lemma import_props_order_independent : forall rebuild now ps ps' n id, Permutation ps ps' ->
  (In id (active_q (import_props rebuild now (ps', n))) <-> In id (active_q (import_props rebuild now (ps, n)))) /\
  (In id (enact_q (import_props rebuild now (ps', n))) <-> In id (enact_q (import_props rebuild now (ps, n)))) /\
  Permutation (proposals (import_props rebuild now (ps, n))) (proposals (import_props rebuild now (ps', n))).
Proof.
  intros rebuild now ps ps' n id Hp. unfold import_props; cbn [fst snd]. destruct rebuild; cbn [active_q enact_q proposals]; [|tauto].
  assert (Hf : forall f, In id (map p_id (filter f ps')) <-> In id (map p_id (filter f ps))).
  { intro f. rewrite !in_map_iff. split; intros [p [E H]]; exists p; (split; [assumption|]); apply filter_In in H as [Hin Hf];
      apply filter_In; (split; [|assumption]); [eapply Permutation_in; [apply Permutation_sym|]; eassumption|eapply Permutation_in; eassumption]. }
  split; [apply Hf|]. split; [apply Hf|assumption].
Qed.

(* gov roles: permuting the role list and the (key-unique) permission list permutes the registry and
   leaves every role's permissions the same *)
Lemma lookup_perms_none : forall l id, lookup_perms id l = None -> ~ In id (map fst l).
Proof.
  induction l as [|[i p] l IH]; cbn; intros id H; [tauto|].
  destruct (Z.eqb_spec i id) as [->|Hne]; [discriminate|]. intros [E|Hin]; [congruence|]. exact (IH _ H Hin).
Qed.
Lemma lookup_perms_perm : forall l l' id, NoDup (map fst l) -> Permutation l l' -> lookup_perms id l' = lookup_perms id l.
Proof.
  intros l l' id Hn Hp.
  assert (Hn' : NoDup (map fst l')) by (eapply Permutation_NoDup; [apply Permutation_map; eassumption|assumption]).
  destruct (lookup_perms id l) as [p|] eqn:E.
  - apply lookup_perms_in; [assumption|]. eapply Permutation_in; [eassumption|]. apply lookup_perms_some_in; assumption.
  - destruct (lookup_perms id l') as [q|] eqn:E'; [|reflexivity]. exfalso.
    apply lookup_perms_some_in in E'. apply (lookup_perms_none _ _ E).
    change id with (fst (id, q)). apply in_map. eapply Permutation_in; [apply Permutation_sym; eassumption|assumption].
Qed.
Lemma import_roles_order_independent : forall blk rs rs' pm pm' n, NoDup (map fst pm) ->
  Permutation rs rs' -> Permutation pm pm' ->
  Permutation (registry (import_roles blk (mkRolesGen rs pm n))) (registry (import_roles blk (mkRolesGen rs' pm' n))) /\
  (forall id, lookup_perms id pm' = lookup_perms id pm).
Proof.
  intros blk rs rs' pm pm' n Hn Hr Hp. split; [|intro id; apply lookup_perms_perm; assumption].
  unfold import_roles; cbn [registry g_roles g_perms].
  rewrite (map_ext (fun id => (id, match lookup_perms id pm' with Some p => import_perms blk p | None => empty_perms end))
                   (fun id => (id, match lookup_perms id pm with Some p => import_perms blk p | None => empty_perms end))).
  - apply Permutation_map. assumption.
  - intro id. rewrite (lookup_perms_perm pm pm' id Hn Hp). reflexivity.
Qed.

(* ================================================================ 2f. identity registrar *)

Lemma upsert_fresh : forall l k v, ~ In k (map fst l) -> upsert k v l = (l ++ [(k, v)])%list.
Proof.
  induction l as [|[k' v'] l IH]; intros k v H; cbn; [reflexivity|].
  destruct (Z.eqb_spec k' k) as [->|Hne]; [exfalso; apply H; left; reflexivity|].
  rewrite IH; [reflexivity|]. intro Hin. apply H. right; assumption.
Qed.

Lemma fold_set_record : forall l a b, NoDup (map fst a ++ map fst l)%list -> NoDup (map fst b ++ map snd l)%list ->
  fold_left set_record l (a, b) = ((a ++ l)%list, (b ++ map swap_pair l)%list).
Proof.
  induction l as [|[i k] l IH]; intros a b Ha Hb; cbn [fold_left map].
  - rewrite !app_nil_r. reflexivity.
  - unfold set_record at 2. cbn [fst snd].
    assert (Hi : ~ In i (map fst a)).
    { cbn in Ha. apply NoDup_remove_2 in Ha. intro H. apply Ha. apply in_or_app; left; assumption. }
    assert (Hk : ~ In k (map fst b)).
    { cbn in Hb. apply NoDup_remove_2 in Hb. intro H. apply Hb. apply in_or_app; left; assumption. }
    rewrite (upsert_fresh a i k Hi), (upsert_fresh b k i Hk).
    rewrite IH.
    + rewrite <- !app_assoc. reflexivity.
    + rewrite map_app, <- app_assoc. exact Ha.
    + rewrite map_app, <- app_assoc. exact Hb.
Qed.

(* the identity registrar round-trips: records, counter, and the by-address index (as a set) *)
Lemma roundtrip_id : forall s, id_wf s ->
  id_records (reimport_id s) = id_records s /\ id_last (reimport_id s) = id_last s /\
  (forall e, In e (id_index (reimport_id s)) <-> In e (id_index s)).
Proof.
  intros s (Hn & Hk & Hx). unfold reimport_id, import_id, export_id. cbn [fst snd].
  rewrite fold_set_record by (cbn; assumption). cbn [fst snd id_records id_last id_index app].
  repeat split; try reflexivity; intro H; apply Hx; assumption.
Qed.

(* the hypothesis is needed: a dangling index entry (as DeleteIdentityRecordById left before 9fe909f)
   is not rebuilt *)
Lemma roundtrip_id_needs_wf :
  exists s, ~ (forall e, In e (id_index (reimport_id s)) <-> In e (id_index s)).
Proof.
  exists (mkId [(2, 17)] [(17, 2); (11, 1)] 2). intro H. specialize (H (11, 1)). cbn in H.
  destruct H as [_ H]. destruct (H (or_intror (or_introl eq_refl))) as [E|[]]. discriminate.
Qed.

(* ================================================================ 2g. distributor *)

Lemma vote_mem_spec : forall v l, vote_mem v l = true <-> In v l.
Proof.
  intros [a b] l. unfold vote_mem. rewrite existsb_exists. split.
  - intros [[c d] [Hin E]]. cbn in E. apply andb_true_iff in E as [E1 E2]. apply Z.eqb_eq in E1, E2. subst. assumption.
  - intro H. exists (a, b). split; [assumption|]. cbn. rewrite !Z.eqb_refl. reflexivity.
Qed.

Lemma fold_set_vote : forall l acc, NoDup (acc ++ l)%list -> fold_left set_vote l acc = (acc ++ l)%list.
Proof.
  induction l as [|v l IH]; intros acc Hn; cbn [fold_left]; [rewrite app_nil_r; reflexivity|].
  unfold set_vote at 2. destruct (vote_mem v acc) eqn:E.
  - apply vote_mem_spec in E. exfalso. apply NoDup_remove_2 in Hn. apply Hn. apply in_or_app; left; assumption.
  - rewrite IH; [rewrite <- app_assoc; reflexivity|]. rewrite <- app_assoc. exact Hn.
Qed.

(* once a block has run (previous proposer recorded) the distributor state round-trips exactly *)
Lemma roundtrip_distr : forall s p, d_proposer s = Some p -> NoDup (d_votes s) -> reimport_distr s = Ok s.
Proof.
  intros [t sp vs pr y pe] p Hp Hn. cbn in *. subst. unfold reimport_distr, export_distr, import_distr. cbn.
  rewrite fold_set_vote by (cbn; assumption). reflexivity.
Qed.
(* before the first block the export itself panics *)
Lemma distr_export_before_first_block : forall s, d_proposer s = None -> reimport_distr s = Panic "previous proposer not set".
Proof. intros s H. unfold reimport_distr, export_distr. rewrite H. reflexivity. Qed.

(* ================================================================ 2i. histories: identity registrar *)

Inductive id_op := IRegister (owner_key : Z) | IDelete (id : Z).
(* RegisterIdentityRecords for one key: an existing (owner, key) keeps its id (the value changes, which the
   abstraction does not record), a new one gets last + 1; DeleteIdentityRecordById removes the record and its
   index entry *)
Definition id_step (s : id_state) (o : id_op) : id_state :=
  match o with
  | IRegister k =>
      match zlookup k (id_index s) with
      | Some _ => s
      | None => mkId (id_records s ++ [(id_last s + 1, k)]) (upsert k (id_last s + 1) (id_index s)) (id_last s + 1)
      end
  | IDelete i =>
      match zlookup i (id_records s) with
      | None => s
      | Some k => mkId (filter (fun r => negb (fst r =? i)) (id_records s)) (filter (fun e => negb (fst e =? k)) (id_index s)) (id_last s)
      end
  end.
Definition id_init : id_state := mkId [] [] 0.
Definition id_run (ops : list id_op) : id_state := fold_left id_step ops id_init.

Definition id_inv (s : id_state) : Prop :=
  id_wf s /\ (forall i k, In (i, k) (id_records s) -> 1 <= i <= id_last s) /\ 0 <= id_last s /\ NoDup (map fst (id_index s)).

Lemma zlookup_in : forall l k v, zlookup k l = Some v -> In (k, v) l.
Proof.
  induction l as [|[k' v'] l IH]; cbn; intros k v H; [discriminate|].
  destruct (Z.eqb_spec k' k) as [->|Hne]; [injection H as ->; left; reflexivity|right; apply IH; assumption].
Qed.
Lemma zlookup_none_notin : forall l k, zlookup k l = None -> ~ In k (map fst l).
Proof.
  induction l as [|[k' v'] l IH]; cbn; intros k H; [tauto|].
  destruct (Z.eqb_spec k' k) as [->|Hne]; [discriminate|]. intros [E|Hin]; [congruence|]. exact (IH _ H Hin).
Qed.
Lemma NoDup_map_filter : forall {A B} (f : A -> B) (p : A -> bool) l, NoDup (map f l) -> NoDup (map f (filter p l)).
Proof.
  induction l as [|a l IH]; cbn; intro H; [constructor|]. inv H.
  destruct (p a); cbn; [constructor|]; auto. intro Hin. apply H2. apply in_map_iff in Hin as [b [E Hb]]. apply filter_In in Hb as [Hb _].
  rewrite <- E. apply in_map. assumption.
Qed.

Lemma nodup_fst_unique : forall (l : list (Z * Z)) i a b, NoDup (map fst l) -> In (i, a) l -> In (i, b) l -> a = b.
Proof.
  induction l as [|[x y] l IH]; cbn; intros i a b Hn Ha Hb; [tauto|]. inv Hn.
  destruct Ha as [Ea|Ha], Hb as [Eb|Hb]; try (inv Ea); try (inv Eb); auto.
  - exfalso. apply H1. change i with (fst (i, b)). apply in_map. assumption.
  - exfalso. apply H1. change i with (fst (i, a)). apply in_map. assumption.
  - eapply IH; eassumption.
Qed.
Lemma nodup_snd_unique : forall (l : list (Z * Z)) k a b, NoDup (map snd l) -> In (a, k) l -> In (b, k) l -> a = b.
Proof.
  induction l as [|[x y] l IH]; cbn; intros k a b Hn Ha Hb; [tauto|]. inv Hn.
  destruct Ha as [Ea|Ha], Hb as [Eb|Hb]; try (inv Ea); try (inv Eb); auto.
  - exfalso. apply H1. change k with (snd (b, k)). apply in_map. assumption.
  - exfalso. apply H1. change k with (snd (a, k)). apply in_map. assumption.
  - eapply IH; eassumption.
Qed.

Lemma id_step_inv : forall s o, id_inv s -> id_inv (id_step s o).
Proof.
  intros s o Hinv. pose proof Hinv as ((Hn & Hk & Hx) & Hr & Hl & Hi).
  destruct o as [k|i]; cbn [id_step].
  - destruct (zlookup k (id_index s)) eqn:E; [exact Hinv|].
    assert (Hkn : ~ In k (map snd (id_records s))).
    { intro Hin. apply in_map_iff in Hin as [[i' k'] [E' Hin]]. cbn in E'; subst k'.
      apply (zlookup_none_notin _ _ E). change k with (fst (k, i')). apply in_map. apply Hx.
      change (k, i') with (swap_pair (i', k)). apply in_map. assumption. }
    assert (Hin' : ~ In (id_last s + 1) (map fst (id_records s))).
    { intro Hin. apply in_map_iff in Hin as [[i' k'] [E' Hin]]. cbn in E'; subst i'. apply Hr in Hin. lia. }
    repeat split; cbn [id_records id_index id_last].
    + rewrite map_app. cbn. apply NoDup_app_one; assumption.
    + rewrite map_app. cbn. apply NoDup_app_one; assumption.
    + intro H. rewrite (upsert_fresh _ _ _ (zlookup_none_notin _ _ E)) in H. rewrite map_app. apply in_or_app.
      apply in_app_or in H as [H|[<-|[]]]; [left; apply Hx; assumption|right; left; reflexivity].
    + intro H. rewrite (upsert_fresh _ _ _ (zlookup_none_notin _ _ E)). rewrite map_app in H. apply in_or_app.
      apply in_app_or in H as [H|[<-|[]]]; [left; apply Hx; assumption|right; left; reflexivity].
    + apply in_app_or in H as [H|[E'|[]]]; [apply Hr in H; lia|injection E' as <- _; lia].
    + apply in_app_or in H as [H|[E'|[]]]; [apply Hr in H; lia|injection E' as <- _; lia].
    + lia.
    + rewrite (upsert_fresh _ _ _ (zlookup_none_notin _ _ E)). rewrite map_app. cbn. apply NoDup_app_one; [assumption|apply zlookup_none_notin; assumption].
  - destruct (zlookup i (id_records s)) as [k|] eqn:E; [|exact Hinv].
    pose proof (zlookup_in _ _ _ E) as Hik.
    repeat split; cbn [id_records id_index id_last].
    + apply NoDup_map_filter; assumption.
    + apply NoDup_map_filter; assumption.
    + intro H. apply filter_In in H as [H Hne]. apply Hx in H. apply in_map_iff in H as [[i' k'] [E' Hin]].
      apply in_map_iff. exists (i', k'). split; [assumption|]. apply filter_In. split; [assumption|]. cbn.
      destruct (Z.eqb_spec i' i) as [->|]; [|reflexivity]. exfalso.
      (* the same id means the same key, which was filtered out *)
      assert (k' = k) by exact (nodup_fst_unique (id_records s) i k' k Hn Hin Hik).
      subst k'. rewrite <- E' in Hne. cbn in Hne. rewrite Z.eqb_refl in Hne. discriminate.
    + intro H. apply in_map_iff in H as [[i' k'] [E' Hin]]. apply filter_In in Hin as [Hin Hne]. cbn in Hne.
      apply filter_In. split; [apply Hx; rewrite <- E'; change (swap_pair (i', k')) with (swap_pair (i', k')); apply in_map; assumption|].
      rewrite <- E'. cbn. destruct (Z.eqb_spec k' k) as [->|]; [|reflexivity]. exfalso.
      (* two records with the same owner-key: excluded by NoDup (map snd) *)
      assert (i' = i) by exact (nodup_snd_unique (id_records s) k i' i Hk Hin Hik).
      subst i'. rewrite Z.eqb_refl in Hne. discriminate.
    + apply filter_In in H as [H _]. apply Hr in H. lia.
    + apply filter_In in H as [H _]. apply Hr in H. lia.
    + assumption.
    + apply NoDup_map_filter; assumption.
Qed.

Lemma id_run_inv : forall ops, id_inv (id_run ops).
Proof.
  intro ops. unfold id_run. assert (H0 : id_inv id_init).
  { unfold id_inv, id_wf, id_init; cbn. repeat split; try constructor; try tauto; try lia; contradiction. }
  revert H0. generalize id_init. induction ops as [|o ops IH]; intros s Hs; cbn; [assumption|]. apply IH. apply id_step_inv. assumption.
Qed.

(* the identity registrar round-trips after EVERY history of registrations and deletions *)
Lemma roundtrip_id_after_history : forall ops, let s := id_run ops in
  id_records (reimport_id s) = id_records s /\ id_last (reimport_id s) = id_last s /\
  (forall e, In e (id_index (reimport_id s)) <-> In e (id_index s)).
Proof. intros ops s. apply roundtrip_id. exact (proj1 (id_run_inv ops)). Qed.

(* ================================================================ 2j. histories: distributor *)

(* one block: the votes of the signers are recorded at the new height, the votes that left the snap window
   are pruned, the proposer is remembered *)
Record d_block := mkDBlock { b_proposer : Z; b_signers : list Z; b_fees : Z }.
Definition d_step (hs : Z * distr_state) (b : d_block) : Z * distr_state :=
  let (h0, s) := hs in let h := h0 + 1 in
  let vs := fold_left set_vote (map (fun v => (v, h)) (b_signers b)) (d_votes s) in
  (h, mkDistr (d_treasury s + b_fees b) (d_snap_period s)
              (filter (fun v => negb (snd v + d_snap_period s <=? h)) vs) (Some (b_proposer b)) (d_year_snapshot s) (d_periodic_snapshot s)).
Definition d_init (snap : Z) : Z * distr_state := (0, mkDistr 0 snap [] None (0, 0) (0, 0)).
Definition d_run (snap : Z) (bs : list d_block) : Z * distr_state := fold_left d_step bs (d_init snap).

Lemma set_vote_nodup : forall l v, NoDup l -> NoDup (set_vote l v).
Proof.
  intros l v H. unfold set_vote. destruct (vote_mem v l) eqn:E; [assumption|].
  apply NoDup_app_one; [assumption|]. intro Hin. apply vote_mem_spec in Hin. congruence.
Qed.
Lemma fold_set_vote_nodup : forall vs l, NoDup l -> NoDup (fold_left set_vote vs l).
Proof. induction vs as [|v vs IH]; intros l H; cbn; [assumption|]. apply IH. apply set_vote_nodup. assumption. Qed.

Lemma d_step_nodup : forall hs b, NoDup (d_votes (snd hs)) -> NoDup (d_votes (snd (d_step hs b))) /\ d_proposer (snd (d_step hs b)) = Some (b_proposer b).
Proof.
  intros [h s] b H. cbn. split; [|reflexivity]. apply NoDup_filter. apply fold_set_vote_nodup. assumption.
Qed.

(* after EVERY non-empty history of blocks (any proposers, signer lists -- repetitions included --, fees, any
   snap period) the distributor state round-trips exactly *)
Lemma roundtrip_distr_after_history : forall snap bs, bs <> [] -> reimport_distr (snd (d_run snap bs)) = Ok (snd (d_run snap bs)).
Proof.
  intros snap bs Hne. unfold d_run.
  assert (H : forall bs hs, NoDup (d_votes (snd hs)) -> bs <> [] ->
              NoDup (d_votes (snd (fold_left d_step bs hs))) /\ exists p, d_proposer (snd (fold_left d_step bs hs)) = Some p).
  { induction bs0 as [|b bs0 IH]; intros hs Hn Hb; [congruence|]. cbn [fold_left].
    destruct (d_step_nodup hs b Hn) as [Hn' Hp]. destruct bs0 as [|b' bs0'].
    - cbn. split; [assumption|eauto].
    - apply IH; [assumption|discriminate]. }
  destruct (H bs (d_init snap)) as [Hn [p Hp]]; [cbn; constructor|assumption|].
  eapply roundtrip_distr; eassumption.
Qed.

(* ================================================================ 2k. histories: multistaking *)

Inductive ms_op := MPool (validator : Z) | MUndelegate (owner : Z) | MClaim (id : Z).
Definition ms_step (s : ms_state) (o : ms_op) : ms_state :=
  match o with
  | MPool v => new_pool s v
  | MUndelegate o => undelegate s o
  | MClaim i => mkMsState (last_pool s) (last_undel s) (pools s) (filter (fun e => negb (fst e =? i)) (undels s)) (delegators s) (compound s)
  end.
Definition ms_init : ms_state := mkMsState 0 0 [] [] [] [].
Definition ms_run (ops : list ms_op) : ms_state := fold_left ms_step ops ms_init.
Definition ms_inv (s : ms_state) : Prop :=
  0 <= last_pool s /\ 0 <= last_undel s /\ (forall i, In i (map fst (pools s)) -> i <= last_pool s) /\ (forall i, In i (map fst (undels s)) -> i <= last_undel s).

Lemma in_map_fst_upsert : forall l k v i, In i (map fst (upsert k v l)) -> i = k \/ In i (map fst l).
Proof.
  induction l as [|[k' v'] l IH]; cbn; intros k v i H; [destruct H as [<-|[]]; auto|].
  destruct (Z.eqb_spec k' k) as [->|]; cbn in H.
  - destruct H as [<-|H]; auto.
  - destruct H as [<-|H]; [auto|]. apply IH in H as [->|H]; auto.
Qed.
Lemma ms_step_inv : forall s o, ms_inv s -> ms_inv (ms_step s o).
Proof.
  intros s o (H1 & H2 & H3 & H4). destruct o as [v|o|i]; unfold ms_inv; cbn [ms_step new_pool undelegate last_pool last_undel pools undels]; repeat split; try lia; try assumption.
  - intros i Hi. rewrite map_app in Hi. apply in_app_or in Hi as [Hi|Hi]; [apply H3 in Hi; lia|]. cbn in Hi. destruct Hi as [<-|[]]. lia.
  - intros i Hi. apply in_map_fst_upsert in Hi as [->|Hi]; [lia|apply H4 in Hi; lia].
  - intros j Hj. apply in_map_iff in Hj as [e [<- He]]. apply filter_In in He as [He _]. apply H4. apply in_map. assumption.
Qed.
Lemma ms_run_inv : forall ops, ms_inv (ms_run ops).
Proof.
  intro ops. unfold ms_run. assert (H0 : ms_inv ms_init) by (unfold ms_inv, ms_init; cbn; repeat split; try lia; contradiction).
  revert H0. generalize ms_init. induction ops as [|o ops IH]; intros s Hs; cbn; [assumption|]. apply IH. apply ms_step_inv. assumption.
Qed.
Lemma zmax_list_le : forall l b, 0 <= b -> (forall i, In i l -> i <= b) -> zmax_list l <= b.
Proof.
  induction l as [|a l IH]; intros b Hb H; [cbn; lia|]. change (zmax_list (a :: l)) with (Z.max a (zmax_list l)).
  assert (a <= b) by (apply H; left; reflexivity). assert (zmax_list l <= b) by (apply IH; [assumption|intros; apply H; right; assumption]). lia.
Qed.
(* after EVERY history of pool creations, undelegations and claims: pools and pending undelegations are
   restored exactly, the re-derived counters never exceed the original ones (they are equal unless the record
   with the highest id was claimed), and -- already proved for every state -- the next ids are fresh *)
Lemma reimport_ms_after_history : forall ops, let s := ms_run ops in
  pools (reimport_ms true s) = pools s /\ undels (reimport_ms true s) = undels s /\
  last_pool (reimport_ms true s) <= last_pool s /\ last_undel (reimport_ms true s) <= last_undel s.
Proof.
  intros ops s. destruct (ms_run_inv ops) as (H1 & H2 & H3 & H4). fold s in H1, H2, H3, H4.
  unfold reimport_ms, import_ms, export_ms. cbn [pools undels last_pool last_undel fst snd].
  repeat split; apply zmax_list_le; assumption.
Qed.

(* ================================================================ 2d. staking *)

Lemma roundtrip_st_iff : forall s, reimport_st s = s <-> jail_info s = [].
Proof. intros [vs j]; unfold reimport_st, import_st, export_st; cbn. split; [intro H; inv H; reflexivity|intros ->; reflexivity]. Qed.

(* a validator that is jailed at export time can never be unjailed on the re-imported chain *)
Lemma reimport_never_unjails : forall m s v t, is_ok (unjail m (reimport_st s) v t) = false.
Proof.
  intros m s v t. unfold unjail, reimport_st, import_st, export_st; cbn.
  destruct (vstatus_of v (vals s)) as [[| | |]|]; reflexivity.
Qed.

Lemma roundtrip_st_refuted : exists s, reimport_st s <> s /\ is_ok (unjail 600 s 1 100) = true /\ is_ok (unjail 600 (reimport_st s) 1 100) = false.
Proof.
  exists (mkSt [(1, VJailed)] [(1, 50)]). split; [|split; reflexivity].
  intro H. apply roundtrip_st_iff in H. discriminate.
Qed.

(* ================================================================ 2e. upgrade version *)

(* the module re-imports its own export exactly when ExportGenesis writes the SekaiVersion constant
   (or a literal equal to it) *)
Lemma upgrade_reimport_iff : forall sekai lit,
  is_ok (upgrade_import_of sekai (exported_version_of sekai lit)) = true <-> (lit = None \/ lit = Some sekai).
Proof.
  intros sekai [v|]; unfold upgrade_import_of, exported_version_of.
  - destruct (String.eqb_spec v sekai) as [Heq|Hne]; cbn.
    + subst. split; auto.
    + split; [discriminate|]. intros [H|H]; [discriminate|]. exfalso. apply Hne. congruence.
  - rewrite String.eqb_refl. cbn. split; auto.
Qed.

(* the next upgrade plan survives the re-import for every genesis time exactly when InitGenesis does not
   check the time; with the check, a due plan is dropped *)
Lemma import_next_plan_roundtrip : forall now plan, import_next_plan false now plan = plan.
Proof. intros now [t|]; reflexivity. Qed.
Lemma import_next_plan_drops_due : forall now t, t <= now -> import_next_plan true now (Some t) = None.
Proof. intros now t H. unfold import_next_plan. destruct (Z.leb_spec t now); [reflexivity|lia]. Qed.

(* ================================================================ 3. the checker accepts model runs *)

Definition snap0 : snap := mkSnap [] [] [] 1 [] [] [] 1 (mkMs 0 0 [] [] 0 0) [] [] 0 0 0 [] 0 false.
Definition model_case (pop : list (string * string)) : c12_case :=
  mkCase RImported false pop (predicted_diffs pop) [] [] [] [] snap0 snap0.

Lemma predicted_diffs_nil : forall pop,
  (forall pc, In pc pop -> match status_of (fst pc) (snd pc) with SLost => False | _ => True end) -> predicted_diffs pop = [].
Proof.
  induction pop as [|pc pop IH]; intro H; cbn; [reflexivity|].
  unfold predicted_diffs in *. cbn. pose proof (H pc (or_introl eq_refl)) as Hp.
  destruct (status_of (fst pc) (snd pc)); try (cbn; apply IH; intros; apply H; right; assumption). contradiction.
Qed.

(* a run of the class-level model in which no lost class is populated passes the spec checker; and
   whenever a lost class is populated the checker flags it *)
Lemma chk_sound : forall pop,
  (forall pc, In pc pop -> match status_of (fst pc) (snd pc) with SLost => False | _ => True end) ->
  case_clauses (model_case pop) = [].
Proof. intros pop H. unfold case_clauses, model_case; cbn. rewrite predicted_diffs_nil by assumption. reflexivity. Qed.

Lemma chk_flags_lost : forall pop store name, In (store, name) pop -> status_of store name = SLost ->
  In (diff_clause ("lost"%string, store, name)) (case_clauses (model_case pop)).
Proof.
  intros pop store name Hin Hs. unfold case_clauses, model_case; cbn [cs_status cs_version_panic cs_diffs cs_export2 cs_probes cs_sched_probes cs_order].
  apply in_or_app; right. apply in_or_app; left.
  apply in_map. unfold predicted_diffs. apply in_flat_map. exists (store, name). split; [assumption|].
  cbn. rewrite Hs. left; reflexivity.
Qed.
