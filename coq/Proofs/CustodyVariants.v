(* C17 -- the full-strength statements per model variant: theorems on the repaired variants, refutations
   with concrete histories on the others (Proofs/Custody.v has the lemmas). *)
From Sekai Require Import Base.Prelude Model.Custody Model.C17Check Proofs.Custody.
From Coq Require Import ZifyBool.

(* ================================================================ 8. the full-strength statements, per variant *)
Definition reachable (v : variant) (H : string -> string) (minrew : Z) (s : state) : Prop :=
  exists bals ops, s = run v H minrew (init_state bals) ops.

(* the custody configuration of a guarded account changes only for someone who shows the
   preimage of its current key *)
Definition settings_change_requires_key_stmt (v : variant) : Prop :=
  forall H minrew s o x st, reachable v H minrew s ->
    a_set (getA s x) = Some st -> s_en st = true ->
    config_eqb (getA s x) (getA (exec v H minrew s o) x) = false ->
    exists k, op_kp o = Some k /\ H (k_old k) = s_key st.

(* an approval or a decline moves coins only if the voter is a custodian of the target *)
Definition only_custodians_count_stmt (v : variant) : Prop :=
  forall H minrew s f t h y d, reachable v H minrew s ->
    (bal_get d (a_bal (getA (exec v H minrew s (OApprove f t h)) y)) <> bal_get d (a_bal (getA s y))
     \/ bal_get d (a_bal (getA (exec v H minrew s (ODecline f t h)) y)) <> bal_get d (a_bal (getA s y))) ->
    is_custodian (getA s t) f = true.

(* a password confirmation has an effect on a pending transfer only if the password given is the
   one the transfer was requested with (as it is, or as its digest) *)
Definition password_confirmed_when_required_stmt (v : variant) : Prop :=
  forall H minrew s f t h p ph pl tx, reachable v H minrew s ->
    a_pool (getA s t) = Some pl -> pool_get (to_lower h) pl = Some tx ->
    exec v H minrew s (OConfirm f t h p ph) <> s ->
    p = t_pw tx \/ ph = t_pw tx.

(* over every history the checker's threshold clauses never fire: every pay-out of a pooled transfer of a
   guarded account was approved by the configured share of its custodians, each custodian counted once *)
Definition threshold_clause (c : string) : bool :=
  str_in c ["threshold:approve:nongenuine"; "threshold:approve:undercount"; "threshold:confirm:nongenuine";
            "threshold:confirm:undercount"; "threshold:custody_send:direct"]%string.
Definition release_only_after_threshold_stmt (v : variant) : Prop :=
  forall H minrew bals ops c, In c (model_clauses v H minrew bals ops) -> threshold_clause c = false.

(* a custodian counts once per transfer (the transfer is named by its hash, whatever the spelling) *)
Definition vote_clause (c : string) : bool := str_in c ["vote_once:approve"; "vote_once:decline"]%string.
Definition vote_counts_once_per_transfer_stmt (v : variant) : Prop :=
  forall H minrew bals ops c, In c (model_clauses v H minrew bals ops) -> vote_clause c = false.

(* the whole property: the checker accepts every history of the model *)
Definition C17_full_stmt (v : variant) : Prop := forall H minrew bals ops, model_clauses v H minrew bals ops = [].
(* ... and what the repairs under /verif/fixes achieve: nothing but the design-level clauses remains *)
Definition C17_repaired_stmt (v : variant) : Prop :=
  forall H minrew bals ops c, In c (model_clauses v H minrew bals ops) -> residual c = true.

Lemma residual_not_threshold : forall c, residual c = true -> threshold_clause c = false /\ vote_clause c = false.
Proof.
  intros c R. unfold residual in R. apply orb_prop in R. destruct R as [R|R].
  - destruct c as [|a c]; [discriminate|]. destruct a as [[|] [|] [|] [|] [|] [|] [|] [|]]; try discriminate.
    split; reflexivity.
  - simpl in R. repeat (apply orb_prop in R; destruct R as [R|R]; [apply String.eqb_eq in R; subst; split; reflexivity|]).
    discriminate.
Qed.

Section Repaired.
Variable v : variant.

Theorem repaired_all_clauses : v_cust_only v = true -> v_lower v = true -> v_pwd v = true -> C17_repaired_stmt v.
Proof. intros A B C H minrew bals ops c Hin. exact (chk_sound_repaired v A B C H minrew bals ops c Hin). Qed.

Theorem release_only_after_threshold_holds :
  v_cust_only v = true -> v_lower v = true -> v_pwd v = true -> release_only_after_threshold_stmt v.
Proof. intros A B C H minrew bals ops c Hin. exact (proj1 (residual_not_threshold c (repaired_all_clauses A B C H minrew bals ops c Hin))). Qed.

Theorem vote_counts_once_per_transfer_holds :
  v_cust_only v = true -> v_lower v = true -> v_pwd v = true -> vote_counts_once_per_transfer_stmt v.
Proof. intros A B C H minrew bals ops c Hin. exact (proj2 (residual_not_threshold c (repaired_all_clauses A B C H minrew bals ops c Hin))). Qed.

Lemma exec_err_same : forall H minrew s o, (forall s', step v H minrew s o <> Ok s') -> exec v H minrew s o = s.
Proof. intros H minrew s o N. unfold Custody.exec. destruct (step v H minrew s o) eqn:E; auto. exfalso; exact (N _ eq_refl). Qed.

Theorem only_custodians_count_holds : v_cust_only v = true -> only_custodians_count_stmt v.
Proof.
  intros A H minrew s f t h y d _ Hch.
  destruct (is_custodian (getA s t) f) eqn:Hisc; [reflexivity|exfalso].
  assert (V : voter_ok v (getA s t) f = false).
  { unfold voter_ok. rewrite A. destruct (a_cust (getA s t)) as [c|] eqn:Hc; [|reflexivity].
    destruct (bool_at f c) eqn:Hb; [|reflexivity]. rewrite (bool_at_is_custodian _ _ _ Hc Hb) in Hisc. discriminate. }
  assert (X1 : exec v H minrew s (OApprove f t h) = s).
  { apply exec_err_same. intros s' E. destruct (step_inv _ _ _ _ _ _ E) as (s1 & Ea & Eh).
    apply ante_nonbank in Ea; [|exact Logic.I]. subst s1. simpl in Eh. rewrite V in Eh. discriminate. }
  assert (X2 : exec v H minrew s (ODecline f t h) = s).
  { apply exec_err_same. intros s' E. destruct (step_inv _ _ _ _ _ _ E) as (s1 & Ea & Eh).
    apply ante_nonbank in Ea; [|exact Logic.I]. subst s1. simpl in Eh. rewrite V in Eh. discriminate. }
  rewrite X1, X2 in Hch. destruct Hch as [N|N]; apply N; reflexivity.
Qed.

Theorem password_confirmed_when_required_holds : v_pwd v = true -> password_confirmed_when_required_stmt v.
Proof.
  intros A H minrew s f t h p ph pl tx _ Hp Hg Hch.
  destruct (String.eqb p (t_pw tx)) eqn:Ep; [left; apply String.eqb_eq; exact Ep|exfalso].
  apply Hch. apply exec_err_same. intros s' E. destruct (step_inv _ _ _ _ _ _ E) as (s1 & Ea & Eh).
  apply ante_nonbank in Ea; [|exact Logic.I]. subst s1. simpl in Eh. rewrite Hp, Hg, A, Ep in Eh. discriminate.
Qed.
End Repaired.

(* ================================================================ 9. refutations on the variants that lack a repair: concrete
   histories from the initial state; each is replayed on the real code by the directed histories of
   harness/cmd/c17 as long as the tree is of that variant *)
Definition w_bals : list coins := [[(0, 1000000)]; [(0, 1000000)]; [(0, 5000)]; [(0, 5000)]; [(0, 300)]; []].
Definition kp0 (old new : string) : kp := mkKp old new (-1) (-1).
(* account 0 guarded: custodians 2 and 3, current key digest "K3" *)
Definition w_setup (mode : Z) (pwd : bool) : list op :=
  [ OCreate 0 (mkSet false mode pwd false false "" (-1)) (kp0 "Kx" "K1");
    OAdd LCust 0 [2; 3] (kp0 "K1" "K2");
    OCreate 0 (mkSet true mode pwd false false "" (-1)) (kp0 "K2" "K3") ]%string.
Definition w_send : op := OSend 0 5 [(0, 1000)] "P1" [(0, 400)] "ab12cd34".
Definition w_run (v : variant) (ops : list op) : state := run v Hid 200 (init_state w_bals) ops.
Definition bal0 (s : state) (x : Z) : Z := bal_get 0 (a_bal (getA s x)).

Lemma w_reachable : forall v ops, reachable v Hid 200 (w_run v ops).
Proof. intros v ops; exists w_bals, ops; reflexivity. Qed.

Lemma str_in_In : forall x l, str_in x l = true -> In x l.
Proof.
  induction l as [|y l IH]; simpl; [discriminate|]. intros E. apply orb_prop in E. destruct E as [E|E].
  - left. apply String.eqb_eq in E. auto.
  - right. auto.
Qed.

Ltac all_variants v :=
  destruct v; simpl v_cust_only in *; simpl v_lower in *; simpl v_pwd in *;
  repeat match goal with b : bool |- _ => destruct b end; try discriminate.

(* no variant repairs the settings messages: (a) MsgDisableCustodyRecord has no arm in the decorator *)
Lemma key_refuted_no_arm : forall v, exists ops o x st,
  let s := w_run v ops in
  a_set (getA s x) = Some st /\ s_en st = true /\ config_eqb (getA s x) (getA (exec v Hid 200 s o) x) = false
  /\ forall k, op_kp o = Some k -> Hid (k_old k) <> s_key st.
Proof.
  intros v. exists (w_setup 100 false), (ODisable 0 (kp0 "Kx" "K9")), 0, (mkSet true 100 false false false "K3" (-1)).
  cbv zeta. all_variants v;
    (split; [vm_compute; reflexivity|]; split; [reflexivity|]; split; [vm_compute; reflexivity|];
     intros k Hk; inversion Hk; subst; vm_compute; discriminate).
Qed.

(* (b) a signer without any custody record skips all checks and names the victim as TargetAddress *)
Lemma key_refuted_target_norecord : forall v, exists ops o x st,
  let s := w_run v ops in
  signer o <> x /\ a_set (getA s (signer o)) = None /\
  a_set (getA s x) = Some st /\ s_en st = true /\ config_eqb (getA s x) (getA (exec v Hid 200 s o) x) = false
  /\ forall k, op_kp o = Some k -> Hid (k_old k) <> s_key st.
Proof.
  intros v. exists (w_setup 100 false), (ODropL LCust 4 (mkKp "Kx" "K9" (-1) 0)), 0, (mkSet true 100 false false false "K3" (-1)).
  cbv zeta. all_variants v;
    (split; [vm_compute; discriminate|]; split; [vm_compute; reflexivity|];
     split; [vm_compute; reflexivity|]; split; [reflexivity|]; split; [vm_compute; reflexivity|];
     intros k Hk; inversion Hk; subst; vm_compute; discriminate).
Qed.

(* (c) a guarded signer proves ITS OWN key and names its own NextController: the record changed is the victim's *)
Lemma key_refuted_target_next : forall v, exists ops o x st,
  let s := w_run v ops in
  signer o <> x /\ a_set (getA s x) = Some st /\ s_en st = true
  /\ config_eqb (getA s x) (getA (exec v Hid 200 s o) x) = false
  /\ forall k, op_kp o = Some k -> Hid (k_old k) <> s_key st.
Proof.
  intros v.
  exists (app (w_setup 100 false) [OCreate 1 (mkSet true 50 false false false "" (-1)) (mkKp "Kx" "K7" 0 (-1))])%string,
         (OAdd LCust 1 [4] (mkKp "K7" "K8" (-1) 0)), 0, (mkSet true 100 false false false "K3" (-1)).
  cbv zeta. all_variants v;
    (split; [vm_compute; discriminate|]; split; [vm_compute; reflexivity|]; split; [reflexivity|];
     split; [vm_compute; reflexivity|]; intros k Hk; inversion Hk; subst; vm_compute; discriminate).
Qed.

Theorem settings_change_requires_key_refuted : forall v, ~ settings_change_requires_key_stmt v.
Proof.
  intros v St. destruct (key_refuted_no_arm v) as (ops & o & x & st & Hs & He & Hc & Hk).
  destruct (St Hid 200 (w_run v ops) o x st (w_reachable v ops) Hs He Hc) as (k & Ek & Eh).
  exact (Hk k Ek Eh).
Qed.

(* without C17-custodian-only-votes: a stranger approves, is paid the reward share from the guarded
   account, and his vote counts *)
Lemma stranger_approval_counts : forall v, v_cust_only v = false -> exists ops f t h,
  let s := w_run v ops in let s' := exec v Hid 200 s (OApprove f t h) in
  is_custodian (getA s t) f = false /\ bal0 s' f = bal0 s f + 200 /\ bal0 s' t = bal0 s t - 200
  /\ option_map (fun p => map (fun e => t_votes (snd e)) p) (a_pool (getA s' t)) = Some [1].
Proof.
  intros v Hv. exists (app (w_setup 100 false) [w_send]), 4, 0, "ab12cd34"%string.
  all_variants v; (vm_compute; repeat split; reflexivity).
Qed.

Theorem only_custodians_count_refuted : forall v, v_cust_only v = false -> ~ only_custodians_count_stmt v.
Proof.
  intros v Hv St. destruct (stranger_approval_counts v Hv) as (ops & f & t & h & Hc & Hb & _).
  cbv zeta in *. rewrite (St Hid 200 (w_run v ops) f t h f 0 (w_reachable v ops)) in Hc; [discriminate|].
  left. unfold bal0 in Hb. rewrite Hb. lia.
Qed.

(* without C17-password-compared: both custodians approved, then a stranger "confirms" with a wrong password: paid out *)
Lemma wrong_password_pays_out : forall v, v_pwd v = false -> exists ops f t h p ph pl tx,
  let s := w_run v ops in
  a_pool (getA s t) = Some pl /\ pool_get (to_lower h) pl = Some tx
  /\ bal0 (exec v Hid 200 s (OConfirm f t h p ph)) 5 = bal0 s 5 + 1000 /\ p <> t_pw tx /\ ph <> t_pw tx.
Proof.
  intros v Hv.
  exists (app (w_setup 100 true) [w_send; OApprove 2 0 "ab12cd34"; OApprove 3 0 "ab12cd34"])%string, 4, 0, "AB12cd34"%string,
         "px"%string, "Px"%string, [("ab12cd34"%string, mkTx 0 5 [(0, 1000)] "P1" [(0, 400)] 2 false)], (mkTx 0 5 [(0, 1000)] "P1" [(0, 400)] 2 false).
  all_variants v; (vm_compute; repeat split; try reflexivity; discriminate).
Qed.

Theorem password_confirmed_when_required_refuted : forall v, v_pwd v = false -> ~ password_confirmed_when_required_stmt v.
Proof.
  intros v Hv St. destruct (wrong_password_pays_out v Hv) as (ops & f & t & h & p & ph & pl & tx & Hl & Hg & Hb & N1 & N2).
  cbv zeta in *.
  destruct (St Hid 200 (w_run v ops) f t h p ph pl tx (w_reachable v ops) Hl Hg); [|congruence|congruence].
  intros E. rewrite E in Hb. lia.
Qed.

(* threshold 100 % of two custodians.  Without C17-vote-key-lowercase ONE custodian approves twice,
   spelling the hash differently; without C17-custodian-only-votes two strangers approve: paid out *)
Definition w_twice : list op := (app (w_setup 100 false) [w_send; OApprove 2 0 "ab12cd34"; OApprove 2 0 "AB12cd34"])%string.
Definition w_strangers : list op := (app (w_setup 100 false) [w_send; OApprove 4 0 "ab12cd34"; OApprove 1 0 "ab12cd34"])%string.

Lemma one_custodian_twice_pays_out : forall v, v_lower v = false ->
  bal0 (w_run v w_twice) 5 = 1000 /\ n_cust (getA (w_run v w_twice) 0) = 2
  /\ In "threshold:approve:nongenuine"%string (model_clauses v Hid 200 w_bals w_twice)
  /\ In "vote_once:approve"%string (model_clauses v Hid 200 w_bals w_twice).
Proof.
  intros v Hv. all_variants v;
    (split; [vm_compute; reflexivity|]; split; [vm_compute; reflexivity|]; split; apply str_in_In; vm_compute; reflexivity).
Qed.

Lemma strangers_pay_out : forall v, v_cust_only v = false ->
  bal0 (w_run v w_strangers) 5 = 1000
  /\ In "threshold:approve:nongenuine"%string (model_clauses v Hid 200 w_bals w_strangers)
  /\ In "only_custodians:approve"%string (model_clauses v Hid 200 w_bals w_strangers).
Proof.
  intros v Hv. all_variants v; (split; [vm_compute; reflexivity|]; split; apply str_in_In; vm_compute; reflexivity).
Qed.

Theorem release_only_after_threshold_refuted : forall v, v_cust_only v = false \/ v_lower v = false -> ~ release_only_after_threshold_stmt v.
Proof.
  intros v [Hv|Hv] St.
  - destruct (strangers_pay_out v Hv) as (_ & Hin & _).
    specialize (St Hid 200 w_bals w_strangers _ Hin). discriminate.
  - destruct (one_custodian_twice_pays_out v Hv) as (_ & _ & Hin & _).
    specialize (St Hid 200 w_bals w_twice _ Hin). discriminate.
Qed.

Theorem vote_counts_once_per_transfer_refuted : forall v, v_lower v = false -> ~ vote_counts_once_per_transfer_stmt v.
Proof.
  intros v Hv St. destruct (one_custodian_twice_pays_out v Hv) as (_ & _ & _ & Hin).
  specialize (St Hid 200 w_bals w_twice _ Hin). discriminate.
Qed.

(* the checker accepts every history: refuted on every variant (the design-level holes remain) *)
Theorem C17_full_refuted : forall v, ~ C17_full_stmt v.
Proof.
  intros v St. specialize (St Hid 200 w_bals (app (w_setup 100 false) [ODisable 0 (kp0 "Kx" "K9")])).
  assert (X : (match model_clauses v Hid 200 w_bals (app (w_setup 100 false) [ODisable 0 (kp0 "Kx" "K9")]) with [] => true | _ => false end) = false)
    by (all_variants v; vm_compute; reflexivity).
  rewrite St in X. discriminate.
Qed.

(* the second request replaces the pending one (the pool record is overwritten): the first transfer can
   no longer be approved; this loses a request but pays nothing out early *)
Lemma second_send_overwrites_pool : forall v,
  let s := w_run v (app (w_setup 100 false) [w_send; OApprove 2 0 "ab12cd34"; OSend 0 4 [(0, 2000)] "P2" [(0, 400)] "cd34ab12"])%string in
  option_map (map fst) (a_pool (getA s 0)) = Some ["cd34ab12"%string]
  /\ is_panic (step v Hid 200 s (OApprove 3 0 "ab12cd34")) = true.
Proof. intros v. all_variants v; (vm_compute; split; reflexivity). Qed.

(* the honest run is accepted by the checker on every variant (non-vacuity of the clauses) *)
Definition w_honest : list op :=
  (app (w_setup 100 true) [w_send; OConfirm 0 0 "ab12cd34" "P1" "H(P1)"; OApprove 2 0 "ab12cd34";
                           OApprove 2 0 "ab12cd34"; OApprove 3 0 "ab12cd34"; OBank 0 5 [(0, 10)] 1700000000])%string.
Lemma honest_run_clean : forall v, model_clauses v Hid 200 w_bals w_honest = [] /\ bal0 (w_run v w_honest) 5 = 1000.
Proof. intros v. all_variants v; (vm_compute; split; reflexivity). Qed.

Lemma nonvacuous_guarded : forall v,
  let s := w_run v (w_setup 100 false) in
  exists st c, a_set (getA s 0) = Some st /\ s_en st = true /\ a_cust (getA s 0) = Some c /\ c <> [].
Proof.
  intros v. exists (mkSet true 100 false false false "K3" (-1)), [(2, true); (3, true)].
  all_variants v; (vm_compute; repeat split; try reflexivity; discriminate).
Qed.

Lemma nonvacuous_approval : forall v,
  let s := w_run v (app (w_setup 100 false) [w_send]) in exec v Hid 200 s (OApprove 2 0 "ab12cd34") <> s.
Proof.
  intros v. cbv zeta. intros E.
  assert (X : bal0 (exec v Hid 200 (w_run v (app (w_setup 100 false) [w_send])) (OApprove 2 0 "ab12cd34")) 2
              = bal0 (w_run v (app (w_setup 100 false) [w_send])) 2) by (rewrite E; reflexivity).
  all_variants v; (vm_compute in X; discriminate).
Qed.

(* the repaired limit path: a window of one hour with limit 1000; 600 + 400 pass, one more coin is refused,
   after the window a new one starts *)
Definition w_limits : list op :=
  [ OCreate 0 (mkSet false 50 false false true "" (-1)) (kp0 "Kx" "K1");
    OAddLim 0 0 1000 "1h" (kp0 "K1" "K2");
    OBank 0 5 [(0, 600)] 1700000000; OBank 0 5 [(0, 400)] 1700000010; OBank 0 5 [(0, 1)] 1700000020;
    OBank 0 5 [(0, 1000)] 1700003600 ]%string.
Lemma limits_window_example :
  bal0 (w_run v_fixed w_limits) 5 = 2000
  /\ is_ok (step v_fixed Hid 200 (w_run v_fixed (firstn 4 w_limits)) (OBank 0 5 [(0, 1)] 1700000020)) = false
  /\ is_panic (step v_tree0 Hid 200 (w_run v_tree0 (firstn 2 w_limits)) (OBank 0 5 [(0, 600)] 1700000000)) = true.
Proof. vm_compute. repeat split; reflexivity. Qed.

