(* C16 -- "only owners edit" and "an edit drops verifications and cancels pending requests" at full
   strength, for the tree as it is (DeleteIdentityRecordById removes the address+key index entry:
   [del_fix = true]).  The well-formedness invariant [W] says that the address+key index and the
   record store describe the same set of (owner, key, id) triples and that every pending request
   covers only records indexed under its requester.  [W] is proved for every operation and lifted
   to histories; the two frame properties are proved for every operation under [W]. *)
From Coq Require Import ZifyBool.
From Sekai Require Import Base.Prelude Model.NetPropsLib Model.Identity Proofs.Identity.
Local Open Scope Z_scope.

Definition entry_of (r : record) : (addr * string) * Z := ((r_owner r, r_key r), r_id r).

Record W (s : state) : Prop := mkW {
  W_ni : NoDup (map fst (idx s));
  W_ri : NoDup (map r_id (recs s));
  W_ti : forall e, In e (idx s) -> exists r, In r (recs s) /\ entry_of r = e;
  W_ci : forall r, In r (recs s) -> In (entry_of r) (idx s);
  W_bi : forall r, In r (recs s) -> 0 < r_id r <= last_rid s;
  W_lk : forall r, In r (recs s) -> r_key r = to_lower (r_key r);
  W_rq : forall q i, In q (reqs s) -> In i (q_rids q) -> exists k, In ((q_addr q, k), i) (idx s);
  W_lr : 0 <= last_rid s }.

Lemma W_ext s s' : recs s' = recs s -> idx s' = idx s -> reqs s' = reqs s -> last_rid s' = last_rid s -> W s -> W s'.
Proof. intros E1 E2 E3 E4 [A B C D E F G H]. constructor; rewrite ?E1, ?E2, ?E3, ?E4; auto. Qed.

(* ---------------------------------------------------------------- store lemmas *)
Lemma ik_eqb_eq x y : ik_eqb x y = true <-> x = y.
Proof.
  unfold ik_eqb. destruct x as [a k], y as [b j]; simpl. rewrite andb_true_iff, Z.eqb_eq, String.eqb_eq.
  split; [intros [-> ->]; reflexivity|intros H; inv H; auto].
Qed.
Lemma ik_eqb_neq x y : ik_eqb x y = false <-> x <> y.
Proof. rewrite <- ik_eqb_eq. destruct (ik_eqb x y); split; congruence. Qed.

Lemma In_put_idx_iff k v l e : In e (put_idx k v l) <-> e = (k, v) \/ (In e l /\ fst e <> k).
Proof.
  unfold put_idx. destruct (existsb (fun e0 => ik_eqb (fst e0) k) l) eqn:E.
  - rewrite in_map_iff. split.
    + intros (y & Hy & Iy). destruct (ik_eqb (fst y) k) eqn:F; [left; auto|right; subst; split; auto; apply ik_eqb_neq; auto].
    + intros [->|[Ix Nx]].
      * apply existsb_exists in E. destruct E as (y & Iy & Hy). exists y. rewrite Hy. auto.
      * exists e. split; auto. apply ik_eqb_neq in Nx. rewrite Nx. auto.
  - rewrite in_app_iff. simpl. split.
    + intros [H|[H|[]]]; auto. right. split; auto. intros F.
      assert (X : existsb (fun e0 => ik_eqb (fst e0) k) l = true); [|congruence].
      apply existsb_exists. exists e. split; auto. apply ik_eqb_eq; auto.
    + intros [H|[H _]]; auto.
Qed.
Lemma put_idx_keys k v l : NoDup (map fst l) -> NoDup (map fst (put_idx k v l)).
Proof.
  intros N. unfold put_idx. destruct (existsb (fun e0 => ik_eqb (fst e0) k) l) eqn:E.
  - rewrite map_map.
    assert (E2 : map (fun x => fst (if ik_eqb (fst x) k then (k, v) else x)) l = map fst l).
    { apply map_ext_in. intros e _. destruct (ik_eqb (fst e) k) eqn:F; auto. apply ik_eqb_eq in F. simpl. auto. }
    rewrite E2. exact N.
  - rewrite map_app. simpl. apply NoDup_snoc; auto. intros Hin. apply in_map_iff in Hin. destruct Hin as (e & Fe & Ie).
    assert (X : existsb (fun e0 => ik_eqb (fst e0) k) l = true); [|congruence].
    apply existsb_exists. exists e. split; auto. apply ik_eqb_eq; auto.
Qed.
Lemma insert_rec_ids r l : NoDup (map r_id l) -> ~ In (r_id r) (map r_id l) -> NoDup (map r_id (insert_rec r l)).
Proof.
  induction l as [|x t IH]; simpl; intros N Hn.
  - constructor; auto.
  - destruct (r_id r <? r_id x); simpl.
    + constructor; auto.
    + inversion N; subst. constructor.
      * intros Hin. apply in_map_iff in Hin. destruct Hin as (y & Ey & Iy). apply In_insert_rec in Iy. destruct Iy as [->|Iy].
        -- apply Hn. left. auto.
        -- apply H1. apply in_map_iff. exists y. auto.
      * apply IH; auto.
Qed.
Lemma put_rec_ids r l : NoDup (map r_id l) -> NoDup (map r_id (put_rec r l)).
Proof.
  intros N. unfold put_rec. destruct (existsb (fun x => r_id x =? r_id r) l) eqn:E.
  - rewrite map_map.
    assert (E2 : map (fun x => r_id (if r_id x =? r_id r then r else x)) l = map r_id l).
    { apply map_ext_in. intros x _. destruct (r_id x =? r_id r) eqn:F; auto. lia. }
    rewrite E2. exact N.
  - apply insert_rec_ids; auto. intros Hin. apply in_map_iff in Hin. destruct Hin as (x & Ex & Ix).
    assert (X : existsb (fun x => r_id x =? r_id r) l = true); [|congruence].
    apply existsb_exists. exists x. split; auto. lia.
Qed.

Lemma same_key_same_entry (l : list ((addr * string) * Z)) e1 e2 :
  NoDup (map fst l) -> In e1 l -> In e2 l -> fst e1 = fst e2 -> e1 = e2.
Proof. intros. eapply NoDup_map_eq; eauto. Qed.
Lemma same_id_same_rec (l : list record) r1 r2 :
  NoDup (map r_id l) -> In r1 l -> In r2 l -> r_id r1 = r_id r2 -> r1 = r2.
Proof. intros. eapply NoDup_map_eq; eauto. Qed.

Lemma get_idx_In s k v : NoDup (map fst (idx s)) -> In (k, v) (idx s) -> get_idx s k = v.
Proof.
  intros N H. unfold get_idx. destruct (find (fun e => ik_eqb (fst e) k) (idx s)) as [e|] eqn:F.
  - apply find_some in F. destruct F as [Ie Fe]. apply ik_eqb_eq in Fe.
    assert (X : e = (k, v)) by (eapply same_key_same_entry; eauto). rewrite X. reflexivity.
  - eapply find_none in F; eauto. simpl in F. apply ik_eqb_neq in F. congruence.
Qed.
Lemma get_idx_found s k : get_idx s k <> 0 -> In (k, get_idx s k) (idx s).
Proof.
  unfold get_idx. destruct (find (fun e => ik_eqb (fst e) k) (idx s)) as [e|] eqn:F; [|congruence].
  intros _. apply find_some in F. destruct F as [Ie Fe]. apply ik_eqb_eq in Fe. destruct e as [k' v]. simpl in *. subst. auto.
Qed.
Lemma get_idx_zero s k : W s -> get_idx s k = 0 -> forall e, In e (idx s) -> fst e <> k.
Proof.
  intros Ws H e Ie Fe. destruct e as [k' v]. simpl in Fe. subst k'.
  rewrite (get_idx_In s k v (W_ni _ Ws) Ie) in H. subst v.
  destruct (W_ti _ Ws _ Ie) as (r & Ir & Er). pose proof (W_bi _ Ws _ Ir). inv Er. lia.
Qed.
Lemma get_rec_of s r : NoDup (map r_id (recs s)) -> In r (recs s) -> get_rec s (r_id r) = Some r.
Proof.
  intros N H. unfold get_rec. destruct (find (fun x => r_id x =? r_id r) (recs s)) as [x|] eqn:F.
  - apply find_some in F. destruct F as [Ix Fx]. f_equal. eapply same_id_same_rec; eauto. lia.
  - eapply find_none in F; eauto. simpl in F. lia.
Qed.
(* the record behind an index entry *)
Lemma entry_rec s a k id r : W s -> In ((a, k), id) (idx s) -> In r (recs s) -> r_id r = id -> r_owner r = a /\ r_key r = k.
Proof.
  intros Ws Ie Ir Ei. destruct (W_ti _ Ws _ Ie) as (r0 & I0 & E0). inv E0.
  assert (r0 = r) by (eapply same_id_same_rec; eauto using W_ri). subst. auto.
Qed.

(* ---------------------------------------------------------------- frames *)
Lemma same_core_refl r : same_core r r.
Proof. repeat split. Qed.
Lemma others_refl a s s' : recs s' = recs s -> others_untouched a s s'.
Proof. intros E. split; intros r Hr _; exists r; rewrite ?E in *; split; auto using same_core_refl. Qed.
Lemma same_core_trans r1 r2 r3 : same_core r1 r2 -> same_core r2 r3 -> same_core r1 r3.
Proof. unfold same_core. intuition congruence. Qed.
Lemma others_trans a s1 s2 s3 : others_untouched a s1 s2 -> others_untouched a s2 s3 -> others_untouched a s1 s3.
Proof.
  intros [A1 A2] [B1 B2]. split.
  - intros r Hr Ho. destruct (A1 r Hr Ho) as (r2 & H2 & C2).
    assert (O2 : r_owner r2 <> a) by (destruct C2 as (_ & E & _); congruence).
    destruct (B1 r2 H2 O2) as (r3 & H3 & C3). exists r3. split; auto. eapply same_core_trans; eauto.
  - intros r3 Hr Ho. destruct (B2 r3 Hr Ho) as (r2 & H2 & C2).
    assert (O2 : r_owner r2 <> a) by (destruct C2 as (_ & E & _); congruence).
    destruct (A2 r2 H2 O2) as (r1 & H1 & C1). exists r1. split; auto. eapply same_core_trans; eauto.
Qed.
(* every record keeps its id and value (possibly other fields change) *)
Definition vals_kept (s s' : state) : Prop :=
  forall r, In r (recs s) -> exists r', In r' (recs s') /\ r_id r' = r_id r /\ r_val r' = r_val r.
Lemma vals_kept_refl s s' : recs s' = recs s -> vals_kept s s'.
Proof. intros E r Hr. exists r. rewrite E. auto. Qed.
Lemma vals_kept_trans s1 s2 s3 : vals_kept s1 s2 -> vals_kept s2 s3 -> vals_kept s1 s3.
Proof.
  intros A B r Hr. destruct (A r Hr) as (r2 & H2 & E2 & V2). destruct (B r2 H2) as (r3 & H3 & E3 & V3).
  exists r3. split; auto. split; congruence.
Qed.

(* ---------------------------------------------------------------- the two kinds of record write *)
Lemma write_existing s r s' :
  W s -> r_key r = to_lower (r_key r) -> In (entry_of r) (idx s) -> set_record s r = Ok s' ->
  W s' /\ recs s' = put_rec r (recs s) /\ (forall e, In e (idx s') <-> In e (idx s)) /\ reqs s' = reqs s /\ last_rid s' = last_rid s.
Proof.
  intros Ws Hl He H. apply set_record_ok in H. destruct H as (_ & _ & ->). rewrite (lower_rec_lower _ Hl).
  pose proof (W_ni _ Ws) as Nn. pose proof (W_ri _ Ws) as Nr.
  assert (Hi : forall e, In e (put_idx (r_owner r, r_key r) (r_id r) (idx s)) <-> In e (idx s)).
  { intros e. rewrite In_put_idx_iff. split.
    - intros [->|[H _]]; auto.
    - intros H. destruct (ik_eqb (fst e) (r_owner r, r_key r)) eqn:F.
      + left. apply ik_eqb_eq in F. eapply same_key_same_entry; eauto.
      + right. split; auto. apply ik_eqb_neq; auto. }
  destruct (W_ti _ Ws _ He) as (r1 & I1 & E1).
  split; [|simpl; auto]. constructor; simpl.
  - apply put_idx_keys. apply W_ni; auto.
  - apply put_rec_ids. apply W_ri; auto.
  - intros e Ie. apply Hi in Ie. destruct (W_ti _ Ws _ Ie) as (r0 & I0 & E0).
    destruct (Z.eq_dec (r_id r0) (r_id r)) as [E|N].
    + exists r. split; [apply put_rec_In|].
      assert (r0 = r1). { eapply same_id_same_rec; eauto. unfold entry_of in E1. congruence. }
      subst. congruence.
    + exists r0. split; auto. apply put_rec_keeps; auto.
  - intros x Ix. apply Hi. apply In_put_rec in Ix. destruct Ix as [->|Ix]; auto. apply (W_ci _ Ws); auto.
  - intros x Ix. apply In_put_rec in Ix. destruct Ix as [->|Ix]; [|apply (W_bi _ Ws); auto].
    pose proof (W_bi _ Ws _ I1). inv E1. unfold entry_of in H1. inv H1. lia.
  - intros x Ix. apply In_put_rec in Ix. destruct Ix as [->|Ix]; auto. apply (W_lk _ Ws); auto.
  - intros q i Iq Ii. destruct (W_rq _ Ws _ _ Iq Ii) as (k & Ik). exists k. apply Hi. auto.
  - apply (W_lr _ Ws).
Qed.

Lemma write_fresh s r s' :
  W s -> r_key r = to_lower (r_key r) -> (forall e, In e (idx s) -> fst e <> (r_owner r, r_key r)) ->
  r_id r = last_rid s + 1 -> set_record (set_last_rid s (last_rid s + 1)) r = Ok s' ->
  W s' /\ recs s' = put_rec r (recs s) /\ (forall e, In e (idx s') <-> e = entry_of r \/ In e (idx s)) /\ reqs s' = reqs s.
Proof.
  intros Ws Hl Hn Hid H. apply set_record_ok in H. destruct H as (_ & _ & ->). rewrite (lower_rec_lower _ Hl). simpl.
  assert (Hi : forall e, In e (put_idx (r_owner r, r_key r) (r_id r) (idx s)) <-> e = entry_of r \/ In e (idx s)).
  { intros e. rewrite In_put_idx_iff. unfold entry_of. split.
    - intros [H|[H _]]; auto.
    - intros [H|H]; auto. }
  assert (Hf : forall x, In x (recs s) -> r_id x <> r_id r).
  { intros x Ix. pose proof (W_bi _ Ws _ Ix). lia. }
  split; [|auto]. constructor; simpl.
  - apply put_idx_keys. apply W_ni; auto.
  - apply put_rec_ids. apply W_ri; auto.
  - intros e Ie. apply Hi in Ie. destruct Ie as [->|Ie].
    + exists r. split; auto. apply put_rec_In.
    + destruct (W_ti _ Ws _ Ie) as (r0 & I0 & E0). exists r0. split; auto. apply put_rec_keeps; auto.
  - intros x Ix. apply Hi. apply In_put_rec in Ix. destruct Ix as [->|Ix]; auto. right. apply (W_ci _ Ws); auto.
  - pose proof (W_lr _ Ws). intros x Ix. apply In_put_rec in Ix. destruct Ix as [->|Ix]; [lia|]. pose proof (W_bi _ Ws _ Ix). lia.
  - intros x Ix. apply In_put_rec in Ix. destruct Ix as [->|Ix]; auto. apply (W_lk _ Ws); auto.
  - intros q i Iq Ii. destruct (W_rq _ Ws _ _ Iq Ii) as (k & Ik). exists k. apply Hi. auto.
  - pose proof (W_lr _ Ws). lia.
Qed.

Lemma W_reqs_sub s s' : recs s' = recs s -> idx s' = idx s -> last_rid s' = last_rid s ->
  (forall q, In q (reqs s') -> In q (reqs s)) -> W s -> W s'.
Proof.
  intros E1 E2 E4 Hs [A B C D E F G H]. constructor; rewrite ?E1, ?E2, ?E4; auto.
Qed.

Lemma put_rec_others (s s' : state) r :
  recs s' = put_rec r (recs s) -> (forall x, In x (recs s) -> r_id x = r_id r -> r_owner x = r_owner r) ->
  others_untouched (r_owner r) s s'.
Proof.
  intros E Hown. split; rewrite E.
  - intros x Hx Ho. exists x. split; [|apply same_core_refl]. apply put_rec_keeps; auto; intros F; apply Ho; auto.
  - intros x' Hx Ho. apply In_put_rec in Hx. destruct Hx as [->|Hx]; [tauto|]. exists x'. split; auto using same_core_refl.
Qed.

(* changed or deleted: no record of the new state has this id with the old value *)
Definition changed_in (s' : state) (r : record) : Prop :=
  forall r', In r' (recs s') -> r_id r' = r_id r -> r_val r' <> r_val r.
(* "changing a record cancels the pending requests covering it" *)
Definition no_cover (s s' : state) : Prop :=
  forall r, In r (recs s) -> changed_in s' r -> forall q, In q (reqs s') -> ~ In (r_id r) (q_rids q).
Lemma vals_kept_no_cover s s' : vals_kept s s' -> no_cover s s'.
Proof. intros K r Hr C. destruct (K r Hr) as (r' & I' & E1 & E2). exfalso. eapply C; eauto. Qed.

(* ---------------------------------------------------------------- RegisterIdentityRecords *)
Lemma reg_write1_W now a s aff k v s' aff' :
  W s -> k = to_lower k -> reg_write1 now a (s, aff) (k, v) = Ok (s', aff') ->
  W s' /\ others_untouched a s s' /\ reqs s' = reqs s /\
  exists rn, recs s' = put_rec rn (recs s) /\ r_owner rn = a /\ r_val rn = v /\
    (forall i, In i aff -> In i aff') /\ (forall i, In i aff' -> In i aff \/ i = r_id rn) /\
    (forall x, In x (recs s) -> r_id x = r_id rn -> r_val x <> v -> In (r_id rn) aff').
Proof.
  intros Ws Hk H. unfold reg_write1 in H. bind_inv H. inv Hb.
  pose proof (set_record_ok _ _ _ Ha) as (Hv & _ & _). simpl in Hv.
  assert (Eg : get_id s a k = get_idx s (a, k)) by (unfold get_id; rewrite Hv, <- Hk; reflexivity).
  rewrite Eg in *. destruct (get_idx s (a, k) =? 0) eqn:Z0.
  - (* a new record *)
    assert (Z1 : get_idx s (a, k) = 0) by lia.
    set (rn := mkRec (last_rid s + 1) a k v now []) in *.
    destruct (write_fresh s rn s') as (W' & Er & Ei & Eq); auto.
    { intros e Ie. apply (get_idx_zero s (a, k) Ws Z1 e Ie). }
    split; auto. split; [|split; auto].
    + apply (put_rec_others s s' rn); auto. intros x Ix Ex. pose proof (W_bi _ Ws _ Ix). simpl in Ex. lia.
    + exists rn. repeat split; auto. intros x Ix Ex. pose proof (W_bi _ Ws _ Ix). simpl in Ex. lia.
  - (* an existing record of this address *)
    assert (Z1 : get_idx s (a, k) <> 0) by lia.
    pose proof (get_idx_found s (a, k) Z1) as Ie.
    set (id0 := get_idx s (a, k)) in *. set (rn := mkRec id0 a k v now []) in *.
    destruct (write_existing s rn s') as (W' & Er & Ei & Eq & _); auto.
    destruct (W_ti _ Ws _ Ie) as (r1 & I1 & E1).
    assert (Eid : r_id r1 = id0) by (inv E1; auto).
    assert (G1 : get_rec s id0 = Some r1) by (rewrite <- Eid; apply get_rec_of; auto using W_ri).
    split; auto. split; [|split; auto].
    + apply (put_rec_others s s' rn); auto. intros x Ix Ex. simpl in *.
      eapply (entry_rec s a k id0 x Ws Ie Ix Ex).
    + exists rn. rewrite G1. repeat split; auto.
      * intros i Hi. destruct (String.eqb (r_val r1) v); auto. apply in_or_app; auto.
      * intros i Hi. destruct (String.eqb (r_val r1) v); auto. apply in_app_or in Hi. destruct Hi as [Hi|[<-|[]]]; auto.
      * intros x Ix Ex Nv. simpl in *.
        assert (x = r1) by (eapply (same_id_same_rec (recs s)); [apply (W_ri _ Ws)|exact Ix|exact I1|congruence]). subst x.
        destruct (String.eqb (r_val r1) v) eqn:F; [apply String.eqb_eq in F; congruence|]. apply in_or_app. right. left. auto.
Qed.

Definition J (a : addr) (s0 : state) (s : state) (aff : list Z) : Prop :=
  (forall r, In r (recs s0) -> (exists r', In r' (recs s) /\ r_id r' = r_id r /\ r_val r' = r_val r) \/ In (r_id r) aff) /\
  (forall i, In i aff -> exists x, In x (recs s) /\ r_id x = i /\ r_owner x = a).

Lemma reg_fold_W now a s0 infos : Forall (fun i => fst i = to_lower (fst i)) infos ->
  forall s aff s' aff', W s -> J a s0 s aff -> foldM (reg_write1 now a) infos (s, aff) = Ok (s', aff') ->
  W s' /\ others_untouched a s s' /\ reqs s' = reqs s /\ J a s0 s' aff'.
Proof.
  induction 1 as [|[k v] t Hk Ht IH]; simpl; intros s aff s' aff' Ws Js H.
  - inv H. split; [auto|split; [apply others_refl; auto|split; [auto|exact Js]]].
  - bind_inv H. destruct a0 as [s1 aff1].
    destruct (reg_write1_W _ _ _ _ _ _ _ _ Ws Hk Ha) as (W1 & O1 & Q1 & rn & Er & Eo & Ev & A1 & A2 & A3).
    assert (J1 : J a s0 s1 aff1).
    { destruct Js as [Ja Jb]. split.
      - intros r Hr. destruct (Ja r Hr) as [(r' & I' & Ei & Evl)|Hin]; [|right; auto].
        destruct (Z.eq_dec (r_id r') (r_id rn)) as [E|N].
        + destruct (String.eqb (r_val r') v) eqn:F.
          * apply String.eqb_eq in F. left. exists rn. rewrite Er. split; [apply put_rec_In|]. split; congruence.
          * right. rewrite <- Ei, E. apply (A3 r'); auto. intros X. rewrite X, String.eqb_refl in F. discriminate.
        + left. exists r'. rewrite Er. split; auto. apply put_rec_keeps; auto.
      - intros i Hi. destruct (A2 i Hi) as [Hin| ->].
        + destruct (Jb i Hin) as (x & Ix & Ex & Ox). destruct (Z.eq_dec (r_id x) (r_id rn)) as [E|N].
          * exists rn. rewrite Er. split; [apply put_rec_In|]. split; congruence.
          * exists x. rewrite Er. split; auto. apply put_rec_keeps; auto.
        + exists rn. rewrite Er. split; [apply put_rec_In|]. auto. }
    destruct (IH _ _ _ _ W1 J1 Hb) as (W2 & O2 & Q2 & J2).
    split; [auto|split; [eapply others_trans; eauto|split; [congruence|exact J2]]].
Qed.

(* ---- cancelling *)
Lemma payout_frame s q to s' : payout s q to = Ok s' ->
  recs s' = recs s /\ idx s' = idx s /\ last_rid s' = last_rid s /\
  reqs s' = filter (fun x => negb (q_id x =? q_id q)) (reqs s).
Proof.
  unfold payout. intros H. bind_inv H. inv Hb. apply pay_opt_ok in Ha. destruct Ha as (E0 & E1 & E2 & E3 & _).
  unfold del_req. simpl. rewrite E2. auto.
Qed.
Lemma filter_filter {A} (f g : A -> bool) l : filter f (filter g l) = filter (fun x => g x && f x) l.
Proof. induction l as [|x t IH]; simpl; auto. destruct (g x); simpl; [destruct (f x)|]; rewrite ?IH; auto. Qed.

Lemma cancel_fold a L : forall s s', foldM (fun s qid => cancel_request s a qid) L s = Ok s' ->
  recs s' = recs s /\ idx s' = idx s /\ last_rid s' = last_rid s /\
  reqs s' = filter (fun q => negb (mem (q_id q) L)) (reqs s).
Proof.
  induction L as [|qid L IH]; simpl; intros s s' H.
  - inv H. repeat split; auto. induction (reqs s'); simpl; congruence.
  - bind_inv H. unfold cancel_request in Ha. destruct (get_req s qid) as [q|] eqn:G; [|discriminate].
    destruct (negb (a =? q_addr q)); [discriminate|]. apply payout_frame in Ha. destruct Ha as (E1 & E2 & E3 & E4).
    apply get_req_In in G. destruct G as [_ G]. rewrite G in E4.
    apply IH in Hb. destruct Hb as (F1 & F2 & F3 & F4). rewrite F1, F2, F3, F4, E4, filter_filter. repeat split; auto.
    apply filter_ext. intros x. rewrite negb_orb. reflexivity.
Qed.
Lemma cancel_invalid_char s a ids s' : cancel_invalid s a ids = Ok s' ->
  recs s' = recs s /\ idx s' = idx s /\ last_rid s' = last_rid s /\
  forall q, In q (reqs s') -> In q (reqs s) /\ ~ (q_addr q = a /\ covers ids q = true).
Proof.
  unfold cancel_invalid. intros H. apply cancel_fold in H. destruct H as (E1 & E2 & E3 & E4). repeat split; auto.
  - rewrite E4 in H. apply filter_In in H. tauto.
  - rewrite E4 in H. apply filter_In in H. destruct H as [Iq Hm]. intros [Ea Ec].
    assert (X : mem (q_id q) (map q_id (filter (fun q0 => (q_addr q0 =? a) && covers ids q0) (reqs s))) = true).
    { apply mem_In. apply in_map. apply filter_In. split; auto. rewrite Ec. rewrite andb_true_r. lia. }
    rewrite X in Hm. discriminate.
Qed.

Lemma covers_In ids q i : In i (q_rids q) -> In i ids -> covers ids q = true.
Proof. intros H1 H2. unfold covers. apply existsb_exists. exists i. split; auto. apply mem_In; auto. Qed.

Lemma register_keeper_W now a infos s s' :
  W s -> register_keeper now a infos s = Ok s' ->
  W s' /\ others_untouched a s s' /\ no_cover s s'.
Proof.
  intros Ws H. unfold register_keeper in H. bind_inv H. bind_inv Hb. destruct a1 as [s1 aff]. simpl in Hb0.
  assert (J0 : J a s s []).
  { split; [|intros i []]. intros r Hr. left. exists r. auto. }
  destruct (reg_fold_W now a s a0 (reg_check_lower _ _ _ _ Ha) _ _ _ _ Ws J0 Ha0) as (W1 & O1 & Q1 & Ja & Jb).
  apply cancel_invalid_char in Hb0. destruct Hb0 as (E1 & E2 & E3 & E4).
  split; [|split].
  - eapply (W_reqs_sub s1); eauto. intros q Iq. apply E4; auto.
  - eapply others_trans; [exact O1|]. apply others_refl; auto.
  - intros r Hr C q Iq Hin. destruct (E4 q Iq) as [Iq1 Nq].
    destruct (Ja r Hr) as [(r' & I' & Ei & Ev)|Haff].
    + apply (C r'); auto. rewrite E1. auto.
    + (* the record was rewritten by [a] with another value: its requests are [a]'s and were cancelled *)
      destruct (Jb _ Haff) as (x & Ix & Ex & Ox).
      destruct (W_rq _ W1 q _ Iq1 Hin) as (k & Ik).
      destruct (entry_rec s1 _ _ _ x W1 Ik Ix Ex) as [Oq _].
      apply Nq. split; [congruence|]. eapply covers_In; eauto.
Qed.

(* every record keeps its identity, owner, key, value and date (verifiers may change) *)
Definition cores_kept (s s' : state) : Prop :=
  (forall r, In r (recs s) -> exists r', In r' (recs s') /\ same_core r r') /\
  (forall r', In r' (recs s') -> exists r, In r (recs s) /\ same_core r r').
Lemma cores_refl s s' : recs s' = recs s -> cores_kept s s'.
Proof. intros E. split; intros r Hr; exists r; rewrite ?E in *; auto using same_core_refl. Qed.
Lemma cores_trans s1 s2 s3 : cores_kept s1 s2 -> cores_kept s2 s3 -> cores_kept s1 s3.
Proof.
  intros [A1 A2] [B1 B2]. split.
  - intros r Hr. destruct (A1 r Hr) as (r2 & H2 & C2). destruct (B1 r2 H2) as (r3 & H3 & C3). exists r3. eauto using same_core_trans.
  - intros r Hr. destruct (B2 r Hr) as (r2 & H2 & C2). destruct (A2 r2 H2) as (r1 & H1 & C1). exists r1. eauto using same_core_trans.
Qed.
Lemma cores_others a s s' : cores_kept s s' -> others_untouched a s s'.
Proof. intros [A B]. split; intros r Hr _; auto. Qed.
Lemma cores_vals s s' : cores_kept s s' -> vals_kept s s'.
Proof. intros [A _] r Hr. destruct (A r Hr) as (r' & I' & C). exists r'. unfold same_core in C. tauto. Qed.

(* ---------------------------------------------------------------- DeleteIdentityRecords *)
Lemma fold_del_idx_char hit : forall s,
  let s1 := fold_left (fun s (e : (addr * string) * Z) => del_idx s (fst e)) hit s in
  recs s1 = recs s /\ reqs s1 = reqs s /\ last_rid s1 = last_rid s /\
  (forall e, In e (idx s1) <-> In e (idx s) /\ ~ In (fst e) (map fst hit)) /\
  (NoDup (map fst (idx s)) -> NoDup (map fst (idx s1))).
Proof.
  induction hit as [|h t IH]; simpl; intros s.
  - repeat split; auto; tauto.
  - destruct (IH (del_idx s (fst h))) as (E1 & E2 & E3 & E4 & E5). simpl in *.
    split; [auto|split; [auto|split; [auto|split]]].
    + intros e. rewrite E4. rewrite filter_In, negb_true_iff, ik_eqb_neq.
      split; [intros [[A B] C]; split; auto; intros [F|F]; [apply B; auto|auto]
             |intros [A B]; split; [split; auto; intros F; apply B; left; auto|intros F; apply B; right; auto]].
    + intros N. apply E5. apply NoDup_map_filter. auto.
Qed.
Lemma fold_del_one_char hit : forall s s2, foldM del_one hit s = Ok s2 ->
  idx s2 = idx s /\ reqs s2 = reqs s /\ last_rid s2 = last_rid s /\
  (forall x, In x (recs s2) <-> In x (recs s) /\ ~ In (r_id x) (map snd hit)) /\
  (NoDup (map r_id (recs s)) -> NoDup (map r_id (recs s2))).
Proof.
  induction hit as [|h t IH]; simpl; intros s s2 H.
  - inv H. repeat split; auto; tauto.
  - bind_inv H. unfold del_one in Ha. destruct (get_rec s (snd h)); [|discriminate]. inv Ha.
    destruct (IH _ _ Hb) as (E1 & E2 & E3 & E4 & E5). simpl in *.
    split; [auto|split; [auto|split; [auto|split]]].
    + intros x. rewrite E4. rewrite filter_In, negb_true_iff, Z.eqb_neq.
      split; [intros [[A B] C]; split; auto; intros [F|F]; [apply B; auto|auto]
             |intros [A B]; split; [split; auto; intros F; apply B; left; auto|intros F; apply B; right; auto]].
    + intros N. apply E5. apply NoDup_map_filter. auto.
Qed.

Lemma delete_W a keys s s' : W s -> delete_msg a keys s = Ok s' ->
  W s' /\ others_untouched a s s' /\ no_cover s s'.
Proof.
  intros Ws H. unfold delete_msg in H. bind_inv H. bind_inv Hb.
  set (hit := filter (fun e : (addr * string) * Z => match keys with [] => true | _ :: _ => str_in (snd (fst e)) (map to_lower keys) end) (idx_of s a)) in *.
  destruct (fold_del_idx_char hit s) as (A1 & A2 & A3 & A4 & A5).
  set (s1 := fold_left (fun s (e : (addr * string) * Z) => del_idx s (fst e)) hit s) in *.
  destruct (fold_del_one_char hit _ _ Ha0) as (B1 & B2 & B3 & B4 & B5).
  apply cancel_invalid_char in Hb0. destruct Hb0 as (C1 & C2 & C3 & C4).
  pose proof (W_ni _ Ws) as Nn. pose proof (W_ri _ Ws) as Nr.
  assert (Hhit : forall h, In h hit -> In h (idx s) /\ fst (fst h) = a).
  { intros h Hh. unfold hit, idx_of in Hh. apply filter_In in Hh. destruct Hh as [Hh _]. apply filter_In in Hh. destruct Hh as [Hh1 Hh2]. split; auto. apply Z.eqb_eq in Hh2. exact Hh2. }
  assert (K1 : forall x, In x (recs s) -> In (r_id x) (map snd hit) -> In (entry_of x) hit).
  { intros x Ix Hin. apply in_map_iff in Hin. destruct Hin as (h & Eh & Ih). destruct (Hhit h Ih) as [Ihs _].
    destruct (W_ti _ Ws _ Ihs) as (rh & Irh & Erh).
    assert (rh = x). { eapply same_id_same_rec; eauto. rewrite <- Eh, <- Erh. reflexivity. }
    subst. auto. }
  assert (K2 : forall e, In e (idx s) -> In (fst e) (map fst hit) -> In e hit).
  { intros e Ie Hin. apply in_map_iff in Hin. destruct Hin as (h & Eh & Ih). destruct (Hhit h Ih) as [Ihs _].
    assert (h = e) by (eapply same_key_same_entry; eauto). subst. auto. }
  assert (Ei : forall e, In e (idx s') <-> In e (idx s) /\ ~ In (fst e) (map fst hit)) by (intros e; rewrite C2, B1; apply A4).
  assert (Er : forall x, In x (recs s') <-> In x (recs s) /\ ~ In (r_id x) (map snd hit)) by (intros x; rewrite C1, B4, A1; tauto).
  assert (Eq : forall q, In q (reqs s') -> In q (reqs s) /\ ~ (q_addr q = a /\ covers (map snd hit) q = true)).
  { intros q Iq. destruct (C4 q Iq) as [I1 I2]. rewrite B2, A2 in I1. auto. }
  split; [|split].
  - constructor.
    + rewrite C2, B1. auto.
    + rewrite C1. apply B5. rewrite A1. auto.
    + intros e Ie. apply Ei in Ie. destruct Ie as [Ie Hn]. destruct (W_ti _ Ws _ Ie) as (r0 & I0 & E0). exists r0. split; auto.
      apply Er. split; auto. intros Hin. apply Hn. apply (K1 r0 I0) in Hin. rewrite E0 in Hin. apply in_map; auto.
    + intros x Ix. apply Er in Ix. destruct Ix as [Ix Hn]. apply Ei. split; [apply (W_ci _ Ws); auto|].
      intros Hin. apply Hn. apply (K2 _ (W_ci _ Ws _ Ix)) in Hin. apply in_map_iff. exists (entry_of x). auto.
    + intros x Ix. apply Er in Ix. rewrite C3, B3, A3. apply (W_bi _ Ws); tauto.
    + intros x Ix. apply Er in Ix. apply (W_lk _ Ws); tauto.
    + intros q i Iq Ii. destruct (Eq q Iq) as [Iq0 Nq]. destruct (W_rq _ Ws q i Iq0 Ii) as (k & Ik). exists k.
      apply Ei. split; auto. intros Hin. apply (K2 _ Ik) in Hin. apply Nq. destruct (Hhit _ Hin) as [_ Ea]. simpl in Ea. split; auto.
      eapply covers_In; eauto. apply in_map_iff. exists ((q_addr q, k), i). auto.
    + rewrite C3, B3, A3. apply (W_lr _ Ws).
  - split.
    + intros x Ix Ho. exists x. split; [|apply same_core_refl]. apply Er. split; auto. intros Hin.
      apply (K1 x Ix) in Hin. destruct (Hhit _ Hin) as [_ Ea]. simpl in Ea. auto.
    + intros x Ix Ho. exists x. split; [|apply same_core_refl]. apply Er in Ix. tauto.
  - intros r Hr C q Iq Hin. destruct (Eq q Iq) as [Iq0 Nq].
    assert (Hid : In (r_id r) (map snd hit)).
    { destruct (in_dec Z.eq_dec (r_id r) (map snd hit)) as [Y|N]; auto. exfalso. apply (C r); auto. apply Er. auto. }
    pose proof (K1 r Hr Hid) as Hh. destruct (Hhit _ Hh) as [_ Ea]. simpl in Ea.
    destruct (W_rq _ Ws q _ Iq0 Hin) as (k & Ik). destruct (entry_rec s _ _ _ r Ws Ik Hr eq_refl) as [Oq _].
    apply Nq. split; [congruence|]. eapply covers_In; eauto.
Qed.

(* ---------------------------------------------------------------- request / handle / cancel *)
Lemma request_W a v rids d n s s' : W s -> request_msg a v rids d n s = Ok s' -> W s' /\ recs s' = recs s.
Proof.
  intros Ws H. unfold request_msg in H. destruct rids as [|i0 rids0]; [discriminate|].
  destruct (n <? 0); [discriminate|].
  destruct (forallb (fun i => mem i (map snd (idx_of s a))) (i0 :: rids0)) eqn:F; simpl in H; [|discriminate].
  bind_inv H. destruct (n <? as_int64 (min_tip s)); [discriminate|].
  apply pay_opt_ok in Hb. simpl in Hb. destruct Hb as (E1 & E2 & E3 & E4 & _).
  split; auto. destruct Ws as [A B C D E G R L]. constructor; rewrite ?E1, ?E2, ?E3, ?E4; auto.
  intros q i Iq Ii. apply in_app_or in Iq. destruct Iq as [Iq|[<-|[]]]; [apply (R q i); auto|]. simpl in Ii |- *.
  rewrite forallb_forall in F. specialize (F i Ii). apply mem_In in F. apply in_map_iff in F. destruct F as (e & Ee & Ie).
  apply filter_In in Ie. destruct Ie as [Ie Fa]. destruct e as [[a' k] i']. simpl in *. exists k. assert (a' = a) by lia. subst. auto.
Qed.

Lemma add_verifier_W v s i s' : W s -> add_verifier v s i = Ok s' -> W s' /\ cores_kept s s' /\ reqs s' = reqs s.
Proof.
  intros Ws H. unfold add_verifier in H. destruct (get_rec s i) as [x|] eqn:G; [|discriminate].
  destruct (mem v (r_ver x)); [inv H; split; auto; split; auto; apply cores_refl; auto|].
  apply get_rec_In in G. destruct G as [Ix _].
  assert (L1 : r_key (with_ver x v) = to_lower (r_key (with_ver x v))) by (simpl; apply (W_lk _ Ws); auto).
  assert (L2 : In (entry_of (with_ver x v)) (idx s)) by (apply (W_ci _ Ws) in Ix; exact Ix).
  destruct (write_existing s (with_ver x v) s' Ws L1 L2 H) as (W' & Er & _ & Eq & _).
  - split; auto. split; auto. pose proof (W_ri _ Ws) as Nr. split; rewrite Er.
    + intros y Iy. destruct (Z.eq_dec (r_id y) (r_id x)) as [E|N].
      * assert (y = x) by (eapply same_id_same_rec; eauto). subst. eexists. split; [apply put_rec_In|]. repeat split.
      * exists y. split; [apply put_rec_keeps; auto|apply same_core_refl].
    + intros y Iy. apply In_put_rec in Iy. destruct Iy as [->|Iy].
      * exists x. split; auto. repeat split.
      * exists y. split; auto. apply same_core_refl.
Qed.
Lemma add_verifier_fold_W v l : forall s s', W s -> foldM (add_verifier v) l s = Ok s' -> W s' /\ cores_kept s s' /\ reqs s' = reqs s.
Proof.
  induction l as [|i t IH]; simpl; intros s s' Ws H.
  - inv H. split; auto. split; auto. apply cores_refl; auto.
  - bind_inv H. destruct (add_verifier_W _ _ _ _ Ws Ha) as (W1 & C1 & Q1). destruct (IH _ _ W1 Hb) as (W2 & C2 & Q2).
    split; auto. split; [eapply cores_trans; eauto|congruence].
Qed.
Lemma payout_W s q to s' : W s -> payout s q to = Ok s' -> W s' /\ recs s' = recs s.
Proof.
  intros Ws H. apply payout_frame in H. destruct H as (E1 & E2 & E3 & E4). split; auto.
  eapply (W_reqs_sub s); eauto. intros x Ix. rewrite E4 in Ix. apply filter_In in Ix. tauto.
Qed.
Lemma handle_W v qid yes s s' : W s -> handle_msg v qid yes s = Ok s' -> W s' /\ cores_kept s s'.
Proof.
  intros Ws H. unfold handle_msg in H. destruct (qid =? 0); [discriminate|].
  destruct (get_req s qid) as [q|]; [|discriminate]. destruct (negb (v =? q_ver q)); [discriminate|].
  bind_inv H. bind_inv Hb. destruct (payout_W _ _ _ _ Ws Ha) as (W1 & E1). destruct a0.
  - destruct (add_verifier_fold_W _ _ _ _ W1 Hb0) as (W2 & C2 & _). split; auto. eapply cores_trans; [apply cores_refl; eauto|eauto].
  - inv Hb0. split; auto. apply cores_refl; auto.
Qed.
Lemma cancel_W a qid s s' : W s -> cancel_msg a qid s = Ok s' -> W s' /\ recs s' = recs s.
Proof.
  intros Ws H. unfold cancel_msg, cancel_request in H. destruct (qid =? 0); [discriminate|].
  destruct (get_req s qid) as [q|]; [|discriminate]. destruct (negb (a =? q_addr q)); [discriminate|].
  eapply payout_W; eauto.
Qed.

(* ---------------------------------------------------------------- RotateRecoveryAddress *)
(* [W] without the clause about requests (which are renamed only at the end of the rotation) *)
Definition W0 (t : state) : Prop := W (set_reqs t []).
Lemma W_W0 t : W t -> W0 t.
Proof. intros [A B C D E F G H]. constructor; simpl; auto. intros q i []. Qed.
Lemma W0_W t s' : W0 t -> recs s' = recs t -> idx s' = idx t -> last_rid s' = last_rid t ->
  (forall q i, In q (reqs s') -> In i (q_rids q) -> exists k, In ((q_addr q, k), i) (idx s')) -> W s'.
Proof. intros [A B C D E F G H] E1 E2 E3 R. simpl in *. constructor; rewrite ?E1, ?E2, ?E3; auto. intros q i Iq Ii. rewrite <- E2. eauto. Qed.

Lemma move_step b t e t' :
  W0 t -> del_fix t = true -> In e (idx t) -> fst (fst e) <> b ->
  (forall e', In e' (idx t) -> fst e' <> (b, snd (fst e))) ->
  move_rec b t e = Ok t' ->
  exists x, In x (recs t) /\ entry_of x = e /\
    W0 t' /\ del_fix t' = true /\ reqs t' = reqs t /\ last_rid t' = last_rid t /\
    (forall y, In y (recs t') <-> y = with_owner x b \/ (In y (recs t) /\ r_id y <> r_id x)) /\
    (forall e', In e' (idx t') <-> e' = ((b, snd (fst e)), snd e) \/ (In e' (idx t) /\ e' <> e)).
Proof.
  intros Wt Fx Ie Nb Hfree H.
  pose proof (W_ni _ Wt) as Nn. pose proof (W_ri _ Wt) as Nr. simpl in Nn, Nr.
  destruct (W_ti _ Wt _ Ie) as (x & Ix & Ex). simpl in Ix.
  assert (G : get_rec t (snd e) = Some x).
  { replace (snd e) with (r_id x) by (rewrite <- Ex; reflexivity). apply get_rec_of; auto. }
  unfold move_rec in H. rewrite G, Fx in H.
  assert (Lx : r_key x = to_lower (r_key x)) by (apply (W_lk _ Wt); auto).
  apply set_record_ok in H. destruct H as (_ & _ & ->).
  rewrite (lower_rec_lower (mkRec (r_id x) b (r_key x) (r_val x) (r_date x) (r_ver x)) Lx).
  assert (Ee : e = ((r_owner x, r_key x), r_id x)) by (rewrite <- Ex; reflexivity).
  assert (Es : snd e = r_id x) by (rewrite Ee; reflexivity).
  assert (Ek : snd (fst e) = r_key x) by (rewrite Ee; reflexivity).
  exists x. split; auto. split; auto.
  assert (HR : forall y, In y (put_rec (with_owner x b) (filter (fun r => negb (r_id r =? snd e)) (recs t))) <->
                         y = with_owner x b \/ (In y (recs t) /\ r_id y <> r_id x)).
  { intros y. rewrite In_put_rec_iff, filter_In, negb_true_iff, Z.eqb_neq, Es. simpl. tauto. }
  assert (HI : forall e', In e' (put_idx (b, r_key x) (r_id x) (filter (fun e0 => negb (ik_eqb (fst e0) (r_owner x, r_key x))) (idx t))) <->
                          e' = ((b, snd (fst e)), snd e) \/ (In e' (idx t) /\ e' <> e)).
  { intros e'. rewrite In_put_idx_iff, filter_In, negb_true_iff, ik_eqb_neq, Ek, Es. split.
    - intros [->|[[I1 N1] N2]]; auto. right. split; auto. intros ->. apply N1. rewrite Ee. reflexivity.
    - intros [->|[I1 N1]]; auto. right. split; [split; auto|].
      + intros F. apply N1. eapply same_key_same_entry; eauto. rewrite F, Ee. reflexivity.
      + rewrite <- Ek. apply Hfree; auto. }
  unfold with_owner in *. simpl.
  split; [|split; [auto|split; [auto|split; [auto|split; [exact HR|exact HI]]]]].
  constructor; simpl.
  - apply put_idx_keys. apply NoDup_map_filter. auto.
  - apply put_rec_ids. apply NoDup_map_filter. auto.
  - intros e' Ie'. apply HI in Ie'. destruct Ie' as [->|[I1 N1]].
    + eexists. split; [apply HR; left; reflexivity|]. unfold entry_of. simpl. rewrite Ek, Es. reflexivity.
    + destruct (W_ti _ Wt _ I1) as (r0 & I0 & E0). simpl in I0. exists r0. split; auto. apply HR. right. split; auto.
      intros F. apply N1. assert (r0 = x) by (eapply same_id_same_rec; eauto). subst. congruence.
  - intros y Iy. apply HR in Iy. apply HI. destruct Iy as [->|[I1 N1]].
    + left. unfold entry_of. simpl. rewrite Ek, Es. reflexivity.
    + right. split; [apply (W_ci _ Wt); auto|]. intros F. apply N1. rewrite Ee in F. unfold entry_of in F. congruence.
  - intros y Iy. apply HR in Iy. destruct Iy as [->|[I1 N1]]; simpl; apply (W_bi _ Wt); auto.
  - intros y Iy. apply HR in Iy. destruct Iy as [->|[I1 N1]]; simpl; auto. apply (W_lk _ Wt); auto.
  - intros q i [].
  - apply (W_lr _ Wt).
Qed.

Definition ekey (d : (addr * string) * Z) : string := snd (fst d).

Lemma move_fold a b : a <> b -> forall todo t t',
  W0 t -> del_fix t = true -> NoDup (map fst todo) ->
  (forall d, In d todo -> In d (idx t) /\ fst (fst d) = a) ->
  (forall e', In e' (idx t) -> fst (fst e') = b -> ~ In (ekey e') (map ekey todo)) ->
  foldM (move_rec b) todo t = Ok t' ->
  W0 t' /\ reqs t' = reqs t /\ last_rid t' = last_rid t /\
  (forall r, In r (recs t) -> (In (entry_of r) todo -> In (with_owner r b) (recs t')) /\ (~ In (entry_of r) todo -> In r (recs t'))) /\
  (forall y, In y (recs t') -> exists r, In r (recs t) /\ r_id r = r_id y) /\
  (forall e, In e (idx t) -> (In e todo -> In ((b, ekey e), snd e) (idx t')) /\ (~ In e todo -> In e (idx t'))).
Proof.
  intros Nab. induction todo as [|d rest IH]; simpl; intros t t' Wt Fx Nd Hd Hb H.
  - inv H. split; auto. split; auto. split; auto. split; [|split].
    + intros r Hr. split; tauto.
    + intros y Hy. exists y. auto.
    + intros e He. split; tauto.
  - bind_inv H. inversion Nd as [|? ? Nd1 Nd2]; subst.
    destruct (Hd d (or_introl eq_refl)) as [Id Ad].
    destruct (move_step b t d a0 Wt Fx Id) as (x & Ix & Ex & W1 & F1 & Q1 & L1 & HR & HI); auto.
    { congruence. }
    { intros e' Ie' Fe. apply (Hb e' Ie'); [rewrite Fe; reflexivity|]. left. unfold ekey. rewrite Fe. reflexivity. }
    pose proof (W_ni _ Wt) as Nn. pose proof (W_ri _ Wt) as Nr. simpl in Nn, Nr.
    assert (Hd1 : forall d', In d' rest -> In d' (idx a0) /\ fst (fst d') = a).
    { intros d' Id'. destruct (Hd d' (or_intror Id')) as [I1 A1]. split; auto. apply HI. right. split; [auto|intros ->; apply Nd1; apply in_map; auto]. }
    assert (Hb1 : forall e', In e' (idx a0) -> fst (fst e') = b -> ~ In (ekey e') (map ekey rest)).
    { intros e' Ie' Fb Hin. apply HI in Ie'. destruct Ie' as [->|[I1 N1]].
      - unfold ekey in Hin. simpl in Hin. apply in_map_iff in Hin. destruct Hin as (d' & Ed' & Id').
        apply Nd1. apply in_map_iff. exists d'. split; auto. destruct (Hd d' (or_intror Id')) as [_ A1].
        destruct d as [[da dk] di], d' as [[da' dk'] di']. simpl in *. congruence.
      - apply (Hb e' I1 Fb). right. auto. }
    destruct (IH _ _ W1 F1 Nd2 Hd1 Hb1 Hb0) as (W2 & Q2 & L2 & R1 & R2 & I2).
    split; auto. split; [congruence|]. split; [congruence|]. split; [|split].
    + intros r Hr. split.
      * intros [Er|Er].
        -- (* this record is moved now; afterwards it belongs to b and is not touched again *)
           assert (r = x). { eapply same_id_same_rec; eauto. rewrite Er in Ex. unfold entry_of in Ex. congruence. }
           subst r. assert (I1 : In (with_owner x b) (recs a0)) by (apply HR; auto).
           apply (R1 _ I1). intros Hin. destruct (Hd _ (or_intror Hin)) as [_ A1]. simpl in A1. congruence.
        -- assert (Nx : r_id r <> r_id x).
           { intros F. assert (r = x) by (eapply same_id_same_rec; eauto). subst r. rewrite Ex in Er. apply Nd1. apply in_map; auto. }
           assert (I1 : In r (recs a0)) by (apply HR; auto). apply (R1 _ I1); auto.
      * intros Nr'. assert (Nx : r_id r <> r_id x).
        { intros F. assert (r = x) by (eapply same_id_same_rec; eauto). subst r. apply Nr'. left. auto. }
        assert (I1 : In r (recs a0)) by (apply HR; auto). apply (R1 _ I1). tauto.
    + intros y Hy. destruct (R2 y Hy) as (r1 & I1 & E1). apply HR in I1. destruct I1 as [->|[I1 _]].
      * exists x. split; auto.
      * exists r1. auto.
    + intros e He. split.
      * intros [Ee|Ee].
        -- subst e. assert (I1 : In ((b, ekey d), snd d) (idx a0)) by (apply HI; auto).
           apply (I2 _ I1). intros Hin. destruct (Hd _ (or_intror Hin)) as [_ A1]. simpl in A1. congruence.
        -- assert (I1 : In e (idx a0)). { apply HI. right. split; [auto|intros ->; apply Nd1; apply in_map; auto]. }
           apply (I2 _ I1); auto.
      * intros Ne. assert (I1 : In e (idx a0)). { apply HI. right. split; [auto|intros ->; apply Ne; auto]. }
        apply (I2 _ I1). tauto.
Qed.

Lemma pay_opt_fix s x y d n s' : pay_opt s x y d n = Ok s' -> del_fix s' = del_fix s.
Proof.
  unfold pay_opt, pay. destruct (n =? 0); [intros H; inv H; auto|].
  destruct (bal s x d <? n); [discriminate|]. intros H; inv H. reflexivity.
Qed.
Lemma move_bal_frame a b s s1 : move_bal a b s = Ok s1 ->
  recs s1 = recs s /\ idx s1 = idx s /\ reqs s1 = reqs s /\ last_rid s1 = last_rid s /\ del_fix s1 = del_fix s.
Proof.
  unfold move_bal. generalize denoms. intros l. revert s. induction l as [|d t IH]; simpl; intros s H.
  - inv H. auto.
  - bind_inv H. pose proof (pay_opt_fix _ _ _ _ _ _ Ha) as F. apply pay_opt_ok in Ha. destruct Ha as (E1 & E2 & E3 & E4 & _).
    destruct (IH _ Hb) as (G1 & G2 & G3 & G4 & G5). repeat split; congruence.
Qed.

(* rotations are guarded: the target holds no identity records yet *)
Definition rot_guard (s : state) (o : op) : Prop :=
  match o with ORotate _ b _ => idx_of s b = [] | ORotateRR _ b _ => idx_of s b = [] | _ => True end.

Lemma rotate_core_W a b ok s a0 s' : W s -> del_fix s = true -> idx_of s b = [] -> a <> b ->
  recs a0 = recs s -> idx a0 = idx s -> reqs a0 = reqs s -> last_rid a0 = last_rid s -> del_fix a0 = del_fix s ->
  rotate_core a b a0 = Ok s' ->
  W s' /\ owner_frame s (ORotate a b ok) s' /\ vals_kept s s'.
Proof.
  intros Ws Fx Gb Nab E1 E2 E3 E4 E5 H. unfold rotate_core in H.
  destruct (negb (all_recs_exist a0 (idx_of a0 a))); [discriminate|]. bind_inv H. rename Ha into Ha0. inv Hb.
  assert (W1 : W a0) by (eapply (W_ext s); eauto).
  pose proof (W_ni _ W1) as Nn.
  destruct (move_fold a b Nab (idx_of a0 a) a0 a1) as (W2 & Q2 & L2 & R1 & R2 & I2); auto.
  - apply W_W0; auto.
  - congruence.
  - unfold idx_of. apply NoDup_map_filter. auto.
  - intros d Hd. unfold idx_of in Hd. apply filter_In in Hd. destruct Hd as [Hd1 Hd2]. split; auto. apply Z.eqb_eq in Hd2. exact Hd2.
  - intros e' Ie' Fb. exfalso. assert (X : In e' (idx_of s b)).
    { unfold idx_of. apply filter_In. split; [rewrite <- E2; exact Ie'|]. apply Z.eqb_eq. exact Fb. }
    rewrite Gb in X. destruct X.
  - assert (Hmine : forall e, In e (idx a0) -> (In e (idx_of a0 a) <-> fst (fst e) = a)).
    { intros e Ie. unfold idx_of. rewrite filter_In. split; [intros [_ F]; apply Z.eqb_eq in F; exact F|intros F; split; auto; apply Z.eqb_eq; exact F]. }
    split; [|split].
    + apply (W0_W a1); auto. simpl. intros q' i Iq Ii. apply in_map_iff in Iq. destruct Iq as (q & <- & Iq). simpl in *.
      rewrite Q2, E3 in Iq. destruct (W_rq _ Ws q i Iq Ii) as (k & Ik). rewrite <- E2 in Ik.
      destruct (I2 _ Ik) as [J1 J2]. unfold ren. destruct (q_addr q =? a) eqn:Fa.
      * exists k. apply J1. apply Hmine; auto. simpl. lia.
      * exists k. apply J2. intros Hin. apply Hmine in Hin; auto. simpl in Hin. lia.
    + simpl. split.
      * intros r Hr. rewrite <- E1 in Hr. destruct (R1 r Hr) as [J1 J2].
        pose proof (W_ci _ W1 _ Hr) as Ie. destruct (r_owner r =? a) eqn:Fa.
        -- eexists. split; [apply J1; apply Hmine; auto; simpl; lia|reflexivity].
        -- exists r. split; auto. apply J2. intros Hin. apply Hmine in Hin; auto. simpl in Hin. lia.
      * intros y Hy. destruct (R2 y Hy) as (r & Ir & Er). exists r. split; [congruence|auto].
    + intros r Hr. rewrite <- E1 in Hr. destruct (R1 r Hr) as [J1 J2].
      destruct (in_dec (fun x y : (addr * string) * Z => ltac:(repeat decide equality)) (entry_of r) (idx_of a0 a)) as [Y|N].
      * exists (with_owner r b). split; [apply J1; auto|auto].
      * exists r. split; [apply J2; auto|auto].
Qed.

Lemma rotate_W a b ok s s' : W s -> del_fix s = true -> idx_of s b = [] -> rotate_msg a b ok s = Ok s' ->
  W s' /\ owner_frame s (ORotate a b ok) s' /\ vals_kept s s'.
Proof.
  intros Ws Fx Gb H. unfold rotate_msg in H. destruct (mem a (rrtok s)); [discriminate|].
  destruct (negb (mem a (secrets s))); [discriminate|]. destruct (negb ok); [discriminate|].
  destruct (mem b (rotated s)); [discriminate|]. destruct (rot_check s && has_records s b); [discriminate|]. destruct (actor_check s && is_actor s b); [discriminate|].
  destruct (negb (mem a (accts s))) eqn:Ma; [discriminate|].
  destruct (mem b (accts s)) eqn:Mb; [discriminate|].
  assert (Nab : a <> b). { intros ->. apply negb_false_iff in Ma. congruence. }
  bind_inv H. destruct (move_bal_frame _ _ _ _ Ha) as (E1 & E2 & E3 & E4 & E5).
  eapply rotate_core_W; eauto.
Qed.
Lemma map_ren_same a (l : list request) : map (ren_req a a) l = l.
Proof.
  induction l as [|q t IH]; simpl; auto. rewrite IH. f_equal. unfold ren_req, ren. destruct q; simpl.
  destruct (q_addr =? a) eqn:E1, (q_ver =? a) eqn:E2; f_equal; lia.
Qed.
Lemma rotate_rr_W a b ok s s' : W s -> del_fix s = true -> idx_of s b = [] -> rotate_rr a b ok s = Ok s' ->
  W s' /\ owner_frame s (ORotateRR a b ok) s' /\ vals_kept s s'.
Proof.
  intros Ws Fx Gb H. unfold rotate_rr in H. destruct (negb (mem a (rrtok s))); [discriminate|].
  destruct (negb ok); [discriminate|]. destruct (mem b (rotated s)); [discriminate|].
  destruct (rot_check s && has_records s b); [discriminate|]. destruct (actor_check s && is_actor s b); [discriminate|].
  destruct (Z.eq_dec a b) as [->|Nab].
  - (* rotating an address without records onto itself: nothing moves *)
    unfold rotate_core in H. rewrite Gb in H. simpl in H. inv H.
    assert (Eq : map (fun q => mkReq (q_id q) (ren b b (q_addr q)) (ren b b (q_ver q)) (q_rids q) (q_denom q) (q_amt q) (q_date q)) (reqs s) = reqs s)
      by (apply (map_ren_same b)).
    split; [|split].
    + eapply (W_ext s); simpl; auto.
    + simpl. split.
      * intros r Hr. exists r. split; auto. destruct (r_owner r =? b) eqn:F; auto.
        exfalso. pose proof (W_ci _ Ws _ Hr) as Ie. assert (X : In (entry_of r) (idx_of s b)).
        { unfold idx_of. apply filter_In. split; auto. }
        rewrite Gb in X. destruct X.
      * intros r' Hr. exists r'. auto.
    + apply vals_kept_refl. reflexivity.
  - apply (rotate_core_W a b ok s s s'); auto.
Qed.

(* ---------------------------------------------------------------- genesis round trip *)
Definition kf (r : record) : addr * string := (r_owner r, r_key r).
Lemma rebuild_keys l : forall acc, NoDup (map fst acc) ->
  NoDup (map fst (fold_left (fun acc r => put_idx (r_owner r, r_key r) (r_id r) acc) l acc)).
Proof. induction l as [|r t IH]; simpl; intros acc N; auto. apply IH. apply put_idx_keys. auto. Qed.
Lemma rebuild_acc l : forall acc, NoDup (map kf l) -> (forall r, In r l -> ~ In (kf r) (map fst acc)) ->
  forall e, In e (fold_left (fun acc r => put_idx (r_owner r, r_key r) (r_id r) acc) l acc) <-> In e acc \/ exists r, In r l /\ e = entry_of r.
Proof.
  induction l as [|r t IH]; simpl; intros acc N Hd e.
  - split; [auto|intros [H|(r & [] & _)]; auto].
  - inversion N as [|? ? N1 N2]; subst.
    assert (Hput : forall e', In e' (put_idx (r_owner r, r_key r) (r_id r) acc) <-> e' = entry_of r \/ In e' acc).
    { intros e'. rewrite In_put_idx_iff. unfold entry_of. split; [intros [H|[H _]]; auto|intros [H|H]; auto].
      right. split; auto. intros F. apply (Hd r (or_introl eq_refl)). assert (G : In (fst e') (map fst acc)) by (apply in_map; auto). rewrite F in G. exact G. }
    rewrite IH; auto.
    + rewrite Hput. split.
      * intros [[H|H]|(r' & I' & E')]; auto; [right; exists r; auto|right; exists r'; auto].
      * intros [H|(r' & [<-|I'] & E')]; auto. right. exists r'. auto.
    + intros r' I' Hin. apply in_map_iff in Hin. destruct Hin as (e' & Fe & Ie). apply Hput in Ie. destruct Ie as [->|Ie].
      * apply N1. unfold entry_of in Fe. simpl in Fe. pose proof (in_map kf t r' I') as G. rewrite <- Fe in G. exact G.
      * apply (Hd r' (or_intror I')). assert (G : In (fst e') (map fst acc)) by (apply in_map; auto). rewrite Fe in G. exact G.
Qed.
Lemma NoDup_map_inj_in {A B} (f : A -> B) l : (forall x y, In x l -> In y l -> f x = f y -> x = y) -> NoDup l -> NoDup (map f l).
Proof.
  induction l as [|x t IH]; simpl; intros Hi N; [constructor|]. inversion N; subst. constructor.
  - intros Hin. apply in_map_iff in Hin. destruct Hin as (y & Ey & Iy). assert (y = x) by (apply Hi; auto). subst. auto.
  - apply IH; auto.
Qed.
Lemma genesis_W s : W s -> W (genesis_roundtrip s).
Proof.
  intros Ws. pose proof (W_ni _ Ws) as Nn. pose proof (W_ri _ Ws) as Nr.
  assert (Nk : NoDup (map kf (recs s))).
  { apply NoDup_map_inj_in; [|eapply NoDup_map_inv; eauto]. intros x y Ix Iy E.
    assert (X : entry_of x = entry_of y).
    { eapply same_key_same_entry; eauto; try (apply (W_ci _ Ws); auto). }
    eapply same_id_same_rec; eauto. unfold entry_of in X. congruence. }
  assert (Hi : forall e, In e (rebuild_idx (recs s)) <-> exists r, In r (recs s) /\ e = entry_of r).
  { intros e. unfold rebuild_idx. rewrite rebuild_acc; auto. split; [intros [[]|H]; auto|auto]. }
  unfold genesis_roundtrip. constructor; simpl.
  - apply rebuild_keys. constructor.
  - auto.
  - intros e Ie. apply Hi in Ie. destruct Ie as (r & Ir & ->). exists r. auto.
  - intros r Ir. apply Hi. exists r. auto.
  - apply (W_bi _ Ws).
  - apply (W_lk _ Ws).
  - intros q i Iq Ii. destruct (W_rq _ Ws q i Iq Ii) as (k & Ik). exists k. apply Hi.
    destruct (W_ti _ Ws _ Ik) as (r & Ir & Er). exists r. auto.
  - apply (W_lr _ Ws).
Qed.

(* ---------------------------------------------------------------- all operations *)
Definition edit_drops_full (s s' : state) : Prop :=
  forall r, In r (recs s) -> changed_in s' r ->
  (forall q, In q (reqs s') -> ~ In (r_id r) (q_rids q)) /\ (forall r', In r' (recs s') -> r_id r' = r_id r -> r_ver r' = []).

Lemma step_del_fix s o s' : step s o = Ok s' -> del_fix s' = del_fix s.
Proof.
  intros H. assert (P : psteps (allowed_of s o) kgT (mv_of o) s s') by (eapply step_psteps; [|exact H]; destruct o; simpl; unfold kgT; auto).
  clear H. induction P; auto. rewrite IHP. clear IHP P. destruct H; try reflexivity.
  - apply set_record_ok in H1. destruct H1 as (_ & _ & ->). reflexivity.
  - apply set_record_ok in H1. destruct H1 as (_ & _ & ->). reflexivity.
  - apply set_record_ok in H0. destruct H0 as (_ & _ & ->). reflexivity.
  - apply pay_opt_fix in H1. simpl in H1. auto.
  - unfold payout in H0. bind_inv H0. inv Hb. apply pay_opt_fix in Ha. simpl. auto.
  - apply pay_opt_fix in H. auto.
Qed.

Lemma no_cover_same_recs s1 s s' : recs s1 = recs s -> no_cover s1 s' -> no_cover s s'.
Proof. intros E N r Hr. apply N. rewrite E. auto. Qed.

Theorem step_W_frames s o s' :
  W s -> del_fix s = true -> rot_guard s o -> step s o = Ok s' ->
  W s' /\ owner_frame s o s' /\ edit_drops_full s s'.
Proof.
  intros Ws Fx G H.
  assert (Core : W s' /\ owner_frame s o s' /\ no_cover s s' /\ (approving o = true -> vals_kept s s')).
  { destruct o; simpl in H, G |- *.
    - unfold register_msg in H. destruct infos; [discriminate|].
      destruct (register_keeper_W _ _ _ _ _ Ws H) as (A & B & C). split; [exact A|split; [exact B|split; [exact C|intros X; discriminate X]]].
    - destruct (delete_W _ _ _ _ Ws H) as (A & B & C). split; [exact A|split; [exact B|split; [exact C|intros X; discriminate X]]].
    - destruct (request_W _ _ _ _ _ _ _ Ws H) as (A & B). split; auto. split; [apply others_refl; auto|].
      split; [apply vals_kept_no_cover; apply vals_kept_refl; auto|intros X; discriminate X].
    - destruct (handle_W _ _ _ _ _ Ws H) as (A & B). split; auto. split; [apply cores_others; auto|].
      split; [apply vals_kept_no_cover; apply cores_vals; auto|intros _; apply cores_vals; auto].
    - destruct (cancel_W _ _ _ _ Ws H) as (A & B). split; auto. split; [apply others_refl; auto|].
      split; [apply vals_kept_no_cover; apply vals_kept_refl; auto|intros X; discriminate X].
    - unfold claim_councilor in H. destruct (negb (mem a (perm_c s))); [discriminate|].
      match type of H with register_keeper _ _ _ ?s1 = _ => assert (W1 : W s1) by (eapply (W_ext s); eauto) end.
      destruct (register_keeper_W _ _ _ _ _ W1 H) as (A & B & C). split; auto. split; [exact B|]. split; [exact C|intros X; discriminate X].
    - unfold claim_validator in H. destruct (negb (mem a (perm_v s))); [discriminate|].
      destruct (register_keeper_W _ _ _ _ _ Ws H) as (A & B & C). split; auto. split; [exact B|]. split; [exact C|intros X; discriminate X].
    - unfold set_keys_prop in H. destruct (String.eqb new (ukeys s)); [discriminate|]. destruct (negb _); [discriminate|]. destruct (negb _); [discriminate|].
      destruct (ukeys_valid new); [|discriminate]. inv H. split; [eapply (W_ext s); eauto|]. split; [reflexivity|].
      split; [apply vals_kept_no_cover; apply vals_kept_refl; auto|intros X; discriminate X].
    - unfold set_keys_msg in H. destruct (negb _); [discriminate|]. destruct (msg_guard s && _); [discriminate|].
      destruct (msg_guard s && _); [discriminate|].
      destruct (ukeys_valid new); [|discriminate]. inv H. split; [eapply (W_ext s); eauto|]. split; [reflexivity|].
      split; [apply vals_kept_no_cover; apply vals_kept_refl; auto|intros X; discriminate X].
    - destruct (rotate_W _ _ _ _ _ Ws Fx G H) as (A & B & C). split; auto. split; [exact B|].
      split; [apply vals_kept_no_cover; auto|auto].
    - destruct (rotate_rr_W _ _ _ _ _ Ws Fx G H) as (A & B & C). split; auto. split; [exact B|].
      split; [apply vals_kept_no_cover; auto|auto].
    - inv H. split; [apply genesis_W; auto|]. split; [reflexivity|]. split; [apply vals_kept_no_cover; apply vals_kept_refl; auto|intros X; discriminate X]. }
  destruct Core as (A & B & C & D). split; auto. split; auto.
  intros r Hr Ch. split; [apply (C r Hr Ch)|].
  intros r' Hr' Ei. destruct (approving o) eqn:Ap.
  - exfalso. destruct (D eq_refl r Hr) as (r2 & I2 & E2 & V2). apply (Ch r2); auto.
  - destruct (written_records_unverified _ _ _ Ap H r' Hr') as [Old|Nv]; auto.
    exfalso. assert (r' = r) by (eapply (same_id_same_rec (recs s)); [apply (W_ri _ Ws)|exact Old|exact Hr|exact Ei]). subst. apply (Ch r); auto.
Qed.

(* ---------------------------------------------------------------- histories *)
Fixpoint rot_guarded (s : state) (ops : list op) : Prop :=
  match ops with [] => True | o :: r => rot_guard s o /\ rot_guarded (step_tx s o) r end.
Lemma rot_guarded_app l1 : forall s l2, rot_guarded s (l1 ++ l2) -> rot_guarded s l1 /\ rot_guarded (run s l1) l2.
Proof. induction l1 as [|o r IH]; simpl; intros s l2 H; auto. destruct H as [G H]. apply IH in H. tauto. Qed.

Lemma run_W ops : forall s, W s -> del_fix s = true -> rot_guarded s ops -> W (run s ops) /\ del_fix (run s ops) = true.
Proof.
  induction ops as [|o r IH]; simpl; intros s Ws Fx G; auto. destruct G as [G1 G2]. unfold step_tx in *.
  destruct (step s o) as [s1| |] eqn:E; auto. apply IH; auto.
  - apply (step_W_frames s o s1); auto.
  - rewrite (step_del_fix _ _ _ E). auto.
Qed.

Lemma W_init uk mt pc pv pn ac se b fx mg rr rc ak : W (init_state uk mt pc pv pn ac se b fx mg rr rc ak).
Proof. constructor; simpl; try constructor; try tauto; try lia. Qed.

(* only an address itself creates, changes or deletes its records; a rotation moves them unchanged *)
Theorem only_owner_edits ops s o s' :
  W s -> del_fix s = true -> rot_guarded s (ops ++ [o]) ->
  step (run s ops) o = Ok s' -> owner_frame (run s ops) o s'.
Proof.
  intros Ws Fx G H. apply rot_guarded_app in G. destruct G as [G1 [G2 _]].
  destruct (run_W ops s Ws Fx G1) as [W1 F1]. apply (step_W_frames _ _ _ W1 F1 G2 H).
Qed.
(* changing or deleting a record drops its verifications and leaves no pending request covering it *)
Theorem edit_drops_verifications_and_cancels ops s o s' :
  W s -> del_fix s = true -> rot_guarded s (ops ++ [o]) ->
  step (run s ops) o = Ok s' -> edit_drops_full (run s ops) s'.
Proof.
  intros Ws Fx G H. apply rot_guarded_app in G. destruct G as [G1 [G2 _]].
  destruct (run_W ops s Ws Fx G1) as [W1 F1]. apply (step_W_frames _ _ _ W1 F1 G2 H).
Qed.

(* ---------------------------------------------------------------- unique keys at full strength once the message path is guarded *)
Lemma step_msg_guard s o s' : step s o = Ok s' -> msg_guard s' = msg_guard s.
Proof.
  intros H. assert (P : psteps (allowed_of s o) kgT (mv_of o) s s') by (eapply step_psteps; [|exact H]; destruct o; simpl; unfold kgT; auto).
  clear H. induction P; auto. rewrite IHP. clear IHP P. destruct H; try reflexivity.
  - apply set_record_ok in H1. destruct H1 as (_ & _ & ->). reflexivity.
  - apply set_record_ok in H1. destruct H1 as (_ & _ & ->). reflexivity.
  - apply set_record_ok in H0. destruct H0 as (_ & _ & ->). reflexivity.
  - unfold pay_opt, pay in H1. destruct (q_amt q =? 0); [inv H1; reflexivity|]. destruct (_ <? _); [discriminate|]. inv H1. reflexivity.
  - unfold payout, pay_opt, pay in H0. destruct (q_amt q =? 0); simpl in H0; [inv H0; reflexivity|].
    destruct (_ <? _); [discriminate|]. simpl in H0. inv H0. reflexivity.
  - unfold pay_opt, pay in H. destruct (n =? 0); [inv H; reflexivity|]. destruct (_ <? _); [discriminate|]. inv H. reflexivity.
Qed.
Lemma guarded_of_msg_guard ops : forall s, msg_guard s = true -> guarded s ops.
Proof.
  induction ops as [|o r IH]; simpl; intros s M; auto. split.
  - destruct o; simpl; auto.
  - apply IH. unfold step_tx. destruct (step s o) eqn:E; auto. rewrite (step_msg_guard _ _ _ E). auto.
Qed.
Theorem unique_keys_unique ops s : KU s -> msg_guard s = true -> KU (run s ops).
Proof. intros K M. apply run_KU; auto. apply guarded_of_msg_guard; auto. Qed.

(* ---------------------------------------------------------------- monikers (validator and councilor claims) *)
Definition MK (s : state) : Prop := str_in "moniker" (ukey_list s) = true.
Lemma ukeys_valid_moniker new : ukeys_valid new = true -> str_in "moniker" (split_on ","%char new) = true.
Proof.
  unfold ukeys_valid. intros H. apply andb_true_iff in H. destruct H as [_ H].
  unfold unique_keys_block_ok in H. apply andb_true_iff in H. tauto.
Qed.
Lemma pstep_ukeys allowed mv s s' : pstep allowed (fun _ _ => False) mv s s' -> ukeys s' = ukeys s.
Proof.
  intros H. destruct H; try reflexivity; try contradiction.
  - apply set_record_frame in H1. tauto.
  - apply set_record_frame in H1. tauto.
  - apply set_record_frame in H0. simpl in H0. tauto.
  - apply pay_opt_ok in H1. simpl in H1. tauto.
  - unfold payout in H0. bind_inv H0. inv Hb. apply pay_opt_ok in Ha. simpl. tauto.
  - apply pay_opt_ok in H. tauto.
Qed.
Lemma step_ukeys_inv (P : string -> Prop) s o s' :
  (forall new, ukeys_valid new = true -> P new) -> step s o = Ok s' -> P (ukeys s) -> P (ukeys s').
Proof.
  intros HP H M.
  assert (Keep : (match o with OSetKeysProp _ | OSetKeysMsg _ _ => False | _ => True end) -> ukeys s' = ukeys s).
  { intros Hn. assert (Q : psteps (allowed_of s o) (fun _ _ => False) (mv_of o) s s').
    { eapply step_psteps; [|exact H]. destruct o; simpl; auto; contradiction. }
    clear H Hn M. induction Q; auto. rewrite IHQ. eapply pstep_ukeys; eauto. }
  destruct o; try (rewrite Keep; auto; fail); simpl in H.
  - unfold set_keys_prop in H. destruct (String.eqb new (ukeys s)); [discriminate|]. destruct (negb _); [discriminate|]. destruct (negb _); [discriminate|].
    destruct (ukeys_valid new) eqn:V; [|discriminate]. inv H. simpl. auto.
  - unfold set_keys_msg in H. destruct (negb _); [discriminate|]. destruct (msg_guard s && _); [discriminate|].
    destruct (msg_guard s && _); [discriminate|].
    destruct (ukeys_valid new) eqn:V; [|discriminate]. inv H. simpl. auto.
Qed.
Lemma step_MK s o s' : step s o = Ok s' -> MK s -> MK s'.
Proof.
  intros H M. unfold MK, ukey_list in *.
  apply (step_ukeys_inv (fun u => str_in "moniker" (split_on ","%char u) = true) s o s'); auto. apply ukeys_valid_moniker.
Qed.
Lemma run_MK ops : forall s, MK s -> MK (run s ops).
Proof.
  induction ops as [|o r IH]; simpl; intros s M; auto. apply IH. unfold step_tx. destruct (step s o) eqn:E; auto. eapply step_MK; eauto.
Qed.
(* however a moniker was written -- MsgRegisterIdentityRecords, MsgClaimValidator or MsgClaimCouncilor,
   in any spelling of the key -- no two addresses ever hold the same moniker *)
Theorem moniker_unique ops s : KU s -> MK s -> guarded s ops ->
  forall r1 r2, In r1 (recs (run s ops)) -> In r2 (recs (run s ops)) ->
  r_key r1 = "moniker"%string -> r_key r2 = "moniker"%string -> r_val r1 = r_val r2 -> r_owner r1 = r_owner r2.
Proof.
  intros K M G r1 r2 I1 I2 K1 K2 V. destruct (run_KU ops s K G) as [_ U].
  apply (U r1 r2); auto; try congruence. rewrite K1. apply run_MK; auto.
Qed.

(* ================================================================ chk_sound: the spec checker accepts the model *)
From Sekai Require Import Model.C16Check.
(* what the harness would observe of a model state *)
Definition snap_of (watch : list (acct * string)) (s : state) : snap :=
  mkSnap (recs s) (idx s) (reqs s) (ukeys s) (map (fun xd => (xd, bal s (fst xd) (snd xd))) watch).
Lemma lookup_snap watch s x d : In (x, d) watch -> lookup_bal (o_bal (snap_of watch s)) x d = bal s x d.
Proof.
  simpl. induction watch as [|[y e] t IH]; simpl; intros H; [destruct H|].
  destruct (acct_eqb x y && String.eqb d e) eqn:F.
  - apply andb_true_iff in F. destruct F as [F1 F2]. apply String.eqb_eq in F2. subst e.
    destruct x, y; simpl in F1; try discriminate; auto. assert (a = a0) by lia. subst. auto.
  - destruct H as [H|H]; auto. inv H. rewrite String.eqb_refl in F. destruct x; simpl in F; try discriminate. rewrite Z.eqb_refl in F. discriminate.
Qed.

(* clause "escrow": accepted on every state the model reaches *)
Theorem chk_sound_escrow base watch ops s :
  QE base s -> (forall d, In d denoms -> In (Gov, d) watch) ->
  escrow_ok (snap_of watch s) (snap_of watch (run s ops)) = true.
Proof.
  intros Q Hw. pose proof (run_QE base ops s Q) as Q'. unfold escrow_ok. apply forallb_forall. intros d Hd.
  rewrite !lookup_snap by auto. destruct Q as (_ & _ & B0). destruct Q' as (_ & _ & B1).
  rewrite B0, B1. unfold tips, tips_of. simpl. lia.
Qed.

(* clause "unique": a model state with the uniqueness invariant has no conflicting pair, whatever
   the spelling of keys; so the checker never reports "unique" on a guarded model run *)
Definition LU (s : state) : Prop := ukeys s = to_lower (ukeys s).
Lemma step_LU s o s' : step s o = Ok s' -> LU s -> LU s'.
Proof.
  intros H L. unfold LU in *. apply (step_ukeys_inv (fun u => u = to_lower u) s o s'); auto.
  intros new V. unfold ukeys_valid in V. apply andb_true_iff in V. destruct V as [V _]. apply andb_true_iff in V.
  destruct V as [_ V]. apply String.eqb_eq in V. exact V.
Qed.
Lemma run_LU ops : forall s, LU s -> LU (run s ops).
Proof.
  induction ops as [|o r IH]; simpl; intros s M; auto. apply IH. unfold step_tx. destruct (step s o) eqn:E; auto. eapply step_LU; eauto.
Qed.
Lemma KU_no_conflicts watch s : KU s -> LU s -> conflicts (snap_of watch s) = [].
Proof.
  intros [K U] L. unfold conflicts. simpl.
  assert (X : forall x, In x (recs s) -> filter (conflict (ukeys s) x) (recs s) = []).
  { intros x Ix. destruct (filter (conflict (ukeys s) x) (recs s)) as [|y t] eqn:F; auto. exfalso.
    assert (Iy : In y (filter (conflict (ukeys s) x) (recs s))) by (rewrite F; left; auto).
    apply filter_In in Iy. destruct Iy as [Iy C]. unfold conflict, is_unique_key in C.
    repeat (apply andb_true_iff in C; destruct C as [C ?]).
    destruct (K x Ix) as [Kx _]. destruct (K y Iy) as [Ky _]. rewrite <- Kx, <- Ky in *. rewrite <- L in *.
    apply String.eqb_eq in H1, H0. assert (r_owner x = r_owner y) by (apply U; auto). lia. }
  assert (FN : forall (l : list record) (f : record -> list (Z * Z)), (forall x, In x l -> f x = []) -> flat_map f l = []).
  { induction l as [|x t IH]; simpl; intros f Hf; auto. rewrite Hf by auto. simpl. apply IH. auto. }
  apply FN. intros x Ix. rewrite (X x Ix). reflexivity.
Qed.
Theorem chk_sound_unique watch ops s pre :
  KU s -> LU s -> guarded s ops -> unique_ok pre (snap_of watch (run s ops)) = true.
Proof.
  intros K L G. unfold unique_ok. rewrite (KU_no_conflicts watch (run s ops)); auto.
  - apply run_KU; auto.
  - apply run_LU; auto.
Qed.

(* ================================================================ the escrow always covers every pending tip *)
Definition TN (s : state) : Prop := forall q, In q (reqs s) -> 0 <= q_amt q.
Lemma pstep_TN allowed kg mv s s' : pstep allowed kg mv s s' -> TN s -> TN s'.
Proof.
  unfold TN. intros H T. destruct H; try exact T.
  - apply set_record_frame in H1. destruct H1 as (E & _). rewrite E. auto.
  - apply set_record_frame in H1. destruct H1 as (E & _). rewrite E. auto.
  - apply set_record_frame in H0. destruct H0 as (E & _). rewrite E. auto.
  - apply pay_opt_ok in H1. simpl in H1. destruct H1 as (_ & _ & E & _). rewrite E. intros x Ix.
    apply in_app_or in Ix. destruct Ix as [Ix|[<-|[]]]; auto.
  - apply payout_frame in H0. destruct H0 as (_ & _ & _ & E). rewrite E. intros x Ix. apply filter_In in Ix. apply T; tauto.
  - apply pay_opt_ok in H. destruct H as (_ & _ & E & _). rewrite E. auto.
  - simpl. intros x Ix. apply in_map_iff in Ix. destruct Ix as (y & <- & Iy). simpl. auto.
Qed.
Lemma run_TN ops : forall s, TN s -> TN (run s ops).
Proof.
  induction ops as [|o r IH]; simpl; intros s T; auto. apply IH. unfold step_tx. destruct (step s o) eqn:E; auto.
  eapply psteps_inv; [intros; eapply pstep_TN; eauto| |exact T].
  eapply (step_psteps kgT); [|exact E]. destruct o; simpl; unfold kgT; auto.
Qed.
Lemma tips_ge l d q : (forall x, In x l -> 0 <= q_amt x) -> In q l -> q_denom q = d -> q_amt q <= tips_of l d.
Proof.
  unfold tips_of. induction l as [|x t IH]; simpl; intros N Iq Ed; [destruct Iq|].
  assert (Nt : 0 <= zsum (map q_amt (filter (fun q0 => String.eqb (q_denom q0) d) t))).
  { clear - N. induction t as [|y t IH]; simpl; [lia|]. destruct (String.eqb (q_denom y) d); simpl.
    - assert (0 <= q_amt y) by (apply N; right; left; auto). assert (0 <= zsum (map q_amt (filter (fun q0 => String.eqb (q_denom q0) d) t))).
      { apply IH. intros z [Hz|Hz]; apply N; [left|right; right]; auto. } unfold zsum in *. simpl. lia.
    - apply IH. intros z [Hz|Hz]; apply N; [left|right; right]; auto. }
  destruct Iq as [->|Iq].
  - rewrite Ed, String.eqb_refl. simpl. unfold zsum in *. simpl. lia.
  - assert (0 <= q_amt x) by (apply N; left; auto). specialize (IH (fun z Hz => N z (or_intror Hz)) Iq Ed).
    destruct (String.eqb (q_denom x) d); simpl; unfold zsum in *; simpl; lia.
Qed.
(* handling or cancelling a pending request can never fail for lack of escrowed funds *)
Theorem escrow_always_sufficient base ops s :
  QE base s -> TN s -> (forall d, 0 <= base d) ->
  forall q to, In q (reqs (run s ops)) -> is_ok (payout (run s ops) q to) = true.
Proof.
  intros Q T B q to Iq. pose proof (run_QE base ops s Q) as (_ & _ & Eb). pose proof (run_TN ops s T) as Tn.
  unfold payout, pay_opt. destruct (q_amt q =? 0); [reflexivity|]. unfold pay.
  pose proof (tips_ge _ _ q Tn Iq eq_refl) as G. specialize (Eb (q_denom q)). specialize (B (q_denom q)).
  destruct (bal (run s ops) Gov (q_denom q) <? q_amt q) eqn:F; [lia|reflexivity].
Qed.

(* ================================================================ why the rotation guard is needed *)
(* a rotation into an address that already holds a record with the same key overwrites that address'
   index entry: its old record stays in the store but is no longer indexed *)
Definition sg : state := init_state "moniker,username" 0 [] [] [] [0; 1; 2; 3] [0; 1; 2; 3] (fun x d => match x with User _ => 5000 | Gov => 0 end) true true [] false false.
Definition w_guard : list op := [ORegister 100 4 [("twitter", "x")]; ORegister 100 0 [("twitter", "y")]; ORotate 0 4 true]%string.
Lemma rot_guard_needed : W sg /\ del_fix sg = true /\ ~ rot_guarded sg w_guard /\ ~ W (run sg w_guard).
Proof.
  split; [apply W_init|]. split; [reflexivity|]. split.
  - cbn [rot_guarded rot_guard w_guard]. intros (_ & _ & G & _). vm_compute in G. discriminate.
  - intros Wt. pose proof (W_ci _ Wt (mkRec 1 4 "twitter" "x" 100 [])%string) as C.
    assert (E1 : recs (run sg w_guard) = [mkRec 1 4 "twitter" "x" 100 []; mkRec 2 4 "twitter" "y" 100 []]%string) by (vm_compute; reflexivity).
    assert (E2 : idx (run sg w_guard) = [((4, "twitter"), 2)]%string) by (vm_compute; reflexivity).
    rewrite E1, E2 in C. destruct C as [C|[]]; [left; reflexivity|]. unfold entry_of in C. simpl in C. inv C.
Qed.

(* ================================================================ with the rotation check the side condition disappears *)
(* [rot_check = true]: both rotations refuse a target that already holds identity records
   (fixes/C16-rotation-target-has-records.patch); then every successful operation satisfies
   [rot_guard] by itself and the two frame theorems hold over ARBITRARY histories *)
Lemma step_rot_check s o s' : step s o = Ok s' -> rot_check s' = rot_check s.
Proof.
  intros H. assert (P : psteps (allowed_of s o) kgT (mv_of o) s s') by (eapply step_psteps; [|exact H]; destruct o; simpl; unfold kgT; auto).
  clear H. induction P; auto. rewrite IHP. clear IHP P. destruct H; try reflexivity.
  - apply set_record_ok in H1. destruct H1 as (_ & _ & ->). reflexivity.
  - apply set_record_ok in H1. destruct H1 as (_ & _ & ->). reflexivity.
  - apply set_record_ok in H0. destruct H0 as (_ & _ & ->). reflexivity.
  - unfold pay_opt, pay in H1. destruct (q_amt q =? 0); [inv H1; reflexivity|]. destruct (_ <? _); [discriminate|]. inv H1. reflexivity.
  - unfold payout, pay_opt, pay in H0. destruct (q_amt q =? 0); simpl in H0; [inv H0; reflexivity|].
    destruct (_ <? _); [discriminate|]. simpl in H0. inv H0. reflexivity.
  - unfold pay_opt, pay in H. destruct (n =? 0); [inv H; reflexivity|]. destruct (_ <? _); [discriminate|]. inv H. reflexivity.
Qed.
Lemma rot_check_guard s o s' : rot_check s = true -> step s o = Ok s' -> rot_guard s o.
Proof.
  intros C H. destruct o; simpl; auto; simpl in H.
  - unfold rotate_msg in H. destruct (mem a (rrtok s)); [discriminate|]. destruct (negb _); [discriminate|].
    destruct (negb proof_ok); [discriminate|]. destruct (mem b (rotated s)); [discriminate|].
    rewrite C in H. simpl in H. unfold has_records in H. destruct (idx_of s b); [reflexivity|discriminate].
  - unfold rotate_rr in H. destruct (negb _); [discriminate|]. destruct (negb holder_ok); [discriminate|].
    destruct (mem b (rotated s)); [discriminate|].
    rewrite C in H. simpl in H. unfold has_records in H. destruct (idx_of s b); [reflexivity|discriminate].
Qed.
Lemma run_W_checked ops : forall s, W s -> del_fix s = true -> rot_check s = true ->
  W (run s ops) /\ del_fix (run s ops) = true /\ rot_check (run s ops) = true.
Proof.
  induction ops as [|o r IH]; simpl; intros s Ws Fx C; auto. unfold step_tx.
  destruct (step s o) as [s1| |] eqn:E; auto. apply IH.
  - apply (step_W_frames s o s1); auto. eapply rot_check_guard; eauto.
  - rewrite (step_del_fix _ _ _ E). auto.
  - rewrite (step_rot_check _ _ _ E). auto.
Qed.
Theorem only_owner_edits_always ops s o s' :
  W s -> del_fix s = true -> rot_check s = true ->
  step (run s ops) o = Ok s' -> owner_frame (run s ops) o s'.
Proof.
  intros Ws Fx C H. destruct (run_W_checked ops s Ws Fx C) as (W1 & F1 & C1).
  apply (step_W_frames _ _ _ W1 F1 (rot_check_guard _ _ _ C1 H) H).
Qed.
Theorem edit_drops_always ops s o s' :
  W s -> del_fix s = true -> rot_check s = true ->
  step (run s ops) o = Ok s' -> edit_drops_full (run s ops) s'.
Proof.
  intros Ws Fx C H. destruct (run_W_checked ops s Ws Fx C) as (W1 & F1 & C1).
  apply (step_W_frames _ _ _ W1 F1 (rot_check_guard _ _ _ C1 H) H).
Qed.
