(* C10 -- checker soundness (the state clauses): the spec checker of Model/C10Check.v, applied to the observation
   of ANY state reached by ANY history of the model, accepts it.  This is what connects "the real trace passes the
   checker" to the theorems: the checker's state clauses are the invariants, read off an observation. *)
From Sekai Require Import Base.Prelude Base.Dec Model.Pools Model.C10Check Proofs.Pools.
From Coq Require Import ZifyBool.

(* the observation the harness would print for a model state *)
Definition obs_of_st (c : cfg) (s : st) : obs :=
  let ds := c_dens c in
  mkObs (time s) (height s) (slashed s) (cmap_coins ds (stake s)) (cmap_coins ds (shares s)) (cmap_coins ds (ssup s))
        (cmap_coins ds (modb s)) (cmap_coins ds (fee s)) (cmap_coins ds (treas s))
        (map (fun a => (a, cmap_coins ds (nbal s a))) (c_accts c))
        (map (fun a => (a, cmap_coins ds (sbal s a))) (c_accts c))
        (map (fun a => (a, cmap_coins ds (rew s a))) (c_accts c))
        (map (fun u => (u_id u, u_owner u, u_expiry u, u_amt u)) (undels s)) (last s) (dels s)
        (map (fun a => (a, comp s a)) (c_accts c)) (votes s) (prev s) (cmap_coins ds (tsup s)).

Lemma cof_cmap_coins : forall m l d, cof (cmap_coins l m) d = if zmem d l then m d else 0.
Proof.
  intros m l d. unfold cof, cmap_coins. induction l as [|x r IH]; simpl; [reflexivity|].
  destruct (m x =? 0) eqn:E; simpl.
  - rewrite IH. destruct (d =? x) eqn:F; simpl; [|reflexivity]. assert (d = x) by lia. subst.
    destruct (zmem x r); lia.
  - destruct (x =? d) eqn:F.
    + assert (x = d) by lia. subst. replace (d =? d) with true by lia. reflexivity.
    + replace (d =? x) with false by lia. simpl. exact IH.
Qed.
Lemma zmem_true : forall d l, In d l -> zmem d l = true.
Proof. induction l as [|x r IH]; intro H; simpl; [destruct H|]. destruct H as [H|H]; [subst; lia|rewrite IH by assumption; apply orb_true_r]. Qed.

Theorem chk_sound_supply : forall c s, inv_supply s -> ok_supply c (obs_of_st c s) = true.
Proof.
  intros c s I. unfold ok_supply. apply forallb_forall. intros d D. unfold g, obs_of_st. cbn [o_ssup o_shares].
  rewrite !cof_cmap_coins, (zmem_true _ _ D), I. lia.
Qed.
Theorem chk_sound_registry : forall c s, inv_registry s -> ok_registry c (obs_of_st c s) = true.
Proof.
  intros c s I. unfold ok_registry. apply forallb_forall. intros d D. unfold g, obs_of_st. cbn [o_tsup o_shares].
  rewrite !cof_cmap_coins, (zmem_true _ _ D), I. lia.
Qed.
(* over whole histories *)
Theorem chk_sound_supply_run : forall v c ops s, inv_supply s -> ok_supply c (obs_of_st c (run v c ops s)) = true.
Proof. intros. apply chk_sound_supply. apply share_supply_eq_book. assumption. Qed.
Theorem chk_sound_registry_run : forall v c ops s, v_burn_registry v = true -> inv_registry s ->
  ok_registry c (obs_of_st c (run v c ops s)) = true.
Proof. intros. apply chk_sound_registry. apply registry_supply_eq_book; assumption. Qed.

(* the claim clauses accept the model's claim step (owner-checking variant): nothing is flagged *)
Lemma find_rec_obs : forall c s id u, find_undel id (undels s) = Some u ->
  find_rec id (o_undels (obs_of_st c s)) = Some (u_owner u, u_expiry u, u_amt u).
Proof.
  intros c s id u. unfold find_rec, obs_of_st. cbn [o_undels]. induction (undels s) as [|x r IH]; simpl; [discriminate|].
  destruct (u_id x =? id) eqn:E; intro H.
  - inversion H; subst. reflexivity.
  - apply IH in H. exact H.
Qed.
Theorem chk_sound_claim_owner_expiry : forall v c who id s s',
  v_owner_check v = true -> claim v who id s = Ok s' ->
  exists ow ex am, find_rec id (o_undels (obs_of_st c s)) = Some (ow, ex, am) /\ (ow =? who) = true /\ (ex <=? o_time (obs_of_st c s)) = true.
Proof.
  intros v c who id s s' O H. apply claim_spec in H. destruct H as (u & F & E & OW & _ & _).
  exists (u_owner u), (u_expiry u), (u_amt u). split; [apply find_rec_obs; exact F|]. specialize (OW O).
  unfold obs_of_st. cbn [o_time]. lia.
Qed.
