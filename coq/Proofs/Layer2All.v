(* Every operation of the model -- all messages, blocks, the other layer2 messages that move coins through the
   module account, the passed upsert proposal and the keeper-level LP calls -- keeps the invariant of
   Proofs/Layer2.v; in particular the conservation law  module ukex = recorded bonds of all dApps + k. *)
From Sekai Require Import Base.Prelude Base.Dec Model.Layer2 Proofs.Layer2.
From Coq Require Import ZifyBool.

(* ================================================================ every operation: the other messages and the keeper-level LP calls *)
Lemma PREC_pos : 0 < PREC. Proof. reflexivity. Qed.

Lemma chop_round_pos_bounds d y : 0 <= d -> d <= y * PREC -> 0 <= chop_round_pos d <= y.
Proof.
  intros H0 H1. unfold chop_round_pos. pose proof PREC_pos as HP.
  pose proof (Z.div_mod d PREC ltac:(lia)) as DM. pose proof (Z.mod_pos_bound d PREC HP) as MB.
  assert (Q0 : 0 <= d / PREC) by (apply Z.div_pos; lia).
  destruct (d mod PREC =? 0) eqn:E0; [nia|]. assert (d / PREC < y) by nia.
  destruct (d mod PREC <? HALF); [lia|]. destruct (HALF <? d mod PREC); [lia|]. destruct (Z.even (d / PREC)); lia.
Qed.

Lemma chop_round_exact y : chop_round (y * PREC) = y.
Proof.
  pose proof PREC_pos as HP. unfold chop_round.
  assert (G : forall z, 0 <= z -> chop_round_pos (z * PREC) = z).
  { intros z Hz. unfold chop_round_pos. rewrite Z.mod_mul by lia. simpl. now rewrite Z.div_mul by lia. }
  destruct (y * PREC <? 0) eqn:E.
  - replace (- (y * PREC)) with ((- y) * PREC) by lia. rewrite G by nia. lia.
  - apply G. nia.
Qed.

(* the fee is between 0 and the amount it is taken from (for a pool fee between 0 and 1) *)
Lemma fee_of_range x fee f : fee_of x fee = Ok f -> 0 <= fee <= PREC -> (0 <= x -> 0 <= f <= x) /\ (x <= 0 -> x <= f <= 0).
Proof.
  unfold fee_of, dmul, dec_of_int. intros H Hf. replace (x * PREC * fee) with (x * fee * PREC) in H by lia.
  rewrite chop_round_exact in H. destruct (dec_in_range (x * fee)); [|discriminate]. cbn [bind] in H. inversion H; subst; clear H.
  unfold round_int, chop_round. split; intros Hx.
  - assert (0 <= x * fee) by (apply Z.mul_nonneg_nonneg; lia). assert (HH : (x * fee <? 0) = false) by lia. rewrite HH.
    apply chop_round_pos_bounds; [lia|apply Z.mul_le_mono_nonneg_l; lia].
  - destruct (x * fee <? 0) eqn:E.
    + assert (B1 : - (x * fee) <= - x * PREC).
      { replace (- (x * fee)) with ((- x) * fee) by lia. apply Z.mul_le_mono_nonneg_l; lia. }
      pose proof (chop_round_pos_bounds (- (x * fee)) (- x) ltac:(lia) B1). lia.
    + assert (x * fee <= 0) by (apply Z.mul_nonpos_nonneg; lia). assert (Hz : x * fee = 0) by lia. rewrite Hz. assert (C0 : chop_round_pos 0 = 0) by reflexivity. rewrite C0. lia.
Qed.

Lemma half_fee_range fee h : half_fee fee = Ok h -> 0 <= fee <= PREC -> 0 <= h <= PREC.
Proof.
  unfold half_fee, dquo, dec_of_int. intros H Hf.
  assert (Z0 : (2 * PREC =? 0) = false) by reflexivity. rewrite Z0 in H. cbv zeta in H.
  pose proof PREC_pos as HP.
  assert (Q : Z.quot (fee * PREC * PREC) (2 * PREC) = fee * HALF).
  { rewrite Z.quot_div_nonneg by nia. replace (fee * PREC * PREC) with (fee * HALF * (2 * PREC)) by (unfold HALF, PREC; lia). apply Z.div_mul. lia. }
  rewrite Q in H. destruct (dec_in_range (chop_round (fee * HALF))); [|discriminate]. inversion H; subst; clear H.
  unfold chop_round. assert (HH : (fee * HALF <? 0) = false) by (unfold HALF; lia). rewrite HH.
  apply chop_round_pos_bounds; unfold HALF, PREC in *; lia.
Qed.

Lemma VF_not_mod n : VF n <> MOD.
Proof. unfold VF, MOD. simpl. intros H. inversion H. Qed.

Section AllOps.
Variable v : variant.
Variable c : config.
Variable N Us : list string.
Variable k : Z.
Hypothesis Hsep : separated v N Us.
Hypothesis Hus : users_ok Us.
Hypothesis Hcan : canonical Us.

(* a launched dApp whose pool fee is a fraction and whose LP supply is not negative (a fact of the bank) *)
Definition launched (st : state) (n : string) : Prop :=
  forall d, get_dapp n st = Some d -> d_status d <> 0 /\ 0 <= d_fee d <= PREC /\ 0 <= bal SUPPLY (d_lp d) (led st).

(* what is asked of an operation in the state it is applied to *)
Definition op_ok (st : state) (o : op) : Prop :=
  match o with
  | OSetCfg _ | OMintFt _ _ => True
  | OBurnTx u _ _ _ => acct u <> MOD
  | OJoinVerifier _ _ _ => True
  | OUpsert _ _ _ _ p _ _ _ _ => v_upsert_raw v = false /\ p_lp p <> UKEX
  | KSwap u n _ _ _ => u <> MOD /\ launched st n
  | KRedeem u n _ _ fee => u <> MOD /\ 0 <= fee <= PREC /\ launched st n
  | KConvert u n n2 _ _ => u <> MOD /\ v_convert_stale v = false /\ launched st n /\ launched st n2
  | KForce _ status _ _ => status <> 0
  | _ => op_in v c N Us o
  end.
Fixpoint valid (st : state) (ops : list op) : Prop :=
  match ops with [] => True | o :: r => op_ok st o /\ valid (apply v c st o) r end.

Notation I := (Inv c N Us k).

Lemma mod_ukex_inv st ds l : I (mkState (now st) ds (bonds st) (led st)) -> bal MOD UKEX l = bal MOD UKEX (led st) ->
  I (mkState (now st) ds (bonds st) l).
Proof. intros [A B C D E F G] L. constructor; simpl in *; auto. now rewrite L. Qed.
Lemma state_eta st : mkState (now st) (dapps st) (bonds st) (led st) = st.
Proof. destruct st; reflexivity. Qed.

Lemma key_mod_ukex a d : key_eqb MOD UKEX a d = true -> a = MOD /\ d = UKEX.
Proof. intros H. apply key_eqb_true in H. destruct H; subst; auto. Qed.

Lemma burn_tx_inv st u den amt reg st' : I st -> acct u <> MOD -> burn_tx st u den amt reg = Ok st' -> I st'.
Proof.
  intros HI Hu H. unfold burn_tx in H. destruct (negb reg); [discriminate|]. destruct (amt <? 0); [discriminate|].
  destruct (send (acct u) MOD den amt (led st)) as [l1| |] eqn:E1; [|discriminate|discriminate]. cbn [bind] in H.
  destruct (burn den amt l1) as [l2| |] eqn:E2; [|discriminate|discriminate]. cbn [bind] in H. inversion H; subst; clear H.
  apply send_spec in E1. destruct E1 as (_ & _ & L1). apply burn_spec in E2. destruct E2 as (_ & _ & L2).
  apply mod_ukex_inv; [now rewrite state_eta|]. rewrite L2, L1. unfold delta.
  rewrite (mod_sup UKEX) || idtac.
  destruct (key_eqb MOD UKEX (acct u) den) eqn:K1; [apply key_mod_ukex in K1; destruct K1; congruence|].
  destruct (key_eqb MOD UKEX MOD den) eqn:K2; destruct (key_eqb MOD UKEX SUPPLY den) eqn:K3;
    try (apply key_mod_ukex in K3; destruct K3; discriminate); lia.
Qed.

Lemma mint_ft_never st u fresh st' : mint_ft c st u fresh <> Ok st'.
Proof.
  unfold mint_ft. destruct (as_int64 (c_ft_fee c) <? 0); [discriminate|].
  destruct (send (acct u) MOD UKEX (as_int64 (c_ft_fee c)) (led st)); cbn [bind]; try discriminate.
  destruct (burn UKEX (as_int64 (c_ft_fee c)) a); cbn [bind]; try discriminate. destruct (negb fresh); discriminate.
Qed.

(* a record replaced by one of the same name, status and LP-denomination class, the module's ukex following the total *)
Lemma retotal_inv st d d' l :
  I st -> find_dapp (d_name d') (dapps st) = Some d -> d_status d' = d_status d -> d_status d <> 0 -> d_lp d' <> UKEX ->
  0 <= d_total d' -> bal MOD UKEX l = bal MOD UKEX (led st) + (d_total d' - d_total d) ->
  I (mkState (now st) (set_dapp d' (dapps st)) (bonds st) l).
Proof.
  intros HI F Hs Hs0 Hl Ht L. destruct (i_names _ _ _ _ _ HI _ d F) as (HnN & Htot & Hlp). constructor; simpl.
  - apply uniq_set, (i_uniq _ _ _ _ _ HI).
  - intros m x F' Sx. rewrite find_set in F'. destruct (String.eqb (d_name d') m) eqn:E.
    + inversion F'; subst. congruence.
    + now apply (i_sum _ _ _ _ _ HI).
  - rewrite sum_set by apply (i_uniq _ _ _ _ _ HI). unfold total_of. rewrite F, L. pose proof (i_held _ _ _ _ _ HI). lia.
  - intros m x F' Sx. rewrite find_set in F'. destruct (String.eqb (d_name d') m) eqn:E.
    + inversion F'; subst. congruence.
    + now apply (i_max _ _ _ _ _ HI m).
  - intros e He. destruct (i_bonds _ _ _ _ _ HI e He) as (A & B & C & D). repeat split; auto. rewrite find_set.
    destruct (String.eqb (d_name d') (fst (fst e))); [discriminate|exact D].
  - intros m x F'. rewrite find_set in F'. destruct (String.eqb (d_name d') m) eqn:E.
    + inversion F'; subst. apply String.eqb_eq in E. subst. auto.
    + now apply (i_names _ _ _ _ _ HI).
  - rewrite find_set. destruct (String.eqb (d_name d') "") eqn:E; [|apply (i_empty _ _ _ _ _ HI)].
    apply String.eqb_eq in E. rewrite E, (i_empty _ _ _ _ _ HI) in F. discriminate.
Qed.

(* a record replaced by one that differs only in its description (LP denomination, ratio, issuance, times, flags) *)
Lemma redesc_inv st d d' :
  I st -> find_dapp (d_name d') (dapps st) = Some d -> d_status d' = d_status d -> d_total d' = d_total d -> d_lp d' <> UKEX ->
  I (mkState (now st) (set_dapp d' (dapps st)) (bonds st) (led st)).
Proof.
  intros HI F Hs Ht Hl. destruct (i_names _ _ _ _ _ HI _ d F) as (HnN & Htot & Hlp).
  assert (Hn : d_name d = d_name d') by (apply find_dapp_In in F; tauto). constructor; simpl.
  - apply uniq_set, (i_uniq _ _ _ _ _ HI).
  - intros m x F' Sx. rewrite find_set in F'. destruct (String.eqb (d_name d') m) eqn:E.
    + inversion F'; subst. apply String.eqb_eq in E. subst m. rewrite Ht. apply (i_sum _ _ _ _ _ HI _ d F). congruence.
    + now apply (i_sum _ _ _ _ _ HI).
  - rewrite sum_set by apply (i_uniq _ _ _ _ _ HI). unfold total_of. rewrite F. pose proof (i_held _ _ _ _ _ HI). lia.
  - intros m x F' Sx. rewrite find_set in F'. destruct (String.eqb (d_name d') m) eqn:E.
    + inversion F'; subst. rewrite Ht. apply (i_max _ _ _ _ _ HI _ d F). congruence.
    + now apply (i_max _ _ _ _ _ HI m).
  - intros e He. destruct (i_bonds _ _ _ _ _ HI e He) as (A & B & C & D). repeat split; auto. rewrite find_set.
    destruct (String.eqb (d_name d') (fst (fst e))); [discriminate|exact D].
  - intros m x F'. rewrite find_set in F'. destruct (String.eqb (d_name d') m) eqn:E.
    + inversion F'; subst. apply String.eqb_eq in E. subst. rewrite Ht. auto.
    + now apply (i_names _ _ _ _ _ HI).
  - rewrite find_set. destruct (String.eqb (d_name d') "") eqn:E; [|apply (i_empty _ _ _ _ _ HI)].
    apply String.eqb_eq in E. rewrite E, (i_empty _ _ _ _ _ HI) in F. discriminate.
Qed.

Lemma get_find n st d : get_dapp n st = Some d -> find_dapp n (dapps st) = Some d /\ d_name d = n.
Proof.
  unfold get_dapp. destruct (String.eqb n ""); [discriminate|]. intros F. split; [exact F|]. apply find_dapp_In in F. tauto.
Qed.

Lemma join_verifier_inv st u interx n st' : I st -> join_verifier c st u interx n = Ok st' -> I st'.
Proof.
  intros HI H. unfold join_verifier in H. destruct (find_dapp n (dapps st)) as [d|] eqn:F; [|discriminate].
  destruct (negb (x_bv (d_x d))); [discriminate|]. destruct (negb (bal (VF n) u (led st) =? 0)); [discriminate|].
  destruct (lp_deposit d) as [dep| |]; [|discriminate|discriminate]. cbn [bind] in H.
  destruct (dmul (dec_of_int (dep + d_postmint d + d_premint d)) (c_vbond c)) as [m| |]; [|discriminate|discriminate]. cbn [bind] in H.
  destruct ((round_int m <? 0) || negb (d_lp_ok d))%bool; [discriminate|].
  destruct (i_names _ _ _ _ _ HI _ d F) as (_ & _ & Hlp).
  match type of H with (do l1 <- ?X; _) = _ => destruct X as [l1| |] eqn:E1; [|discriminate|discriminate] end. cbn [bind] in H.
  inversion H; subst; clear H. apply mod_ukex_inv; [now rewrite state_eta|]. rewrite bal_set.
  destruct (key_eqb MOD UKEX (VF n) u) eqn:K; [apply key_mod_ukex in K; destruct K as [K _]; exfalso; now apply (VF_not_mod n)|].
  destruct (0 <? round_int m); [|inversion E1; subst; reflexivity]. now apply (send_other_den _ _ _ _ _ _ MOD E1).
Qed.

Lemma upsert_inv st n total status ctime p ptime liq allowed fa st' :
  I st -> v_upsert_raw v = false -> p_lp p <> UKEX -> upsert v st n total status ctime p ptime liq allowed fa = Ok st' -> I st'.
Proof.
  intros HI Hv Hl H. unfold upsert in H. destruct (get_dapp n st) as [d|] eqn:G; [|discriminate]. apply get_find in G. destruct G as [F Hn].
  destruct (negb allowed); [discriminate|].
  destruct (x_bv (d_x d) && negb (p_bv p))%bool; [discriminate|]. rewrite Hv in H. inversion H; subst; clear H.
  apply (redesc_inv st d); simpl; auto.
Qed.

Lemma force_inv st n status ptime liq st' : I st -> status <> 0 -> force st n status ptime liq = Ok st' -> I st'.
Proof.
  intros HI Hs H. unfold force in H. destruct (get_dapp n st) as [d|] eqn:G; [|discriminate]. apply get_find in G. destruct G as [F Hn].
  inversion H; subst; clear H. destruct (i_names _ _ _ _ _ HI _ d F) as (_ & Htot & Hlp).
  (* a status change away from / between non-bootstrap states: when the record was bootstrapping its sum clause is dropped *)
  constructor; simpl.
  - apply uniq_set, (i_uniq _ _ _ _ _ HI).
  - intros m x F' Sx. rewrite find_set in F'. simpl in F'. destruct (String.eqb (d_name d) m) eqn:E.
    + inversion F'; subst. simpl in Sx. contradiction.
    + now apply (i_sum _ _ _ _ _ HI).
  - rewrite sum_set by apply (i_uniq _ _ _ _ _ HI). simpl. unfold total_of. rewrite F. pose proof (i_held _ _ _ _ _ HI). lia.
  - intros m x F' Sx. rewrite find_set in F'. simpl in F'. destruct (String.eqb (d_name d) m) eqn:E.
    + inversion F'; subst. simpl in Sx. contradiction.
    + now apply (i_max _ _ _ _ _ HI m).
  - intros e He. destruct (i_bonds _ _ _ _ _ HI e He) as (A & B & C & D). repeat split; auto. rewrite find_set. simpl.
    destruct (String.eqb (d_name d) (fst (fst e))); [discriminate|exact D].
  - intros m x F'. rewrite find_set in F'. simpl in F'. destruct (String.eqb (d_name d) m) eqn:E.
    + inversion F'; subst. simpl. apply String.eqb_eq in E. subst. destruct (i_names _ _ _ _ _ HI _ d F) as (A & _). auto.
    + now apply (i_names _ _ _ _ _ HI).
  - rewrite find_set. simpl. destruct (String.eqb (d_name d) "") eqn:E; [|apply (i_empty _ _ _ _ _ HI)].
    apply String.eqb_eq in E. rewrite E, (i_empty _ _ _ _ _ HI) in F. discriminate.
Qed.

(* ---------------------------------------------------------------- keeper-level LP calls *)
Lemma swap_k_inv st d u foreign b fee st' out :
  I st -> find_dapp (d_name d) (dapps st) = Some d -> d_status d <> 0 -> u <> MOD ->
  swap_k c d u foreign b fee st = Ok (st', out) ->
  I st' /\ exists d', dapps st' = set_dapp d' (dapps st) /\ d_name d' = d_name d /\ d_status d' = d_status d
                      /\ d_fee d' = d_fee d /\ d_lp d' = d_lp d.
Proof.
  intros HI F Hs Hu H. unfold swap_k in H. destruct foreign; [discriminate|].
  destruct (i_names _ _ _ _ _ HI _ d F) as (_ & Htot & Hlp).
  destruct (d_total d + b =? 0); [discriminate|]. cbv zeta in H.
  set (outp := bal SUPPLY (d_lp d) (led st) - Z.quot (d_total d * bal SUPPLY (d_lp d) (led st)) (d_total d + b)) in *.
  destruct (fee_of outp fee) as [f| |]; [|discriminate|discriminate]. cbn [bind] in H.
  match type of H with (do l1 <- ?X; _) = _ => destruct X as [l1| |] eqn:E1; [|discriminate|discriminate] end. cbn [bind] in H.
  destruct (send u MOD UKEX b l1) as [l2| |] eqn:E2; [|discriminate|discriminate]. cbn [bind] in H.
  destruct (outp - f <? 0); [discriminate|].
  destruct (send MOD u (d_lp d) (outp - f) l2) as [l3| |] eqn:E3; [|discriminate|discriminate]. cbn [bind] in H.
  inversion H; subst; clear H.
  assert (L1 : bal MOD UKEX l1 = bal MOD UKEX (led st)).
  { destruct (0 <? f); [|inversion E1; subst; reflexivity]. apply burn_spec in E1. destruct E1 as (_ & _ & L). rewrite L, !delta_den by congruence. lia. }
  apply send_spec in E2. destruct E2 as (Hb & _ & L2).
  assert (L3 : bal MOD UKEX l3 = bal MOD UKEX l2) by now apply (send_other_den _ _ _ _ _ _ MOD E3).
  destruct (not_mod_key u Hu) as [_ K].
  set (d' := if (negb (x_liq (d_x d) =? 0) && (liq_thr c <=? d_total d + b))%bool
             then with_liq (with_total d (d_total d + b)) 0 else with_total d (d_total d + b)) in *.
  assert (P : d_name d' = d_name d /\ d_status d' = d_status d /\ d_fee d' = d_fee d /\ d_lp d' = d_lp d /\ d_total d' = d_total d + b)
    by (unfold d'; destruct (negb (x_liq (d_x d) =? 0) && (liq_thr c <=? d_total d + b))%bool; simpl; auto).
  destruct P as (P1 & P2 & P3 & P4 & P5). split; [|exists d'; auto].
  apply (retotal_inv st d d'); try congruence; try lia.
  rewrite L3, L2, L1, P5. unfold delta. rewrite key_eqb_refl, K. lia.
Qed.

Lemma redeem_k_inv st d u den x fee st' out :
  I st -> find_dapp (d_name d) (dapps st) = Some d -> d_status d <> 0 -> u <> MOD -> 0 <= fee <= PREC ->
  0 <= bal SUPPLY (d_lp d) (led st) ->
  redeem_k c d u den x fee st = Ok (st', out) ->
  I st' /\ 0 < out /\ exists d', dapps st' = set_dapp d' (dapps st) /\ d_name d' = d_name d /\ d_status d' = d_status d
                      /\ d_fee d' = d_fee d /\ d_lp d' = d_lp d.
Proof.
  intros HI F Hs Hu Hfee HS H. unfold redeem_k in H. destruct (negb (String.eqb den (d_lp d))) eqn:ED; [discriminate|].
  apply negb_false_iff, String.eqb_eq in ED. subst den.
  destruct (i_names _ _ _ _ _ HI _ d F) as (_ & Htot & Hlp).
  destruct (bal SUPPLY (d_lp d) (led st) + x =? 0); [discriminate|]. cbv zeta in H.
  set (S := bal SUPPLY (d_lp d) (led st)) in *. set (T' := Z.quot (d_total d * S) (S + x)) in *.
  destruct (fee_of (d_total d - T') fee) as [f| |] eqn:EF; [|discriminate|discriminate]. cbn [bind] in H.
  match type of H with (do l1 <- ?X; _) = _ => destruct X as [l1| |] eqn:E1; [|discriminate|discriminate] end. cbn [bind] in H.
  destruct (send u MOD (d_lp d) x l1) as [l2| |] eqn:E2; [|discriminate|discriminate]. cbn [bind] in H.
  destruct (d_total d - T' - f <? 0); [discriminate|].
  destruct (send MOD u UKEX (d_total d - T' - f) l2) as [l3| |] eqn:E3; [|discriminate|discriminate]. cbn [bind] in H.
  inversion H; subst; clear H.
  pose proof E2 as E2'. apply send_spec in E2'. destruct E2' as (Hx & _ & _).
  pose proof E3 as E3'. apply send_spec in E3'. destruct E3' as (Hout & _ & L3).
  destruct (fee_of_range _ _ _ EF Hfee) as [R1 R2].
  assert (Hf : 0 <= f) by (destruct (Z_le_gt_dec 0 (d_total d - T')); [apply R1; lia|assert (d_total d - T' <= f <= 0) by (apply R2; lia); lia]).
  assert (HT' : 0 <= T') by (unfold T'; apply Z.quot_pos; nia).
  assert (L1 : bal MOD UKEX l1 = bal MOD UKEX (led st) - f).
  { destruct (0 <? f) eqn:Ef; [|inversion E1; subst; lia]. apply burn_spec in E1. destruct E1 as (_ & _ & L). rewrite L. unfold delta.
    rewrite key_eqb_refl, (mod_sup UKEX). lia. }
  assert (L2 : bal MOD UKEX l2 = bal MOD UKEX l1) by now apply (send_other_den _ _ _ _ _ _ MOD E2).
  destruct (not_mod_key u Hu) as [_ K].
  set (d' := if ((x_liq (d_x d) =? 0) && (T' <? liq_thr c))%bool then with_liq (with_total d T') (now st) else with_total d T') in *.
  assert (P : d_name d' = d_name d /\ d_status d' = d_status d /\ d_fee d' = d_fee d /\ d_lp d' = d_lp d /\ d_total d' = T')
    by (unfold d'; destruct ((x_liq (d_x d) =? 0) && (T' <? liq_thr c))%bool; simpl; auto).
  destruct P as (P1 & P2 & P3 & P4 & P5). split; [|split; [exact Hout|exists d'; auto]].
  apply (retotal_inv st d d'); try congruence; try lia.
  rewrite L3, L2, L1, P5. unfold delta. rewrite key_eqb_refl, K. lia.
Qed.

Lemma convert_k_inv st d1 d2 u den x st' out :
  I st -> v_convert_stale v = false ->
  find_dapp (d_name d1) (dapps st) = Some d1 -> d_status d1 <> 0 -> 0 <= d_fee d1 <= PREC -> 0 <= bal SUPPLY (d_lp d1) (led st) ->
  find_dapp (d_name d2) (dapps st) = Some d2 -> d_status d2 <> 0 -> u <> MOD ->
  convert_k v c d1 d2 u den x st = Ok (st', out) -> I st'.
Proof.
  intros HI Hv F1 S1 Hf1 HS1 F2 S2 Hu H. unfold convert_k in H. rewrite Hv in H.
  destruct (half_fee (d_fee d1)) as [f1| |] eqn:E1; [|discriminate|discriminate]. cbn [bind] in H.
  destruct (redeem_k c d1 u den x f1 st) as [[st1 o1]| |] eqn:E2; [|discriminate|discriminate]. cbn [bind] in H. simpl fst in H. simpl snd in H.
  destruct (redeem_k_inv st d1 u den x f1 st1 o1 HI F1 S1 Hu (half_fee_range _ _ E1 Hf1) HS1 E2) as (I1 & _ & d1' & Hd & N1 & St1 & _ & _).
  assert (F2' : exists d2', find_dapp (d_name d2) (dapps st1) = Some d2' /\ d_status d2' <> 0 /\ d_name d2' = d_name d2).
  { rewrite Hd, find_set. destruct (String.eqb (d_name d1') (d_name d2)) eqn:E.
    - exists d1'. apply String.eqb_eq in E. repeat split; congruence.
    - exists d2. auto. }
  destruct F2' as (d2' & F2' & S2' & N2'). rewrite F2' in H.
  destruct (half_fee (d_fee d2')) as [f2| |]; [|discriminate|discriminate]. cbn [bind] in H.
  rewrite <- N2' in F2'. destruct (swap_k_inv st1 d2' u false o1 f2 st' out I1 F2' S2' Hu H) as [I2 _]. exact I2.
Qed.

(* ---------------------------------------------------------------- every operation keeps the invariant *)
Lemma step_ok_inv st o st' : I st -> op_ok st o -> step v c st o = Ok st' -> I st'.
Proof.
  intros HI Ho H. destruct o; try (apply (step_inv v c N Us k Hsep Hus Hcan st _ st' HI Ho H)); simpl in Ho, H.
  - destruct (get_dapp n st) as [d|] eqn:G; [|discriminate]. destruct Ho as (Hu & HL). destruct (HL d G) as (S1 & _ & _).
    apply get_find in G. destruct G as [F Hn]. rewrite <- Hn in F.
    destruct (swap_k c d u foreign amt fee st) as [[s o]| |] eqn:E; [|discriminate|discriminate]. cbn [bind] in H. inversion H; subst.
    now destruct (swap_k_inv st d u foreign amt fee st' o HI F S1 Hu E).
  - destruct (get_dapp n st) as [d|] eqn:G; [|discriminate]. destruct Ho as (Hu & Hf & HL). destruct (HL d G) as (S1 & _ & HS).
    apply get_find in G. destruct G as [F Hn]. rewrite <- Hn in F.
    destruct (redeem_k c d u den amt fee st) as [[s o]| |] eqn:E; [|discriminate|discriminate]. cbn [bind] in H. inversion H; subst.
    now destruct (redeem_k_inv st d u den amt fee st' o HI F S1 Hu Hf HS E).
  - destruct (get_dapp n st) as [d1|] eqn:G1; [|discriminate]. destruct (get_dapp n2 st) as [d2|] eqn:G2; [|discriminate].
    destruct Ho as (Hu & Hv & HL1 & HL2). destruct (HL1 d1 G1) as (S1 & Hf1 & HS1). destruct (HL2 d2 G2) as (S2 & _ & _).
    apply get_find in G1, G2. destruct G1 as [F1 Hn1]. destruct G2 as [F2 Hn2]. rewrite <- Hn1 in F1. rewrite <- Hn2 in F2.
    destruct (convert_k v c d1 d2 u den amt st) as [[s o]| |] eqn:E; [|discriminate|discriminate]. cbn [bind] in H. inversion H; subst.
    simpl in *. apply (convert_k_inv st d1 d2 u den amt st' o HI Hv F1 S1 Hf1 HS1 F2 S2 Hu E).
  - inversion H; subst; exact HI.
  - eapply burn_tx_inv; eauto.
  - exfalso. eapply mint_ft_never; eauto.
  - eapply join_verifier_inv; eauto.
  - destruct Ho. eapply upsert_inv; eauto.
  - eapply force_inv; eauto.
Qed.

Lemma apply_ok_inv st o : I st -> op_ok st o -> I (apply v c st o).
Proof. intros HI Ho. unfold apply. destruct (step v c st o) eqn:E; auto. eapply step_ok_inv; eauto. Qed.

Lemma run_valid_inv ops : forall st, I st -> valid st ops -> I (run v c ops st).
Proof. induction ops as [|o r IH]; intros st HI Hv; simpl; [exact HI|]. destruct Hv as [Ho Hr]. apply IH; auto. now apply apply_ok_inv. Qed.
End AllOps.

(* bond conservation over arbitrary operation lists of a tree without the repaired defects *)
Lemma bond_conservation v c N Us ops l :
  separated v N Us -> users_ok Us -> canonical Us -> valid v c N Us (empty_state l) ops ->
  bal MOD UKEX (led (run v c ops (empty_state l))) = sum_totals (dapps (run v c ops (empty_state l))) + bal MOD UKEX l
  /\ (forall n d, find_dapp n (dapps (run v c ops (empty_state l))) = Some d -> d_status d = 0 ->
      d_total d = sum_bonds n (bonds (run v c ops (empty_state l))) /\ d_total d <= max_thr c).
Proof.
  intros Hs Hu Hc Hv. pose proof (run_valid_inv v c N Us (bal MOD UKEX l) Hs Hu Hc ops (empty_state l) (Inv_empty c N Us _ l eq_refl) Hv) as HI.
  split; [symmetry; apply (i_held _ _ _ _ _ HI)|]. intros n d F S. split; [apply (i_sum _ _ _ _ _ HI n d F S)|apply (i_max _ _ _ _ _ HI n d F S)].
Qed.

(* non-vacuity: a history with a launch and keeper-level swaps / redemptions inside the guards *)
Definition aU0 : string := "kira1vverqatnv4erqh6lta047h6lta047h6ljxphls".
Definition aU1 : string := "kira1vverqatnv4erzh6lta047h6lta047h6lhvk0gt".
Definition acfg : config := mkConfig 1 10 1000 2419200 100000000000 1000 1000000000000000.
Definition al0 : ledger := [(aU0, UKEX, 2000000000); (aU1, UKEX, 2000000000)].
Definition a_ops : list op :=
  [OCreate aU0 false false "x" 1000000 (mkParams "lp/x" true 10000000000000 0 40 10000000000000000 aU0 100 false); OTick 1000;
   OBurnTx aU1 UKEX 5 true; KSwap aU1 "x" false 1000 10000000000000000; KRedeem aU1 "x" "lp/x" 1 0; KConvert aU1 "x" "x" "lp/x" 1;
   KForce "x" 1 0 0; OTick 1; OBond aU1 "x" false 7].
Lemma a_valid : valid repaired acfg ["x"%string] [aU0; aU1] (empty_state al0) a_ops.
Proof.
  unfold a_ops. simpl valid. unfold launched, op_in.
  repeat match goal with
  | |- _ /\ _ => split
  | |- True => exact I
  | |- In _ _ => simpl; auto 6
  | |- forall d, get_dapp _ _ = Some d -> _ => let d := fresh "d" in let H := fresh "H" in intros d H; vm_compute in H; inversion H; subst; vm_compute; repeat split; congruence
  | |- _ <> _ => discriminate
  | |- _ = _ => reflexivity
  | |- _ <= _ => vm_compute; congruence
  | |- _ -> _ => intros; try discriminate; vm_compute; congruence
  end; simpl; auto 6.
Qed.
Lemma a_result : let st := run repaired acfg a_ops (empty_state al0) in
  bal MOD UKEX (led st) = sum_totals (dapps st) /\ map d_status (dapps st) = [1].
Proof. vm_compute. repeat split; reflexivity. Qed.
