(* C09 -- lemmas about fee admission, deduction, the runTx layering and the fee return
   (Model/Fees.v), stated against the vocabulary of the spec checker (Model/C09Check.v). *)
From Sekai Require Import Base.Prelude Base.Dec Model.Filters Model.Fees Model.C09Check Proofs.Filters.
From Coq Require Import ZifyBool.

(* ---------------------------------------------------------------- decimals *)
Lemma chop_round_mul_prec : forall k, chop_round (k * PREC) = k.
Proof.
  intros k. unfold chop_round, chop_round_pos, PREC.
  destruct (k * 1000000000000000000 <? 0) eqn:N.
  - replace (- (k * 1000000000000000000)) with ((- k) * 1000000000000000000) by lia.
    rewrite Z.div_mul by lia. rewrite Z.mod_mul by lia. simpl. lia.
  - rewrite Z.div_mul by lia. rewrite Z.mod_mul by lia. reflexivity.
Qed.

(* an integer amount times a rate is exact *)
Lemma dmul_int_l : forall a r, dmul (dec_of_int a) r = if dec_in_range (a * r) then Ok (a * r) else Panic "Int overflow".
Proof.
  intros a r. unfold dmul, dec_of_int.
  replace (a * PREC * r) with ((a * r) * PREC) by lia. rewrite chop_round_mul_prec. reflexivity.
Qed.
Lemma dmul_int_r : forall a r, dmul r (dec_of_int a) = if dec_in_range (a * r) then Ok (a * r) else Panic "Int overflow".
Proof.
  intros a r. unfold dmul, dec_of_int.
  replace (r * (a * PREC)) with ((a * r) * PREC) by lia. rewrite chop_round_mul_prec. reflexivity.
Qed.

(* ---------------------------------------------------------------- spec vocabulary = model lookups *)
Lemma find_token_find : forall ts d, find_token ts d = find (fun t => String.eqb (t_denom t) d) ts.
Proof. induction ts as [|t ts IH]; intros d; simpl; [reflexivity|]. destruct (String.eqb (t_denom t) d); auto. Qed.

Lemma find_exec_find : forall l ty,
  find_exec l ty = match find (fun e : string * (Z * Z) => String.eqb (fst e) ty) l with Some (_, v) => Some v | None => None end.
Proof. induction l as [|[k v] l IH]; intros ty; simpl; [reflexivity|]. destruct (String.eqb k ty); auto. Qed.

Lemma existsb_eqb_In : forall d l, existsb (String.eqb d) l = true <-> In d l.
Proof.
  intros d l. rewrite existsb_exists. split.
  - intros [x [Hin E]]. apply String.eqb_eq in E. subst. exact Hin.
  - intros H. exists d. split; [exact H | apply String.eqb_refl].
Qed.

Lemma frozen_spec_frozen : forall f d, frozen f d = spec_frozen f d.
Proof.
  intros f d. apply Bool.eq_true_iff_eq. unfold frozen. rewrite is_frozen_spec. unfold spec_frozen.
  pose proof (existsb_eqb_In d (bw_black (f_bw f))) as Hb.
  pose proof (existsb_eqb_In d (bw_white (f_bw f))) as Hw.
  destruct (existsb (String.eqb d) (bw_black (f_bw f))), (existsb (String.eqb d) (bw_white (f_bw f))),
           (f_en_black f), (f_en_white f), (String.eqb_spec d (f_native f)); simpl;
    intuition (try discriminate; try congruence).
Qed.

(* ---------------------------------------------------------------- fee loop *)
(* every intermediate decimal stays within the SDK's 315 bits *)
Fixpoint fee_guard (c : fcfg) (fee : coins) (acc : Z) : bool :=
  match fee with
  | [] => true
  | (d, a) :: r =>
      match find_token (c_tokens c) d with
      | None => true
      | Some t => (dec_in_range (a * t_rate t) && dec_in_range (acc + a * t_rate t) && fee_guard c r (acc + a * t_rate t))%bool
      end
  end.

Lemma spec_value_cons : forall c d a r,
  spec_value c ((d, a) :: r) = match find_token (c_tokens c) d with Some t => a * t_rate t | None => 0 end + spec_value c r.
Proof. intros. unfold spec_value, spec_token. simpl. rewrite find_token_find. reflexivity. Qed.

Lemma fee_loop_ok : forall c fee acc v,
  fee_loop c fee acc = Ok v -> forallb (spec_coin_ok c) fee = true /\ v = acc + spec_value c fee.
Proof.
  induction fee as [|[d a] r IH]; intros acc v H; simpl in H.
  - inversion H. split; [reflexivity | unfold spec_value; simpl; lia].
  - destruct (negb (c_foreign c) && negb (String.eqb d (f_native (c_filt c))))%bool eqn:F; [discriminate|].
    destruct (find_token (c_tokens c) d) as [t|] eqn:T; [|discriminate].
    destruct (t_fee_enabled t) eqn:E; simpl in H; [|discriminate].
    destruct (frozen (c_filt c) d) eqn:Z; [discriminate|].
    rewrite dmul_int_l in H. destruct (dec_in_range (a * t_rate t)); simpl in H; [|discriminate].
    unfold dadd in H. destruct (dec_in_range (acc + a * t_rate t)); simpl in H; [|discriminate].
    apply IH in H. destruct H as [H1 H2]. split.
    + simpl. rewrite H1, Bool.andb_true_r. unfold spec_coin_ok, spec_token. simpl.
      rewrite <- find_token_find, T, E, <- frozen_spec_frozen, Z. simpl.
      destruct (c_foreign c), (String.eqb d (f_native (c_filt c))); simpl in *; congruence.
    + rewrite spec_value_cons, T. lia.
Qed.

Lemma fee_loop_complete : forall c fee acc,
  forallb (spec_coin_ok c) fee = true -> fee_guard c fee acc = true ->
  fee_loop c fee acc = Ok (acc + spec_value c fee).
Proof.
  induction fee as [|[d a] r IH]; intros acc Hc Hg; simpl.
  - unfold spec_value; simpl. f_equal. lia.
  - simpl in Hc. apply Bool.andb_true_iff in Hc. destruct Hc as [Hc Hr].
    unfold spec_coin_ok, spec_token in Hc. simpl in Hc. rewrite <- find_token_find in Hc.
    simpl in Hg. destruct (find_token (c_tokens c) d) as [t|] eqn:T; [|discriminate].
    apply Bool.andb_true_iff in Hc. destruct Hc as [Hc Hf]. apply Bool.andb_true_iff in Hc. destruct Hc as [He Hz].
    apply Bool.andb_true_iff in Hg. destruct Hg as [Hg Hg3]. apply Bool.andb_true_iff in Hg. destruct Hg as [Hg1 Hg2].
    assert ((negb (c_foreign c) && negb (String.eqb d (f_native (c_filt c))))%bool = false) as ->.
    { destruct (c_foreign c), (String.eqb d (f_native (c_filt c))); simpl in *; congruence. }
    rewrite He. simpl. rewrite frozen_spec_frozen. apply Bool.negb_true_iff in Hz. rewrite Hz.
    rewrite dmul_int_l, Hg1. simpl. unfold dadd. rewrite Hg2. simpl.
    rewrite IH by assumption. rewrite spec_value_cons, T. f_equal. lia.
Qed.

(* ---------------------------------------------------------------- execution-fee cover *)
Definition exec_nonneg (c : fcfg) : bool := forallb (fun e => (0 <=? fst (snd e)) && (0 <=? snd (snd e)))%bool (c_exec c).

Lemma find_exec_nonneg : forall c ty e f, exec_nonneg c = true -> find_exec (c_exec c) ty = Some (e, f) -> 0 <= e /\ 0 <= f.
Proof.
  intros c ty e f N H. unfold exec_nonneg in N. rewrite forallb_forall in N.
  assert (In (ty, (e, f)) (c_exec c) \/ exists k, In (k, (e, f)) (c_exec c)) as Hin.
  { clear N. induction (c_exec c) as [|[k v] l IH]; simpl in H; [discriminate|].
    destruct (String.eqb k ty); [inversion H; right; exists k; left; reflexivity|].
    destruct (IH H) as [H1|[k' H1]]; [left; right; exact H1 | right; exists k'; right; exact H1]. }
  destruct Hin as [Hin|[k Hin]]; apply N in Hin; simpl in Hin; lia.
Qed.

Lemma spec_cover_cons : forall c m r,
  spec_cover c (m :: r) = match find_exec (c_exec c) (msg_type m) with Some (e, f) => Z.max e f | None => 0 end + spec_cover c r.
Proof.
  intros. unfold spec_cover. simpl. rewrite find_exec_find.
  destruct (find (fun e => String.eqb (fst e) (msg_type m)) (c_exec c)) as [[k [e f]]|]; reflexivity.
Qed.

Lemma spec_cover_nonneg : forall c ms, exec_nonneg c = true -> 0 <= spec_cover c ms.
Proof.
  intros c ms N. induction ms as [|m r IH]; [unfold spec_cover; simpl; lia|].
  rewrite spec_cover_cons. destruct (find_exec (c_exec c) (msg_type m)) as [[e f]|] eqn:E; [|lia].
  destruct (find_exec_nonneg c _ e f N E). lia.
Qed.

Lemma wrap64_small : forall z, 0 <= z < two64 -> wrap64 z = z.
Proof. intros z H. unfold wrap64. apply Z.mod_small. exact H. Qed.

Lemma exec_sum_exact : forall c ms acc,
  exec_nonneg c = true -> 0 <= acc -> acc + spec_cover c ms < two64 ->
  exec_sum c ms acc = acc + spec_cover c ms.
Proof.
  induction ms as [|m r IH]; intros acc N Ha Hb; simpl.
  - unfold spec_cover; simpl. lia.
  - rewrite spec_cover_cons in Hb |- *. pose proof (spec_cover_nonneg c r N) as Hr.
    destruct (find_exec (c_exec c) (msg_type m)) as [[e f]|] eqn:E.
    + destruct (find_exec_nonneg c _ e f N E).
      rewrite wrap64_small by lia. rewrite IH by lia. lia.
    + rewrite IH by lia. lia.
Qed.

(* ---------------------------------------------------------------- fee_accept_spec *)
(* the guard excludes exactly the wrap-around / overflow cases *)
Definition no_overflow (c : fcfg) (fee : coins) (ms : list msg) : bool :=
  (fee_guard c fee 0 && exec_nonneg c
   && (0 <=? c_min_fee c) && (c_min_fee c <? two63) && (0 <=? c_max_fee c) && (c_max_fee c <? two63)
   && (spec_cover c ms <? two63))%bool.

Lemma fee_accept_spec : forall c fee ms,
  no_overflow c fee ms = true ->
  (validate_fee c fee ms = Ok tt <->
   forallb (spec_coin_ok c) fee = true
   /\ c_min_fee c * PREC <= spec_value c fee <= c_max_fee c * PREC
   /\ spec_cover c ms * PREC <= spec_value c fee).
Proof.
  intros c fee ms G. unfold no_overflow in G.
  repeat (apply Bool.andb_true_iff in G; destruct G as [G ?]).
  assert (Hmin : as_int64 (c_min_fee c) = c_min_fee c) by (apply as_int64_small; lia).
  assert (Hmax : as_int64 (c_max_fee c) = c_max_fee c) by (apply as_int64_small; lia).
  pose proof (spec_cover_nonneg c ms ltac:(assumption)) as Hc0.
  assert (Hex : exec_sum c ms 0 = spec_cover c ms).
  { rewrite exec_sum_exact; try assumption; try lia. unfold two64, two63 in *. lia. }
  assert (Hcov : as_int64 (spec_cover c ms) = spec_cover c ms) by (apply as_int64_small; lia).
  unfold validate_fee. split.
  - intros V. destruct (fee_loop c fee 0) as [v| |] eqn:L; simpl in V; try discriminate.
    apply fee_loop_ok in L. destruct L as [L1 L2]. simpl in L2. subst v.
    rewrite Hex, Hmin, Hmax, Hcov in V. unfold dec_of_int in V.
    destruct ((spec_value c fee <? c_min_fee c * PREC) || (c_max_fee c * PREC <? spec_value c fee))%bool eqn:R; [discriminate|].
    destruct (spec_value c fee <? spec_cover c ms * PREC) eqn:K; [discriminate|].
    split; [exact L1|]. lia.
  - intros [Hok [Hr Hk]]. rewrite fee_loop_complete by assumption. simpl.
    rewrite Hex, Hmin, Hmax, Hcov. unfold dec_of_int.
    assert (((spec_value c fee <? c_min_fee c * PREC) || (c_max_fee c * PREC <? spec_value c fee))%bool = false) as -> by lia.
    assert (spec_value c fee <? spec_cover c ms * PREC = false) as -> by lia. reflexivity.
Qed.

(* denomination part, without any guard: an admitted fee never contains an unregistered,
   fee-disabled, frozen or (while disabled) foreign coin *)
Lemma fee_coins_ok : forall c fee ms, validate_fee c fee ms = Ok tt -> forallb (spec_coin_ok c) fee = true.
Proof.
  intros c fee ms V. unfold validate_fee in V.
  destruct (fee_loop c fee 0) as [v| |] eqn:L; simpl in V; try discriminate.
  apply fee_loop_ok in L. tauto.
Qed.

Lemma fee_coins_not_frozen : forall c fee ms,
  validate_fee c fee ms = Ok tt -> forall x, In x fee -> frozen (c_filt c) (fst x) = false.
Proof.
  intros c fee ms V x Hin. apply fee_coins_ok in V. rewrite forallb_forall in V. specialize (V x Hin).
  unfold spec_coin_ok in V. destruct (spec_token c (fst x)); [|discriminate].
  rewrite frozen_spec_frozen. apply Bool.andb_true_iff in V. destruct V as [V _].
  apply Bool.andb_true_iff in V. destruct V as [_ V]. apply Bool.negb_true_iff in V. exact V.
Qed.

(* the casts: an execution fee of 2^63 makes the cover check vacuous; two fees that sum to 2^64
   wrap to zero *)
Definition ovf_cfg (ex : list (string * (Z * Z))) : fcfg :=
  mkCfg (mkFilt "ukex" (mkBW [] []) false false 1 1 [] 1000) [mkToken "ukex" PREC true] false 100 1000000 ex [] 0.

Lemma fee_overflow_refuted :
  exists c fee ms, validate_fee c fee ms = Ok tt /\ ~ (spec_cover c ms * PREC <= spec_value c fee).
Proof.
  exists (ovf_cfg [("send"%string, (two63, 0))]), [("ukex"%string, 100)], [MSend "a" "b" [("ukex"%string, 1)]].
  split; [vm_compute; reflexivity | vm_compute; intro H; apply H; reflexivity].
Qed.

Lemma fee_wrap_refuted :
  exists c fee ms, validate_fee c fee ms = Ok tt /\ ~ (spec_cover c ms * PREC <= spec_value c fee).
Proof.
  exists (ovf_cfg [("send"%string, (two63, 0)); ("multisend"%string, (5, two63))]), [("ukex"%string, 100)],
         [MSend "a" "b" [("ukex"%string, 1)]; MMulti "a" [("ukex"%string, 1)] [("b"%string, [("ukex"%string, 1)])]].
  split; [vm_compute; reflexivity | vm_compute; intro H; apply H; reflexivity].
Qed.

(* ---------------------------------------------------------------- state frames *)
Lemma key2_eqb_eq : forall a b, key2_eqb a b = true <-> a = b.
Proof.
  intros [a1 a2] [b1 b2]. unfold key2_eqb. simpl. rewrite Bool.andb_true_iff, !String.eqb_eq.
  split; [intros [-> ->]; reflexivity | intros H; inversion H; auto].
Qed.

Lemma bal_set_bal : forall s a d v a' d',
  bal (set_bal s a d v) a' d' = if key2_eqb (a, d) (a', d') then v else bal s a' d'.
Proof. intros. unfold bal, set_bal. simpl. reflexivity. Qed.

Lemma key2_eqb_same : forall a d, key2_eqb (a, d) (a, d) = true.
Proof. intros. apply key2_eqb_eq. reflexivity. Qed.

Lemma key2_eqb_diff_acct : forall a d a' d', a <> a' -> key2_eqb (a, d) (a', d') = false.
Proof. intros. apply Bool.not_true_iff_false. rewrite key2_eqb_eq. intro E. inversion E. contradiction. Qed.

(* fields other than the balances *)
Definition rest_of (s : st) := (s_acct s, s_exec s, s_hist s, s_marks s).

Lemma sub_coins_spec : forall cs s a s',
  sub_coins s a cs = Ok s' ->
  rest_of s' = rest_of s /\
  (forall d, bal s' a d = bal s a d - amt_of cs d) /\
  (forall x d, x <> a -> bal s' x d = bal s x d).
Proof.
  induction cs as [|[d0 x0] r IH]; intros s a s' H; simpl in H.
  - inversion H. subst. split; [reflexivity|]. split; [intros; simpl; lia | reflexivity].
  - destruct (bal s a d0 <? x0); [discriminate|].
    apply IH in H. destruct H as [H1 [H2 H3]]. split; [rewrite H1; reflexivity|]. split.
    + intros d. rewrite H2, bal_set_bal. simpl.
      destruct (String.eqb d0 d) eqn:E.
      * apply String.eqb_eq in E. subst. rewrite key2_eqb_same. lia.
      * assert (key2_eqb (a, d0) (a, d) = false) as ->.
        { apply Bool.not_true_iff_false. rewrite key2_eqb_eq. intro K. inversion K. subst. rewrite String.eqb_refl in E. discriminate. }
        lia.
    + intros x d Hx. rewrite H3 by exact Hx. rewrite bal_set_bal, key2_eqb_diff_acct by auto. reflexivity.
Qed.

Lemma add_coins_spec : forall cs s a,
  rest_of (add_coins s a cs) = rest_of s /\
  (forall d, bal (add_coins s a cs) a d = bal s a d + amt_of cs d) /\
  (forall x d, x <> a -> bal (add_coins s a cs) x d = bal s x d).
Proof.
  induction cs as [|[d0 x0] r IH]; intros s a; simpl.
  - split; [reflexivity|]. split; [intros; lia | reflexivity].
  - destruct (IH (set_bal s a d0 (bal s a d0 + x0)) a) as [H1 [H2 H3]]. split; [rewrite H1; reflexivity|]. split.
    + intros d. rewrite H2, bal_set_bal.
      destruct (String.eqb d0 d) eqn:E.
      * apply String.eqb_eq in E. subst. rewrite key2_eqb_same. lia.
      * assert (key2_eqb (a, d0) (a, d) = false) as ->.
        { apply Bool.not_true_iff_false. rewrite key2_eqb_eq. intro K. inversion K. subst. rewrite String.eqb_refl in E. discriminate. }
        lia.
    + intros x d Hx. rewrite H3 by exact Hx. rewrite bal_set_bal, key2_eqb_diff_acct by auto. reflexivity.
Qed.

Lemma coins_zero_amt : forall cs d, coins_zero cs = true -> amt_of cs d = 0.
Proof.
  induction cs as [|[d0 x] r IH]; intros d H; simpl in *; [reflexivity|].
  apply Bool.andb_true_iff in H. destruct H as [H1 H2]. rewrite (IH d H2).
  destruct (String.eqb d0 d); lia.
Qed.

Lemma rest_of_eq : forall a b, rest_of a = rest_of b ->
  s_acct a = s_acct b /\ s_exec a = s_exec b /\ s_hist a = s_hist b /\ s_marks a = s_marks b.
Proof. intros a b H. unfold rest_of in H. inversion H. auto. Qed.

(* effect of the fee deduction on everything but the balances (whoever pays) *)
Lemma deduct_rest : forall wired s payer fee s',
  deduct wired s payer fee = Ok s' ->
  s_acct s' = s_acct s /\ s_exec s' = s_exec s /\ s_marks s' = s_marks s /\
  (wired = false -> s_hist s' = s_hist s) /\
  (forall a, a <> payer -> hist_of s' a = hist_of s a).
Proof.
  intros wired s payer fee s' H. unfold deduct in H.
  destruct (coins_zero fee); [inversion H; subst; auto|].
  destruct (negb (coins_valid fee)); [discriminate|].
  destruct (sub_coins s payer fee) as [s1| |] eqn:S; simpl in H; try discriminate.
  apply sub_coins_spec in S. destruct S as [R1 _]. apply rest_of_eq in R1. destruct R1 as [A1 [E1 [H1 M1]]].
  destruct (add_coins_spec fee s1 collector) as [R2 _]. apply rest_of_eq in R2. destruct R2 as [A2 [E2 [H2 M2]]].
  inversion H. subst s'. clear H.
  destruct wired; simpl.
  - rewrite A2, E2, M2, A1, E1, M1. repeat split; auto; [discriminate|].
    intros a Ha. unfold hist_of. simpl.
    assert (String.eqb payer a = false) as -> by (apply String.eqb_neq; auto). rewrite H2, H1. reflexivity.
  - rewrite A2, E2, M2, H2, A1, E1, M1, H1. repeat split; auto.
    intros a Ha. unfold hist_of. rewrite H2, H1. reflexivity.
Qed.

(* effect of the fee deduction on the balances *)
Lemma deduct_spec : forall wired s payer fee s',
  deduct wired s payer fee = Ok s' -> payer <> collector ->
  (forall d, bal s' payer d = bal s payer d - amt_of fee d) /\
  (forall d, bal s' collector d = bal s collector d + amt_of fee d) /\
  (forall a d, a <> payer -> a <> collector -> bal s' a d = bal s a d).
Proof.
  intros wired s payer fee s' H Hne. unfold deduct in H.
  destruct (coins_zero fee) eqn:Zr.
  - inversion H. subst. repeat split; auto; intros; rewrite coins_zero_amt by exact Zr; lia.
  - destruct (negb (coins_valid fee)); [discriminate|].
    destruct (sub_coins s payer fee) as [s1| |] eqn:S; simpl in H; try discriminate.
    apply sub_coins_spec in S. destruct S as [_ [B1 O1]].
    destruct (add_coins_spec fee s1 collector) as [_ [B2 O2]].
    assert (Hb : forall a d, bal s' a d = bal (add_coins s1 collector fee) a d).
    { intros. inversion H. unfold bal. destruct wired; reflexivity. }
    split; [intros d; rewrite Hb, O2 by auto; apply B1|].
    split; [intros d; rewrite Hb, B2, O1 by auto; reflexivity|].
    intros a d Ha Hc. rewrite Hb, O2, O1 by auto. reflexivity.
Qed.

(* account-map folds never touch balances, executions, history or marks *)
Lemma fold_acct_frame : forall (f : st -> string -> st) signers s,
  (forall x a, s_bal (f x a) = s_bal x /\ s_exec (f x a) = s_exec x /\ s_hist (f x a) = s_hist x /\ s_marks (f x a) = s_marks x) ->
  let s' := fold_left f signers s in
  s_bal s' = s_bal s /\ s_exec s' = s_exec s /\ s_hist s' = s_hist s /\ s_marks s' = s_marks s.
Proof.
  intros f signers. induction signers as [|a r IH]; intros s Hf; simpl; [auto|].
  destruct (IH (f s a) Hf) as [A [B [C D]]]. destruct (Hf s a) as [A' [B' [C' D']]].
  repeat split; congruence.
Qed.

Lemma set_pubkeys_frame : forall signers s,
  s_bal (set_pubkeys s signers) = s_bal s /\ s_exec (set_pubkeys s signers) = s_exec s /\
  s_hist (set_pubkeys s signers) = s_hist s /\ s_marks (set_pubkeys s signers) = s_marks s.
Proof.
  intros. unfold set_pubkeys. apply fold_acct_frame. intros x a.
  destruct (get_acct x a) as [ac|]; [destruct (a_haspk ac)|]; simpl; auto.
Qed.

Lemma incr_seqs_frame : forall signers s,
  s_bal (incr_seqs s signers) = s_bal s /\ s_exec (incr_seqs s signers) = s_exec s /\
  s_hist (incr_seqs s signers) = s_hist s /\ s_marks (incr_seqs s signers) = s_marks s.
Proof.
  intros. unfold incr_seqs. apply fold_acct_frame. intros x a.
  destruct (get_acct x a) as [ac|]; simpl; auto.
Qed.

(* accounts outside the signer list are untouched by the two folds *)
Lemma fold_acct_other : forall (f : st -> string -> st) signers s b,
  (forall x a, a <> b -> get_acct (f x a) b = get_acct x b) -> ~ In b signers ->
  get_acct (fold_left f signers s) b = get_acct s b.
Proof.
  intros f signers. induction signers as [|a r IH]; intros s b Hf Hn; simpl; [reflexivity|].
  rewrite IH; [|exact Hf| intro; apply Hn; right; assumption].
  apply Hf. intro E. apply Hn. left. exact E.
Qed.

Lemma get_acct_set_other : forall s a x b, a <> b -> get_acct (set_acct s a x) b = get_acct s b.
Proof. intros. unfold get_acct, set_acct. simpl. assert (String.eqb a b = false) as -> by (apply String.eqb_neq; auto). reflexivity. Qed.

Lemma set_pubkeys_other : forall signers s b, ~ In b signers -> get_acct (set_pubkeys s signers) b = get_acct s b.
Proof.
  intros. unfold set_pubkeys. apply fold_acct_other; [|assumption]. intros x a Hab.
  destruct (get_acct x a) as [ac|]; [destruct (a_haspk ac)|]; auto using get_acct_set_other.
Qed.
Lemma incr_seqs_other : forall signers s b, ~ In b signers -> get_acct (incr_seqs s signers) b = get_acct s b.
Proof.
  intros. unfold incr_seqs. apply fold_acct_other; [|assumption]. intros x a Hab.
  destruct (get_acct x a) as [ac|]; auto using get_acct_set_other.
Qed.

Lemma register_execs_app : forall c ms execs, exists l, register_execs c execs ms = execs ++ l.
Proof.
  induction ms as [|m r IH]; intros execs; simpl; [exists []; rewrite app_nil_r; reflexivity|].
  destruct (find_exec (c_exec c) (msg_type m)).
  - destruct (IH (execs ++ [(msg_type m, hd ""%string (msg_signers m), false)])) as [l Hl]. rewrite Hl, <- app_assoc. eexists; reflexivity.
  - apply IH.
Qed.

(* ---------------------------------------------------------------- the ante chain as a whole *)
(* what the admission of a transaction does, and nothing else *)
Record admission (sh : shape) (wired : bool) (c : fcfg) (s : st) (t : tx) (s' : st) : Prop := {
  adm_fee : validate_fee c (t_fee t) (t_msgs t) = Ok tt;
  adm_filters : poor_check sh (c_filt c) (t_msgs t) = Ok tt /\ bw_loop sh (c_filt c) (t_msgs t) = Ok tt;
  adm_sig : t_sig_ok t = true;
  adm_custody : custody_check c (t_msgs t) = Ok tt;
  adm_gas : 0 < t_gas t /\ t_granter t = false;
  adm_marks : s_marks s' = s_marks s;
  adm_exec : exists l, s_exec s' = s_exec s ++ l;
  adm_hist_unwired : wired = false -> s_hist s' = s_hist s;
  adm_hist_others : forall a, a <> payer_of t -> hist_of s' a = hist_of s a;
  adm_accts : forall a, ~ In a (tx_signers t) -> get_acct s' a = get_acct s a;
  adm_payer_bal : payer_of t <> collector -> forall d, bal s' (payer_of t) d = bal s (payer_of t) d - amt_of (t_fee t) d;
  adm_collector_bal : payer_of t <> collector -> forall d, bal s' collector d = bal s collector d + amt_of (t_fee t) d;
  adm_other_bal : payer_of t <> collector -> forall a d, a <> payer_of t -> a <> collector -> bal s' a d = bal s a d
}.

Lemma ante_admission : forall sh wired c s t s', ante sh wired c s t = Ok s' -> admission sh wired c s t s'.
Proof.
  intros sh wired c s t s' H. unfold ante in H.
  destruct (tx_signers t) as [|p0 rest] eqn:Sg; [discriminate|].
  remember (p0 :: rest) as sg eqn:Esg.
  remember (payer_of t) as payer eqn:Ep.
  destruct (is_nil (t_msgs t) || negb (forallb msg_valid (t_msgs t)))%bool; [discriminate|].
  destruct (t_gas t <=? 0) eqn:Gas; [discriminate|].
  destruct (custody_check c (t_msgs t)) as [[]| |] eqn:CU; cbn [bind] in H; try discriminate.
  destruct (existsb (fun x => snd x <? 0) (t_fee t)); [discriminate|].
  destruct (negb (Nat.eqb (List.length (t_seqs t)) (List.length sg))); [discriminate|].
  destruct (validate_fee c (t_fee t) (t_msgs t)) as [[]| |] eqn:V; cbn [bind] in H; try discriminate.
  destruct (negb (forallb (has_acct s) sg)); [discriminate|].
  destruct (t_granter t) eqn:Gr; [discriminate|].
  destruct (deduct wired (set_pubkeys s sg) payer (t_fee t)) as [s2| |] eqn:D; cbn [bind] in H; try discriminate.
  destruct (poor_check sh (c_filt c) (t_msgs t)) as [[]| |] eqn:P; cbn [bind] in H; try discriminate.
  destruct (bw_loop sh (c_filt c) (t_msgs t)) as [[]| |] eqn:B; cbn [bind] in H; try discriminate.
  remember (set_exec s2 (register_execs c (s_exec s2) (t_msgs t))) as s3 eqn:Es3.
  destruct (negb (seqs_match s3 sg (t_seqs t))); [discriminate|].
  destruct (t_sig_ok t) eqn:Sig; cbn [negb] in H; [|discriminate].
  assert (Hs' : s' = incr_seqs s3 sg) by (inversion H; reflexivity). clear H.
  destruct (set_pubkeys_frame sg s) as [Pb [Pe [Ph Pm]]].
  destruct (incr_seqs_frame sg s3) as [Ib [Ie [Ih Im]]].
  assert (E3 : s_bal s3 = s_bal s2 /\ s_hist s3 = s_hist s2 /\ s_marks s3 = s_marks s2 /\ s_acct s3 = s_acct s2
               /\ s_exec s3 = register_execs c (s_exec s2) (t_msgs t)) by (subst s3; simpl; auto).
  destruct E3 as [E3b [E3h [E3m [E3a E3e]]]].
  assert (Hbal : forall a d, bal s' a d = bal s2 a d) by (intros; subst s'; unfold bal; rewrite Ib, E3b; reflexivity).
  assert (Hbal0 : forall a d, bal (set_pubkeys s sg) a d = bal s a d) by (intros; unfold bal; rewrite Pb; reflexivity).
  assert (Hh0 : forall a, hist_of (set_pubkeys s sg) a = hist_of s a) by (intros; unfold hist_of; rewrite Ph; reflexivity).
  assert (Hh1 : forall a, hist_of s' a = hist_of s2 a) by (intros; subst s'; unfold hist_of; rewrite Ih, E3h; reflexivity).
  destruct (deduct_rest _ _ _ _ _ D) as [Da [De [Dm [Dh Dho]]]].
  subst payer.
  constructor.
  - exact V.
  - auto.
  - exact Sig.
  - exact CU.
  - split; [lia | exact Gr].
  - subst s'. rewrite Im, E3m, Dm. exact Pm.
  - subst s'. rewrite Ie, E3e, De, Pe. apply register_execs_app.
  - intros W. subst s'. rewrite Ih, E3h, (Dh W). exact Ph.
  - intros a Ha. rewrite Hh1, (Dho a Ha). apply Hh0.
  - intros a Ha. rewrite Sg in Ha. subst s'. rewrite incr_seqs_other by exact Ha.
    rewrite <- (set_pubkeys_other sg s a Ha). unfold get_acct. rewrite E3a, Da. reflexivity.
  - intros Hne d. rewrite Hbal. apply deduct_spec in D; [|exact Hne]. destruct D as [Dp _].
    rewrite Dp, Hbal0. reflexivity.
  - intros Hne d. rewrite Hbal. apply deduct_spec in D; [|exact Hne]. destruct D as [_ [Dc _]].
    rewrite Dc, Hbal0. reflexivity.
  - intros Hne a d Ha Hc. rewrite Hbal. apply deduct_spec in D; [|exact Hne]. destruct D as [_ [_ Do]].
    rewrite Do, Hbal0 by assumption. reflexivity.
Qed.

(* ---------------------------------------------------------------- runTx *)
Definition msgs_failed (r : tx_result) : Prop := r = TxMsgFailed \/ r = TxMsgPanic.

Lemma run_tx_failed : forall sh wired post c s t s' r,
  run_tx sh wired post c s t = (s', r) -> msgs_failed r -> ante sh wired c s t = Ok s'.
Proof.
  intros sh wired post c s t s' r H Hr. unfold run_tx in H.
  destruct (ante sh wired c s t) as [s1| |]; [|inversion H; subst; destruct Hr; discriminate|inversion H; subst; destruct Hr; discriminate].
  destruct (run_msgs _ _ s1 (t_msgs t)); inversion H; subst; try reflexivity. destruct Hr; discriminate.
Qed.

Lemma run_tx_rejected : forall sh wired post c s t s' r,
  run_tx sh wired post c s t = (s', r) -> r = TxAnteRejected \/ r = TxAntePanic -> s' = s.
Proof.
  intros sh wired post c s t s' r H Hr. unfold run_tx in H.
  destruct (ante sh wired c s t) as [s1| |]; [|inversion H; reflexivity|inversion H; reflexivity].
  destruct (run_msgs _ _ s1 (t_msgs t)); inversion H; subst; destruct Hr; discriminate.
Qed.

Lemma run_tx_admitted : forall sh wired post c s t s' r,
  run_tx sh wired post c s t = (s', r) -> r = TxOk \/ msgs_failed r -> exists s1, ante sh wired c s t = Ok s1.
Proof.
  intros sh wired post c s t s' r H Hr. unfold run_tx in H.
  destruct (ante sh wired c s t) as [s1| |]; [eexists; reflexivity| |]; inversion H; subst; destruct Hr as [Hr|[Hr|Hr]]; discriminate.
Qed.

(* a transaction whose messages fail (error or panic) leaves exactly the admission bookkeeping *)
Lemma failed_msgs_no_trace : forall sh wired post c s t s' r,
  run_tx sh wired post c s t = (s', r) -> msgs_failed r -> admission sh wired c s t s'.
Proof. intros. apply ante_admission. eapply run_tx_failed; eauto. Qed.

(* ---------------------------------------------------------------- pay-back loop *)
(* [pb] takes from [hist], position by position, at most what is there *)
Inductive taken_from : coins -> coins -> Prop :=
| tf_nil : forall h, taken_from [] h
| tf_skip : forall pb d a h, taken_from pb h -> taken_from pb ((d, a) :: h)
| tf_take : forall pb d a x h, taken_from pb h -> 0 < x <= a -> taken_from ((d, x) :: pb) ((d, a) :: h).

Definition rates_nonneg (ts : list token) : Prop := forall t, In t ts -> 0 <= t_rate t.
Definition coins_pos (cs : coins) : Prop := forall c, In c cs -> 0 < snd c.

Lemma find_token_In : forall ts d t, find_token ts d = Some t -> In t ts /\ t_denom t = d.
Proof.
  induction ts as [|t0 ts IH]; intros d t H; simpl in H; [discriminate|].
  destruct (String.eqb (t_denom t0) d) eqn:E.
  - inversion H. subst. split; [left; reflexivity | apply String.eqb_eq; exact E].
  - apply IH in H. destruct H. split; [right; assumption | assumption].
Qed.

Lemma ediv_pos : forall a b, 0 < b -> ediv a b = a / b.
Proof. intros a b H. unfold ediv. assert (0 <? b = true) as -> by lia. reflexivity. Qed.

Lemma as_int64_le : forall z, 0 <= z -> as_int64 z <= z.
Proof.
  intros z H. unfold as_int64, wrap64.
  assert (0 <= z mod two64 <= z) by (split; [apply Z.mod_pos_bound; unfold two64; lia | apply Z.mod_le; unfold two64; lia]).
  destruct (z mod two64 <? two63); unfold two64 in *; lia.
Qed.

Lemma payback_loop_taken : forall ts hist total filled pb,
  rates_nonneg ts -> coins_pos hist -> filled <= total ->
  payback_loop ts hist total filled = Ok pb -> taken_from pb hist.
Proof.
  intros ts hist. induction hist as [|[d a] r IH]; intros total filled pb Hr Hp Hf H; simpl in H.
  - inversion H. constructor.
  - assert (Hp' : coins_pos r) by (intros c Hc; apply Hp; right; exact Hc).
    assert (Ha : 0 < a) by (apply (Hp (d, a)); left; reflexivity).
    destruct (find_token ts d) as [t|] eqn:T.
    2:{ constructor. eapply IH; eauto. }
    destruct (find_token_In _ _ _ T) as [Tin _]. pose proof (Hr t Tin) as Hrt.
    rewrite dmul_int_r in H.
    destruct (dec_in_range (a * t_rate t)); simpl in H; [|discriminate].
    destruct (total - filled <? a * t_rate t) eqn:Lt.
    + (* partial pay-back of this coin *)
      destruct (t_rate t =? 0) eqn:R0; [discriminate|].
      assert (Hrp : 0 < t_rate t) by lia.
      rewrite ediv_pos in H by exact Hrp.
      set (q0 := (total - filled) / t_rate t) in *.
      assert (Hq0 : 0 <= q0) by (apply Z.div_pos; lia).
      assert (Hq0a : q0 < a).
      { apply Z.div_lt_upper_bound; [exact Hrp|]. lia. }
      assert (Hqm : t_rate t * q0 <= total - filled) by (apply Z.mul_div_le; exact Hrp).
      pose proof (as_int64_le q0 Hq0) as Hq64.
      destruct (0 <? as_int64 q0) eqn:Qp.
      * rewrite dmul_int_r in H.
        destruct (dec_in_range (as_int64 q0 * t_rate t)); simpl in H; [|discriminate].
        unfold dadd in H. destruct (dec_in_range (filled + as_int64 q0 * t_rate t)); simpl in H; [|discriminate].
        assert (Hf' : filled + as_int64 q0 * t_rate t <= total) by nia.
        destruct (total =? filled + as_int64 q0 * t_rate t).
        -- inversion H. simpl. apply tf_take; [constructor | lia].
        -- destruct (payback_loop ts r total (filled + as_int64 q0 * t_rate t)) as [rest| |] eqn:Rst; simpl in H; try discriminate.
           inversion H. subst pb. apply tf_take; [eapply IH; [exact Hr | exact Hp' | | exact Rst]; lia | lia].
      * simpl in H. destruct (total =? filled).
        -- inversion H. simpl. constructor.
        -- destruct (payback_loop ts r total filled) as [rest| |] eqn:Rst; simpl in H; try discriminate.
           inversion H. subst pb. constructor. eapply IH; [exact Hr | exact Hp' | | exact Rst]; lia.
    + (* the whole coin *)
      unfold dadd in H. destruct (dec_in_range (filled + a * t_rate t)); simpl in H; [|discriminate].
      assert (Hf' : filled + a * t_rate t <= total) by lia.
      destruct (total =? filled + a * t_rate t).
      * inversion H. simpl. apply tf_take; [constructor | lia].
      * destruct (payback_loop ts r total (filled + a * t_rate t)) as [rest| |] eqn:Rst; simpl in H; try discriminate.
        inversion H. subst pb. apply tf_take; [eapply IH; [exact Hr | exact Hp' | | exact Rst]; lia | lia].
Qed.

Lemma taken_from_amt : forall pb h, taken_from pb h -> coins_pos h -> forall d, 0 <= amt_of pb d <= amt_of h d.
Proof.
  induction 1; intros Hp d0.
  - simpl. clear -Hp. induction h as [|[d a] r IH]; simpl; [lia|].
    assert (0 < a) by (apply (Hp (d, a)); left; reflexivity).
    assert (coins_pos r) by (intros c Hc; apply Hp; right; exact Hc).
    specialize (IH H0). destruct (String.eqb d d0); lia.
  - assert (0 < a) by (apply (Hp (d, a)); left; reflexivity).
    assert (Hr : coins_pos h) by (intros c Hc; apply Hp; right; exact Hc).
    specialize (IHtaken_from Hr d0). simpl. destruct (String.eqb d d0); lia.
  - assert (Hr : coins_pos h) by (intros c Hc; apply Hp; right; exact Hc).
    specialize (IHtaken_from Hr d0). simpl. destruct (String.eqb d d0); lia.
Qed.

Lemma rate_value_nonneg : forall ts cs acc v,
  rates_nonneg ts -> coins_pos cs -> 0 <= acc -> rate_value ts cs acc = Ok v -> 0 <= v.
Proof.
  intros ts cs. induction cs as [|[d a] r IH]; intros acc v Hr Hp Ha H; simpl in H.
  - inversion H. subst. exact Ha.
  - assert (Hp' : coins_pos r) by (intros c Hc; apply Hp; right; exact Hc).
    assert (0 < a) by (apply (Hp (d, a)); left; reflexivity).
    destruct (find_token ts d) as [t|] eqn:T; [|eapply IH; eauto].
    destruct (find_token_In _ _ _ T) as [Tin _]. pose proof (Hr t Tin) as Hrt.
    rewrite dmul_int_r in H. destruct (dec_in_range (a * t_rate t)); simpl in H; [|discriminate].
    unfold dadd in H. destruct (dec_in_range (acc + a * t_rate t)); simpl in H; [|discriminate].
    eapply (IH (acc + a * t_rate t)); [exact Hr | exact Hp' | nia | exact H].
Qed.

(* what is paid back is, denomination by denomination, at most what the payer paid *)
Lemma refund_le_paid : forall ts hist amt pb,
  rates_nonneg ts -> coins_pos hist -> coins_pos amt ->
  payback ts hist amt = Ok pb -> forall d, 0 <= amt_of pb d <= amt_of hist d.
Proof.
  intros ts hist amt pb Hr Hh Ha H d. unfold payback in H.
  destruct (rate_value ts amt 0) as [total| |] eqn:V; simpl in H; try discriminate.
  assert (0 <= total) by (eapply rate_value_nonneg; eauto; lia).
  apply taken_from_amt; [|exact Hh]. eapply payback_loop_taken; eauto.
Qed.

(* the fee payer is charged exactly the declared fee, the collector receives exactly it *)
Lemma charged_exactly : forall sh wired c s t s',
  ante sh wired c s t = Ok s' -> payer_of t <> collector ->
  forall d, bal s' (payer_of t) d = bal s (payer_of t) d - amt_of (t_fee t) d
            /\ bal s' collector d = bal s collector d + amt_of (t_fee t) d
            /\ (forall a, a <> payer_of t -> a <> collector -> bal s' a d = bal s a d).
Proof.
  intros sh wired c s t s' H Hne d. apply ante_admission in H. destruct H.
  split; [auto|]. split; [auto|]. intros a Ha Hc. auto.
Qed.

(* ---------------------------------------------------------------- the regenerated chain *)
From Sekai Require Import Gen.AnteChain.

(* the chain the hand-written [ante] follows *)
Definition expected_chain : list string :=
  ["SetUpContextDecorator"; "CustodyDecorator"; "ZeroGasMeterDecorator"; "ExtensionOptionsDecorator";
   "ValidateBasicDecorator"; "TxTimeoutHeightDecorator"; "ValidateMemoDecorator"; "ConsumeGasForTxSizeDecorator";
   "ValidateFeeRangeDecorator"; "SetPubKeyDecorator"; "ValidateSigCountDecorator"; "DeductFeeDecorator";
   "PoorNetworkManagementDecorator"; "BlackWhiteTokensCheckDecorator"; "ExecutionFeeRegistrationDecorator";
   "SigGasConsumeDecorator"; "SigVerificationDecorator"; "IncrementSequenceDecorator"]%string.

Lemma gen_chain_ok : gen_errors = [] /\ ante_chain = expected_chain.
Proof. vm_compute. auto. Qed.

(* ---------------------------------------------------------------- signers *)
Lemma dedup_add_hd : forall l acc x dflt, hd dflt (dedup_add (x :: acc) l) = x.
Proof.
  induction l as [|y l IH]; intros acc x dflt; simpl; [reflexivity|].
  destruct (String.eqb y x || str_in y acc)%bool; [apply IH|].
  change ((x :: acc) ++ [y]) with (x :: (acc ++ [y])). apply IH.
Qed.

Lemma dedup_add_NoDup : forall l acc, NoDup acc -> NoDup (dedup_add acc l).
Proof.
  induction l as [|y l IH]; intros acc H; simpl; [exact H|].
  destruct (str_in y acc) eqn:E; [apply IH; exact H|].
  apply IH. assert (~ In y acc) by (rewrite <- str_in_In; congruence).
  clear -H H0. induction acc as [|z acc IH]; simpl; [constructor; [tauto | constructor]|].
  inversion H; subst. constructor.
  - rewrite in_app_iff. simpl. intros [K|[K|[]]]; [contradiction | subst; apply H0; left; reflexivity].
  - apply IH; [assumption | intro; apply H0; right; assumption].
Qed.

Lemma tx_signers_NoDup : forall t, NoDup (tx_signers t).
Proof. intros. apply dedup_add_NoDup. constructor. Qed.

(* without an explicit fee payer, the payer is the first signer of the first message *)
Lemma payer_first_signer : forall t,
  forallb msg_valid (t_msgs t) = true -> t_msgs t <> [] -> payer_of t = spec_payer t.
Proof.
  intros t V N. unfold payer_of, spec_payer. destruct (String.eqb (t_payer t) ""); [|reflexivity].
  unfold tx_signers, first_signer.
  destruct (t_msgs t) as [|m r]; [contradiction|]. simpl in V. apply Bool.andb_true_iff in V. destruct V as [V _].
  simpl. destruct m as [f ? ?|f ? ?|f ? ? ?|f ? ?|ty ss fl mk]; simpl; try apply dedup_add_hd.
  simpl in V. destruct ss as [|x ss]; [discriminate|]. simpl. apply dedup_add_hd.
Qed.

Lemma get_acct_set_same : forall s a x, get_acct (set_acct s a x) a = Some x.
Proof. intros. unfold get_acct, set_acct. simpl. rewrite String.eqb_refl. reflexivity. Qed.

(* a fold that rewrites each listed account once *)
Lemma fold_acct_upd : forall (f : st -> string -> st) (g : acct -> acct) l s a ac,
  (forall x b, b <> a -> get_acct (f x b) a = get_acct x a) ->
  (forall x ac', get_acct x a = Some ac' -> get_acct (f x a) a = Some (g ac')) ->
  NoDup l -> In a l -> get_acct s a = Some ac -> get_acct (fold_left f l s) a = Some (g ac).
Proof.
  intros f g l. induction l as [|b l IH]; intros s a ac Ho Hs Hn Hin Hg; [destruct Hin|].
  inversion Hn as [|? ? Hnb Hnl]; subst. simpl. destruct (String.eqb_spec b a) as [->|Hne].
  - rewrite fold_acct_other; [apply Hs; exact Hg | intros x c Hc; apply Ho; exact Hc | exact Hnb].
  - destruct Hin as [E|Hin]; [contradiction|]. apply IH; auto. rewrite Ho by exact Hne. exact Hg.
Qed.

Lemma set_pubkeys_signer : forall l s a ac, NoDup l -> In a l -> get_acct s a = Some ac ->
  get_acct (set_pubkeys s l) a = Some (mkAcct (a_seq ac) true).
Proof.
  intros. unfold set_pubkeys. apply (fold_acct_upd _ (fun ac => mkAcct (a_seq ac) true)); auto.
  - intros x b Hb. destruct (get_acct x b) as [c|]; [destruct (a_haspk c)|]; auto using get_acct_set_other.
  - intros x ac' Hx. rewrite Hx. destruct ac' as [q pk]. destruct pk; simpl; [exact Hx | apply get_acct_set_same].
Qed.
Lemma incr_seqs_signer : forall l s a ac, NoDup l -> In a l -> get_acct s a = Some ac ->
  get_acct (incr_seqs s l) a = Some (mkAcct (a_seq ac + 1) (a_haspk ac)).
Proof.
  intros. unfold incr_seqs. apply (fold_acct_upd _ (fun ac => mkAcct (a_seq ac + 1) (a_haspk ac))); auto.
  - intros x b Hb. destruct (get_acct x b) as [c|]; auto using get_acct_set_other.
  - intros x ac' Hx. rewrite Hx. apply get_acct_set_same.
Qed.

Lemma forallb_has_acct : forall s l a, forallb (has_acct s) l = true -> In a l -> exists ac, get_acct s a = Some ac.
Proof.
  intros s l a H Hin. rewrite forallb_forall in H. specialize (H a Hin). unfold has_acct in H.
  destruct (get_acct s a) as [ac|]; [eexists; reflexivity | discriminate].
Qed.

(* admission increments the sequence of every signer exactly once and records its public key *)
Lemma ante_signers : forall sh wired c s t s',
  ante sh wired c s t = Ok s' ->
  forall a, In a (tx_signers t) ->
  exists ac, get_acct s a = Some ac /\ get_acct s' a = Some (mkAcct (a_seq ac + 1) true).
Proof.
  intros sh wired c s t s' H a Hin. unfold ante in H.
  pose proof (tx_signers_NoDup t) as ND.
  destruct (tx_signers t) as [|p0 rest] eqn:Sg; [discriminate|].
  remember (p0 :: rest) as sg eqn:Esg.
  destruct (is_nil (t_msgs t) || negb (forallb msg_valid (t_msgs t)))%bool; [discriminate|].
  destruct (t_gas t <=? 0); [discriminate|].
  destruct (custody_check c (t_msgs t)) as [[]| |]; cbn [bind] in H; try discriminate.
  destruct (existsb (fun x => snd x <? 0) (t_fee t)); [discriminate|].
  destruct (negb (Nat.eqb (List.length (t_seqs t)) (List.length sg))); [discriminate|].
  destruct (validate_fee c (t_fee t) (t_msgs t)) as [[]| |]; cbn [bind] in H; try discriminate.
  destruct (forallb (has_acct s) sg) eqn:HA; cbn [negb] in H; [|discriminate].
  destruct (t_granter t); [discriminate|].
  destruct (deduct wired (set_pubkeys s sg) (payer_of t) (t_fee t)) as [s2| |] eqn:D; cbn [bind] in H; try discriminate.
  destruct (poor_check sh (c_filt c) (t_msgs t)) as [[]| |]; cbn [bind] in H; try discriminate.
  destruct (bw_loop sh (c_filt c) (t_msgs t)) as [[]| |]; cbn [bind] in H; try discriminate.
  remember (set_exec s2 (register_execs c (s_exec s2) (t_msgs t))) as s3 eqn:Es3.
  destruct (negb (seqs_match s3 sg (t_seqs t))); [discriminate|].
  destruct (t_sig_ok t); cbn [negb] in H; [|discriminate].
  assert (Hs' : s' = incr_seqs s3 sg) by (inversion H; reflexivity). clear H.
  destruct (forallb_has_acct s sg a HA Hin) as [ac Hac]. exists ac. split; [exact Hac|].
  destruct (deduct_rest _ _ _ _ _ D) as [Da _].
  assert (H3 : get_acct s3 a = Some (mkAcct (a_seq ac) true)).
  { unfold get_acct. subst s3. simpl. rewrite Da. apply set_pubkeys_signer; auto. }
  subst s'. rewrite (incr_seqs_signer sg s3 a _ ND Hin H3). reflexivity.
Qed.

(* ---------------------------------------------------------------- the spec checker accepts the model *)
(* fee clauses of [tx_clauses] on a transaction the model admits *)
Lemma chk_fee_sound : forall sh wired c s t s',
  ante sh wired c s t = Ok s' -> no_overflow c (t_fee t) (t_msgs t) = true ->
  flag (forallb (spec_coin_ok c) (t_fee t)) "fee_denom"
  ++ flag ((c_min_fee c * PREC <=? spec_value c (t_fee t)) && (spec_value c (t_fee t) <=? c_max_fee c * PREC)) "fee_range"
  ++ flag (spec_cover c (t_msgs t) * PREC <=? spec_value c (t_fee t))
          (if two63 <=? spec_cover c (t_msgs t) then "fee_cover:execution-fee-sum>=2^63" else "fee_cover") = [].
Proof.
  intros sh wired c s t s' H G. apply ante_admission in H. destruct H as [V _ _ _ _ _ _ _ _ _ _ _ _].
  apply (fee_accept_spec c _ _ G) in V. destruct V as [V1 [V2 V3]].
  rewrite V1. assert ((c_min_fee c * PREC <=? spec_value c (t_fee t)) && (spec_value c (t_fee t) <=? c_max_fee c * PREC) = true)%bool as -> by lia.
  assert (spec_cover c (t_msgs t) * PREC <=? spec_value c (t_fee t) = true) as -> by lia. reflexivity.
Qed.

Lemma ante_msgs_valid : forall sh wired c s t s',
  ante sh wired c s t = Ok s' -> forallb msg_valid (t_msgs t) = true /\ t_msgs t <> [].
Proof.
  intros sh wired c s t s' H. unfold ante in H.
  destruct (tx_signers t); [discriminate|].
  destruct (t_msgs t) as [|m r] eqn:E; [simpl in H; discriminate|].
  destruct (forallb msg_valid (m :: r)); [split; [reflexivity | discriminate]|]. simpl in H. discriminate.
Qed.

(* the "charge:failed" clause: the balance changes of a transaction whose messages failed are
   exactly the ones the checker expects (fee out of the first signer, into the collector) *)
Lemma chk_charge_failed_sound : forall sh wired post c s t s' r,
  run_tx sh wired post c s t = (s', r) -> msgs_failed r -> payer_of t <> collector ->
  forall a d, bal s' a d - bal s a d = expected_delta c t false a d.
Proof.
  intros sh wired post c s t s' r H Hr Hne a d. apply (run_tx_failed _ _ _ _ _ _ _ _ H) in Hr.
  destruct (ante_msgs_valid _ _ _ _ _ _ Hr) as [V N].
  pose proof (payer_first_signer t V N) as Hp.
  destruct (charged_exactly _ _ _ _ _ _ Hr Hne d) as [Bp [Bc Bo]].
  unfold expected_delta. cbv zeta. rewrite <- Hp.
  destruct (String.eqb_spec a (payer_of t)) as [->|Hap].
  - assert (String.eqb (payer_of t) collector = false) as -> by (apply String.eqb_neq; exact Hne). rewrite Bp. lia.
  - destruct (String.eqb_spec a collector) as [->|Hac].
    + rewrite Bc. lia.
    + rewrite Bo by assumption. lia.
Qed.

(* ---------------------------------------------------------------- refunds over whole histories *)
(* the payment history of one payer under arbitrary interleavings of fee payments (recorded by
   the feeprocessing keeper when it is the one wired into the fee deduction) and refunds *)
Inductive hop : Type := HPay (fee : coins) | HRefund (amt : coins).
Fixpoint hist_run (ts : list token) (ops : list hop) (h paid refd : coins) : outcome (coins * coins * coins) :=
  match ops with
  | [] => Ok (h, paid, refd)
  | HPay fee :: r => hist_run ts r (coins_plus h fee) (fee ++ paid) refd
  | HRefund amt :: r => do pb <- payback ts h amt; do h' <- coins_minus h pb; hist_run ts r h' paid (pb ++ refd)
  end.
Definition hop_pos (o : hop) : Prop := match o with HPay fee => coins_pos fee | HRefund amt => coins_pos amt end.

Lemma amt_of_app : forall a b d, amt_of (a ++ b) d = amt_of a d + amt_of b d.
Proof. induction a as [|[d0 x] a IH]; intros b d; simpl; [lia|]. rewrite IH. lia. Qed.

Lemma has_denom_In : forall cs d, has_denom cs d = true <-> In d (denoms cs).
Proof.
  induction cs as [|[d0 a] r IH]; intros d; simpl; [split; [discriminate | tauto]|].
  rewrite Bool.orb_true_iff, IH, String.eqb_eq. tauto.
Qed.
Lemma amt_of_absent : forall cs d, ~ In d (denoms cs) -> amt_of cs d = 0.
Proof.
  induction cs as [|[d0 a] r IH]; intros d H; simpl in *; [reflexivity|].
  assert (String.eqb d0 d = false) as -> by (apply String.eqb_neq; tauto). rewrite IH by tauto. lia.
Qed.

Lemma bump_coin_spec : forall cs d x, has_denom cs d = true ->
  denoms (bump_coin cs d x) = denoms cs /\ forall d', amt_of (bump_coin cs d x) d' = amt_of cs d' + (if String.eqb d d' then x else 0).
Proof.
  induction cs as [|[d0 a] r IH]; intros d x H; simpl in H; [discriminate|]. simpl.
  destruct (String.eqb d0 d) eqn:E.
  - apply String.eqb_eq in E. subst d0. simpl. split; [reflexivity|]. intros d'. destruct (String.eqb d d'); lia.
  - simpl in H. destruct (IH d x H) as [I1 I2]. simpl. rewrite I1. split; [reflexivity|]. intros d'. rewrite I2. lia.
Qed.
Lemma insert_coin_spec : forall cs d x,
  (forall d', In d' (denoms (insert_coin cs d x)) <-> d' = d \/ In d' (denoms cs)) /\
  (forall d', amt_of (insert_coin cs d x) d' = amt_of cs d' + (if String.eqb d d' then x else 0)) /\
  (forall c, In c (insert_coin cs d x) <-> c = (d, x) \/ In c cs).
Proof.
  induction cs as [|[d0 a] r IH]; intros d x; simpl.
  - split; [intros; intuition congruence|]. split; [intros; lia|]. intros; intuition congruence.
  - destruct (String.ltb d d0); simpl.
    + split; [intros; intuition congruence|]. split; [intros; lia|]. intros; intuition congruence.
    + destruct (IH d x) as [I1 [I2 I3]]. split; [intros d'; rewrite I1; intuition congruence|].
      split; [intros d'; rewrite I2; lia|]. intros c; rewrite I3; intuition congruence.
Qed.
Lemma insert_coin_NoDup : forall cs d x, ~ In d (denoms cs) -> NoDup (denoms cs) -> NoDup (denoms (insert_coin cs d x)).
Proof.
  induction cs as [|[d0 a] r IH]; intros d x Hn Hd; simpl.
  - constructor; [tauto | constructor].
  - destruct (String.ltb d d0); simpl.
    + constructor; assumption.
    + inversion Hd; subst. simpl in Hn. constructor.
      * destruct (insert_coin_spec r d x) as [I1 _]. rewrite I1. intros [K|K]; [apply Hn; left; auto | contradiction].
      * apply IH; tauto.
Qed.

Definition hinv (h : coins) : Prop := coins_pos h /\ NoDup (denoms h).

Lemma add_coin_spec : forall h d x, hinv h -> 0 < x ->
  hinv (add_coin h d x) /\ forall d', amt_of (add_coin h d x) d' = amt_of h d' + (if String.eqb d d' then x else 0).
Proof.
  intros h d x [Hp Hn] Hx. unfold add_coin. destruct (has_denom h d) eqn:E.
  - destruct (bump_coin_spec h d x E) as [B1 B2]. split; [|exact B2]. split; [|rewrite B1; exact Hn].
    clear -Hp Hx. induction h as [|[d0 a] r IH]; simpl; [intros c []|].
    assert (0 < a) by (apply (Hp (d0, a)); left; reflexivity).
    assert (coins_pos r) by (intros c Hc; apply Hp; right; exact Hc).
    destruct (String.eqb d0 d); intros c [<-|Hc]; simpl; try lia; auto. apply IH; auto.
  - destruct (insert_coin_spec h d x) as [I1 [I2 I3]]. split; [|exact I2]. split.
    + intros c Hc. apply I3 in Hc. destruct Hc as [->|Hc]; [exact Hx | apply Hp; exact Hc].
    + apply insert_coin_NoDup; [|exact Hn]. rewrite <- has_denom_In. congruence.
Qed.

Lemma coins_plus_spec : forall fee h, hinv h -> coins_pos fee ->
  hinv (coins_plus h fee) /\ forall d, amt_of (coins_plus h fee) d = amt_of h d + amt_of fee d.
Proof.
  unfold coins_plus. induction fee as [|[d0 x] r IH]; intros h Hh Hf; simpl; [split; [exact Hh | intros; lia]|].
  assert (0 < x) by (apply (Hf (d0, x)); left; reflexivity).
  assert (coins_pos r) by (intros c Hc; apply Hf; right; exact Hc).
  destruct (add_coin_spec h d0 x Hh H) as [A1 A2].
  destruct (IH (add_coin h d0 x) A1 H0) as [I1 I2]. split; [exact I1|]. intros d. rewrite I2, A2. lia.
Qed.

Lemma taken_from_absent : forall pb h, taken_from pb h -> forall d, ~ In d (denoms h) -> amt_of pb d = 0.
Proof.
  induction 1; intros d0 Hn; simpl in *; [reflexivity | apply IHtaken_from; tauto |].
  assert (String.eqb d d0 = false) as -> by (apply String.eqb_neq; tauto). rewrite IHtaken_from by tauto. lia.
Qed.

Lemma amt_of_filter_nz : forall l d, amt_of (filter (fun c : coin => negb (snd c =? 0)) l) d = amt_of l d.
Proof.
  induction l as [|[d0 a] r IH]; intros d; simpl; [reflexivity|].
  destruct (a =? 0) eqn:E; simpl; rewrite IH; [|reflexivity]. destruct (String.eqb d0 d); lia.
Qed.

Lemma denoms_minus_raw : forall h pb, denoms (coins_minus_raw h pb) = denoms h.
Proof. intros. unfold coins_minus_raw, denoms. rewrite map_map. reflexivity. Qed.

Lemma amt_of_minus_raw : forall pb h d, NoDup (denoms h) -> (~ In d (denoms h) -> amt_of pb d = 0) ->
  amt_of (coins_minus_raw h pb) d = amt_of h d - amt_of pb d.
Proof.
  intros pb. induction h as [|[d0 a] r IH]; intros d Hn Ha; simpl.
  - rewrite Ha by tauto. lia.
  - inversion Hn; subst. destruct (String.eqb_spec d0 d) as [->|Hne].
    + fold (coins_minus_raw r pb). rewrite (amt_of_absent (coins_minus_raw r pb) d) by (rewrite denoms_minus_raw; assumption).
      rewrite (amt_of_absent r d) by assumption. lia.
    + fold (coins_minus_raw r pb). rewrite IH; [lia | assumption|]. intros K. apply Ha. simpl. tauto.
Qed.

Lemma NoDup_denoms_filter : forall (p : coin -> bool) l, NoDup (denoms l) -> NoDup (denoms (filter p l)).
Proof.
  induction l as [|c r IH]; intros H; simpl; [constructor|]. inversion H; subst.
  destruct (p c); simpl; [constructor|]; auto.
  intro K. apply H2. clear -K. induction r as [|c' r IH]; simpl in *; [contradiction|].
  destruct (p c'); simpl in K; [destruct K; auto | auto].
Qed.

Lemma coins_minus_spec : forall h pb h', hinv h -> taken_from pb h -> coins_minus h pb = Ok h' ->
  hinv h' /\ forall d, amt_of h' d = amt_of h d - amt_of pb d.
Proof.
  intros h pb h' [Hp Hn] T H. unfold coins_minus in H.
  destruct (existsb (fun c => snd c <? 0) (coins_minus_raw h pb)) eqn:Neg; simpl in H; [discriminate|].
  destruct (negb (forallb (fun c => has_denom h (fst c)) pb)); [discriminate|]. inversion H. subst h'. clear H.
  split; [split|].
  - intros c Hc. apply filter_In in Hc. destruct Hc as [Hc Hz].
    assert (snd c <? 0 = false).
    { destruct (snd c <? 0) eqn:E; [|reflexivity]. assert (existsb (fun c => snd c <? 0) (coins_minus_raw h pb) = true) by (apply existsb_exists; eauto). congruence. }
    lia.
  - apply NoDup_denoms_filter. rewrite denoms_minus_raw. exact Hn.
  - intros d. rewrite amt_of_filter_nz. apply amt_of_minus_raw; [exact Hn|]. apply taken_from_absent. exact T.
Qed.

Lemma payback_taken : forall ts hist amt pb, rates_nonneg ts -> coins_pos hist -> coins_pos amt ->
  payback ts hist amt = Ok pb -> taken_from pb hist.
Proof.
  intros ts hist amt pb Hr Hh Ha H. unfold payback in H.
  destruct (rate_value ts amt 0) as [total| |] eqn:V; simpl in H; try discriminate.
  assert (0 <= total) by (eapply rate_value_nonneg; eauto; lia).
  eapply payback_loop_taken; eauto.
Qed.

Lemma hist_run_inv : forall ts ops h paid refd h' paid' refd',
  rates_nonneg ts -> Forall hop_pos ops -> hinv h -> (forall d, amt_of h d = amt_of paid d - amt_of refd d) ->
  hist_run ts ops h paid refd = Ok (h', paid', refd') ->
  hinv h' /\ forall d, amt_of h' d = amt_of paid' d - amt_of refd' d.
Proof.
  intros ts ops. induction ops as [|o r IH]; intros h paid refd h' paid' refd' Hr Hops Hh Hb H; simpl in H.
  - inversion H. subst. auto.
  - inversion Hops as [|? ? Ho Hrest]; subst. destruct o as [fee|amt]; simpl in Ho.
    + destruct (coins_plus_spec fee h Hh Ho) as [P1 P2].
      apply (IH (coins_plus h fee) (fee ++ paid) refd h' paid' refd' Hr Hrest P1); [|exact H].
      intros d. rewrite P2, amt_of_app, Hb. lia.
    + destruct (payback ts h amt) as [pb| |] eqn:PB; simpl in H; try discriminate.
      destruct (coins_minus h pb) as [h1| |] eqn:CM; simpl in H; try discriminate.
      assert (T : taken_from pb h) by (eapply payback_taken; eauto; apply Hh).
      destruct (coins_minus_spec h pb h1 Hh T CM) as [M1 M2].
      apply (IH h1 paid (pb ++ refd) h' paid' refd' Hr Hrest M1); [|exact H].
      intros d. rewrite M2, amt_of_app, Hb. lia.
Qed.

Lemma hinv_amt_nonneg : forall h, hinv h -> forall d, 0 <= amt_of h d.
Proof.
  intros h [Hp _] d. induction h as [|[d0 a] r IH]; simpl; [lia|].
  assert (0 < a) by (apply (Hp (d0, a)); left; reflexivity).
  assert (0 <= amt_of r d) by (apply IH; intros c Hc; apply Hp; right; exact Hc).
  destruct (String.eqb d0 d); lia.
Qed.

(* over every history of fee payments and refunds, what has been refunded to a payer never
   exceeds, in any denomination, what the payer has paid *)
Lemma refunds_le_payments : forall ts ops h paid refd,
  rates_nonneg ts -> Forall hop_pos ops ->
  hist_run ts ops [] [] [] = Ok (h, paid, refd) -> forall d, amt_of refd d <= amt_of paid d.
Proof.
  intros ts ops h paid refd Hr Hops H d.
  assert (I0 : hinv []) by (split; [intros c [] | constructor]).
  destruct (hist_run_inv ts ops [] [] [] h paid refd Hr Hops I0 (fun _ => eq_refl) H) as [I1 I2].
  pose proof (hinv_amt_nonneg h I1 d). rewrite I2 in H0. lia.
Qed.

(* ---------------------------------------------------------------- the refund path is dead while unwired *)
(* With the plain bank keeper handed to the fee deduction ([wired = false]) no payment history is
   ever recorded, so every end-of-block return pays back nothing -- whatever the post handler does. *)
Definition no_history (s : st) : Prop := forall a, hist_of s a = [].

Lemma ensure_acct_frame : forall s a, s_bal (ensure_acct s a) = s_bal s /\ s_hist (ensure_acct s a) = s_hist s.
Proof. intros. unfold ensure_acct. destruct (has_acct s a); simpl; auto. Qed.

Lemma bank_send_hist : forall s f t cs s', bank_send s f t cs = Ok s' -> s_hist s' = s_hist s.
Proof.
  intros s f t cs s' H. unfold bank_send in H.
  destruct (sub_coins s f cs) as [s1| |] eqn:S; simpl in H; try discriminate. inversion H. subst s'.
  apply sub_coins_spec in S. destruct S as [R1 _]. apply rest_of_eq in R1.
  destruct (add_coins_spec cs s1 t) as [R2 _]. apply rest_of_eq in R2.
  destruct (ensure_acct_frame (add_coins s1 t cs) t) as [_ E]. rewrite E. intuition congruence.
Qed.

Lemma run_msg_hist : forall n cu s m s', run_msg n cu s m = Ok s' -> s_hist s' = s_hist s.
Proof.
  intros n cu s m s' H. destruct m as [f t a|f inp outs|f t a rw|f t v|ty ss fl mk]; simpl in H.
  - destruct (String.eqb t collector); [discriminate | eapply bank_send_hist; eauto].
  - destruct (existsb (fun o => String.eqb (fst o) collector) outs); [discriminate|].
    destruct (sub_coins s f inp) as [s1| |] eqn:S; simpl in H; try discriminate. inversion H. subst s'. clear H.
    apply sub_coins_spec in S. destruct S as [R1 _]. apply rest_of_eq in R1. destruct R1 as [_ [_ [R1 _]]]. rewrite <- R1. clear R1.
    generalize s1. induction outs as [|o r IH]; intros x; simpl; [reflexivity|]. rewrite IH.
    destruct (ensure_acct_frame (add_coins x (fst o) (snd o)) (fst o)) as [_ E]. rewrite E.
    destruct (add_coins_spec (snd o) x (fst o)) as [R2 _]. apply rest_of_eq in R2. intuition congruence.
  - destruct (String.eqb t collector); [discriminate|].
    destruct (lookup_cust cu f) as [k|]; [|eapply bank_send_hist; eauto].
    destruct (cu_enabled k); [|eapply bank_send_hist; eauto].
    destruct (cu_custodians k) as [nn|]; [|discriminate].
    destruct (0 <? nn); [inversion H; reflexivity | eapply bank_send_hist; eauto].
  - destruct (0 <? v); [eapply bank_send_hist; eauto | discriminate].
  - destruct fl; [discriminate | inversion H; reflexivity].
Qed.

Lemma run_msgs_hist : forall n cu ms s s', run_msgs n cu s ms = Ok s' -> s_hist s' = s_hist s.
Proof.
  induction ms as [|m r IH]; intros s s' H; simpl in H; [inversion H; reflexivity|].
  destruct (run_msg n cu s m) as [s1| |] eqn:M; simpl in H; try discriminate.
  rewrite (IH _ _ H). eapply run_msg_hist; eauto.
Qed.

Lemma run_tx_no_history : forall sh post c s t s' r,
  no_history s -> run_tx sh false post c s t = (s', r) -> no_history s'.
Proof.
  intros sh post c s t s' r N H. unfold run_tx in H.
  destruct (ante sh false c s t) as [s1| |] eqn:A; [|inversion H; subst; exact N|inversion H; subst; exact N].
  apply ante_admission in A. destruct A as [_ _ _ _ _ _ _ Hh _ _ _ _ _]. specialize (Hh eq_refl).
  assert (N1 : no_history s1) by (intros a; unfold hist_of; rewrite Hh; apply N).
  destruct (run_msgs _ _ s1 (t_msgs t)) as [s2| |] eqn:M; inversion H; subst; try exact N1.
  apply run_msgs_hist in M. intros a. unfold hist_of. destruct post; simpl; rewrite M; apply N1.
Qed.

Lemma payback_empty : forall ts amt pb, payback ts [] amt = Ok pb -> pb = [].
Proof.
  intros ts amt pb H. unfold payback in H. destruct (rate_value ts amt 0); simpl in H; try discriminate. inversion H. reflexivity.
Qed.

Lemma refund_no_history : forall c s a amt s',
  no_history s -> refund c s a amt = Ok s' -> no_history s' /\ forall x d, bal s' x d = bal s x d.
Proof.
  intros c s a amt s' N H. unfold refund in H. rewrite (N a) in H.
  destruct (payback (c_tokens c) [] amt) as [pb| |] eqn:P; simpl in H; try discriminate.
  apply payback_empty in P. subst pb. simpl in H.
  destruct (String.eqb a collector); [discriminate|]. simpl in H. inversion H. subst s'. clear H.
  match goal with |- context [ensure_acct ?X ?Y] => destruct (ensure_acct_frame X Y) as [Eb Eh] end. split.
  - intros x. unfold hist_of. rewrite Eh. simpl. destruct (String.eqb a x); [reflexivity | apply N].
  - intros x d. unfold bal. rewrite Eb. reflexivity.
Qed.

Lemma process_returns_no_history : forall c execs s s',
  no_history s -> process_returns c s execs = Ok s' -> no_history s' /\ forall x d, bal s' x d = bal s x d.
Proof.
  induction execs as [|[[ty payer] ok] r IH]; intros s s' N H; simpl in H; [inversion H; subst; auto|].
  destruct (find_exec (c_exec c) ty) as [[e f]|]; [|apply IH; assumption].
  match type of H with (if ?b then _ else _) = _ => destruct b end; [|apply IH; assumption].
  destruct (refund c s payer _) as [s1| |] eqn:R; try discriminate.
  destruct (refund_no_history _ _ _ _ _ N R) as [N1 B1].
  destruct (IH _ _ N1 H) as [N2 B2]. split; [exact N2|]. intros x d. rewrite B2. apply B1.
Qed.

(* the end of a block returns nothing to anybody *)
Lemma end_block_neutral : forall c s s',
  no_history s -> end_block c s = Ok s' -> no_history s' /\ forall x d, bal s' x d = bal s x d.
Proof.
  intros c s s' N H. unfold end_block in H.
  destruct (process_returns c s (s_exec s)) as [s1| |] eqn:P; simpl in H; try discriminate. inversion H. subst s'.
  destruct (process_returns_no_history _ _ _ _ N P) as [N1 B1]. split; [exact N1 | exact B1].
Qed.

(* whole chains: blocks of transactions, each followed by its end block *)
Fixpoint run_blocks (sh : shape) (wired post : bool) (c : fcfg) (s : st) (bs : list (list tx)) : outcome st :=
  match bs with
  | [] => Ok s
  | b :: r => do s2 <- end_block c (fold_left (fun x t => fst (run_tx sh wired post c x t)) b s); run_blocks sh wired post c s2 r
  end.

Lemma txs_no_history : forall sh post c b s, no_history s -> no_history (fold_left (fun x t => fst (run_tx sh false post c x t)) b s).
Proof.
  induction b as [|t r IH]; intros s N; simpl; [exact N|]. apply IH.
  destruct (run_tx sh false post c s t) as [s1 res] eqn:R. simpl. eapply run_tx_no_history; eauto.
Qed.

Lemma refund_path_dead : forall sh post c bs s s',
  no_history s -> run_blocks sh false post c s bs = Ok s' -> no_history s'.
Proof.
  induction bs as [|b r IH]; intros s s' N H; simpl in H; [inversion H; subst; exact N|].
  destruct (end_block c _) as [s2| |] eqn:E; simpl in H; try discriminate.
  apply end_block_neutral in E; [|apply txs_no_history; exact N]. destruct E as [N2 _]. eapply IH; eauto.
Qed.

(* ---------------------------------------------------------------- "charge:delivered": effect of the messages *)
Lemma sum_for_cons : forall x l a d, sum_for (x :: l) a d = (if String.eqb (fst x) a then amt_of (snd x) d else 0) + sum_for l a d.
Proof. reflexivity. Qed.
Lemma sum_for_app : forall l m a d, sum_for (l ++ m) a d = sum_for l a d + sum_for m a d.
Proof. induction l as [|x l IH]; intros; [reflexivity|]. simpl app. rewrite !sum_for_cons, IH. lia. Qed.

Lemma bal_ensure_acct : forall s a x d, bal (ensure_acct s a) x d = bal s x d.
Proof. intros. unfold bal. destruct (ensure_acct_frame s a) as [E _]. rewrite E. reflexivity. Qed.

Lemma bank_send_delta : forall s f t cs s', bank_send s f t cs = Ok s' ->
  forall a d, bal s' a d = bal s a d + (if String.eqb t a then amt_of cs d else 0) - (if String.eqb f a then amt_of cs d else 0).
Proof.
  intros s f t cs s' H a d. unfold bank_send in H.
  destruct (sub_coins s f cs) as [s1| |] eqn:S; simpl in H; try discriminate. inversion H. subst s'. clear H.
  apply sub_coins_spec in S. destruct S as [_ [B1 O1]]. destruct (add_coins_spec cs s1 t) as [_ [B2 O2]].
  rewrite bal_ensure_acct.
  destruct (String.eqb_spec t a) as [->|Ht].
  - rewrite B2. destruct (String.eqb_spec f a) as [->|Hf]; [rewrite B1 | rewrite O1 by auto]; lia.
  - rewrite O2 by auto. destruct (String.eqb_spec f a) as [->|Hf]; [rewrite B1 | rewrite O1 by auto]; lia.
Qed.

Lemma lookup_cust_find : forall l a,
  lookup_cust l a = match find (fun e : string * cust => String.eqb (fst e) a) l with Some (_, k) => Some k | None => None end.
Proof. induction l as [|[k v] l IH]; intros a; simpl; [reflexivity|]. destruct (String.eqb k a); auto. Qed.

Definition msg_delta (c : fcfg) (m : msg) (a d : string) : Z :=
  if parked c m then 0
  else sum_for (transfers (f_native (c_filt c)) m) a d - sum_for (sent_by (f_native (c_filt c)) m) a d.

Lemma run_msg_delta : forall c s m s',
  run_msg (f_native (c_filt c)) (c_custody c) s m = Ok s' ->
  forall a d, bal s' a d = bal s a d + msg_delta c m a d.
Proof.
  intros c s m s' H a d. unfold msg_delta.
  destruct m as [f t cs|f inp outs|f t cs rw|f t v|ty ss fl mk]; simpl in H.
  - destruct (String.eqb t collector); [discriminate|]. rewrite (bank_send_delta _ _ _ _ _ H). simpl.
    unfold sum_for. simpl. lia.
  - destruct (existsb (fun o => String.eqb (fst o) collector) outs); [discriminate|].
    destruct (sub_coins s f inp) as [s1| |] eqn:S; simpl in H; try discriminate. inversion H. subst s'. clear H.
    apply sub_coins_spec in S. destruct S as [_ [B1 O1]].
    assert (F : forall x, bal (fold_left (fun x o => ensure_acct (add_coins x (fst o) (snd o)) (fst o)) outs x) a d = bal x a d + sum_for outs a d).
    { induction outs as [|o r IH]; intros x; simpl; [unfold sum_for; simpl; lia|].
      rewrite IH, bal_ensure_acct, sum_for_cons. destruct (add_coins_spec (snd o) x (fst o)) as [_ [B2 O2]].
      destruct (String.eqb_spec (fst o) a) as [<-|Hn]; [rewrite B2 | rewrite O2 by auto]; lia. }
    rewrite F. simpl. unfold sum_for. simpl.
    destruct (String.eqb_spec f a) as [->|Hf]; [rewrite B1 | rewrite O1 by auto]; lia.
  - destruct (String.eqb t collector); [discriminate|]. simpl parked. rewrite lookup_cust_find in H.
    destruct (find (fun e => String.eqb (fst e) f) (c_custody c)) as [[k0 k]|].
    + destruct (cu_enabled k); simpl.
      * destruct (cu_custodians k) as [nn|]; [|discriminate].
        destruct (0 <? nn); [inversion H; subst; unfold bal; simpl; lia|].
        rewrite (bank_send_delta _ _ _ _ _ H). unfold sum_for. simpl. lia.
      * rewrite (bank_send_delta _ _ _ _ _ H). unfold sum_for. simpl. lia.
    + rewrite (bank_send_delta _ _ _ _ _ H). unfold sum_for. simpl. lia.
  - destruct (0 <? v); [|discriminate]. rewrite (bank_send_delta _ _ _ _ _ H). simpl. unfold sum_for. simpl.
    destruct (String.eqb (f_native (c_filt c)) d); lia.
  - destruct fl; [discriminate|]. inversion H. subst. unfold bal. simpl. unfold sum_for. simpl. lia.
Qed.

Lemma run_msgs_delta : forall c ms s s',
  run_msgs (f_native (c_filt c)) (c_custody c) s ms = Ok s' ->
  forall a d, bal s' a d = bal s a d + zsum (map (fun m => msg_delta c m a d) ms).
Proof.
  induction ms as [|m r IH]; intros s s' H a d; simpl in H; [inversion H; simpl; lia|].
  destruct (run_msg _ _ s m) as [s1| |] eqn:M; simpl in H; try discriminate.
  rewrite (IH _ _ H), (run_msg_delta _ _ _ _ M). simpl. lia.
Qed.

Lemma msgs_delta_expected : forall c ms a d,
  zsum (map (fun m => msg_delta c m a d) ms)
  = sum_for (flat_map (transfers (f_native (c_filt c))) (filter (fun m => negb (parked c m)) ms)) a d
    - sum_for (flat_map (sent_by (f_native (c_filt c))) (filter (fun m => negb (parked c m)) ms)) a d.
Proof.
  induction ms as [|m r IH]; intros a d; simpl; [reflexivity|].
  rewrite IH. unfold msg_delta. destruct (parked c m); simpl; [lia|]. rewrite !sum_for_app. lia.
Qed.

(* the "charge:delivered" clause: the balance changes of a delivered transaction are exactly the
   fee plus the transfers its messages ask for *)
Lemma chk_charge_delivered_sound : forall sh wired post c s t s',
  run_tx sh wired post c s t = (s', TxOk) -> payer_of t <> collector ->
  forall a d, bal s' a d - bal s a d = expected_delta c t true a d.
Proof.
  intros sh wired post c s t s' H Hne a d. unfold run_tx in H.
  destruct (ante sh wired c s t) as [s1| |] eqn:A; try (inversion H; fail).
  destruct (run_msgs _ _ s1 (t_msgs t)) as [s2| |] eqn:M; inversion H. subst s'. clear H.
  destruct (ante_msgs_valid _ _ _ _ _ _ A) as [V N].
  pose proof (payer_first_signer t V N) as Hp.
  destruct (charged_exactly _ _ _ _ _ _ A Hne d) as [Bp [Bc Bo]].
  assert (Hb : bal (if post then set_exec s2 (mark_success c (s_exec s2) (t_msgs t)) else s2) a d = bal s2 a d) by (destruct post; reflexivity).
  rewrite Hb, (run_msgs_delta _ _ _ _ M), msgs_delta_expected.
  unfold expected_delta. cbv zeta. rewrite <- Hp.
  destruct (String.eqb_spec a (payer_of t)) as [->|Hap].
  - assert (String.eqb (payer_of t) collector = false) as -> by (apply String.eqb_neq; exact Hne). rewrite Bp. lia.
  - destruct (String.eqb_spec a collector) as [->|Hac].
    + rewrite Bc. lia.
    + rewrite Bo by assumption. lia.
Qed.
