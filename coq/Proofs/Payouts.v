(* C18 -- lemmas and proofs about Model/Spending.v, Model/Ubi.v, Model/Collectives.v. *)
From Sekai Require Import Base.Prelude Base.Dec Model.Spending Model.Ubi Model.Collectives Model.C18Check.
From Coq Require Import ZifyBool.

(* ================================================================ sdk.Dec rounding *)
Lemma PREC_pos : 0 < PREC. Proof. reflexivity. Qed.
Lemma PREC_HALF : PREC = 2 * HALF. Proof. reflexivity. Qed.

Lemma chop_round_pos_bounds : forall d, 0 <= d ->
  2 * d - PREC <= 2 * (chop_round_pos d * PREC) <= 2 * d + PREC.
Proof.
  intros d Hd. unfold chop_round_pos.
  pose proof (Z.div_mod d PREC ltac:(pose proof PREC_pos; lia)) as E.
  pose proof (Z.mod_pos_bound d PREC PREC_pos) as B.
  pose proof PREC_HALF as PH.
  set (q := d / PREC) in *. set (r := d mod PREC) in *.
  destruct (r =? 0) eqn:E0; [lia|].
  destruct (r <? HALF) eqn:E1; [lia|].
  destruct (HALF <? r) eqn:E2; [lia|].
  destruct (Z.even q); lia.
Qed.

Lemma chop_round_bounds : forall d, 2 * d - PREC <= 2 * (chop_round d * PREC) <= 2 * d + PREC.
Proof.
  intros d. unfold chop_round. destruct (d <? 0) eqn:E.
  - pose proof (chop_round_pos_bounds (- d) ltac:(lia)). lia.
  - apply chop_round_pos_bounds. lia.
Qed.

Lemma chop_round_pos_exact : forall k, 0 <= k -> chop_round_pos (k * PREC) = k.
Proof.
  intros k Hk. unfold chop_round_pos.
  rewrite Z.mod_mul by (pose proof PREC_pos; lia). rewrite Z.div_mul by (pose proof PREC_pos; lia).
  reflexivity.
Qed.
Lemma chop_round_exact : forall k, chop_round (k * PREC) = k.
Proof.
  intros k. unfold chop_round. pose proof PREC_pos.
  destruct (k * PREC <? 0) eqn:E.
  - replace (- (k * PREC)) with ((- k) * PREC) by lia. rewrite chop_round_pos_exact by nia. lia.
  - apply chop_round_pos_exact. nia.
Qed.

Lemma dmul_ok : forall a b r, dmul a b = Ok r -> r = chop_round (a * b).
Proof. unfold dmul. intros a b r. destruct (dec_in_range _); congruence. Qed.

(* rate.Mul(NewDec(dur)).Mul(w).RoundInt(): at most rate*dur*w rounded to the nearest unit (plus the
   10^-18 rounding of the second Mul) *)
Lemma pay_amount_upper : forall r dur w a, pay_amount r dur w = Ok a ->
  2 * a * PREC * PREC <= 2 * (r * dur * w) + PREC * PREC + PREC.
Proof.
  unfold pay_amount, bind. intros r dur w a H.
  destruct (dmul r (dec_of_int dur)) as [x| |] eqn:E1; try discriminate.
  destruct (dmul x w) as [y| |] eqn:E2; try discriminate.
  inversion H; subst a; clear H.
  apply dmul_ok in E1. apply dmul_ok in E2. unfold dec_of_int in E1.
  replace (r * (dur * PREC)) with ((r * dur) * PREC) in E1 by lia. rewrite chop_round_exact in E1. subst x.
  pose proof (chop_round_bounds ((r * dur) * w)) as B1. rewrite <- E2 in B1.
  unfold round_int. pose proof (chop_round_bounds y) as B2.
  set (a := chop_round y) in *. set (X := r * dur * w) in *.
  pose proof PREC_pos. nia.
Qed.
Lemma pay_amount_lower : forall r dur w a, pay_amount r dur w = Ok a ->
  2 * (r * dur * w) - PREC * PREC - PREC <= 2 * a * PREC * PREC.
Proof.
  unfold pay_amount, bind. intros r dur w a H.
  destruct (dmul r (dec_of_int dur)) as [x| |] eqn:E1; try discriminate.
  destruct (dmul x w) as [y| |] eqn:E2; try discriminate.
  inversion H; subst a; clear H.
  apply dmul_ok in E1. apply dmul_ok in E2. unfold dec_of_int in E1.
  replace (r * (dur * PREC)) with ((r * dur) * PREC) in E1 by lia. rewrite chop_round_exact in E1. subst x.
  pose proof (chop_round_bounds ((r * dur) * w)) as B1. rewrite <- E2 in B1.
  unfold round_int. pose proof (chop_round_bounds y) as B2.
  set (a := chop_round y) in *. set (X := r * dur * w) in *.
  pose proof PREC_pos. nia.
Qed.

(* ================================================================ spending: one claim *)
(* the bound for one denomination: the sum over the rate entries of that denomination *)
Definition ent_bound (rates : list (Z * Z)) (dur w d : Z) : Z :=
  zsum (map (fun e => if fst e =? d then 2 * (snd e * dur * w) + PREC * PREC + PREC else 0) rates).

Lemma rewards_bound : forall rates dur w acc rw, rewards rates dur w acc = Ok rw ->
  forall d, 2 * rw d * PREC * PREC <= 2 * acc d * PREC * PREC + ent_bound rates dur w d.
Proof.
  induction rates as [|[d0 r] rest IH]; intros dur w acc rw H d; cbn [rewards] in H.
  - inversion H; subst. unfold ent_bound. cbn. lia.
  - unfold bind in H. destruct (pay_amount r dur w) as [a| |] eqn:E; try discriminate.
    destruct (a <? 0) eqn:Ea; try discriminate.
    specialize (IH _ _ _ _ H d). unfold ent_bound in *. cbn [map zsum fold_right fst snd] in *.
    unfold cadd, csingle in IH. pose proof (pay_amount_upper _ _ _ _ E) as U.
    destruct (Z.eq_dec d d0) as [Heq|Hne].
    + subst d0. rewrite Z.eqb_refl in *. unfold zsum, PREC in *. lia.
    + assert (d0 =? d = false) as E' by lia. rewrite E' in *.
      assert (d =? d0 = false) as E'' by lia. rewrite E'' in IH. unfold zsum, PREC in *. lia.
Qed.

Lemma rewards_nonneg : forall rates dur w acc rw, rewards rates dur w acc = Ok rw ->
  forall d, acc d <= rw d.
Proof.
  induction rates as [|[d0 r] rest IH]; intros dur w acc rw H d; cbn [rewards] in H.
  - inversion H; subst. lia.
  - unfold bind in H. destruct (pay_amount r dur w) as [a| |] eqn:E; try discriminate.
    destruct (a <? 0) eqn:Ea; try discriminate.
    specialize (IH _ _ _ _ H d). unfold cadd, csingle in IH. destruct (d =? d0); lia.
Qed.
Lemma rewards_support : forall rates dur w acc rw, rewards rates dur w acc = Ok rw ->
  forall d, ~ In d (map fst rates) -> rw d = acc d.
Proof.
  induction rates as [|[d0 r] rest IH]; intros dur w acc rw H d Hn; cbn [rewards] in H.
  - inversion H; subst. reflexivity.
  - unfold bind in H. destruct (pay_amount r dur w) as [a| |] eqn:E; try discriminate.
    destruct (a <? 0) eqn:Ea; try discriminate.
    cbn [map fst In] in Hn.
    rewrite (IH _ _ _ _ H d) by tauto. unfold cadd, csingle.
    destruct (d =? d0) eqn:Ed; [exfalso; apply Hn; left; lia | lia].
Qed.

(* the duration the code pays for never exceeds the elapsed time since the last claim inside the
   claim window, clipped to the expiry (as the property defines it; C18Check.entitled_seconds) *)
Lemma claim_duration_le_entitled : forall P last now dur,
  claim_duration P last now = Some dur -> dur <= entitled_seconds (p_terms P) last now.
Proof.
  intros P last now dur. unfold claim_duration, claim_window, entitled_seconds, claim_end. cbv zeta.
  set (T := p_terms P).
  destruct (t_end T =? 0) eqn:E0; cbn [negb andb].
  - destruct (now <=? Z.max (t_start T) last) eqn:E1; [discriminate|].
    destruct (t_dyn T && (Z.max (t_start T) last <? p_lastcalc P)) eqn:E2; intro H; inversion H; lia.
  - destruct (t_end T <? now) eqn:E3.
    + destruct (t_end T <=? Z.max (t_start T) last) eqn:E1; [discriminate|].
      destruct (t_dyn T && (Z.max (t_start T) last <? p_lastcalc P)) eqn:E2; intro H; inversion H; lia.
    + destruct (now <=? Z.max (t_start T) last) eqn:E1; [discriminate|].
      destruct (t_dyn T && (Z.max (t_start T) last <? p_lastcalc P)) eqn:E2; intro H; inversion H; lia.
Qed.

Lemma ent_bound_mono : forall rates w d dur secs,
  dur <= secs -> Forall (fun e => 0 <= snd e * w) rates ->
  ent_bound rates dur w d <= ent_bound rates secs w d.
Proof.
  induction rates as [|[d0 r] rest IH]; intros w d dur secs Hle Hs; unfold ent_bound in *; cbn [map zsum fold_right fst snd].
  - lia.
  - inversion Hs; subst. cbn [snd] in *. specialize (IH w d dur secs Hle H2). unfold zsum in *.
    destruct (d0 =? d); [|lia].
    assert (r * dur * w <= r * secs * w) by nia. lia.
Qed.

Section Spending.
Variable actors : list (Z * list Z).
Variable U : list Z.

(* claim_le_entitlement *)
Theorem claim_le_entitlement : forall P a last now rw,
  claim_pay actors P a last now = Ok rw ->
  let T := p_terms P in let w := weight_of actors T a in
  Forall (fun e => 0 <= snd e * w) (t_rates T) ->
  forall d, 0 <= rw d /\
            2 * rw d * PREC * PREC <= ent_bound (t_rates T) (entitled_seconds T last now) w d.
Proof.
  intros P a last now rw H T w Hs d. unfold claim_pay in H.
  destruct (claim_duration P last now) as [dur|] eqn:Ed; [|discriminate].
  pose proof (claim_duration_le_entitled _ _ _ _ Ed) as Hle.
  pose proof (rewards_bound _ _ _ _ _ H d) as B. pose proof (rewards_nonneg _ _ _ _ _ H d) as N.
  pose proof (ent_bound_mono (t_rates T) w d dur _ Hle Hs) as M.
  subst T w. unfold czero in *. cbv beta in *. split; [lia|]. unfold PREC in *. lia.
Qed.

(* with the duration the code actually used, no sign condition is needed *)
Theorem claim_le_rate_times_duration : forall P a last now rw,
  claim_pay actors P a last now = Ok rw ->
  exists dur, claim_duration P last now = Some dur /\
    forall d, 2 * rw d * PREC * PREC <= ent_bound (t_rates (p_terms P)) dur (weight_of actors (p_terms P) a) d.
Proof.
  intros P a last now rw H. unfold claim_pay in H.
  destruct (claim_duration P last now) as [dur|] eqn:Ed; [|discriminate].
  exists dur. split; [reflexivity|]. intro d.
  pose proof (rewards_bound _ _ _ _ _ H d) as B. unfold czero in B. cbv beta in B. unfold PREC in *. lia.
Qed.

(* what an accepted claim does *)
Lemma sp_claim_inv : forall now p a s s', sp_claim actors now p a s = Ok s' ->
  exists P last rw,
    zget p (s_pools s) = Some P /\ pget (p, a) (s_claims s) = Some last /\
    weight_of actors (p_terms P) a <> 0 /\
    claim_pay actors P a last now = Ok rw /\
    cge_on (map fst (t_rates (p_terms P))) (p_bal P) rw = true /\
    s' = mkS (zset p (mkPool (p_terms P) (csub (p_bal P) rw) (p_lastcalc P)) (s_pools s))
             (pset (p, a) now (s_claims s)) (bank_send (s_bank s) MODULE a rw).
Proof.
  intros now p a s s' H. unfold sp_claim in H.
  destruct (zget p (s_pools s)) as [P|] eqn:EP; [|discriminate].
  destruct (weight_of actors (p_terms P) a =? 0) eqn:Ew; [discriminate|].
  destruct (pget (p, a) (s_claims s)) as [last|] eqn:EC; [|discriminate].
  unfold bind in H. destruct (claim_pay actors P a last now) as [rw| |] eqn:Erw; try discriminate.
  destruct (cge_on (map fst (t_rates (p_terms P))) (p_bal P) rw) eqn:E1; cbn [negb] in H; [|discriminate].
  destruct (cge_on (map fst (t_rates (p_terms P))) (s_bank s MODULE) rw) eqn:E2; cbn [negb] in H; [|discriminate].
  inversion H; subst s'. exists P, last, rw. repeat split; try assumption; try reflexivity. lia.
Qed.

Lemma cge_on_spec : forall ds a b, cge_on ds a b = true -> forall d, In d ds -> b d <= a d.
Proof. unfold cge_on. intros ds a b H d Hd. rewrite forallb_forall in H. specialize (H d Hd). lia. Qed.

Lemma claim_pay_support : forall P a last now rw, claim_pay actors P a last now = Ok rw ->
  forall d, ~ In d (map fst (t_rates (p_terms P))) -> rw d = 0.
Proof.
  intros P a last now rw H d Hn. unfold claim_pay in H.
  destruct (claim_duration P last now); [|discriminate].
  apply (rewards_support _ _ _ _ _ H d Hn).
Qed.
Lemma claim_pay_nonneg : forall P a last now rw, claim_pay actors P a last now = Ok rw -> forall d, 0 <= rw d.
Proof.
  intros P a last now rw H d. unfold claim_pay in H.
  destruct (claim_duration P last now); [|discriminate].
  apply (rewards_nonneg _ _ _ _ _ H d).
Qed.

(* claim_le_pool_book: never more of a token than the pool's recorded balance, and the record is
   reduced by exactly what was paid *)
Theorem claim_le_pool_book : forall now p a s s', sp_claim actors now p a s = Ok s' ->
  exists P P' rw,
    zget p (s_pools s) = Some P /\ zget p (s_pools s') = Some P' /\
    (forall d, p_bal P' d = p_bal P d - rw d) /\
    (forall d, s_bank s' a d - s_bank s a d = (if a =? MODULE then 0 else rw d)) /\
    (forall d, 0 <= rw d) /\
    (forall d, 0 <= p_bal P d -> rw d <= p_bal P d).
Proof.
  intros now p a s s' H. destruct (sp_claim_inv _ _ _ _ _ H) as (P & last & rw & EP & EC & Hw & Hpay & Hge & ->).
  exists P, (mkPool (p_terms P) (csub (p_bal P) rw) (p_lastcalc P)), rw.
  split; [assumption|]. split.
  { cbn [s_pools]. clear -EP. induction (s_pools s) as [|[k v] l IH]; [discriminate|].
    cbn [zget zset] in *. destruct (k =? p) eqn:E; cbn [zget]; [rewrite Z.eqb_refl; reflexivity | rewrite E; auto]. }
  split; [intro d; reflexivity|]. split.
  { intro d. cbn [s_bank]. unfold bank_send, csub, cadd. rewrite Z.eqb_refl. destruct (a =? MODULE); lia. }
  split; [apply (claim_pay_nonneg _ _ _ _ _ Hpay)|].
  intros d Hd. destruct (in_dec Z.eq_dec d (map fst (t_rates (p_terms P)))) as [Hin|Hn].
  - apply (cge_on_spec _ _ _ Hge d Hin).
  - rewrite (claim_pay_support _ _ _ _ _ Hpay d Hn). assumption.
Qed.

(* only_registered_beneficiaries (one claim) *)
Lemma weight_nonzero_allowed : forall T a, weight_of actors T a <> 0 -> is_allowed_ben actors T a = true.
Proof.
  intros T a H. unfold weight_of, is_allowed_ben, zhas in *.
  destruct (zget a (t_baccts T)); [reflexivity|]. cbn [orb].
  destruct (find (fun r => match zget r (t_broles T) with Some _ => true | None => false end) (roles_of actors a)) as [r|] eqn:F; [|congruence].
  apply find_some in F. destruct F as [Hin Hr]. apply existsb_exists. exists r. split; assumption.
Qed.

Theorem only_registered_beneficiaries : forall now p a s s', sp_claim actors now p a s = Ok s' ->
  exists P last, zget p (s_pools s) = Some P /\ pget (p, a) (s_claims s) = Some last /\
                 is_allowed_ben actors (p_terms P) a = true /\ weight_of actors (p_terms P) a <> 0.
Proof.
  intros now p a s s' H. destruct (sp_claim_inv _ _ _ _ _ H) as (P & last & rw & EP & EC & Hw & _).
  exists P, last. repeat split; try assumption. apply weight_nonzero_allowed; assumption.
Qed.
End Spending.

(* ================================================================ spending: histories *)
Definition is_payout (o : sp_op) : bool :=
  match o with OClaim _ _ | ODistribute _ | OWithdraw _ _ _ => true | _ => false end.
(* accounts named by an operation are user accounts (the module account signs nothing) *)
Definition op_wf (o : sp_op) : Prop :=
  match o with
  | ODeposit a _ _ | ORegister a _ | OClaim a _ | OBankSend a _ => 0 <= a
  | ORotate a a' _ => 0 <= a /\ 0 <= a'
  | _ => True
  end.

Lemma cof_nonneg : forall l d, coins_valid l = true -> 0 <= cof l d.
Proof.
  induction l as [|[d0 x] l IH]; intros d H; cbn [cof].
  - unfold czero. lia.
  - unfold coins_valid in H. cbn [forallb snd] in H. apply andb_prop in H. destruct H as [H1 H2].
    specialize (IH d H2). unfold cadd, csingle. destruct (d =? d0); lia.
Qed.

Lemma zget_zset_same : forall {A} p (v : A) l, zget p (zset p v l) = Some v.
Proof.
  intros A p v l. induction l as [|[k w] l IH]; cbn [zset zget].
  - rewrite Z.eqb_refl. reflexivity.
  - destruct (k =? p) eqn:E; cbn [zget]; [rewrite Z.eqb_refl; reflexivity | rewrite E; exact IH].
Qed.
Lemma zget_zset_other : forall {A} p q (v : A) l, q <> p -> zget q (zset p v l) = zget q l.
Proof.
  intros A p q v l Hne. induction l as [|[k w] l IH]; cbn [zset zget].
  - destruct (p =? q) eqn:E; [lia | reflexivity].
  - destruct (k =? p) eqn:E; cbn [zget].
    + assert (k = p) by lia. subst k. destruct (p =? q) eqn:E2; [lia | reflexivity].
    + destruct (k =? q); [reflexivity | exact IH].
Qed.

Lemma sum_zset : forall (f : pool -> Z) p P P' l, zget p l = Some P ->
  zsum (map (fun e : Z * pool => f (snd e)) (zset p P' l)) = zsum (map (fun e : Z * pool => f (snd e)) l) - f P + f P'.
Proof.
  intros f p P P' l. induction l as [|[k w] l IH]; intro H; cbn [zget] in H; [discriminate|].
  cbn [zset]. destruct (k =? p) eqn:E.
  - inversion H; subst w. unfold zsum. cbn [map fold_right snd]. lia.
  - specialize (IH H). unfold zsum in *. cbn [map fold_right snd]. lia.
Qed.
Lemma sum_app1 : forall (f : pool -> Z) l x,
  zsum (map (fun e : Z * pool => f (snd e)) (l ++ [x])) = zsum (map (fun e : Z * pool => f (snd e)) l) + f (snd x).
Proof.
  intros f l x. induction l as [|y l IH]; unfold zsum in *; cbn [app map fold_right]; lia.
Qed.

Lemma soften_ok : forall {A} safe (r : outcome A) x, soften safe r = Ok x -> r = Ok x.
Proof. intros A safe r x H. destruct r; cbn [soften] in H; try assumption; try discriminate. destruct (safe && payout_panic site); discriminate. Qed.

Section SpendingHistories.
Variable dynguard : bool.
Variable payout_safe : bool.
Variable quorum_checked : bool.
Variable actors : list (Z * list Z).
Variable U : list Z.
Notation apply := (sp_apply dynguard payout_safe quorum_checked actors U).
Notation step := (sp_step dynguard payout_safe quorum_checked actors U).
Notation run := (sp_run dynguard payout_safe quorum_checked actors U).

Definition books_inv (s : sstate) : Prop := forall d, sum_books s d <= s_bank s MODULE d.

Lemma claim_step_facts : forall now p a s s', sp_claim actors now p a s = Ok s' ->
  (forall d, sum_books s' d - sum_books s d <= s_bank s' MODULE d - s_bank s MODULE d) /\
  (forall d, s_bank s' MODULE d <= s_bank s MODULE d).
Proof.
  intros now p a s s' H. destruct (sp_claim_inv _ _ _ _ _ _ H) as (P & last & rw & EP & EC & Hw & Hpay & Hge & ->).
  pose proof (claim_pay_nonneg _ _ _ _ _ _ Hpay) as Hnn.
  split; intro d; specialize (Hnn d).
  - unfold sum_books. cbn [s_pools s_bank].
    rewrite (sum_zset (fun P => p_bal P d) p P _ _ EP). cbv beta. cbn [p_bal]. unfold csub, bank_send, cadd.
    rewrite Z.eqb_refl. destruct (MODULE =? a); unfold csub, cadd; lia.
  - cbn [s_bank]. unfold bank_send, csub, cadd. rewrite Z.eqb_refl. destruct (MODULE =? a); unfold csub, cadd; lia.
Qed.

Lemma claim_all_facts : forall now p l s s', claim_all actors now p l s = Ok s' ->
  (forall d, sum_books s' d - sum_books s d <= s_bank s' MODULE d - s_bank s MODULE d) /\
  (forall d, s_bank s' MODULE d <= s_bank s MODULE d).
Proof.
  intros now p l. induction l as [|a l IH]; intros s s' H; cbn [claim_all] in H.
  - inversion H; subst. split; intro d; lia.
  - unfold bind in H. destruct (sp_claim actors now p a s) as [s1| |] eqn:E; try discriminate.
    destruct (claim_step_facts _ _ _ _ _ E) as [A1 A2]. destruct (IH _ _ H) as [B1 B2].
    split; intro d; specialize (A1 d); specialize (A2 d); specialize (B1 d); specialize (B2 d); lia.
Qed.

Lemma withdraw_loop_facts : forall T bens amt bal b bal' b',
  withdraw_loop actors T bens amt bal b = Ok (bal', b') ->
  forall d, bal' d - bal d <= b' MODULE d - b MODULE d /\ b' MODULE d <= b MODULE d /\ bal' d <= bal d.
Proof.
  intros T bens amt. induction bens as [|a r IH]; intros bal b bal' b' H d; cbn [withdraw_loop] in H.
  - inversion H; subst. lia.
  - destruct (is_allowed_ben actors T a); cbn [negb] in H; [|discriminate].
    destruct (coins_valid amt) eqn:V; cbn [negb] in H; [|discriminate].
    destruct (cge_on (cdenoms amt) (b MODULE) (cof amt)); cbn [negb] in H; [|discriminate].
    destruct (cge_on (cdenoms amt) bal (cof amt)); cbn [negb] in H; [|discriminate].
    specialize (IH _ _ _ _ H d). pose proof (cof_nonneg amt d V).
    unfold csub, bank_send, cadd in IH. rewrite Z.eqb_refl in IH. destruct (MODULE =? a); unfold csub, cadd in IH; lia.
Qed.

Lemma endblock_pool_bal : forall now p P cl P', endblock_pool dynguard actors U now p P cl = Ok P' -> p_bal P' = p_bal P.
Proof.
  intros now p P cl P' H. unfold endblock_pool in H.
  destruct (t_dyn (p_terms P)); cbn [negb] in H; [|inversion H; reflexivity].
  destruct (now <? t_dynp (p_terms P) + p_lastcalc P); [inversion H; reflexivity|].
  destruct (total_weight actors (p_terms P) (claimants p cl) =? 0); [inversion H; reflexivity|].
  unfold bind in H. destruct (dmul _ _) as [den| |]; try discriminate.
  destruct (dynguard && (den <=? 0)); [inversion H; reflexivity|].
  destruct (dyn_rates _ _ _); try discriminate.
  inversion H; reflexivity.
Qed.
Lemma endblock_pools_sum : forall now l cl l' d, endblock_pools dynguard actors U now l cl = Ok l' ->
  zsum (map (fun e => p_bal (snd e) d) l') = zsum (map (fun e => p_bal (snd e) d) l).
Proof.
  intros now l cl. induction l as [|[p P] l IH]; intros l' d H; cbn [endblock_pools] in H.
  - inversion H; reflexivity.
  - unfold bind in H. destruct (endblock_pool dynguard actors U now p P cl) as [P'| |] eqn:E; try discriminate.
    destruct (endblock_pools dynguard actors U now l cl) as [r| |] eqn:E2; try discriminate.
    inversion H; subst l'. specialize (IH _ d eq_refl). apply endblock_pool_bal in E.
    unfold zsum in *. cbn [map fold_right snd]. rewrite E. lia.
Qed.

(* what one accepted operation does to the books and to the module account *)
Lemma step_facts : forall now o s s', apply now o s = Ok s' -> op_wf o ->
  (forall d, sum_books s' d - sum_books s d <= s_bank s' MODULE d - s_bank s MODULE d) /\
  (is_payout o = false -> forall d, s_bank s MODULE d <= s_bank s' MODULE d).
Proof.
  intros now o s s' H WF. destruct o; cbn [sp_apply is_payout op_wf] in *.
  - (* create *) unfold sp_create in H. destruct (weights_ok T); cbn [negb] in H; [|discriminate].
    destruct (zhas p (s_pools s)); [discriminate|]. inversion H; subst s'. unfold sum_books. cbn [s_pools s_bank].
    split; intros; [rewrite (sum_app1 (fun P => p_bal P d))|]; cbv beta; cbn [snd p_bal]; unfold czero; lia.
  - (* deposit *) unfold sp_deposit in H. destruct (coins_valid amt) eqn:V; cbn [negb] in H; [|discriminate].
    destruct (cge_on (cdenoms amt) (s_bank s a) (cof amt)); cbn [negb] in H; [|discriminate].
    destruct (zget p (s_pools s)) as [P|] eqn:EP; [|discriminate]. inversion H; subst s'.
    unfold sum_books. cbn [s_pools s_bank]. unfold MODULE in *.
    split; intros; pose proof (cof_nonneg amt d V); [rewrite (sum_zset (fun P => p_bal P d) p P _ _ EP); cbv beta; cbn [p_bal]|];
      unfold bank_send, cadd, csub; assert ((-1 =? a) = false) as -> by lia; rewrite Z.eqb_refl; unfold cadd, csub; lia.
  - (* register *) unfold sp_register in H. destruct (zget p (s_pools s)); [|discriminate].
    destruct (is_allowed_ben actors (p_terms p0) a); cbn [negb] in H; [|discriminate]. inversion H; subst s'.
    unfold sum_books. cbn [s_pools s_bank]. split; intros; lia.
  - (* claim *) apply soften_ok in H. destruct (claim_step_facts _ _ _ _ _ H) as [A _]. split; [exact A | discriminate].
  - (* update *) unfold sp_update in H. destruct (zget p (s_pools s)) as [P|] eqn:EP; [|discriminate].
    inversion H; subst s'. unfold sum_books. cbn [s_pools s_bank].
    split; intros; [rewrite (sum_zset (fun P => p_bal P d) p P _ _ EP); cbv beta; cbn [p_bal]|]; lia.
  - (* distribute *) apply soften_ok in H. unfold sp_distribute in H. destruct (zget p (s_pools s)); [|discriminate].
    destruct (claim_all_facts _ _ _ _ _ H) as [A _]. split; [exact A | discriminate].
  - (* withdraw *) apply soften_ok in H. unfold sp_withdraw in H. destruct (zget p (s_pools s)) as [P|] eqn:EP; [|discriminate].
    unfold bind in H. destruct (withdraw_loop actors (p_terms P) bens amt (p_bal P) (s_bank s)) as [[bal' b']| |] eqn:E; try discriminate.
    inversion H; subst s'. split; [|discriminate]. intro d. unfold sum_books. cbn [s_pools s_bank fst snd].
    rewrite (sum_zset (fun P => p_bal P d) p P _ _ EP). cbv beta. cbn [p_bal].
    pose proof (withdraw_loop_facts _ _ _ _ _ _ _ E d). lia.
  - (* end block *) unfold sp_endblock, bind in H. destruct (endblock_pools dynguard actors U now (s_pools s) (s_claims s)) as [ps| |] eqn:E; try discriminate.
    inversion H; subst s'. unfold sum_books. cbn [s_pools s_bank].
    split; intros; [rewrite (endblock_pools_sum _ _ _ _ d E)|]; lia.
  - (* bank send *) destruct (coins_valid amt) eqn:V; cbn [negb] in H; [|discriminate].
    destruct (cge_on (cdenoms amt) (s_bank s a) (cof amt)); cbn [negb] in H; [|discriminate].
    inversion H; subst s'. unfold sum_books. cbn [s_pools s_bank]. unfold MODULE in *.
    split; intros; pose proof (cof_nonneg amt d V); unfold bank_send, cadd, csub;
      assert ((-1 =? a) = false) as -> by lia; rewrite Z.eqb_refl; unfold cadd, csub; lia.
  - (* create / update with a quorum outside [0,1]: refused, or as create / update *)
    destruct quorum_checked; [discriminate|]. destruct upd.
    + unfold sp_update in H. destruct (zget p (s_pools s)) as [P|] eqn:EP; [|discriminate].
      inversion H; subst s'. unfold sum_books. cbn [s_pools s_bank].
      split; intros; [rewrite (sum_zset (fun P => p_bal P d) p P _ _ EP); cbv beta; cbn [p_bal]|]; lia.
    + unfold sp_create in H. destruct (weights_ok T); cbn [negb] in H; [|discriminate].
      destruct (zhas p (s_pools s)); [discriminate|]. inversion H; subst s'. unfold sum_books. cbn [s_pools s_bank].
      split; intros; [rewrite (sum_app1 (fun P => p_bal P d))|]; cbv beta; cbn [snd p_bal]; unfold czero; lia.
  - (* deposit from a module account *)
    destruct (coins_valid amt) eqn:V; cbn [negb] in H; [|discriminate].
    destruct (zget p (s_pools s)) as [P|] eqn:EP; [|discriminate]. inversion H; subst s'.
    unfold sum_books. cbn [s_pools s_bank]. rewrite Z.eqb_refl.
    split; intros; pose proof (cof_nonneg amt d V); [rewrite (sum_zset (fun P => p_bal P d) p P _ _ EP); cbv beta; cbn [p_bal]|];
      unfold cadd; lia.
  - (* address rotation: the module account is not a party *)
    destruct (negb pre_ok || (a =? a')); [discriminate|]. inversion H; subst s'. destruct WF as [Wa Wa'].
    unfold sum_books. cbn [s_pools s_bank]. unfold bank_rotate, MODULE.
    assert ((-1 =? a) = false) as -> by lia. assert ((-1 =? a') = false) as -> by lia. split; intros; lia.
Qed.

Lemma step_unfold : forall s e, step s e = match apply (fst e) (snd e) s with Ok s' => s' | _ => s end.
Proof. reflexivity. Qed.

(* the recorded balances of all pools never exceed what the module account holds *)
Theorem books_le_module : forall h s, Forall (fun e => op_wf (snd e)) h -> books_inv s -> books_inv (run s h).
Proof.
  induction h as [|e h IH]; intros s WF I; [exact I|].
  inversion WF; subst. cbn [sp_run fold_left]. apply IH; [assumption|].
  rewrite step_unfold. destruct (apply (fst e) (snd e) s) as [s'| |] eqn:E; try exact I.
  destruct (step_facts _ _ _ _ E H1) as [A _]. intro d. specialize (A d). specialize (I d). lia.
Qed.

(* pool_funds_leave_only_by_claim_or_passed_proposal *)
Theorem module_outflow_needs_payout_op : forall now o s s' d, apply now o s = Ok s' -> op_wf o ->
  s_bank s' MODULE d < s_bank s MODULE d -> is_payout o = true.
Proof.
  intros now o s s' d H WF Hlt. destruct (is_payout o) eqn:E; [reflexivity|].
  destruct (step_facts _ _ _ _ H WF) as [_ B]. specialize (B E d). lia.
Qed.

Theorem pool_funds_leave_only_by_claim_or_passed_proposal : forall h s d,
  Forall (fun e => op_wf (snd e)) h ->
  s_bank (run s h) MODULE d < s_bank s MODULE d ->
  exists e, In e h /\ is_payout (snd e) = true /\ exists s0, is_ok (apply (fst e) (snd e) s0) = true.
Proof.
  induction h as [|e h IH]; intros s d WF Hlt; cbn [sp_run fold_left] in Hlt; [lia|].
  inversion WF; subst.
  destruct (Z_lt_dec (s_bank (step s e) MODULE d) (s_bank s MODULE d)) as [L|L].
  - exists e. split; [left; reflexivity|]. rewrite step_unfold in L.
    destruct (apply (fst e) (snd e) s) as [s'| |] eqn:E; try lia.
    split; [exact (module_outflow_needs_payout_op _ _ _ _ _ E H1 L)|]. exists s. rewrite E. reflexivity.
  - destruct (IH (step s e) d H2 ltac:(fold (run (step s e) h) in Hlt; lia)) as (e' & Hin & Hp).
    exists e'. split; [right; exact Hin | exact Hp].
Qed.
End SpendingHistories.

(* ================================================================ ubi *)
Lemma wrap64_small : forall z, 0 <= z < two64 -> wrap64 z = z.
Proof. intros z H. unfold wrap64. apply Z.mod_small. exact H. Qed.

(* without uint64 wrap-around the unrepaired gate is the gate of the property; the repaired gate always is *)
Lemma ubi_gate_exact : forall now r, 0 <= u_last r -> 0 <= u_period r -> u_last r + u_period r < two64 ->
  ubi_due false now r = ubi_due_exact now r.
Proof. intros now r H1 H2 H3. unfold ubi_due, ubi_due_gen, ubi_due_exact. rewrite wrap64_small by lia. reflexivity. Qed.
Lemma ubi_gate_repaired : forall now r, 0 <= u_period r -> ubi_due true now r = ubi_due_exact now r.
Proof.
  intros now r H. unfold ubi_due, ubi_due_gen, ubi_due_exact.
  destruct ((u_end r =? 0) || (u_last r <? u_end r)); [|rewrite !andb_false_r; reflexivity].
  rewrite !andb_true_r. lia.
Qed.

Lemma uget_uset_same : forall {A} k (v : A) l, uget k (uset k v l) = Some v.
Proof.
  intros A k v l. induction l as [|[k' w] l IH]; cbn [uset uget].
  - rewrite Z.eqb_refl. reflexivity.
  - destruct (k' =? k) eqn:E; cbn [uget]; [rewrite Z.eqb_refl; reflexivity | rewrite E; exact IH].
Qed.
Lemma uget_uset_other : forall {A} k q (v : A) l, q <> k -> uget q (uset k v l) = uget q l.
Proof.
  intros A k q v l Hne. induction l as [|[k' w] l IH]; cbn [uset uget].
  - destruct (k =? q) eqn:E; [lia | reflexivity].
  - destruct (k' =? k) eqn:E; cbn [uget].
    + assert (k' = k) by lia. subst k'. destruct (k =? q) eqn:E2; [lia | reflexivity].
    + destruct (k' =? q); [reflexivity | exact IH].
Qed.
Lemma keys_uset : forall {A} k (v : A) l, In k (map fst l) -> map fst (uset k v l) = map fst l.
Proof.
  intros A k v l. induction l as [|[k' w] l IH]; intro H; cbn [map fst In] in H; [contradiction|].
  cbn [uset]. destruct (k' =? k) eqn:E; cbn [map fst].
  - f_equal. lia.
  - f_equal. apply IH. destruct H; [lia | assumption].
Qed.
Lemma uget_in_nodup : forall {A} k (v : A) l, NoDup (map fst l) -> In (k, v) l -> uget k l = Some v.
Proof.
  intros A k v l. induction l as [|[k' w] l IH]; intros ND H; [contradiction|].
  cbn [map fst] in ND. inversion ND as [|? ? Hnin ND']; subst. cbn [uget]. destruct H as [H|H].
  - inversion H; subst. rewrite Z.eqb_refl. reflexivity.
  - destruct (k' =? k) eqn:E; [|apply IH; assumption].
    exfalso. apply Hnin. assert (k' = k) by lia. subst k'. apply (in_map fst) in H. exact H.
Qed.

Lemma ubi_process_spec : forall big now id r s s' x, ubi_process big now id r s = Ok (Some (s', x)) ->
  us_recs s' = uset id (touch now r) (us_recs s) /\ 0 <= x /\ (u_dyn r = false -> x = ubi_amount big r)
  /\ us_minted s' = us_minted s + x.
Proof.
  intros big now id r s s' x H. unfold ubi_process in H.
  assert (P : forall y, (if y <? 0 then Panic "negative coin amount"
                         else if y =? 0 then Ok None
                         else match uget (u_pool r) (us_books s) with
                              | None => Ok None
                              | Some b => Ok (Some (mkUS (uset id (touch now r) (us_recs s)) (uset (u_pool r) (b + y) (us_books s)) (us_minted s + y), y))
                              end) = Ok (Some (s', x)) ->
              us_recs s' = uset id (touch now r) (us_recs s) /\ 0 <= x /\ x = y /\ us_minted s' = us_minted s + x).
  { intros y Hy. destruct (y <? 0) eqn:E1; [discriminate|]. destruct (y =? 0); [discriminate|].
    destruct (uget (u_pool r) (us_books s)); [|discriminate]. inversion Hy; subst. cbn. repeat split; lia. }
  destruct (u_dyn r) eqn:D.
  - destruct (uget (u_pool r) (us_books s)) as [b|] eqn:EB; [|discriminate].
    destruct (ubi_amount big r <=? b).
    + inversion H; subst. cbn. repeat split; try lia; try (intros; congruence).
    + destruct (P _ H) as (A & B & C & D'). repeat split; try assumption; try (intros; congruence).
  - destruct (P _ H) as (A & B & C & D'). repeat split; try assumption. intros _. exact C.
Qed.

Section UbiGate.
Variable gate : bool.
Variable big : bool.
Lemma ubi_loop_spec : forall now l s paid0 s' paid,
  NoDup (map fst l) -> (forall id, In id (map fst l) -> In id (map fst (us_recs s))) ->
  ubi_loop gate big now l s paid0 = Ok (s', paid) ->
  map fst (us_recs s') = map fst (us_recs s) /\
  (forall id, ~ In id (map fst l) -> uget id (us_recs s') = uget id (us_recs s)) /\
  (forall id x, In (id, x) paid -> In (id, x) paid0 \/
     exists r, In (id, r) l /\ ubi_due gate now r = true /\ 0 <= x /\ (u_dyn r = false -> x = ubi_amount big r) /\
               uget id (us_recs s') = Some (touch now r)).
Proof.
  intros now l. induction l as [|[id0 r0] l IH]; intros s paid0 s' paid ND Sub H; cbn [ubi_loop] in H.
  - inversion H; subst. repeat split; auto.
  - cbn [map fst] in ND. inversion ND as [|? ? Hnin ND']; subst.
    assert (Sub' : forall id, In id (map fst l) -> In id (map fst (us_recs s))) by (intros; apply Sub; right; assumption).
    destruct (ubi_due gate now r0) eqn:Due.
    + unfold bind in H. destruct (ubi_process big now id0 r0 s) as [[[s1 x1]|]| |] eqn:EP; try discriminate.
      * destruct (ubi_process_spec _ _ _ _ _ _ _ EP) as (R1 & X0 & XD & _).
        assert (K1 : map fst (us_recs s1) = map fst (us_recs s)) by (rewrite R1; apply keys_uset; apply Sub; left; reflexivity).
        destruct (IH s1 _ _ _ ND' ltac:(intros; rewrite K1; auto) H) as (A & B & C).
        split; [congruence|]. split.
        { intros id Hn. cbn [map fst In] in Hn. rewrite B by tauto. rewrite R1. apply uget_uset_other. intro; subst; tauto. }
        intros id x Hin. destruct (C id x Hin) as [Hp|(r & Hr & Hd & Hx)].
        -- apply in_app_or in Hp. destruct Hp as [Hp|[Hp|[]]]; [left; assumption|].
           inversion Hp; subst. right. exists r0. split; [left; reflexivity|]. repeat split; try assumption.
           rewrite B by assumption. rewrite R1. apply uget_uset_same.
        -- right. exists r. split; [right; assumption | exact (conj Hd Hx)].
      * destruct (IH s _ _ _ ND' Sub' H) as (A & B & C). split; [assumption|]. split.
        { intros id Hn. apply B. cbn [map fst In] in Hn. tauto. }
        intros id x Hin. destruct (C id x Hin) as [Hp|(r & Hr & Hx)]; [left; assumption|].
        right. exists r. split; [right; assumption | exact Hx].
    + destruct (IH s _ _ _ ND' Sub' H) as (A & B & C). split; [assumption|]. split.
      { intros id Hn. apply B. cbn [map fst In] in Hn. tauto. }
      intros id x Hin. destruct (C id x Hin) as [Hp|(r & Hr & Hx)]; [left; assumption|].
      right. exists r. split; [right; assumption | exact Hx].
Qed.

(* every distribution of the end blocker passed the gate, pays the record's amount (a dynamic
   record at most the missing part), and stamps the record with the block time *)
Theorem ubi_paid_only_when_due : forall now s s' paid id x,
  NoDup (map fst (us_recs s)) -> ubi_endblock gate big now s = Ok (s', paid) -> In (id, x) paid ->
  exists r, In (id, r) (us_recs s) /\ ubi_due gate now r = true /\ 0 <= x /\ (u_dyn r = false -> x = ubi_amount big r)
            /\ uget id (us_recs s') = Some (touch now r) /\ NoDup (map fst (us_recs s')).
Proof.
  intros now s s' paid id x ND H Hin. unfold ubi_endblock in H.
  destruct (ubi_loop_spec _ _ _ _ _ _ ND (fun _ h => h) H) as (A & _ & C).
  destruct (C id x Hin) as [[]|(r & Hr & Hd & X0 & XD & L)].
  exists r. repeat split; try assumption. rewrite A. exact ND.
Qed.

(* two distributions of the same record by consecutive end blockers: the second passed the gate
   against the stamp left by the first *)
Lemma ubi_two_payments : forall t1 t2 s s1 s2 p1 p2 id x1 x2,
  NoDup (map fst (us_recs s)) ->
  ubi_endblock gate big t1 s = Ok (s1, p1) -> In (id, x1) p1 ->
  ubi_endblock gate big t2 s1 = Ok (s2, p2) -> In (id, x2) p2 ->
  exists r, In (id, r) (us_recs s) /\ ubi_due gate t2 (touch t1 r) = true.
Proof.
  intros t1 t2 s s1 s2 p1 p2 id x1 x2 ND H1 I1 H2 I2.
  destruct (ubi_paid_only_when_due _ _ _ _ _ _ ND H1 I1) as (r & Hr & _ & _ & _ & L1 & ND1).
  destruct (ubi_paid_only_when_due _ _ _ _ _ _ ND1 H2 I2) as (r' & Hr' & Due & _).
  exists r. split; [assumption|].
  rewrite (uget_in_nodup _ _ _ ND1 Hr') in L1. inversion L1; subst r'. exact Due.
Qed.
End UbiGate.

(* ubi_once_per_period on the unrepaired gate: more than one period apart -- provided last+period
   does not wrap around in uint64 *)
Theorem ubi_once_per_period_guarded : forall big t1 t2 s s1 s2 p1 p2 id x1 x2,
  NoDup (map fst (us_recs s)) ->
  ubi_endblock false big t1 s = Ok (s1, p1) -> In (id, x1) p1 ->
  ubi_endblock false big t2 s1 = Ok (s2, p2) -> In (id, x2) p2 ->
  exists r, In (id, r) (us_recs s) /\
            (0 <= t1 -> 0 <= u_period r -> t1 + u_period r < two64 -> t1 + u_period r < t2).
Proof.
  intros big t1 t2 s s1 s2 p1 p2 id x1 x2 ND H1 I1 H2 I2.
  destruct (ubi_two_payments false big _ _ _ _ _ _ _ _ _ _ ND H1 I1 H2 I2) as (r & Hr & Due).
  exists r. split; [assumption|]. intros T0 P0 NW.
  rewrite ubi_gate_exact in Due by (cbn; lia). unfold ubi_due_exact in Due. cbn [touch u_last u_period] in Due. lia.
Qed.

(* ubi_once_per_period at full strength on the repaired gate (now >= last && now-last > period) *)
Theorem ubi_once_per_period_repaired : forall big t1 t2 s s1 s2 p1 p2 id x1 x2,
  NoDup (map fst (us_recs s)) ->
  ubi_endblock true big t1 s = Ok (s1, p1) -> In (id, x1) p1 ->
  ubi_endblock true big t2 s1 = Ok (s2, p2) -> In (id, x2) p2 ->
  exists r, In (id, r) (us_recs s) /\ (0 <= u_period r -> t1 + u_period r < t2).
Proof.
  intros big t1 t2 s s1 s2 p1 p2 id x1 x2 ND H1 I1 H2 I2.
  destruct (ubi_two_payments true big _ _ _ _ _ _ _ _ _ _ ND H1 I1 H2 I2) as (r & Hr & Due).
  exists r. split; [assumption|]. intros P0.
  rewrite ubi_gate_repaired in Due by (cbn; lia). unfold ubi_due_exact in Due. cbn [touch u_last u_period] in Due. lia.
Qed.

(* the full statement is false for the unrepaired gate: with Period = 2^64-1 the sum wraps and the
   record is paid again one second later *)
Definition ubi_wrap_state : ustate := mkUS [(1, mkU 1700000020 0 1700000020 2 18446744073709551615 1 false)] [(1, 0)] 0.
Theorem ubi_once_per_period_refuted :
  exists t1 t2 s s1 s2 p1 p2 id x1 x2 r,
    NoDup (map fst (us_recs s)) /\
    ubi_endblock false false t1 s = Ok (s1, p1) /\ In (id, x1) p1 /\
    ubi_endblock false false t2 s1 = Ok (s2, p2) /\ In (id, x2) p2 /\
    In (id, r) (us_recs s) /\ 0 <= t1 /\ 0 <= u_period r /\ ~ (t1 + u_period r < t2).
Proof.
  exists 1700000028, 1700000029, ubi_wrap_state.
  eexists. eexists. eexists. eexists. exists 1, 2000000, 2000000. eexists.
  split; [repeat constructor; cbn; tauto|].
  split; [vm_compute; reflexivity|]. split; [left; reflexivity|].
  split; [vm_compute; reflexivity|]. split; [left; reflexivity|].
  split; [left; reflexivity|]. cbn. lia.
Qed.

(* ================================================================ collectives *)
(* round((1-d)*b) + round(d*b) differs from b by at most one unit *)
Lemma round_split_within_one : forall b don,
  b - 1 <= chop_round (b * (PREC - don)) + chop_round (b * don) <= b + 1.
Proof.
  intros b don. pose proof (chop_round_bounds (b * (PREC - don))) as A. pose proof (chop_round_bounds (b * don)) as B.
  set (x := chop_round (b * (PREC - don))) in *. set (y := chop_round (b * don)) in *.
  assert (E : b * (PREC - don) + b * don = b * PREC) by lia.
  set (u := b * (PREC - don)) in *. set (v := b * don) in *. pose proof PREC_pos. nia.
Qed.

Section Coll.
Variable ratomic : bool.
Variable actors : list (Z * list Z).
Variable U : list Z.

Lemma portion_on_spec : forall ds b por f, portion_on ds b por = Ok f -> NoDup ds ->
  forall d, 0 <= f d /\ f d = if in_dec Z.eq_dec d ds then chop_round (b d * por) else 0.
Proof.
  induction ds as [|d0 ds IH]; intros b por f H ND d; cbn [portion_on] in H.
  - inversion H; subst. unfold czero. destruct (in_dec Z.eq_dec d []); [contradiction | lia].
  - inversion ND as [|? ? Hnin ND']; subst.
    destruct (b d0 =? 0) eqn:E0.
    + destruct (IH _ _ _ H ND' d) as [N S]. split; [exact N|]. rewrite S.
      destruct (in_dec Z.eq_dec d ds) as [i|n]; destruct (in_dec Z.eq_dec d (d0 :: ds)) as [i'|n']; try reflexivity.
      * exfalso. apply n'. right. exact i.
      * destruct i' as [->|i']; [|contradiction]. assert (b d = 0) as -> by lia. reflexivity.
    + unfold bind in H. destruct (dmul (dec_of_int (b d0)) por) as [x| |] eqn:EM; try discriminate.
      destruct (round_int x <? 0) eqn:EN; [discriminate|].
      destruct (portion_on ds b por) as [rest| |] eqn:ER; try discriminate. inversion H; subst f.
      destruct (IH _ _ _ ER ND' d) as [N S]. apply dmul_ok in EM. unfold dec_of_int in EM.
      replace (b d0 * PREC * por) with ((b d0 * por) * PREC) in EM by lia. rewrite chop_round_exact in EM. subst x.
      unfold cadd, csingle, round_int in *. rewrite S.
      destruct (Z.eq_dec d d0) as [->|Hne].
      * rewrite Z.eqb_refl. destruct (in_dec Z.eq_dec d0 ds); [contradiction|].
        destruct (in_dec Z.eq_dec d0 (d0 :: ds)) as [_|n']; [lia | exfalso; apply n'; left; reflexivity].
      * assert (d =? d0 = false) as -> by lia.
        destruct (in_dec Z.eq_dec d ds) as [i|n]; destruct (in_dec Z.eq_dec d (d0 :: ds)) as [i'|n']; try lia.
        -- exfalso. apply n'. right. exact i.
        -- destruct i' as [E|i']; [congruence | contradiction].
Qed.

Definition sent (x : fcoins) : fcoins := if nonempty U x then x else czero.
Lemma send_if_spec : forall b from to amt b', send_if U b from to amt = Ok b' -> b' = bank_send b from to (sent amt) \/ (nonempty U amt = false /\ b' = b).
Proof.
  intros b from to amt b' H. unfold send_if in H. unfold sent. destruct (nonempty U amt).
  - destruct (cge U (b from) amt); [|discriminate]. inversion H. left. reflexivity.
  - inversion H. right. split; reflexivity.
Qed.
(* withdraw_returns_bonds_after_lock *)
Theorem withdraw_returns_bonds_after_lock : forall now a c s s', 0 <= a -> 0 <= c -> NoDup U ->
  co_withdraw U now a c s = Ok s' ->
  exists C cc cb db,
    zget c (cs_colls s) = Some C /\ zget a (co_contribs C) = Some cc /\
    cc_lock cc <= now /\
    withdraw_parts U cc = Ok (cb, db) /\
    (forall d, cs_bank s' a d - cs_bank s a d = sent cb d + sent db d) /\
    (forall d, In d U -> cb d + db d - 1 <= cc_bonds cc d + 1 /\ cc_bonds cc d - 1 <= cb d + db d) /\
    (forall d, In d U -> sent cb d = cb d /\ sent db d = db d).
Proof.
  intros now a c s s' Ha Hc ND H. unfold co_withdraw in H.
  destruct (zget c (cs_colls s)) as [C|] eqn:EC; [|discriminate].
  destruct (zget a (co_contribs C)) as [cc|] eqn:ECC; [|discriminate].
  destruct (now <? cc_lock cc) eqn:EL; [discriminate|].
  unfold withdraw_core in H. destruct (withdraw_parts U cc) as [[cb db]| |] eqn:EP; try discriminate.
  destruct (send_if U (cs_bank s) (caddr c) a cb) as [b1| |] eqn:E1; try discriminate.
  destruct (send_if U b1 (daddr c) a db) as [b2| |] eqn:E2; try discriminate.
  destruct (negb _); [discriminate|]. inversion H; subst s'. clear H.
  exists C, cc, cb, db. split; [reflexivity|]. split; [assumption|]. split; [lia|]. split; [exact EP|].
  unfold withdraw_parts, bind in EP.
  destruct (portion U (cc_bonds cc) (PREC - cc_don cc)) as [cb'| |] eqn:P1; try discriminate.
  destruct (portion U (cc_bonds cc) (cc_don cc)) as [db'| |] eqn:P2; try discriminate.
  inversion EP; subst cb' db'. unfold portion in *.
  assert (Hsent : forall x d, (forall e, 0 <= x e) -> In d U -> sent x d = x d).
  { intros x d Hx Hd. unfold sent. destruct (nonempty U x) eqn:N; [reflexivity|]. unfold czero.
    unfold nonempty in N. assert (existsb (fun d => 0 <? x d) U = false) as N' by exact N.
    pose proof (Hx d). destruct (Z.eq_dec (x d) 0); [lia|].
    exfalso. assert (existsb (fun d => 0 <? x d) U = true); [|congruence].
    apply existsb_exists. exists d. split; [assumption | lia]. }
  split.
  { intro d. cbn [cs_bank set_coll].
    assert (A1 : b1 a d = cs_bank s a d + sent cb d).
    { destruct (send_if_spec _ _ _ _ _ E1) as [->|[N ->]].
      - unfold bank_send, cadd. unfold caddr. assert ((a =? -10 - 2 * c) = false) as -> by lia. rewrite Z.eqb_refl. reflexivity.
      - unfold sent. rewrite N. unfold czero. lia. }
    assert (A2 : b2 a d = b1 a d + sent db d).
    { destruct (send_if_spec _ _ _ _ _ E2) as [->|[N ->]].
      - unfold bank_send, cadd. unfold daddr. assert ((a =? -11 - 2 * c) = false) as -> by lia. rewrite Z.eqb_refl. reflexivity.
      - unfold sent. rewrite N. unfold czero. lia. }
    lia. }
  split.
  { intros d Hd. destruct (portion_on_spec _ _ _ _ P1 ND d) as [_ S1]. destruct (portion_on_spec _ _ _ _ P2 ND d) as [_ S2].
    destruct (in_dec Z.eq_dec d U); [|contradiction]. rewrite S1, S2.
    pose proof (round_split_within_one (cc_bonds cc d) (cc_don cc)). lia. }
  intros d Hd. split; apply Hsent; try assumption; intro e.
  - apply (portion_on_spec _ _ _ _ P1 ND e).
  - apply (portion_on_spec _ _ _ _ P2 ND e).
Qed.

Theorem locked_withdraw_rejected : forall now a c s C cc,
  zget c (cs_colls s) = Some C -> zget a (co_contribs C) = Some cc -> now < cc_lock cc ->
  is_ok (co_withdraw U now a c s) = false.
Proof.
  intros now a c s C cc EC ECC L. unfold co_withdraw. rewrite EC, ECC.
  assert ((now <? cc_lock cc) = true) as -> by lia. reflexivity.
Qed.

(* donations: the recorded donation balance pays at most what it holds, to the address of the
   passed proposal, and is reduced by the same amount *)
Theorem send_donation_le_book : forall c to amt s s', co_send_donation c to amt s = Ok s' ->
  exists C C', zget c (cs_colls s) = Some C /\ zget c (cs_colls s') = Some C' /\
    (forall d, In d (cdenoms amt) -> cof amt d <= co_donations C d) /\
    (forall d, co_donations C' d = co_donations C d - cof amt d) /\
    (forall d, 0 <= cof amt d) /\
    cs_bank s' = bank_send (cs_bank s) CMODULE to (cof amt).
Proof.
  intros c to amt s s' H. unfold co_send_donation in H.
  destruct (zget c (cs_colls s)) as [C|] eqn:EC; [|discriminate].
  destruct (coins_valid amt) eqn:V; cbn [negb] in H; [|discriminate].
  destruct (cge_on (cdenoms amt) (co_donations C) (cof amt)) eqn:G; cbn [negb] in H; [|discriminate].
  destruct (cge_on (cdenoms amt) (cs_bank s CMODULE) (cof amt)); cbn [negb] in H; [|discriminate].
  inversion H; subst s'. eexists. eexists. split; [reflexivity|]. split.
  { unfold set_coll. cbn [cs_colls]. apply zget_zset_same. }
  split; [intros d Hd; apply (cge_on_spec _ _ _ G d Hd)|]. split; [intro d; reflexivity|].
  split; [intro d; apply cof_nonneg; assumption | reflexivity].
Qed.

(* an operation by a user (message) never reduces the balance of the collectives module account;
   the only operations that do are passed send-donation proposals *)
Definition co_user_op (o : co_op) : Prop :=
  match o with
  | CCreate a c _ _ _ _ | CContribute a c _ | CDonate a c _ _ _ | CWithdraw a c => 0 <= a /\ 0 <= c
  | _ => False
  end.

Lemma send_if_module : forall b from to amt b', send_if U b from to amt = Ok b' ->
  from <> CMODULE -> to <> CMODULE -> b' CMODULE = b CMODULE.
Proof.
  intros b from to amt b' H Hf Ht. unfold send_if in H. destruct (nonempty U amt); [|inversion H; reflexivity].
  destruct (cge U (b from) amt); [|discriminate]. inversion H. unfold bank_send.
  assert ((CMODULE =? from) = false) as -> by lia. assert ((CMODULE =? to) = false) as -> by lia. reflexivity.
Qed.

Theorem donations_untouched_by_messages : forall now o s s', co_apply ratomic actors U now o s = Ok s' -> co_user_op o ->
  cs_bank s' CMODULE = cs_bank s CMODULE.
Proof.
  intros now o s s' H WF. destruct o; cbn [co_apply co_user_op] in *; try contradiction; destruct WF as [Ha Hc];
  assert (N1 : a <> CMODULE) by (unfold CMODULE; lia);
  assert (N2 : caddr c <> CMODULE) by (unfold CMODULE, caddr; lia);
  assert (N3 : daddr c <> CMODULE) by (unfold CMODULE, daddr; lia).
  - unfold co_create in H. destruct (zhas c (cs_colls s)); [discriminate|].
    destruct (coins_valid bonds); cbn [negb] in H; [|discriminate].
    destruct (cge U (cs_bank s a) (cof bonds)); cbn [negb] in H; [|discriminate]. inversion H. cbn [cs_bank].
    unfold bank_send. assert ((CMODULE =? a) = false) as -> by lia. assert ((CMODULE =? caddr c) = false) as -> by lia. reflexivity.
  - unfold co_contribute in H. destruct (zget c (cs_colls s)) as [C|]; [|discriminate].
    destruct (coins_valid bonds); cbn [negb] in H; [|discriminate].
    destruct (cge U (cs_bank s a) (cof bonds)); cbn [negb] in H; [|discriminate].
    destruct (whitelisted actors C a); cbn [negb] in H; [|discriminate].
    assert (B1 : bank_send (cs_bank s) a (caddr c) (cof bonds) CMODULE = cs_bank s CMODULE).
    { unfold bank_send. assert ((CMODULE =? a) = false) as -> by lia. assert ((CMODULE =? caddr c) = false) as -> by lia. reflexivity. }
    unfold bind in H. destruct (zget a (co_contribs C)) as [cc|].
    + destruct (portion U (cof bonds) (cc_don cc)) as [mv| |]; try discriminate.
      destruct (send_if U _ (caddr c) (daddr c) mv) as [b2| |] eqn:E2; try discriminate.
      inversion H. cbn [cs_bank set_coll snd]. rewrite (send_if_module _ _ _ _ _ E2 N2 N3). exact B1.
    + inversion H. cbn [cs_bank set_coll snd]. exact B1.
  - unfold co_donate in H. destruct ((don <? 0) || (PREC <? don)); [discriminate|].
    destruct (zget c (cs_colls s)) as [C|]; [|discriminate]. destruct (zget a (co_contribs C)) as [cc|]; [|discriminate].
    destruct (now + ONE_YEAR <? lock); [discriminate|]. destruct (lock <? cc_lock cc); [discriminate|].
    destruct (cc_dlock cc); [discriminate|]. unfold bind in H.
    destruct (don <? cc_don cc).
    + destruct (portion U (cc_bonds cc) (cc_don cc - don)) as [mv| |]; try discriminate.
      destruct (send_if U (cs_bank s) (daddr c) (caddr c) mv) as [b2| |] eqn:E2; try discriminate.
      inversion H. cbn [cs_bank set_coll]. exact (send_if_module _ _ _ _ _ E2 N3 N2).
    + destruct (cc_don cc <? don).
      * destruct (portion U (cc_bonds cc) (don - cc_don cc)) as [mv| |]; try discriminate.
        destruct (send_if U (cs_bank s) (caddr c) (daddr c) mv) as [b2| |] eqn:E2; try discriminate.
        inversion H. cbn [cs_bank set_coll]. exact (send_if_module _ _ _ _ _ E2 N2 N3).
      * inversion H. reflexivity.
  - unfold co_withdraw in H. destruct (zget c (cs_colls s)) as [C|]; [|discriminate].
    destruct (zget a (co_contribs C)) as [cc|]; [|discriminate]. destruct (now <? cc_lock cc); [discriminate|].
    unfold withdraw_core in H. destruct (withdraw_parts U cc) as [[cb db]| |]; try discriminate.
    destruct (send_if U (cs_bank s) (caddr c) a cb) as [b1| |] eqn:E1; try discriminate.
    destruct (send_if U b1 (daddr c) a db) as [b2| |] eqn:E2; try discriminate.
    destruct (negb _); [discriminate|]. inversion H. cbn [cs_bank set_coll].
    rewrite (send_if_module _ _ _ _ _ E2 N3 N1). exact (send_if_module _ _ _ _ _ E1 N2 N1).
Qed.
End Coll.

(* ---------------- refutations, by concrete histories replayed on the real code by the harness *)
Definition run_co (U : list Z) (s : cstate) (h : list (Z * co_op)) : cstate := fold_left (co_step false [] U) h s.
Definition rich_bank : bank := fun a => if 0 <=? a then (fun _ => 1000) else czero.
Definition co_init : cstate := mkCS [] rich_bank.
Definition HALFD : Z := 500000000000000000.

Definition h_exact : list (Z * co_op) :=
  [(1, CCreate 1 0 [(0, 3)] true [] []); (2, CContribute 2 0 [(0, 3)]);
   (3, CDonate 1 0 0 HALFD false); (4, CDonate 2 0 0 HALFD false)].
Definition h_drift : list (Z * co_op) :=
  [(1, CCreate 1 0 [(0, 10)] true [] []); (2, CDonate 1 0 0 HALFD false);
   (3, CDonate 1 0 0 1000000000000000000 false); (4, CDonate 1 0 0 HALFD false);
   (5, CDonate 1 0 0 750000000000000000 false)].

Definition on_ok {A} (r : outcome A) (P : A -> bool) : bool := match r with Ok x => P x | _ => false end.
Definition on_some {A} (r : option A) (P : A -> bool) : bool := match r with Some x => P x | None => false end.
Lemma on_ok_ex : forall {A} (r : outcome A) P, on_ok r P = true -> exists x, r = Ok x /\ P x = true.
Proof. intros A r P H. destruct r; try discriminate. eauto. Qed.
Lemma on_some_ex : forall {A} (r : option A) P, on_some r P = true -> exists x, r = Some x /\ P x = true.
Proof. intros A r P H. destruct r; try discriminate. eauto. Qed.
Definition s_exact : cstate := run_co [0] co_init h_exact.
Definition s_drift : cstate := run_co [0] co_init h_drift.

(* "exactly the bonds it put in" read literally is false: 3 units at donation 0.5 come back as 2+2 *)
Definition exact_witness : bool :=
  on_ok (co_withdraw [0] 100 1 0 s_exact) (fun s' =>
  on_some (zget 0 (cs_colls s_exact)) (fun C =>
  on_some (zget 1 (co_contribs C)) (fun cc =>
    (cs_bank s' 1 0 - cs_bank s_exact 1 0 =? cc_bonds cc 0 + 1) && (cc_bonds cc 0 =? 3)))).
Theorem withdraw_exact_refuted :
  exists s s' a C cc, co_withdraw [0] 100 a 0 s = Ok s' /\ zget 0 (cs_colls s) = Some C /\
    zget a (co_contribs C) = Some cc /\ cs_bank s' a 0 - cs_bank s a 0 = cc_bonds cc 0 + 1.
Proof.
  assert (W : exact_witness = true) by (vm_compute; reflexivity). unfold exact_witness in W.
  apply on_ok_ex in W. destruct W as (s' & E & W). apply on_some_ex in W. destruct W as (C & EC & W).
  apply on_some_ex in W. destruct W as (cc & ECC & W).
  exists s_exact, s', 1, C, cc. repeat split; try assumption. lia.
Qed.

(* "can withdraw once the lock has expired" is false: donation changes move round(b*|delta|) between the
   two addresses, so their holdings drift away from round((1-d)b) / round(d*b) and the withdrawal fails *)
Definition drift_witness : bool :=
  on_some (zget 0 (cs_colls s_drift)) (fun C =>
  on_some (zget 1 (co_contribs C)) (fun cc =>
    (cc_lock cc <=? 100) && negb (is_ok (co_withdraw [0] 100 1 0 s_drift)))).
Theorem withdraw_after_lock_refuted :
  exists s a C cc, zget 0 (cs_colls s) = Some C /\ zget a (co_contribs C) = Some cc /\ cc_lock cc <= 100 /\
    is_ok (co_withdraw [0] 100 a 0 s) = false.
Proof.
  assert (W : drift_witness = true) by (vm_compute; reflexivity). unfold drift_witness in W.
  apply on_some_ex in W. destruct W as (C & EC & W). apply on_some_ex in W. destruct W as (cc & ECC & W).
  apply andb_prop in W. destruct W as [W1 W2].
  exists s_drift, 1, C, cc. split; [assumption|]. split; [assumption|]. split; [lia|]. destruct (is_ok _); [discriminate | reflexivity].
Qed.

(* a passed remove proposal can pay a contributor part of its bonds and keep its record *)
Definition partial_witness : bool :=
  on_ok (co_remove false [0] 0 s_drift) (fun s' =>
  on_some (zget 0 (cs_colls s')) (fun C' =>
    zhas 1 (co_contribs C') && (0 <? cs_bank s' 1 0 - cs_bank s_drift 1 0))).
Theorem removal_partial_payout_refuted :
  exists s s' a C', co_remove false [0] 0 s = Ok s' /\ zget 0 (cs_colls s') = Some C' /\ zhas a (co_contribs C') = true /\
    0 < cs_bank s' a 0 - cs_bank s a 0.
Proof.
  assert (W : partial_witness = true) by (vm_compute; reflexivity). unfold partial_witness in W.
  apply on_ok_ex in W. destruct W as (s' & E & W). apply on_some_ex in W. destruct W as (C' & EC & W).
  apply andb_prop in W. destruct W as [W1 W2].
  exists s_drift, s', 1, C'. repeat split; try assumption. lia.
Qed.

(* ================================================================ round 2: deeper statements *)
(* ---------------- claim records are created only by an accepted registration *)
Lemma pkey_eqb_eq : forall a b, pkey_eqb a b = true <-> a = b.
Proof. intros [a1 a2] [b1 b2]. unfold pkey_eqb. cbn [fst snd]. split; [intro H; f_equal; lia | intro H; inversion H; subst; lia]. Qed.
Lemma pget_pset : forall {A} k k' (v : A) l, pget k (pset k' v l) = if pkey_eqb k' k then Some v else pget k l.
Proof.
  intros A k k' v l. induction l as [|[k0 w] l IH]; cbn [pset pget].
  - reflexivity.
  - destruct (pkey_eqb k0 k') eqn:E; cbn [pget].
    + apply pkey_eqb_eq in E. subst k0. destruct (pkey_eqb k' k); reflexivity.
    + destruct (pkey_eqb k0 k) eqn:E2; [|exact IH].
      destruct (pkey_eqb k' k) eqn:E3; [|reflexivity].
      apply pkey_eqb_eq in E2. apply pkey_eqb_eq in E3. subst. rewrite (proj2 (pkey_eqb_eq k k) eq_refl) in E. discriminate.
Qed.

Section ClaimRecords.
Variable dynguard : bool.
Variable payout_safe : bool.
Variable quorum_checked : bool.
Variable actors : list (Z * list Z).
Variable U : list Z.

Lemma claims_rotate_keys : forall a a' cl k, pget k (claims_rotate a a' cl) <> None -> pget k cl <> None \/ snd k = a'.
Proof.
  intros a a' cl k. unfold claims_rotate.
  set (keep := fun e : pkey * Z => negb ((snd (fst e) =? a') && match pget (fst (fst e), a) cl with Some _ => true | None => false end)).
  assert (G : forall l, pget k (map (fun e : pkey * Z => if snd (fst e) =? a then ((fst (fst e), a'), snd e) else e) (filter keep l)) <> None ->
                        pget k l <> None \/ snd k = a').
  { induction l as [|[k0 v] l IH]; cbn [filter map pget]; [auto|].
    destruct (keep (k0, v)); cbn [map pget fst snd].
    - destruct (snd k0 =? a) eqn:E; cbn [pget].
      + destruct (pkey_eqb (fst k0, a') k) eqn:E2.
        * apply pkey_eqb_eq in E2. subst k. cbn. auto.
        * intro N. destruct (IH N) as [L|R]; [|auto]. left. destruct (pkey_eqb k0 k); [discriminate | exact L].
      + destruct (pkey_eqb k0 k); [intros _; left; discriminate|]. exact IH.
    - intro N. destruct (IH N) as [L|R]; [|auto]. left. destruct (pkey_eqb k0 k); [discriminate | exact L]. }
  apply G.
Qed.

Lemma claim_keeps_keys : forall now p a s s' k, sp_claim actors now p a s = Ok s' ->
  pget k (s_claims s') <> None -> pget k (s_claims s) <> None.
Proof.
  intros now p a s s' k H. destruct (sp_claim_inv _ _ _ _ _ _ H) as (P & last & rw & _ & EC & _ & _ & _ & ->).
  cbn [s_claims]. rewrite pget_pset. destruct (pkey_eqb (p, a) k) eqn:E; [|auto].
  apply pkey_eqb_eq in E. subst k. intros _. congruence.
Qed.
Lemma claim_all_keeps_keys : forall now p l s s' k, claim_all actors now p l s = Ok s' ->
  pget k (s_claims s') <> None -> pget k (s_claims s) <> None.
Proof.
  intros now p l. induction l as [|a l IH]; intros s s' k H; cbn [claim_all] in H.
  - inversion H; auto.
  - unfold bind in H. destruct (sp_claim actors now p a s) as [s1| |] eqn:E; try discriminate.
    intro N. apply (claim_keeps_keys _ _ _ _ _ _ E). apply (IH _ _ _ H N).
Qed.

Lemma step_new_claim_record : forall now o s s' k, sp_apply dynguard payout_safe quorum_checked actors U now o s = Ok s' ->
  pget k (s_claims s') <> None ->
  pget k (s_claims s) <> None \/ (exists a p, o = ORegister a p /\ k = (p, a)) \/ (exists a b, o = ORotate a (snd k) b).
Proof.
  intros now o s s' k H N. destruct o; cbn [sp_apply] in H.
  - unfold sp_create in H. destruct (negb _); [discriminate|]. destruct (zhas _ _); [discriminate|]. inversion H; subst; auto.
  - unfold sp_deposit in H. destruct (negb _); [discriminate|]. destruct (negb _); [discriminate|].
    destruct (zget _ _); [|discriminate]. inversion H; subst; auto.
  - unfold sp_register in H. destruct (zget p (s_pools s)); [|discriminate]. destruct (negb _); [discriminate|].
    inversion H; subst s'. cbn [s_claims] in N. rewrite pget_pset in N.
    destruct (pkey_eqb (p, a) k) eqn:E; [|auto]. apply pkey_eqb_eq in E. right. left. exists a, p. auto.
  - apply soften_ok in H. left. exact (claim_keeps_keys _ _ _ _ _ _ H N).
  - unfold sp_update in H. destruct (zget _ _); [|discriminate]. inversion H; subst; auto.
  - apply soften_ok in H. unfold sp_distribute in H. destruct (zget _ _); [|discriminate]. left. exact (claim_all_keeps_keys _ _ _ _ _ _ H N).
  - apply soften_ok in H. unfold sp_withdraw in H. destruct (zget _ _); [|discriminate]. unfold bind in H.
    destruct (withdraw_loop _ _ _ _ _ _) as [[? ?]| |]; try discriminate. inversion H; subst; auto.
  - unfold sp_endblock, bind in H. destruct (endblock_pools _ _ _ _ _ _); try discriminate. inversion H; subst; auto.
  - destruct (negb _); [discriminate|]. destruct (negb _); [discriminate|]. inversion H; subst; auto.
  - destruct quorum_checked; [discriminate|]. destruct upd.
    + unfold sp_update in H. destruct (zget _ _); [|discriminate]. inversion H; subst; auto.
    + unfold sp_create in H. destruct (negb _); [discriminate|]. destruct (zhas _ _); [discriminate|]. inversion H; subst; auto.
  - destruct (negb _); [discriminate|]. destruct (zget _ _); [|discriminate]. inversion H; subst; auto.
  - destruct (negb pre_ok || (a =? a')); [discriminate|]. inversion H; subst s'. cbn [s_claims] in N.
    destruct (claims_rotate_keys _ _ _ _ N) as [L|R]; [auto|]. right. right. exists a, pre_ok. rewrite R. reflexivity.
Qed.

(* over every history: a (pool, account) claim record exists only if the account registered, or an
   address rotation moved a record to that account *)
Theorem claim_records_only_by_register : forall h s k,
  pget k (s_claims (sp_run dynguard payout_safe quorum_checked actors U s h)) <> None ->
  pget k (s_claims s) <> None \/ (exists now a p, In (now, ORegister a p) h /\ k = (p, a))
  \/ (exists now a b, In (now, ORotate a (snd k) b) h).
Proof.
  induction h as [|[now o] h IH]; intros s k N; cbn [sp_run fold_left] in N; [auto|].
  destruct (IH _ _ N) as [Hs|[(now' & a & p & Hin & ->)|(now' & a & b & Hin)]].
  - unfold sp_step in Hs. cbn [fst snd] in Hs.
    destruct (sp_apply dynguard payout_safe quorum_checked actors U now o s) as [s'| |] eqn:E; auto.
    destruct (step_new_claim_record _ _ _ _ _ E Hs) as [L|[(a & p & -> & ->)|(a & b & ->)]]; [auto| |].
    + right. left. exists now, a, p. split; [left; reflexivity | reflexivity].
    + right. right. exists now, a, b. left. reflexivity.
  - right. left. exists now', a, p. split; [right; assumption | reflexivity].
  - right. right. exists now', a, b. right. assumption.
Qed.
End ClaimRecords.

(* ---------------- with the error returned (repaired Apply) a removal is all or nothing *)
Theorem removal_all_or_nothing : forall U c s s', co_remove true U c s = Ok s' -> cs_colls s' = zdel c (cs_colls s).
Proof.
  intros U c s s' H. unfold co_remove in H. destruct (zget c (cs_colls s)) as [C|]; [|discriminate].
  unfold bind in H. destruct (remove_loop U c (co_bonds C) (co_contribs C) C (cs_bank s)) as [[[C' b'] done]| |]; try discriminate.
  destruct done; [inversion H; reflexivity | discriminate].
Qed.

(* ---------------- chk_sound for claims: whatever the model pays on a claim passes the spec checker's
   payment clauses (entitlement, registration, beneficiary, book), when the checker's ghost record
   agrees with the model state *)
Lemma max_list_ge : forall l w, In w l -> w <= max_list l.
Proof. induction l as [|x l IH]; intros w H; [contradiction|]. cbn [max_list fold_right]. destruct H as [->|H]; [lia|]. specialize (IH _ H). unfold max_list in IH. lia. Qed.
Lemma max_list_nonneg : forall l, 0 <= max_list l.
Proof. induction l as [|x l IH]; cbn [max_list fold_right]; [lia|]. unfold max_list in IH. lia. Qed.
Lemma zget_in : forall {A} k (v : A) l, zget k l = Some v -> In (k, v) l.
Proof.
  intros A k v l. induction l as [|[k' w] l IH]; cbn [zget]; [discriminate|].
  destruct (k' =? k) eqn:E; intro H; [inversion H; subst; left; f_equal; lia | right; auto].
Qed.

Section ChkSound.
Variable actors : list (Z * list Z).
Variable U : list Z.

Lemma weight_in_granted : forall T a, weight_of actors T a <> 0 -> In (weight_of actors T a) (granted_weights actors T a).
Proof.
  intros T a H. unfold weight_of, granted_weights in *. apply in_or_app.
  destruct (zget a (t_baccts T)) as [w|] eqn:EA.
  - left. apply zget_in in EA. apply in_map_iff. exists (a, w). split; [reflexivity|].
    apply filter_In. split; [assumption | cbn; lia].
  - right. destruct (find _ (roles_of actors a)) as [r|] eqn:F; [|congruence].
    apply find_some in F. destruct F as [Hin _].
    destruct (zget_last r (t_broles T)) as [w|] eqn:EL; [|congruence].
    unfold zget_last in EL. apply zget_in in EL. apply in_rev in EL.
    apply in_map_iff. exists (r, w). split; [reflexivity|]. apply filter_In. split; [assumption|].
    cbn [fst]. apply existsb_exists. exists r. split; [assumption | lia].
Qed.

Lemma ent_bound_absent : forall rates secs w d, ~ In d (map fst rates) -> ent_bound rates secs w d = 0 /\ zsum (map snd (filter (fun e => fst e =? d) rates)) = 0.
Proof.
  induction rates as [|[d0 r] rest IH]; intros secs w d Hn; unfold ent_bound in *; cbn [map filter fst snd zsum fold_right].
  - split; reflexivity.
  - cbn [map fst In] in Hn. destruct (IH secs w d ltac:(tauto)) as [A B]. unfold zsum in *.
    assert ((d0 =? d) = false) as -> by lia. split; lia.
Qed.
Lemma ent_bound_nodup : forall rates secs w d, NoDup (map fst rates) ->
  ent_bound rates secs w d <= 2 * (zsum (map snd (filter (fun e => fst e =? d) rates)) * secs * w) + PREC * PREC + PREC.
Proof.
  induction rates as [|[d0 r] rest IH]; intros secs w d ND.
  - unfold ent_bound, zsum. cbn. unfold PREC. lia.
  - cbn [map fst] in ND. inversion ND as [|? ? Hnin ND']; subst. specialize (IH secs w d ND').
    unfold ent_bound in *. cbn [map filter fst snd]. destruct (d0 =? d) eqn:E.
    + assert (d0 = d) by lia. subst d0. destruct (ent_bound_absent rest secs w d Hnin) as [A B]. unfold ent_bound in A.
      unfold zsum in *. cbn [map fold_right snd]. rewrite A, B. unfold PREC. lia.
    + unfold zsum in *. cbn [fold_right]. lia.
Qed.
Lemma rate_sum_nonneg : forall rates d, (forall e, In e rates -> 0 <= snd e) -> 0 <= zsum (map snd (filter (fun e => fst e =? d) rates)).
Proof.
  induction rates as [|[d0 r] rest IH]; intros d H; unfold zsum in *; cbn [filter map fold_right fst snd]; [lia|].
  assert (0 <= r) by (apply (H (d0, r)); left; reflexivity).
  specialize (IH d ltac:(intros; apply H; right; assumption)). destruct (d0 =? d); cbn [map fold_right snd]; lia.
Qed.
Lemma entitled_seconds_nonneg : forall T last now, 0 <= entitled_seconds T last now.
Proof. intros. unfold entitled_seconds. cbv zeta. lia. Qed.

Theorem model_claim_passes_checker : forall S now p a s s' P,
  sp_claim actors now p a s = Ok s' -> zget p (s_pools s) = Some P ->
  (* the checker's ghost record agrees with the model state *)
  zget p (ss_terms S) = Some (p_terms P) ->
  (forall d, In d U -> fget p (ss_book S) d = p_bal P d) ->
  pget (p, a) (ss_last S) = pget (p, a) (s_claims s) -> ss_actors S = actors ->
  (* well-formed terms and state *)
  NoDup (map fst (t_rates (p_terms P))) -> (forall e, In e (t_rates (p_terms P)) -> 0 <= snd e) ->
  (forall w, In w (granted_weights actors (p_terms P) a) -> 0 <= w) ->
  (forall d, 0 <= p_bal P d) -> a <> MODULE ->
  check_payment U S now p a (csub (s_bank s' a) (s_bank s a)) = [].
Proof.
  intros S now p a s s' P H EP GT GB GL GA ND RN WN BN AM.
  destruct (sp_claim_inv _ _ _ _ _ _ H) as (P1 & last & rw1 & EP1 & EC & Hw & Hpay & Hge & Es).
  rewrite EP in EP1. inversion EP1; subst P1. clear EP1.
  assert (Hpaid : forall d, csub (s_bank s' a) (s_bank s a) d = rw1 d).
  { intro d. rewrite Es. cbn [s_bank]. unfold bank_send, cadd, csub. rewrite Z.eqb_refl.
    destruct (a =? MODULE) eqn:E; [lia|]. lia. }
  pose proof (claim_pay_nonneg _ _ _ _ _ _ Hpay) as Hnn.
  assert (Hle : forall d, 0 <= p_bal P d -> rw1 d <= p_bal P d).
  { intros d Hd. destruct (in_dec Z.eq_dec d (map fst (t_rates (p_terms P)))) as [Hin|Hn].
    - apply (cge_on_spec _ _ _ Hge d Hin).
    - rewrite (claim_pay_support _ _ _ _ _ _ Hpay d Hn). assumption. }
  unfold check_payment. destruct (ceq U (csub (s_bank s' a) (s_bank s a)) czero); [reflexivity|].
  rewrite GT, GL, EC, GA.
  pose proof (weight_in_granted _ _ Hw) as Win.
  set (T := p_terms P) in *. set (w := weight_of actors T a) in *.
  assert (W0 : 0 <= w) by (apply WN; exact Win).
  assert (Hs : Forall (fun e => 0 <= snd e * w) (t_rates T)).
  { apply Forall_forall. intros e He. specialize (RN e He). nia. }
  pose proof (claim_le_entitlement actors P a last now rw1 Hpay Hs) as HE. fold T w in HE.
  assert (C1 : cnonneg U (csub (s_bank s' a) (s_bank s a)) = true).
  { unfold cnonneg. apply forallb_forall. intros d _. rewrite Hpaid. specialize (Hnn d). lia. }
  assert (C2 : within_entitlement U actors T a last now (csub (s_bank s' a) (s_bank s a)) = true).
  { unfold within_entitlement. cbv zeta. apply forallb_forall. intros d _. rewrite Hpaid.
    destruct (HE d) as [_ B]. pose proof (ent_bound_nodup (t_rates T) (entitled_seconds T last now) w d ND) as B2.
    pose proof (rate_sum_nonneg (t_rates T) d RN) as R0. pose proof (entitled_seconds_nonneg T last now) as S0.
    pose proof (max_list_ge _ _ Win) as WM. unfold rate_of.
    set (R := zsum (map snd (filter (fun e => fst e =? d) (t_rates T)))) in *.
    set (secs := entitled_seconds T last now) in *. set (wm := max_list (granted_weights actors T a)) in *.
    assert (R * secs * w <= R * secs * wm) by nia.
    assert (R * secs * wm <= Z.max 0 (R * secs * wm)) by lia.
    unfold PREC in *. lia. }
  assert (C3 : negb (match granted_weights actors T a with [] => true | _ => false end) = true).
  { destruct (granted_weights actors T a); [contradiction | reflexivity]. }
  assert (C4 : cle U (csub (s_bank s' a) (s_bank s a)) (fget p (ss_book S)) = true).
  { unfold cle. apply forallb_forall. intros d Hd. rewrite Hpaid, (GB d Hd). specialize (Hle d (BN d)). lia. }
  unfold flag. rewrite C1, C2, C3, C4. reflexivity.
Qed.
End ChkSound.

(* ---------------- collectives over histories: a contributor's bond record is the sum of what it
   put in by accepted create / contribute messages since its last withdrawal or removal *)
Lemma zget_app_new : forall {A} k (v : A) k' l,
  zget k' (l ++ [(k, v)]) = match zget k' l with Some x => Some x | None => if k =? k' then Some v else None end.
Proof. intros A k v k' l. induction l as [|[k0 w] l IH]; cbn [app zget]; [reflexivity|]. destruct (k0 =? k'); [reflexivity | exact IH]. Qed.
Lemma zget_zins_same : forall {A} k (v : A) l, zget k (zins k v l) = Some v.
Proof.
  intros A k v l. induction l as [|[k0 w] l IH]; cbn [zins zget]; [rewrite Z.eqb_refl; reflexivity|].
  destruct (k0 =? k) eqn:E; cbn [zget]; [rewrite Z.eqb_refl; reflexivity|].
  destruct (k <? k0); cbn [zget]; [rewrite Z.eqb_refl; reflexivity | rewrite E; exact IH].
Qed.
Lemma zget_zins_other : forall {A} k q (v : A) l, q <> k -> zget q (zins k v l) = zget q l.
Proof.
  intros A k q v l Hne. induction l as [|[k0 w] l IH]; cbn [zins zget].
  - destruct (k =? q) eqn:E; [lia | reflexivity].
  - destruct (k0 =? k) eqn:E; cbn [zget].
    + assert (k0 = k) by lia. subst k0. destruct (k =? q) eqn:E2; [lia | reflexivity].
    + destruct (k <? k0); cbn [zget].
      * destruct (k =? q) eqn:E2; [lia | reflexivity].
      * destruct (k0 =? q); [reflexivity | exact IH].
Qed.
Lemma zget_zdel_same : forall {A} k (l : list (Z * A)), zget k (zdel k l) = None.
Proof. intros A k l. induction l as [|[k0 w] l IH]; cbn [zdel zget]; [reflexivity|]. destruct (k0 =? k) eqn:E; [exact IH | cbn [zget]; rewrite E; exact IH]. Qed.
Lemma zget_zdel_other : forall {A} k q (l : list (Z * A)), q <> k -> zget q (zdel k l) = zget q l.
Proof.
  intros A k q l Hne. induction l as [|[k0 w] l IH]; cbn [zdel zget]; [reflexivity|].
  destruct (k0 =? k) eqn:E.
  - destruct (k0 =? q) eqn:E2; [lia | exact IH].
  - cbn [zget]. destruct (k0 =? q); [reflexivity | exact IH].
Qed.

Definition cbonds (s : cstate) (c a : Z) : fcoins :=
  match zget c (cs_colls s) with
  | Some C => match zget a (co_contribs C) with Some cc => cc_bonds cc | None => czero end
  | None => czero
  end.
Definition has_rec (s : cstate) (c a : Z) : bool :=
  match zget c (cs_colls s) with Some C => zhas a (co_contribs C) | None => false end.
Definition ghost := Z -> Z -> fcoins.
Definition at_key (c a c' a' : Z) : bool := (c' =? c) && (a' =? a).
(* the ghost record: set by create, increased by contribute, cleared by withdraw and for every
   record a removal deleted; nothing else touches it *)
Definition gstep (g : ghost) (o : co_op) (s s' : cstate) : ghost :=
  match o with
  | CCreate a c bonds _ _ _ => fun c' a' => if at_key c a c' a' then cof bonds else g c' a'
  | CContribute a c bonds => fun c' a' => if at_key c a c' a' then cadd (g c a) (cof bonds) else g c' a'
  | CWithdraw a c => fun c' a' => if at_key c a c' a' then czero else g c' a'
  | CRemove c => fun c' a' => if (c' =? c) && negb (has_rec s' c' a') then czero else g c' a'
  | CRotate a a2 _ =>     (* an address rotation renames the contributor *)
      fun c' x => if has_rec s c' a then (if x =? a2 then g c' a else if x =? a then czero else g c' x) else g c' x
  | _ => g
  end.

Section BondsHistory.
Variable ratomic : bool.
Variable actors : list (Z * list Z).
Variable U : list Z.

Definition gs_step (sg : cstate * ghost) (e : Z * co_op) : cstate * ghost :=
  match co_apply ratomic actors U (fst e) (snd e) (fst sg) with
  | Ok s' => (s', gstep (snd sg) (snd e) (fst sg) s')
  | _ => sg
  end.
Definition gs_run (sg : cstate * ghost) (h : list (Z * co_op)) : cstate * ghost := fold_left gs_step h sg.
Definition bonds_inv (sg : cstate * ghost) : Prop := forall c a d, cbonds (fst sg) c a d = snd sg c a d.

Lemma cbonds_set_coll : forall s c C b c' a', cbonds (set_coll c C s b) c' a' =
  if c' =? c then match zget a' (co_contribs C) with Some cc => cc_bonds cc | None => czero end else cbonds s c' a'.
Proof.
  intros s c C b c' a'. unfold cbonds, set_coll. cbn [cs_colls]. destruct (c' =? c) eqn:E.
  - assert (c' = c) by lia. subst c'. rewrite zget_zset_same. reflexivity.
  - rewrite zget_zset_other by lia. reflexivity.
Qed.

Lemma zget_map_snd : forall {A B} (f : A -> B) k (l : list (Z * A)),
  zget k (map (fun e => (fst e, f (snd e))) l) = option_map f (zget k l).
Proof. intros A B f k l. induction l as [|[k0 v] l IH]; cbn [map zget fst snd]; [reflexivity|]. destruct (k0 =? k); [reflexivity | exact IH]. Qed.

Lemma remove_loop_keeps : forall c bonds0 l C b C' b' done,
  remove_loop U c bonds0 l C b = Ok (C', b', done) ->
  forall a cc, zget a (co_contribs C') = Some cc -> zget a (co_contribs C) = Some cc.
Proof.
  intros c bonds0 l. induction l as [|[a0 cc0] l IH]; intros C b C' b' done H a cc Hz; cbn [remove_loop] in H.
  - inversion H; subst. exact Hz.
  - destruct (withdraw_core U a0 c bonds0 cc0 b) as [bonds' b1|bp|m]; try discriminate.
    + specialize (IH _ _ _ _ _ H a cc Hz). unfold with_bonds in IH. cbn [co_contribs] in IH.
      destruct (Z.eq_dec a a0) as [->|Hne]; [rewrite zget_zdel_same in IH; discriminate|].
      rewrite zget_zdel_other in IH by assumption. exact IH.
    + inversion H; subst. exact Hz.
Qed.

Lemma step_bonds_inv : forall now o s s' g, co_apply ratomic actors U now o s = Ok s' ->
  bonds_inv (s, g) -> bonds_inv (s', gstep g o s s').
Proof.
  intros now o s s' g H I c' a' d. unfold bonds_inv in I. cbn [fst snd] in *. destruct o; cbn [co_apply gstep] in *.
  - (* create *) unfold co_create in H. destruct (zhas c (cs_colls s)) eqn:Z; [discriminate|].
    destruct (negb _); [discriminate|]. destruct (negb _); [discriminate|]. inversion H; subst s'. clear H.
    unfold cbonds. cbn [cs_colls]. rewrite zget_app_new. unfold at_key.
    unfold zhas in Z. specialize (I c' a' d). unfold cbonds in I.
    destruct (zget c' (cs_colls s)) as [C0|] eqn:E0.
    + assert ((c' =? c) = false) as -> by (destruct (c' =? c) eqn:E; [assert (c' = c) by lia; subst; rewrite E0 in Z; discriminate | reflexivity]).
      exact I.
    + destruct (c =? c') eqn:E.
      * assert ((c' =? c) = true) as -> by lia. cbn [co_contribs zget andb]. destruct (a =? a') eqn:E2.
        -- assert ((a' =? a) = true) as -> by lia. reflexivity.
        -- assert ((a' =? a) = false) as -> by lia. rewrite <- I. reflexivity.
      * assert ((c' =? c) = false) as -> by lia. exact I.
  - (* contribute *) unfold co_contribute in H. destruct (zget c (cs_colls s)) as [C|] eqn:EC; [|discriminate].
    destruct (negb _); [discriminate|]. destruct (negb _); [discriminate|]. destruct (negb _); [discriminate|].
    unfold bind in H.
    assert (exists cc' b', s' = set_coll c (mkColl (cadd (co_bonds C) (cof bonds)) (co_donations C) (co_any C) (co_wroles C) (co_waccts C)
                                                   (zins a cc' (co_contribs C))) s b'
                           /\ forall d, cc_bonds cc' d = cbonds s c a d + cof bonds d) as (cc' & b' & -> & Hb).
    { unfold cbonds. rewrite EC. destruct (zget a (co_contribs C)) as [cc|].
      - destruct (portion U (cof bonds) (cc_don cc)); try discriminate. destruct (send_if U _ _ _ _); try discriminate.
        inversion H. eexists. eexists. split; [reflexivity|]. intro; reflexivity.
      - inversion H. eexists. eexists. split; [reflexivity|]. intro. unfold czero. cbn. lia. }
    rewrite cbonds_set_coll. cbn [co_contribs]. unfold at_key. destruct (c' =? c) eqn:E; cbn [andb].
    + assert (c' = c) by lia. subst c'. destruct (a' =? a) eqn:E2.
      * assert (a' = a) by lia. subst a'. rewrite zget_zins_same. rewrite Hb. unfold cadd. rewrite (I c a d). reflexivity.
      * rewrite zget_zins_other by lia. rewrite <- I. unfold cbonds. rewrite EC. reflexivity.
    + apply I.
  - (* donate *) unfold co_donate in H. destruct (_ || _); [discriminate|].
    destruct (zget c (cs_colls s)) as [C|] eqn:EC; [|discriminate]. destruct (zget a (co_contribs C)) as [cc|] eqn:ECC; [|discriminate].
    destruct (_ <? _); [discriminate|]. destruct (_ <? _); [discriminate|]. destruct (cc_dlock cc); [discriminate|].
    unfold bind in H.
    match type of H with match ?x with Ok _ => _ | Err _ => _ | Panic _ => _ end = Ok _ => destruct x as [b'| |]; try discriminate end.
    inversion H; subst s'. rewrite cbonds_set_coll. cbn [co_contribs]. destruct (c' =? c) eqn:E; [|apply I].
    assert (c' = c) by lia. subst c'. rewrite <- I. unfold cbonds. rewrite EC.
    destruct (Z.eq_dec a' a) as [->|Hne]; [rewrite zget_zset_same, ECC; reflexivity | rewrite zget_zset_other by assumption; reflexivity].
  - (* withdraw *) unfold co_withdraw in H. destruct (zget c (cs_colls s)) as [C|] eqn:EC; [|discriminate].
    destruct (zget a (co_contribs C)) as [cc|]; [|discriminate]. destruct (_ <? _); [discriminate|].
    destruct (withdraw_core U a c (co_bonds C) cc (cs_bank s)) as [bonds' b'|bp|m]; try discriminate.
    inversion H; subst s'. rewrite cbonds_set_coll. unfold with_bonds, at_key. cbn [co_contribs].
    destruct (c' =? c) eqn:E; cbn [andb]; [|apply I]. assert (c' = c) by lia. subst c'.
    destruct (a' =? a) eqn:E2.
    + assert (a' = a) by lia. subst a'. rewrite zget_zdel_same. reflexivity.
    + rewrite zget_zdel_other by lia. rewrite <- I. unfold cbonds. rewrite EC. reflexivity.
  - (* send donation *) unfold co_send_donation in H. destruct (zget c (cs_colls s)) as [C|] eqn:EC; [|discriminate].
    destruct (negb _); [discriminate|]. destruct (negb _); [discriminate|]. destruct (negb _); [discriminate|].
    inversion H; subst s'. rewrite cbonds_set_coll. cbn [co_contribs]. destruct (c' =? c) eqn:E; [|apply I].
    assert (c' = c) by lia. subst c'. rewrite <- I. unfold cbonds. rewrite EC. reflexivity.
  - (* remove *) unfold co_remove in H. destruct (zget c (cs_colls s)) as [C|] eqn:EC; [|discriminate].
    unfold bind in H. destruct (remove_loop U c (co_bonds C) (co_contribs C) C (cs_bank s)) as [[[C' b'] done]| |] eqn:EL; try discriminate.
    pose proof (remove_loop_keeps _ _ _ _ _ _ _ _ EL) as K.
    destruct (c' =? c) eqn:E; cbn [andb].
    + assert (c' = c) by lia. subst c'. destruct done.
      * inversion H; subst s'. unfold has_rec, cbonds. cbn [cs_colls]. rewrite zget_zdel_same. reflexivity.
      * destruct ratomic; [discriminate|]. inversion H; subst s'. unfold has_rec. rewrite cbonds_set_coll. rewrite Z.eqb_refl.
        unfold set_coll. cbn [cs_colls]. rewrite zget_zset_same. unfold zhas.
        destruct (zget a' (co_contribs C')) as [cc|] eqn:EZ; cbn [negb]; [|reflexivity].
        rewrite <- I. unfold cbonds. rewrite EC. rewrite (K _ _ EZ). reflexivity.
    + rewrite <- I. destruct done.
      * inversion H; subst s'. unfold cbonds. cbn [cs_colls]. rewrite zget_zdel_other by lia. reflexivity.
      * destruct ratomic; [discriminate|]. inversion H; subst s'. rewrite cbonds_set_coll. rewrite E. reflexivity.
  - (* seed *) destruct (zget c (cs_colls s)) as [C|] eqn:EC; [|discriminate]. destruct (negb _); [discriminate|].
    inversion H; subst s'. rewrite cbonds_set_coll. cbn [co_contribs]. destruct (c' =? c) eqn:E; [|apply I].
    assert (c' = c) by lia. subst c'. rewrite <- I. unfold cbonds. rewrite EC. reflexivity.
  - (* address rotation *) destruct (negb pre_ok || (a =? a'0)) eqn:G; [discriminate|]. inversion H; subst s'. clear H.
    assert (Hne : a <> a'0) by (apply Bool.orb_false_iff in G; lia).
    unfold cbonds at 1. cbn [cs_colls]. rewrite zget_map_snd. unfold has_rec.
    pose proof (I c' a' d) as Ix. pose proof (I c' a d) as Ia. unfold cbonds in Ix, Ia.
    destruct (zget c' (cs_colls s)) as [C|] eqn:EC; cbn [option_map]; [|exact Ix].
    unfold rotate_contrib, zhas. destruct (zget a (co_contribs C)) as [cc|] eqn:ECC; [|exact Ix].
    cbn [co_contribs]. destruct (a' =? a'0) eqn:E1.
    + assert (a' = a'0) by lia. subst a'. rewrite zget_zins_same. exact Ia.
    + rewrite zget_zins_other by lia. destruct (a' =? a) eqn:E2.
      * assert (a' = a) by lia. subst a'. rewrite zget_zdel_same. reflexivity.
      * rewrite zget_zdel_other by lia. exact Ix.
Qed.

Theorem bonds_are_sum_of_contributions : forall h sg, bonds_inv sg -> bonds_inv (gs_run sg h).
Proof.
  induction h as [|e h IH]; intros [s g] I; [exact I|]. cbn [gs_run fold_left]. apply IH.
  unfold gs_step. cbn [fst snd]. destruct (co_apply ratomic actors U (fst e) (snd e) s) as [s'| |] eqn:E; try exact I.
  exact (step_bonds_inv _ _ _ _ _ E I).
Qed.
Corollary bonds_from_empty : forall h b, bonds_inv (gs_run (mkCS [] b, fun _ _ => czero) h).
Proof. intros h b. apply bonds_are_sum_of_contributions. intros c a d. reflexivity. Qed.
End BondsHistory.

(* ---------------- the history theorems with the roles following address rotations (actors threaded) *)
Section Threaded.
Variable dynguard payout_safe quorum_checked : bool.
Variable order U : list Z.
Notation wstep := (spw_step dynguard payout_safe quorum_checked order U).
Notation wrun := (spw_run dynguard payout_safe quorum_checked order U).

Theorem books_le_module_with_rotations : forall h w,
  Forall (fun e => op_wf (snd e)) h -> books_inv (snd w) -> books_inv (snd (wrun w h)).
Proof.
  induction h as [|e h IH]; intros w WF I; [exact I|].
  inversion WF as [|? ? W1 W2]; subst. cbn [spw_run fold_left]. apply IH; [assumption|].
  unfold spw_step. destruct (sp_apply dynguard payout_safe quorum_checked (fst w) U (fst e) (snd e) (snd w)) as [s'| |] eqn:E; try exact I.
  cbn [snd]. destruct (step_facts _ _ _ _ _ _ _ _ _ E W1) as [A _]. intro d. specialize (A d). specialize (I d). lia.
Qed.

Theorem funds_leave_only_by_payout_with_rotations : forall h w d,
  Forall (fun e => op_wf (snd e)) h ->
  s_bank (snd (wrun w h)) MODULE d < s_bank (snd w) MODULE d ->
  exists e, In e h /\ is_payout (snd e) = true.
Proof.
  induction h as [|e h IH]; intros w d WF Hlt; cbn [spw_run fold_left] in Hlt; [lia|].
  inversion WF as [|? ? W1 W2]; subst.
  destruct (Z_lt_dec (s_bank (snd (wstep w e)) MODULE d) (s_bank (snd w) MODULE d)) as [L|L].
  - exists e. split; [left; reflexivity|]. unfold spw_step in L.
    destruct (sp_apply dynguard payout_safe quorum_checked (fst w) U (fst e) (snd e) (snd w)) as [s'| |] eqn:E; try lia.
    cbn [snd] in L. exact (module_outflow_needs_payout_op _ _ _ _ _ _ _ _ _ _ E W1 L).
  - destruct (IH (wstep w e) d W2 ltac:(fold (wrun (wstep w e) h) in Hlt; lia)) as (e' & Hin & Hp).
    exists e'. split; [right; exact Hin | exact Hp].
Qed.
End Threaded.
