(* C13: lemmas and proofs about Model/Monetary.v *)
From Sekai Require Import Base.Prelude Base.Dec Model.Monetary Model.C13Check Gen.MintBurn.
From Coq Require Import ZifyBool.

Local Open Scope Z_scope.

(* ================================================================ sdk.Dec rounding facts *)
Lemma PREC_pos : 0 < PREC. Proof. reflexivity. Qed.
Lemma HALF_twice : 2 * HALF = PREC. Proof. reflexivity. Qed.

Lemma chop_round_pos_bounds : forall d, 0 <= d ->
  2 * d - PREC <= 2 * chop_round_pos d * PREC <= 2 * d + PREC.
Proof.
  intros d Hd. unfold chop_round_pos.
  pose proof (Z.div_mod d PREC ltac:(discriminate)) as E.
  pose proof (Z.mod_pos_bound d PREC PREC_pos) as B.
  pose proof HALF_twice as HT.
  set (q := d / PREC) in *. set (r := d mod PREC) in *.
  assert (Hq : PREC * q = d - r) by lia. clearbody q r.
  destruct (r =? 0) eqn:E0; [lia|].
  destruct (r <? HALF) eqn:E1; [lia|].
  destruct (HALF <? r) eqn:E2; [lia|].
  destruct (Z.even q); lia.
Qed.

Lemma chop_round_pos_nonneg : forall d, 0 <= d -> 0 <= chop_round_pos d.
Proof.
  intros d Hd. unfold chop_round_pos.
  pose proof (Z.div_pos d PREC Hd PREC_pos).
  destruct (d mod PREC =? 0); [lia|]. destruct (d mod PREC <? HALF); [lia|].
  destruct (HALF <? d mod PREC); [lia|]. destruct (Z.even (d / PREC)); lia.
Qed.

Lemma chop_round_bounds : forall d, 2 * d - PREC <= 2 * chop_round d * PREC <= 2 * d + PREC.
Proof.
  intros d. unfold chop_round. destruct (d <? 0) eqn:E.
  - pose proof (chop_round_pos_bounds (- d) ltac:(lia)). lia.
  - apply chop_round_pos_bounds. lia.
Qed.

Lemma chop_round_nonneg : forall d, 0 <= d -> 0 <= chop_round d.
Proof. intros d Hd. unfold chop_round. destruct (d <? 0) eqn:E; [lia|]. now apply chop_round_pos_nonneg. Qed.

(* an exact multiple of 10^18 is chopped exactly *)
Lemma chop_round_pos_mul : forall k, 0 <= k -> chop_round_pos (k * PREC) = k.
Proof.
  intros k Hk. unfold chop_round_pos. rewrite Z.mod_mul by discriminate. rewrite Z.div_mul by discriminate. reflexivity.
Qed.
Lemma chop_round_mul : forall k, chop_round (k * PREC) = k.
Proof.
  intros k. unfold chop_round. pose proof PREC_pos.
  destruct (k * PREC <? 0) eqn:E.
  - replace (- (k * PREC)) with ((- k) * PREC) by lia. rewrite chop_round_pos_mul; nia.
  - apply chop_round_pos_mul. nia.
Qed.

Lemma dmul_of_int_l : forall a r x, dmul (dec_of_int a) r = Ok x -> x = a * r.
Proof.
  intros a r x. unfold dmul, dec_of_int.
  replace (a * PREC * r) with ((a * r) * PREC) by lia. rewrite chop_round_mul.
  destruct (dec_in_range (a * r)); congruence.
Qed.
Lemma dmul_of_int_r : forall a r x, dmul r (dec_of_int a) = Ok x -> x = r * a.
Proof.
  intros a r x. unfold dmul, dec_of_int.
  replace (r * (a * PREC)) with ((r * a) * PREC) by lia. rewrite chop_round_mul.
  destruct (dec_in_range (r * a)); congruence.
Qed.

(* Quo by an integer divisor p > 0 of a non-negative numerator: at most half a unit (10^-18) above y/p *)
Lemma dquo_of_int_upper : forall y p z, 0 <= y -> 0 < p -> dquo y (dec_of_int p) = Ok z ->
  0 <= z /\ 2 * z * p <= 2 * y + p.
Proof.
  intros y p z Hy Hp. unfold dquo, dec_of_int. pose proof PREC_pos as HP.
  destruct (p * PREC =? 0) eqn:E; [nia|].
  set (t := Z.quot (y * PREC * PREC) (p * PREC)).
  destruct (dec_in_range (chop_round t)); [|discriminate]. intros H; inversion H; subst z; clear H.
  assert (Ht : t = (y * PREC) / p).
  { unfold t. rewrite Z.quot_div_nonneg by nia.
    replace (y * PREC * PREC) with ((y * PREC) * PREC) by lia.
    rewrite Z.div_mul_cancel_r by lia. reflexivity. }
  assert (Ht0 : 0 <= t) by (rewrite Ht; apply Z.div_pos; nia).
  assert (Htp : t * p <= y * PREC).
  { rewrite Ht. pose proof (Z.mul_div_le (y * PREC) p Hp). lia. }
  pose proof (chop_round_bounds t) as [_ Hu]. pose proof (chop_round_nonneg t Ht0) as Hn.
  split; [exact Hn|].
  (* 2 c PREC <= 2 t + PREC ; t p <= y PREC  ==> 2 c p PREC <= 2 y PREC + p PREC *)
  assert (2 * chop_round t * PREC * p <= (2 * t + PREC) * p) by (apply Z.mul_le_mono_nonneg_r; lia).
  assert (2 * chop_round t * p * PREC <= (2 * y + p) * PREC) by nia.
  apply Z.mul_le_mono_pos_r with (p := PREC); lia.
Qed.

Lemma dquo_of_int_lower : forall y p z, 0 <= y -> 0 < p -> dquo y (dec_of_int p) = Ok z ->
  2 * y - p - 2 * p <= 2 * z * p.
Proof.
  intros y p z Hy Hp. unfold dquo, dec_of_int. pose proof PREC_pos as HP.
  destruct (p * PREC =? 0) eqn:E; [nia|].
  set (t := Z.quot (y * PREC * PREC) (p * PREC)).
  destruct (dec_in_range (chop_round t)); [|discriminate]. intros H; inversion H; subst z; clear H.
  assert (Ht : t = (y * PREC) / p).
  { unfold t. rewrite Z.quot_div_nonneg by nia.
    replace (y * PREC * PREC) with ((y * PREC) * PREC) by lia.
    rewrite Z.div_mul_cancel_r by lia. reflexivity. }
  assert (Htp : y * PREC < t * p + p).
  { rewrite Ht. pose proof (Z.mul_succ_div_gt (y * PREC) p Hp). lia. }
  pose proof (chop_round_bounds t) as [Hl _].
  assert ((2 * t - PREC) * p <= 2 * chop_round t * PREC * p) by (apply Z.mul_le_mono_nonneg_r; lia).
  assert ((2 * y - p - 2 * p) * PREC <= 2 * chop_round t * p * PREC) by nia.
  apply Z.mul_le_mono_pos_r with (p := PREC); lia.
Qed.

(* ================================================================ inflation target *)
(* The target computed by AllocateTokens exceeds the exact pro-rata growth
   a * rate * dt / period (rate scaled by 10^18) by at most half of 10^-18 of a base unit. *)
Lemma target_sharp : forall ps rate period now a tgt,
  sn_amt ps = Some a -> 0 <= a -> 0 <= rate -> sn_time ps <= now -> 0 < as_int64 period ->
  target_supply ps rate period now = Ok tgt ->
  a <= tgt /\ 2 * (tgt - a) * PREC * as_int64 period <= 2 * (a * rate * (now - sn_time ps)) + as_int64 period.
Proof.
  intros ps rate period now a tgt Ha Ha0 Hr Ht Hp. unfold target_supply. rewrite Ha.
  destruct (dmul (dec_of_int a) rate) as [x| |] eqn:E1; cbn [bind]; try discriminate.
  apply dmul_of_int_l in E1. subst x.
  destruct (dmul (a * rate) (dec_of_int (now - sn_time ps))) as [y| |] eqn:E2; cbn [bind]; try discriminate.
  apply dmul_of_int_r in E2. subst y.
  destruct (dquo (a * rate * (now - sn_time ps)) (dec_of_int (as_int64 period))) as [z| |] eqn:E3; cbn [bind]; try discriminate.
  intros H; inversion H; subst tgt; clear H.
  set (P := as_int64 period) in *. set (y := a * rate * (now - sn_time ps)) in *.
  assert (Hy : 0 <= y) by (unfold y; apply Z.mul_nonneg_nonneg; [apply Z.mul_nonneg_nonneg|]; lia).
  destruct (dquo_of_int_upper y P z Hy Hp E3) as [Hz Hu].
  unfold trunc_int, chop_trunc. pose proof PREC_pos as HP.
  rewrite Z.quot_div_nonneg by lia.
  pose proof (Z.mul_div_le z PREC HP) as Hd. pose proof (Z.div_pos z PREC Hz HP) as Hd0.
  set (w := z / PREC) in *. clearbody w y P.
  split; [lia|].
  replace (a + w - a) with w by lia.
  assert (2 * (PREC * w) * P <= 2 * z * P) by (apply Z.mul_le_mono_nonneg_r; lia).
  replace (2 * w * PREC * P) with (2 * (PREC * w) * P) by ring.
  lia.
Qed.

(* corollary in the form of the property text: target <= snapshot + ceil(snapshot * rate * dt / period) *)
Lemma cdiv_spec_le : forall n d k, 0 < d -> (k - 1) * d < n -> k <= cdiv n d.
Proof.
  intros n d k Hd H. unfold cdiv.
  assert ((- n) / d < - k + 1); [|lia].
  apply Z.div_lt_upper_bound; lia || nia.
Qed.

Lemma target_le_ceil : forall ps rate period now a tgt,
  sn_amt ps = Some a -> 0 <= a -> 0 <= rate -> sn_time ps <= now -> 0 < as_int64 period ->
  target_supply ps rate period now = Ok tgt ->
  tgt <= a + cdiv (a * rate * (now - sn_time ps)) (PREC * as_int64 period).
Proof.
  intros ps rate period now a tgt Ha Ha0 Hr Ht Hp H.
  destruct (target_sharp _ _ _ _ _ _ Ha Ha0 Hr Ht Hp H) as [Hge Hs].
  pose proof PREC_pos as HP.
  set (P := as_int64 period) in *. set (y := a * rate * (now - sn_time ps)) in *.
  assert (tgt - a <= cdiv y (PREC * P)); [|lia].
  apply cdiv_spec_le; [nia|].
  (* 2 (k-1) PREC P = 2 k PREC P - 2 PREC P <= 2y + P - 2 PREC P < 2 y *)
  assert (P < 2 * PREC * P) by nia.
  nia.
Qed.

(* what AllocateTokens does to the native supply *)
Lemma reg_mint_supply : forall s d amt s', reg_mint s d amt = Ok s' ->
  0 < amt /\ s_bank s' = zadd d amt (s_bank s) /\ s_psnap s' = s_psnap s /\ s_ysnap s' = s_ysnap s
  /\ s_params s' = s_params s /\ s_now s' = s_now s /\ s_pools s' = s_pools s /\ s_ubis s' = s_ubis s /\ s_bals s' = s_bals s.
Proof.
  intros s d amt s'. unfold reg_mint.
  destruct (reg_upsert _ _ _) as [r| |]; simpl; try discriminate.
  destruct (amt <=? 0) eqn:E; [discriminate|]. intros H; inversion H; subst; simpl. repeat split; lia.
Qed.

Lemma aget_aset_same : forall A k (v : A) l, aget k (aset k v l) = Some v.
Proof.
  induction l as [|[k' v'] l IH]; simpl.
  - rewrite Z.eqb_refl. reflexivity.
  - destruct (k' =? k) eqn:E; simpl; [rewrite Z.eqb_refl; reflexivity| rewrite E; exact IH].
Qed.
Lemma aget_aset_other : forall A k k' (v : A) l, k' <> k -> aget k' (aset k v l) = aget k' l.
Proof.
  induction l as [|[k0 v0] l IH]; simpl; intros Hne.
  - destruct (k =? k') eqn:E; [lia|reflexivity].
  - destruct (k0 =? k) eqn:E; simpl.
    + destruct (k0 =? k') eqn:E2; destruct (k =? k') eqn:E3; try reflexivity; lia.
    + destruct (k0 =? k'); [reflexivity|]. apply IH. exact Hne.
Qed.
Lemma zget_zadd_same : forall k d l, zget k (zadd k d l) = zget k l + d.
Proof. intros. unfold zadd, zget at 1. rewrite aget_aset_same. reflexivity. Qed.
Lemma zget_zadd_other : forall k k' d l, k' <> k -> zget k' (zadd k d l) = zget k' l.
Proof. intros. unfold zadd, zget. rewrite aget_aset_other by assumption. reflexivity. Qed.

Lemma reg_mint_nat : forall s amt s', reg_mint s native amt = Ok s' -> nat_supply s' = nat_supply s + amt.
Proof.
  intros s amt s' H. apply reg_mint_supply in H. destruct H as (_ & Hb & _).
  unfold nat_supply, supply_of. rewrite Hb. apply zget_zadd_same.
Qed.

(* allocation either leaves the native supply alone or lifts it exactly to the target *)
Lemma allocate_supply : forall s s', allocate s = Ok s' ->
  nat_supply s' = nat_supply s \/
  exists tgt, target_supply (s_psnap s) (p_rate (s_params s)) (p_period (s_params s)) (s_now s) = Ok tgt
              /\ nat_supply s < tgt /\ nat_supply s' = tgt
              /\ inflation_possible (s_ysnap s) (p_maxann (s_params s)) (nat_supply s) (s_now s) = Ok true.
Proof.
  intros s s'. unfold allocate.
  destruct (inflation_possible _ _ _ _) as [ip| |] eqn:EI; simpl; try discriminate.
  destruct ip; simpl; [|intros H; inversion H; auto].
  destruct (target_supply _ _ _ _) as [tgt| |] eqn:ET; simpl; try discriminate.
  destruct (nat_supply s <? tgt) eqn:E1.
  - destruct (0 <? tgt - nat_supply s) eqn:E2; [|lia].
    destruct (reg_mint s native (tgt - nat_supply s)) as [s1| |] eqn:EM; try discriminate.
    intros H; inversion H; subst s1. right. exists tgt. apply reg_mint_nat in EM. repeat split; lia.
  - simpl. intros H; inversion H; auto.
Qed.

Lemma inflation_le_target_lemma : forall s s' a,
  allocate s = Ok s' -> sn_amt (s_psnap s) = Some a -> 0 <= a -> 0 <= p_rate (s_params s) ->
  sn_time (s_psnap s) <= s_now s -> 0 < as_int64 (p_period (s_params s)) ->
  nat_supply s' <= Z.max (nat_supply s)
     (a + cdiv (a * p_rate (s_params s) * (s_now s - sn_time (s_psnap s))) (PREC * as_int64 (p_period (s_params s)))).
Proof.
  intros s s' a H Ha Ha0 Hr Ht Hp.
  destruct (allocate_supply _ _ H) as [E|(tgt & ET & _ & E & _)]; [lia|].
  pose proof (target_le_ceil _ _ _ _ _ _ Ha Ha0 Hr Ht Hp ET). lia.
Qed.

(* the floor form is NOT a theorem: half-even rounding of the 18th decimal followed by truncation
   can land on the next integer *)
Lemma target_floor_refuted : exists ps rate period now a tgt,
  sn_amt ps = Some a /\ 0 <= a /\ 0 <= rate /\ sn_time ps <= now /\ 0 < as_int64 period /\
  target_supply ps rate period now = Ok tgt /\
  a + (a * rate * (now - sn_time ps)) / (PREC * as_int64 period) < tgt.
Proof.
  exists (mkSnap 0 (Some (2629800 * PREC - 1))), 1, 2629800, 1, (2629800 * PREC - 1), (2629800 * PREC).
  vm_compute. repeat split; congruence.
Qed.

(* ================================================================ annual gate *)
Lemma gate_closed_blocks : forall ys maxann supply now,
  0 <= maxann -> spec_gate_closed ys maxann supply now = true ->
  inflation_possible ys maxann supply now <> Ok true.
Proof.
  intros ys maxann supply now Hm. unfold spec_gate_closed, inflation_possible.
  destruct (sn_amt ys) as [a|]; [|discriminate].
  remember (now - sn_time ys + 2592000 - 1) as num eqn:Enum.
  intros H. apply andb_prop in H. destruct H as [H H3]. apply andb_prop in H. destruct H as [H1 H2].
  apply Z.ltb_lt in H1. apply Z.leb_le in H2. apply Z.leb_le in H3.
  assert (Ha : 0 < a) by exact H1. assert (Hmi : 0 <= num / 2592000) by exact H2.
  assert (Hnum : 0 <= num).
  { destruct (Z.neg_nonneg_cases num) as [Hn|]; [|assumption].
    pose proof (Z.div_lt_upper_bound num 2592000 0 ltac:(lia) ltac:(lia)). lia. }
  assert (Emi : month_index (sn_time ys) now = num / 2592000).
  { unfold month_index, month. subst num. apply Z.quot_div_nonneg; lia. }
  rewrite Emi. clear Emi Hnum Enum. set (mi := num / 2592000) in *. clearbody mi. clear num.
  destruct (a =? 0) eqn:E0; [lia|].
  pose proof PREC_pos as HP.
  assert (Hsup : a <= supply) by nia.
  destruct (dquo (dec_of_int supply) (dec_of_int a)) as [q| |] eqn:EQ; cbn [bind]; try discriminate.
  unfold dsub. destruct (dec_in_range (q - dec_one)); cbn [bind]; [|discriminate].
  destruct (dmul maxann (dec_of_int mi)) as [m| |] eqn:EM; cbn [bind]; try discriminate.
  apply dmul_of_int_r in EM. subst m.
  destruct (dquo (maxann * mi) (dec_of_int 12)) as [thr| |] eqn:ET; cbn [bind]; try discriminate.
  assert (Hy : 0 <= dec_of_int supply) by (unfold dec_of_int; nia).
  pose proof (dquo_of_int_lower _ _ _ Hy Ha EQ) as HL.
  assert (Hm0 : 0 <= maxann * mi) by nia.
  destruct (dquo_of_int_upper (maxann * mi) 12 thr Hm0 eq_refl ET) as [_ HU].
  unfold dec_of_int, dec_one in *.
  intros Hc. inversion Hc as [Hc']. apply Bool.negb_true_iff in Hc'.
  assert (Hlt : q - PREC < thr) by lia. clear Hc Hc'.
  assert (Hq : q <= thr + PREC - 1) by lia.
  assert (H4 : 2 * q * a <= 2 * (thr + PREC - 1) * a) by (apply Z.mul_le_mono_nonneg_r; lia).
  (* 24 PREC (supply - a) <= 24 a thr + 12 a *)
  assert (H5 : 2 * (supply * PREC) - 3 * a <= 2 * thr * a + 2 * PREC * a - 2 * a) by lia.
  assert (H6 : 24 * thr * a <= (2 * (maxann * mi) + 12) * a).
  { replace (24 * thr * a) with ((2 * thr * 12) * a) by ring. apply Z.mul_le_mono_nonneg_r; lia. }
  nia.
Qed.

Lemma process_ubi_blocked : forall cf s u s',
  inflation_possible (s_ysnap s) (p_maxann (s_params s)) (nat_supply s) (s_now s) <> Ok true ->
  process_ubi cf s u = Ok s' -> s' = s.
Proof.
  intros cf s u s' Hn. unfold process_ubi.
  destruct (inflation_possible _ _ _ _) as [[|]| |]; cbn [bind negb]; try discriminate; [congruence|].
  intros H; inversion H; reflexivity.
Qed.
Lemma ubi_end_blocked : forall cf us s s',
  inflation_possible (s_ysnap s) (p_maxann (s_params s)) (nat_supply s) (s_now s) <> Ok true ->
  ubi_end cf us s = Ok s' -> s' = s.
Proof.
  intros cf. induction us as [|u r IH]; intros s s' Hn; cbn [ubi_end].
  - intros H; inversion H; reflexivity.
  - destruct (ubi_due cf (s_now s) u); [|apply IH; assumption].
    destruct (process_ubi cf s u) as [s1| |] eqn:E; [| apply IH; assumption | discriminate].
    apply process_ubi_blocked in E; [|assumption]. subst s1. apply IH; assumption.
Qed.
Lemma allocate_blocked : forall s s',
  inflation_possible (s_ysnap s) (p_maxann (s_params s)) (nat_supply s) (s_now s) <> Ok true ->
  allocate s = Ok s' -> s' = s.
Proof.
  intros s s' Hn. unfold allocate.
  destruct (inflation_possible _ _ _ _) as [[|]| |]; cbn [bind negb]; try discriminate; [congruence|].
  intros H; inversion H; reflexivity.
Qed.

(* no minting at all (inflation or UBI) in a block that starts with the gate closed *)
Lemma no_mint_after_annual_max_lemma : forall cf s dt s1 s2 s3,
  0 <= p_maxann (s_params s) ->
  spec_gate_closed (s_ysnap s) (p_maxann (s_params s)) (nat_supply s) (s_now s + dt) = true ->
  block_parts cf s dt = Ok (s1, s2, s3) ->
  nat_supply s1 = nat_supply s /\ nat_supply s2 = nat_supply s /\ nat_supply s3 = nat_supply s.
Proof.
  intros cf s dt s1 s2 s3 Hm Hg. unfold block_parts.
  set (s0 := set_time s (s_now s + dt) (s_height s + 1)).
  assert (Hn : inflation_possible (s_ysnap s0) (p_maxann (s_params s0)) (nat_supply s0) (s_now s0) <> Ok true)
    by (apply gate_closed_blocks; assumption).
  destruct (1 <? s_height s0).
  - destruct (allocate s0) as [x| |] eqn:EA; cbn [bind]; try discriminate.
    apply allocate_blocked in EA; [|assumption]. subst x.
    destruct (ubi_end cf (s_ubis s0) s0) as [y| |] eqn:EU; cbn [bind]; try discriminate.
    apply ubi_end_blocked in EU; [|assumption]. subst y.
    intros H; inversion H; subst. repeat split; reflexivity.
  - cbn [bind].
    destruct (ubi_end cf (s_ubis s0) s0) as [y| |] eqn:EU; cbn [bind]; try discriminate.
    apply ubi_end_blocked in EU; [|assumption]. subst y.
    intros H; inversion H; subst. repeat split; reflexivity.
Qed.

(* ================================================================ UBI hard cap *)
Definition ubi_exact_term (u : ubi) : Z := u_amount u * 31556952 / u_period u.
Lemma spec_ubi_yearly_eq : forall us, spec_ubi_yearly us = zsum (map ubi_exact_term us).
Proof.
  induction us as [|u r IH]; [reflexivity|]. unfold spec_ubi_yearly in *. cbn [map zsum fold_right]. 
  change (fold_right Z.add 0) with zsum. rewrite IH. unfold ubi_exact_term.
  destruct (u_period u =? 0) eqn:E; [|reflexivity].
  apply Z.eqb_eq in E. rewrite E. rewrite Zdiv_0_r. reflexivity.
Qed.

(* every stored record is in the uint64 domain and its product does not wrap *)
Definition ubi_small (u : ubi) : Prop := 0 <= u_amount u /\ 0 <= u_period u /\ u_amount u * 31556952 < two64.
Definition no_u64_overflow (us : list ubi) (amount period : Z) : Prop :=
  Forall ubi_small us /\ 0 <= amount /\ 0 <= period /\ amount * 31556952 < two64
  /\ spec_ubi_yearly us + amount * 31556952 / period < two64.

Lemma wrap64_small : forall x, 0 <= x < two64 -> wrap64 x = x.
Proof. intros x H. unfold wrap64. apply Z.mod_small. exact H. Qed.

Lemma ubi_term_nonneg : forall u, ubi_small u -> 0 <= ubi_exact_term u.
Proof.
  intros u (Ha & Hp & _). unfold ubi_exact_term.
  destruct (Z.eq_dec (u_period u) 0) as [E|E]; [rewrite E, Zdiv_0_r; lia|].
  apply Z.div_pos; lia.
Qed.
Lemma ubi_yearly_nonneg : forall us, Forall ubi_small us -> 0 <= zsum (map ubi_exact_term us).
Proof.
  induction 1 as [|u r Hu Hr IH]; cbn [map zsum fold_right]; [lia|].
  change (fold_right Z.add 0) with zsum. pose proof (ubi_term_nonneg u Hu). lia.
Qed.

Lemma ubi_sum_nowrap : forall us acc r, Forall ubi_small us -> 0 <= acc ->
  acc + zsum (map ubi_exact_term us) < two64 ->
  ubi_sum us acc = Ok r -> r = acc + zsum (map ubi_exact_term us).
Proof.
  induction us as [|u us IH]; intros acc r Hs Ha Hb; cbn [ubi_sum map zsum fold_right].
  - intros H; inversion H; lia.
  - change (fold_right Z.add 0) with zsum in *. cbn [map zsum fold_right] in Hb. change (fold_right Z.add 0) with zsum in Hb.
    inversion Hs as [|? ? Hu Hr]; subst.
    unfold ubi_term. destruct (u_period u =? 0) eqn:E; cbn [bind]; [discriminate|].
    pose proof (ubi_term_nonneg u Hu) as Ht. pose proof (ubi_yearly_nonneg us Hr) as Hy.
    destruct Hu as (Hu1 & Hu2 & Hu3).
    rewrite (wrap64_small (u_amount u * year_seconds)) by (unfold year_seconds; lia).
    change (u_amount u * year_seconds / u_period u) with (ubi_exact_term u).
    rewrite wrap64_small by lia.
    intros H. apply IH in H; try assumption; lia.
Qed.

Lemma ubi_insert_yearly : forall u us, Forall ubi_small us ->
  zsum (map ubi_exact_term (ubi_insert u us)) <= zsum (map ubi_exact_term us) + ubi_exact_term u.
Proof.
  intros u us H. induction H as [|v r Hv Hr IH]; cbn [ubi_insert map zsum fold_right]; [lia|].
  change (fold_right Z.add 0) with zsum in *.
  pose proof (ubi_term_nonneg v Hv).
  destruct (u_name v =? u_name u); cbn [map zsum fold_right]; change (fold_right Z.add 0) with zsum; [lia|].
  destruct (u_name u <? u_name v); cbn [map zsum fold_right]; change (fold_right Z.add 0) with zsum; lia.
Qed.

Lemma ubi_within_hardcap_lemma : forall cf s name amount period start end_ pool s',
  cf_ubi_exact cf = false ->
  no_u64_overflow (s_ubis s) amount period ->
  ubi_upsert cf s name amount period start end_ pool = Ok s' ->
  spec_ubi_yearly (s_ubis s') <= p_hardcap (s_params s') /\ p_hardcap (s_params s') = p_hardcap (s_params s).
Proof.
  intros cf s name amount period start end_ pool s' Hcf (Hs & Ha & Hp & Hm & Hb). unfold ubi_upsert. rewrite Hcf.
  destruct (aget pool (s_pools s)); [|discriminate].
  rewrite spec_ubi_yearly_eq in Hb.
  pose proof (ubi_yearly_nonneg _ Hs) as Hy.
  assert (Hq : 0 <= amount * 31556952 / period).
  { destruct (Z.eq_dec period 0) as [E|E]; [rewrite E, Zdiv_0_r; lia|]. apply Z.div_pos; lia. }
  destruct (ubi_sum (s_ubis s) 0) as [sum| |] eqn:ES; cbn [bind]; try discriminate.
  apply ubi_sum_nowrap in ES; [|assumption|lia|lia]. cbn in ES.
  unfold ubi_term. destruct (period =? 0) eqn:E; cbn [bind]; [discriminate|].
  rewrite (wrap64_small (amount * year_seconds)) by (unfold year_seconds; lia).
  unfold year_seconds. rewrite wrap64_small by lia.
  destruct (p_hardcap (s_params s) <? sum + amount * 31556952 / period) eqn:EH; [discriminate|].
  intros H; inversion H; subst s'; clear H. unfold set_ubis. cbn [s_ubis s_params].
  split; [|reflexivity]. rewrite spec_ubi_yearly_eq.
  pose proof (ubi_insert_yearly (mkUbi name amount period start end_ false pool) _ Hs) as Hi.
  unfold ubi_exact_term at 3 in Hi. cbn [u_amount u_period] in Hi. lia.
Qed.

(* the repaired handler (sdk.Int arithmetic): NO overflow hypothesis, only the uint64 domain *)
Definition ubi_dom (u : ubi) : Prop := 0 <= u_amount u /\ 0 <= u_period u.
Lemma ubi_dom_term_nonneg : forall u, ubi_dom u -> 0 <= ubi_exact_term u.
Proof.
  intros u (Ha & Hp). unfold ubi_exact_term.
  destruct (Z.eq_dec (u_period u) 0) as [E|E]; [rewrite E, Zdiv_0_r; lia|]. apply Z.div_pos; lia.
Qed.
Lemma ubi_sum_exact_val : forall us acc r, ubi_sum_exact us acc = Ok r -> r = acc + zsum (map ubi_exact_term us).
Proof.
  induction us as [|u us IH]; intros acc r; cbn [ubi_sum_exact map zsum fold_right].
  - intros H; inversion H; lia.
  - change (fold_right Z.add 0) with zsum. destruct (u_period u =? 0); [discriminate|].
    intros H. apply IH in H. unfold ubi_exact_term at 1. unfold year_seconds in H. lia.
Qed.
Lemma ubi_insert_yearly_dom : forall u us, Forall ubi_dom us ->
  zsum (map ubi_exact_term (ubi_insert u us)) <= zsum (map ubi_exact_term us) + ubi_exact_term u.
Proof.
  intros u us H. induction H as [|v r Hv Hr IH]; cbn [ubi_insert map zsum fold_right]; [lia|].
  change (fold_right Z.add 0) with zsum in *.
  pose proof (ubi_dom_term_nonneg v Hv).
  destruct (u_name v =? u_name u); cbn [map zsum fold_right]; change (fold_right Z.add 0) with zsum; [lia|].
  destruct (u_name u <? u_name v); cbn [map zsum fold_right]; change (fold_right Z.add 0) with zsum; lia.
Qed.
Lemma ubi_within_hardcap_exact_lemma : forall cf s name amount period start end_ pool s',
  cf_ubi_exact cf = true -> Forall ubi_dom (s_ubis s) ->
  ubi_upsert cf s name amount period start end_ pool = Ok s' ->
  spec_ubi_yearly (s_ubis s') <= p_hardcap (s_params s') /\ p_hardcap (s_params s') = p_hardcap (s_params s) /\ period <> 0.
Proof.
  intros cf s name amount period start end_ pool s' Hcf Hs. unfold ubi_upsert. rewrite Hcf.
  destruct (aget pool (s_pools s)); [|discriminate].
  destruct (period =? 0) eqn:E; [discriminate|].
  destruct (ubi_sum_exact (s_ubis s) 0) as [sum| |] eqn:ES; cbn [bind]; try discriminate.
  apply ubi_sum_exact_val in ES.
  destruct (p_hardcap (s_params s) <? sum + amount * year_seconds / period) eqn:EH; [discriminate|].
  intros H; inversion H; subst s'; clear H. unfold set_ubis. cbn [s_ubis s_params].
  split; [|split; [reflexivity|lia]]. rewrite spec_ubi_yearly_eq.
  pose proof (ubi_insert_yearly_dom (mkUbi name amount period start end_ false pool) _ Hs) as Hi.
  unfold ubi_exact_term at 3 in Hi. cbn [u_amount u_period] in Hi. unfold year_seconds in EH. lia.
Qed.

(* without the no-overflow hypothesis the statement is false for the uint64 handler: amount = 2^63
   makes amount * 31556952 wrap to 0, the record passes any hard cap *)
Definition ubi_wrap_state : st :=
  mkSt 1700000000 1 (mkParams 180000000000000000 31557600 350000000000000000 7000000) (mkSnap 0 None) (mkSnap 0 None)
       [(0, 1000)] [] [] [mkUbi 0 500000 2592000 0 0 true 0] [(0, 0)].
Lemma ubi_overflow_refuted_lemma : forall cf, cf_ubi_exact cf = false ->
  exists s name amount period start end_ pool s',
  Forall ubi_dom (s_ubis s) /\ 0 <= amount < two64 /\ 0 < period < two64 /\
  ubi_upsert cf s name amount period start end_ pool = Ok s' /\
  p_hardcap (s_params s') < spec_ubi_yearly (s_ubis s').
Proof.
  intros cf Hcf. exists ubi_wrap_state, 1, 9223372036854775808, 2592000, 0, 0, 0.
  eexists. split; [repeat constructor; vm_compute; congruence|].
  split; [vm_compute; split; congruence|]. split; [vm_compute; split; congruence|].
  split; [unfold ubi_upsert; rewrite Hcf; vm_compute; reflexivity|]. vm_compute. reflexivity.
Qed.

(* a second way round the yearly budget (wrapping due test): DistributionLast + Period wraps in
   uint64, so a record whose period never elapses is due in every block *)
Lemma ubi_period_wrap_due : forall cf, cf_ubi_due_exact cf = false ->
  exists u now, 0 <= u_last u < two64 /\ 0 <= u_period u < two64 /\
  u_last u <= now < u_last u + u_period u /\ ubi_due cf now u = true.
Proof.
  intros cf Hcf. exists (mkUbi 2 3 18446744073709551615 1700000000 0 false 0), 1700000005.
  unfold ubi_due. rewrite Hcf. vm_compute. repeat split; congruence.
Qed.
(* the repaired due test: due only when the period has really elapsed *)
Lemma ubi_due_exact_elapsed : forall cf now u, cf_ubi_due_exact cf = true -> ubi_due cf now u = true ->
  u_last u + u_period u < now.
Proof. intros cf now u Hcf. unfold ubi_due. rewrite Hcf. lia. Qed.

Lemma ubi_upsert_shape : forall cf s name amount period start end_ pool s',
  ubi_upsert cf s name amount period start end_ pool = Ok s' ->
  s' = set_ubis s (ubi_insert (mkUbi name amount period start end_ false pool) (s_ubis s)).
Proof.
  intros cf s name amount period start end_ pool s'. unfold ubi_upsert.
  destruct (aget pool (s_pools s)); [|discriminate]. destruct (cf_ubi_exact cf).
  - destruct (period =? 0); [discriminate|]. destruct (ubi_sum_exact _ _); cbn [bind]; try discriminate.
    destruct (_ <? _); [discriminate|]. intros H; inversion H; reflexivity.
  - destruct (ubi_sum _ _); cbn [bind]; try discriminate. destruct (ubi_term _ _); cbn [bind]; try discriminate.
    destruct (_ <? _); [discriminate|]. intros H; inversion H; reflexivity.
Qed.

(* ================================================================ token registry *)
Definition reg_supply (s : st) (d : Z) : Z := match aget d (s_reg s) with Some t => t_supply t | None => 0 end.
(* recorded supply minus bank supply *)
Definition offset (s : st) (d : Z) : Z := reg_supply s d - supply_of s d.
Definition cap_ok (reg : list (Z * tok)) : Prop := forall d t, aget d reg = Some t -> 0 < t_cap t -> t_supply t <= t_cap t.
Definition tok_same (t t' : tok) : Prop :=
  t_cap t' = t_cap t /\ t_owner t' = t_owner t /\ t_noedit t' = t_noedit t /\ t_fee t' = t_fee t /\ t_stakecap t' = t_stakecap t.
(* [s -> s'] keeps every token's offset and all registry fields except the recorded supply *)
Definition view_pres (s s' : st) : Prop :=
  forall d, offset s' d = offset s d /\
            (forall t, aget d (s_reg s) = Some t -> exists t', aget d (s_reg s') = Some t' /\ tok_same t t').

Lemma tok_same_refl : forall t, tok_same t t. Proof. intros t. repeat split. Qed.
Lemma view_pres_refl : forall s, view_pres s s.
Proof. intros s d. split; [reflexivity|]. intros t H. exists t. split; [assumption|apply tok_same_refl]. Qed.
Lemma view_pres_trans : forall a b c, view_pres a b -> view_pres b c -> view_pres a c.
Proof.
  intros a b c H1 H2 d. destruct (H1 d) as [O1 T1]. destruct (H2 d) as [O2 T2]. split; [congruence|].
  intros t Ht. destruct (T1 t Ht) as (t1 & Ht1 & S1). destruct (T2 t1 Ht1) as (t2 & Ht2 & S2).
  exists t2. split; [assumption|]. unfold tok_same in *. intuition congruence.
Qed.
Lemma view_pres_same : forall s s', s_reg s' = s_reg s -> s_bank s' = s_bank s -> view_pres s s'.
Proof.
  intros s s' Hr Hb d. unfold offset, reg_supply, supply_of. rewrite Hr, Hb. split; [reflexivity|].
  intros t H. exists t. split; [assumption|apply tok_same_refl].
Qed.

Lemma reg_upsert_get : forall reg d t reg', reg_upsert reg d t = Ok reg' ->
  aget d reg' = Some t /\ (forall d', d' <> d -> aget d' reg' = aget d' reg) /\ (0 < t_cap t -> t_supply t <= t_cap t).
Proof.
  intros reg d t reg'. unfold reg_upsert.
  destruct ((0 <? t_cap t) && (t_cap t <? t_supply t)) eqn:E; [discriminate|].
  destruct (PREC <? stake_sum (aset d t reg)); [discriminate|].
  intros H; inversion H; subst reg'. split; [apply aget_aset_same|]. split; [intros; apply aget_aset_other; assumption|lia].
Qed.
Lemma reg_upsert_cap_ok : forall reg d t reg', cap_ok reg -> reg_upsert reg d t = Ok reg' -> cap_ok reg'.
Proof.
  intros reg d t reg' Hc H. destruct (reg_upsert_get _ _ _ _ H) as (Hd & Ho & Hk).
  intros d' t' Hg Hp. destruct (Z.eq_dec d' d) as [E|E].
  - subst d'. rewrite Hd in Hg. inversion Hg; subst t'. auto.
  - rewrite Ho in Hg by assumption. eapply Hc; eassumption.
Qed.

Lemma reg_mint_view : forall s d amt s', reg_mint s d amt = Ok s' ->
  view_pres s s' /\ (cap_ok (s_reg s) -> cap_ok (s_reg s')) /\ 0 < amt /\ s_bank s' = zadd d amt (s_bank s).
Proof.
  intros s d amt s'. unfold reg_mint.
  set (t := match aget d (s_reg s) with Some t => t | None => default_tok end).
  destruct (reg_upsert (s_reg s) d (with_supply t (t_supply t + amt))) as [reg'| |] eqn:ER; cbn [bind]; try discriminate.
  destruct (amt <=? 0) eqn:EA; [discriminate|]. intros H; inversion H; subst s'; clear H.
  destruct (reg_upsert_get _ _ _ _ ER) as (Hd & Ho & _).
  split; [|split; [intros Hc; eapply reg_upsert_cap_ok; eassumption|split; [lia|reflexivity]]].
  intros d'. unfold offset, reg_supply, supply_of. cbn [s_reg s_bank set_bank set_reg].
  destruct (Z.eq_dec d' d) as [E|E].
  - subst d'. rewrite Hd, zget_zadd_same. cbn [t_supply with_supply]. split.
    + unfold t. destruct (aget d (s_reg s)); cbn [t_supply default_tok]; lia.
    + intros t0 Ht0. eexists. split; [reflexivity|]. unfold t. rewrite Ht0. repeat split.
  - rewrite Ho by assumption. rewrite zget_zadd_other by assumption. split; [reflexivity|].
    intros t0 Ht0. exists t0. split; [assumption|apply tok_same_refl].
Qed.

Lemma reg_burn_view : forall s d amt s', reg_burn s d amt = Ok s' ->
  view_pres s s' /\ (cap_ok (s_reg s) -> cap_ok (s_reg s')) /\ 0 < amt /\ s_bank s' = zadd d (- amt) (s_bank s).
Proof.
  intros s d amt s'. unfold reg_burn.
  destruct (aget d (s_reg s)) as [t|] eqn:Et; [|discriminate].
  destruct (reg_upsert (s_reg s) d (with_supply t (t_supply t - amt))) as [reg'| |] eqn:ER; cbn [bind]; try discriminate.
  destruct (amt <=? 0) eqn:EA; [discriminate|]. intros H; inversion H; subst s'; clear H.
  destruct (reg_upsert_get _ _ _ _ ER) as (Hd & Ho & _).
  split; [|split; [intros Hc; eapply reg_upsert_cap_ok; eassumption|split; [lia|reflexivity]]].
  intros d'. unfold offset, reg_supply, supply_of. cbn [s_reg s_bank set_bank set_reg].
  destruct (Z.eq_dec d' d) as [E|E].
  - subst d'. rewrite Hd, Et, zget_zadd_same. cbn [t_supply with_supply]. split; [lia|].
    intros t0 Ht0. inversion Ht0; subst t0. eexists. split; [reflexivity|]. repeat split.
  - rewrite Ho by assumption. rewrite zget_zadd_other by assumption. split; [reflexivity|].
    intros t0 Ht0. exists t0. split; [assumption|apply tok_same_refl].
Qed.

Lemma allocate_view : forall s s', allocate s = Ok s' ->
  view_pres s s' /\ (cap_ok (s_reg s) -> cap_ok (s_reg s')) /\ nat_supply s <= nat_supply s'.
Proof.
  intros s s'. unfold allocate.
  destruct (inflation_possible _ _ _ _) as [ip| |]; cbn [bind]; try discriminate.
  destruct (negb ip); [intros H; inversion H; subst; split; [apply view_pres_refl|split; [auto|lia]]|].
  destruct (target_supply _ _ _ _) as [tgt| |]; cbn [bind]; try discriminate.
  destruct (0 <? (if nat_supply s <? tgt then tgt - nat_supply s else 0)).
  - destruct (reg_mint s native _) as [s1| |] eqn:EM; try discriminate.
    intros H; inversion H; subst s1. pose proof (reg_mint_nat _ _ _ EM).
    destruct (reg_mint_view _ _ _ _ EM) as (V & C & P & _). split; [assumption|split; [assumption|lia]].
  - intros H; inversion H; subst; split; [apply view_pres_refl|split; [auto|lia]].
Qed.

Lemma process_ubi_view : forall cf s u s', process_ubi cf s u = Ok s' ->
  view_pres s s' /\ (cap_ok (s_reg s) -> cap_ok (s_reg s')) /\ nat_supply s <= nat_supply s'.
Proof.
  intros cf s u s'. unfold process_ubi.
  destruct (inflation_possible _ _ _ _) as [ip| |]; cbn [bind]; try discriminate.
  destruct (negb ip); [intros H; inversion H; subst; split; [apply view_pres_refl|split; [auto|lia]]|].
  set (s1 := set_ubis s _).
  assert (V1 : view_pres s s1) by (apply view_pres_same; reflexivity).
  match goal with |- (do todo <- ?X; _) = _ -> _ => destruct X as [todo| |] end; cbn [bind]; try discriminate.
  destruct todo as [amt|]; [|intros H; inversion H; subst; split; [assumption|split; [auto|unfold nat_supply, supply_of; cbn; lia]]].
  destruct (amt <? 0); [discriminate|]. destruct (amt =? 0); [discriminate|].
  destruct (reg_mint s1 native amt) as [s2| |] eqn:EM; cbn [bind]; try discriminate.
  destruct (aget (u_pool u) (s_pools s2)); [|discriminate].
  intros H; inversion H; subst s'; clear H.
  pose proof (reg_mint_nat _ _ _ EM) as Hn. destruct (reg_mint_view _ _ _ _ EM) as (V & C & P & _).
  split; [|split].
  - eapply view_pres_trans; [exact V1|]. eapply view_pres_trans; [exact V|]. apply view_pres_same; reflexivity.
  - intros Hc. apply C. exact Hc.
  - subst s1. unfold nat_supply, supply_of, set_pools, set_ubis in *. cbn [s_bank] in *. lia.
Qed.

Lemma ubi_end_view : forall cf us s s', ubi_end cf us s = Ok s' ->
  view_pres s s' /\ (cap_ok (s_reg s) -> cap_ok (s_reg s')) /\ nat_supply s <= nat_supply s'.
Proof.
  intros cf. induction us as [|u r IH]; intros s s'; cbn [ubi_end].
  - intros H; inversion H; subst. split; [apply view_pres_refl|split; [auto|lia]].
  - destruct (ubi_due cf (s_now s) u); [|apply IH].
    destruct (process_ubi cf s u) as [s1| |] eqn:E; [|apply IH|discriminate].
    intros H. destruct (process_ubi_view _ _ _ _ E) as (V1 & C1 & N1). destruct (IH _ _ H) as (V2 & C2 & N2).
    split; [eapply view_pres_trans; eassumption|split; [auto|lia]].
Qed.

Lemma block_parts_view : forall cf s dt s1 s2 s3, block_parts cf s dt = Ok (s1, s2, s3) ->
  view_pres s s3 /\ (cap_ok (s_reg s) -> cap_ok (s_reg s3))
  /\ nat_supply s <= nat_supply s1 <= nat_supply s2 /\ nat_supply s3 = nat_supply s2.
Proof.
  intros cf s dt s1 s2 s3. unfold block_parts.
  set (s0 := set_time s (s_now s + dt) (s_height s + 1)).
  assert (V0 : view_pres s s0) by (apply view_pres_same; reflexivity).
  assert (A : forall x, (if 1 <? s_height s0 then allocate s0 else Ok s0) = Ok x ->
              view_pres s0 x /\ (cap_ok (s_reg s0) -> cap_ok (s_reg x)) /\ nat_supply s0 <= nat_supply x).
  { intros x. destruct (1 <? s_height s0); [apply allocate_view|].
    intros H; inversion H; subst. split; [apply view_pres_refl|split; [auto|lia]]. }
  destruct (if 1 <? s_height s0 then allocate s0 else Ok s0) as [x| |]; cbn [bind]; try discriminate.
  destruct (A x eq_refl) as (VA & CA & NA).
  destruct (ubi_end cf (s_ubis x) x) as [y| |] eqn:EU; cbn [bind]; try discriminate.
  destruct (ubi_end_view _ _ _ _ EU) as (VU & CU & NU).
  intros H; inversion H; subst s1 s2 s3; clear H.
  split; [|split; [|split]].
  - eapply view_pres_trans; [exact V0|]. eapply view_pres_trans; [exact VA|]. eapply view_pres_trans; [exact VU|].
    apply view_pres_same; reflexivity.
  - intros Hc. apply CU, CA, Hc.
  - change (nat_supply s0) with (nat_supply s) in NA. lia.
  - reflexivity.
Qed.

(* ---------------------------------------------------------------- msg server / proposal characterisation *)
Lemma upsert_msg_existing : forall cf s actor perm d supply cap owner noedit fee sc s' t,
  upsert_msg cf s actor perm d supply cap owner noedit fee sc = Ok s' -> aget d (s_reg s) = Some t ->
  actor = t_owner t /\ t_noedit t = false /\ (t_cap t <> 0 -> cap <= t_cap t /\ cap <> 0 /\ (cf_cap_strict cf = true -> 0 < cap))
  /\ aget d (s_reg s') = Some (mkTok (t_supply t) cap owner noedit (t_fee t) (t_stakecap t))
  /\ (forall d', d' <> d -> aget d' (s_reg s') = aget d' (s_reg s)) /\ s_bank s' = s_bank s
  /\ (0 < cap -> t_supply t <= cap).
Proof.
  intros cf s actor perm d supply cap owner noedit fee sc s' t. unfold upsert_msg.
  destruct (d =? native); [discriminate|]. destruct (fee <=? 0); [discriminate|].
  destruct (sc <? 0); [discriminate|]. destruct (PREC <? sc); [discriminate|].
  intros H Ht. rewrite Ht in H.
  destruct (negb (t_owner t =? actor) || t_noedit t) eqn:E1; [discriminate|].
  destruct (negb (t_cap t =? 0) && ((t_cap t <? cap) || (if cf_cap_strict cf then cap <=? 0 else cap =? 0))) eqn:E2; [discriminate|].
  destruct (reg_upsert _ _ _) as [reg'| |] eqn:ER; cbn [bind] in H; try discriminate.
  inversion H; subst s'; clear H. destruct (reg_upsert_get _ _ _ _ ER) as (Hd & Ho & Hk).
  cbn [s_reg s_bank set_reg]. cbn [t_cap t_supply] in Hk.
  apply Bool.orb_false_iff in E1. destruct E1 as [E1a E1b].
  repeat split; try assumption; try (destruct (cf_cap_strict cf); lia).
Qed.

Lemma upsert_msg_new : forall cf s actor perm d supply cap owner noedit fee sc s',
  upsert_msg cf s actor perm d supply cap owner noedit fee sc = Ok s' -> aget d (s_reg s) = None ->
  perm = true /\ aget d (s_reg s') = Some (mkTok supply cap owner noedit fee sc)
  /\ (forall d', d' <> d -> aget d' (s_reg s') = aget d' (s_reg s)) /\ s_bank s' = s_bank s
  /\ (0 < cap -> supply <= cap).
Proof.
  intros cf s actor perm d supply cap owner noedit fee sc s'. unfold upsert_msg.
  destruct (d =? native); [discriminate|]. destruct (fee <=? 0); [discriminate|].
  destruct (sc <? 0); [discriminate|]. destruct (PREC <? sc); [discriminate|].
  intros H Ht. rewrite Ht in H. destruct perm; [|discriminate]. cbn [negb] in H.
  destruct (reg_upsert _ _ _) as [reg'| |] eqn:ER; cbn [bind] in H; try discriminate.
  inversion H; subst s'; clear H. destruct (reg_upsert_get _ _ _ _ ER) as (Hd & Ho & Hk).
  cbn [s_reg s_bank set_reg]. cbn [t_cap t_supply] in Hk. repeat split; assumption.
Qed.

Lemma prop_upsert_char : forall s d supply cap owner noedit fee sc s',
  prop_upsert s d supply cap owner noedit fee sc = Ok s' ->
  let t' := match aget d (s_reg s) with
            | Some t => mkTok (t_supply t) (t_cap t) (t_owner t) (t_noedit t) fee sc
            | None => mkTok supply cap owner noedit fee sc end in
  aget d (s_reg s') = Some t' /\ (forall d', d' <> d -> aget d' (s_reg s') = aget d' (s_reg s)) /\ s_bank s' = s_bank s
  /\ (0 < t_cap t' -> t_supply t' <= t_cap t').
Proof.
  intros s d supply cap owner noedit fee sc s'. unfold prop_upsert.
  destruct (reg_upsert _ _ _) as [reg'| |] eqn:ER; cbn [bind]; try discriminate.
  intros H; inversion H; subst s'; clear H. destruct (reg_upsert_get _ _ _ _ ER) as (Hd & Ho & Hk).
  cbn [s_reg s_bank set_reg]. repeat split; assumption.
Qed.

Lemma debit_same : forall s a d amt s', debit s a d amt = Ok s' -> s_reg s' = s_reg s /\ s_bank s' = s_bank s.
Proof. intros s a d amt s'. unfold debit. destruct (_ <? _); [discriminate|]. intros H; inversion H; subst. split; reflexivity. Qed.
Lemma credit_same : forall s a d amt, s_reg (credit s a d amt) = s_reg s /\ s_bank (credit s a d amt) = s_bank s.
Proof. intros. unfold credit. destruct (a =? 0); split; reflexivity. Qed.

Lemma mint_issue_view : forall cf s actor d amt s', mint_issue cf s actor d amt = Ok s' ->
  view_pres s s' /\ (cap_ok (s_reg s) -> cap_ok (s_reg s')) /\ 0 < amt /\ s_bank s' = zadd d amt (s_bank s).
Proof.
  intros cf s actor d amt s'. unfold mint_issue.
  destruct (cf_mint_native_refused cf && (d =? native)); [discriminate|].
  destruct (aget d (s_reg s)) as [t|]; [|discriminate].
  match goal with |- (do s1 <- ?X; _) = _ -> _ => destruct X as [s1| |] eqn:E1 end; cbn [bind]; try discriminate.
  assert (S1 : s_reg s1 = s_reg s /\ s_bank s1 = s_bank s).
  { destruct (t_owner t =? actor); [inversion E1; subst; split; reflexivity|].
    destruct (dmul_int (t_fee t) amt) as [f| |]; cbn [bind] in E1; try discriminate.
    destruct (trunc_int f <? 0); [discriminate|]. destruct (0 <? trunc_int f); [|discriminate].
    destruct (debit s actor native (trunc_int f)) as [s0| |] eqn:ED; cbn [bind] in E1; try discriminate.
    inversion E1; subst s1. destruct (debit_same _ _ _ _ _ ED) as [A B].
    destruct (credit_same s0 (t_owner t) native (trunc_int f)) as [C D]. split; congruence. }
  destruct S1 as [R1 B1].
  destruct (amt <? 0); [discriminate|].
  destruct (reg_mint s1 d amt) as [s2| |] eqn:EM; cbn [bind]; try discriminate.
  intros H; inversion H; subst s'; clear H.
  destruct (reg_mint_view _ _ _ _ EM) as (V & C & P & B).
  destruct (credit_same s2 actor d amt) as [RC BC].
  split; [|split; [|split]].
  - eapply view_pres_trans; [apply view_pres_same; [exact R1|exact B1]|].
    eapply view_pres_trans; [exact V|]. apply view_pres_same; assumption.
  - intros Hc. rewrite RC. apply C. rewrite R1. exact Hc.
  - exact P.
  - rewrite BC, B, B1. reflexivity.
Qed.

Lemma mint_burn_view : forall s actor d amt s', mint_burn s actor d amt = Ok s' ->
  view_pres s s' /\ (cap_ok (s_reg s) -> cap_ok (s_reg s')) /\ 0 < amt /\ s_bank s' = zadd d (- amt) (s_bank s).
Proof.
  intros s actor d amt s'. unfold mint_burn.
  destruct (aget d (s_reg s)); [|discriminate].
  destruct (amt <? 0); [discriminate|]. destruct (amt =? 0); [discriminate|].
  destruct (debit s actor d amt) as [s1| |] eqn:ED; cbn [bind]; try discriminate.
  destruct (debit_same _ _ _ _ _ ED) as [R1 B1]. intros H.
  destruct (reg_burn_view _ _ _ _ H) as (V & C & P & B).
  split; [|split; [|split]].
  - eapply view_pres_trans; [apply view_pres_same; [exact R1|exact B1]|exact V].
  - intros Hc. apply C. rewrite R1. exact Hc.
  - exact P.
  - rewrite B, B1. reflexivity.
Qed.

Lemma zadd_zadd_get : forall d d' a b l, zget d' (zadd d b (zadd d a l)) = zget d' (zadd d (a + b) l).
Proof.
  intros d d' a b l. destruct (Z.eq_dec d' d) as [E|E].
  - subst. rewrite !zget_zadd_same. lia.
  - rewrite !zget_zadd_other by assumption. reflexivity.
Qed.
(* two mints in one transaction *)
Lemma mint_issue2_view : forall cf s actor d a1 a2 s',
  (do s1 <- mint_issue cf s actor d a1; mint_issue cf s1 actor d a2) = Ok s' ->
  view_pres s s' /\ (cap_ok (s_reg s) -> cap_ok (s_reg s')) /\ 0 < a1 /\ 0 < a2 /\
  (forall d', supply_of s' d' = zget d' (zadd d (a1 + a2) (s_bank s))).
Proof.
  intros cf s actor d a1 a2 s'. destruct (mint_issue cf s actor d a1) as [s1| |] eqn:E1; cbn [bind]; try discriminate.
  intros E2. destruct (mint_issue_view _ _ _ _ _ _ E1) as (V1 & C1 & P1 & B1). destruct (mint_issue_view _ _ _ _ _ _ E2) as (V2 & C2 & P2 & B2).
  split; [eapply view_pres_trans; eassumption|]. split; [auto|]. split; [exact P1|]. split; [exact P2|].
  intros d'. unfold supply_of. rewrite B2, B1. apply zadd_zadd_get.
Qed.

(* ---------------------------------------------------------------- supply never exceeds the cap *)
Lemma cap_ok_update : forall reg reg' d t, cap_ok reg -> aget d reg' = Some t ->
  (forall d', d' <> d -> aget d' reg' = aget d' reg) -> (0 < t_cap t -> t_supply t <= t_cap t) -> cap_ok reg'.
Proof.
  intros reg reg' d t Hc Hd Ho Hk d' t' Hg Hp. destruct (Z.eq_dec d' d) as [E|E].
  - subst d'. rewrite Hd in Hg. inversion Hg; subst. auto.
  - rewrite Ho in Hg by assumption. eapply Hc; eassumption.
Qed.

Lemma step_cap_ok : forall cf s o s', step cf s o = Ok s' -> cap_ok (s_reg s) -> cap_ok (s_reg s').
Proof.
  intros cf s o s' H Hc. destruct o; cbn [step] in H.
  - destruct (block_parts cf s dt) as [[[s1 s2] s3]| |] eqn:E; cbn [bind] in H; try discriminate.
    inversion H; subst s'. cbn [snd]. destruct (block_parts_view _ _ _ _ _ _ E) as (_ & C & _). auto.
  - inversion H; subst; exact Hc.
  - inversion H; subst; exact Hc.
  - apply ubi_upsert_shape in H. subst s'. exact Hc.
  - unfold ubi_delete in H. destruct (ubi_remove _ _); [|discriminate]. inversion H; subst; exact Hc.
  - destruct (aget d (s_reg s)) as [t|] eqn:Et.
    + destruct (upsert_msg_existing _ _ _ _ _ _ _ _ _ _ _ _ _ H Et) as (_ & _ & _ & Hd & Ho & _ & Hk).
      eapply cap_ok_update; [exact Hc|exact Hd|exact Ho|exact Hk].
    + destruct (upsert_msg_new _ _ _ _ _ _ _ _ _ _ _ _ H Et) as (_ & Hd & Ho & _ & Hk).
      eapply cap_ok_update; [exact Hc|exact Hd|exact Ho|exact Hk].
  - destruct (prop_upsert_char _ _ _ _ _ _ _ _ _ H) as (Hd & Ho & _ & Hk).
    eapply cap_ok_update; [exact Hc|exact Hd|exact Ho|exact Hk].
  - destruct (mint_issue_view _ _ _ _ _ _ H) as (_ & C & _). auto.
  - destruct (mint_issue2_view _ _ _ _ _ _ _ H) as (_ & C & _). auto.
  - destruct (mint_burn_view _ _ _ _ _ H) as (_ & C & _). auto.
  - destruct (debit_same _ _ _ _ _ H) as [R _]. rewrite R. exact Hc.
  - inversion H; subst; exact Hc.
Qed.

Lemma step_total_cap_ok : forall cf s o, cap_ok (s_reg s) -> cap_ok (s_reg (step_total cf s o)).
Proof.
  intros cf s o Hc. unfold step_total. destruct (step cf s o) as [s'| |] eqn:E; try exact Hc. eapply step_cap_ok; eassumption.
Qed.
Lemma run_cap_ok : forall cf ops s, cap_ok (s_reg s) -> cap_ok (s_reg (run cf s ops)).
Proof.
  intros cf. induction ops as [|o r IH]; intros s Hc; [exact Hc|]. unfold run. cbn [fold_left]. apply IH. apply step_total_cap_ok. exact Hc.
Qed.

(* ---------------------------------------------------------------- recorded supply tracks mints *)
(* every operation keeps the offset (recorded - bank supply) of every REGISTERED token; the only way
   to set a recorded supply freely is to register a new token *)
Lemma step_view : forall cf s o s' d t, step cf s o = Ok s' -> aget d (s_reg s) = Some t ->
  offset s' d = offset s d /\
  exists t', aget d (s_reg s') = Some t' /\
    (t_cap t' = t_cap t \/
     exists actor perm supply cap owner noedit fee sc,
       o = OUpsertMsg actor perm d supply cap owner noedit fee sc /\ t_cap t' = cap /\ actor = t_owner t /\ t_noedit t = false
       /\ (t_cap t <> 0 -> cap <= t_cap t /\ cap <> 0 /\ (cf_cap_strict cf = true -> 0 < cap))).
Proof.
  intros cf s o s' d t H Ht.
  assert (VP : view_pres s s' -> offset s' d = offset s d /\ exists t', aget d (s_reg s') = Some t' /\
                 (t_cap t' = t_cap t \/ exists actor perm supply cap owner noedit fee sc,
                    o = OUpsertMsg actor perm d supply cap owner noedit fee sc /\ t_cap t' = cap /\ actor = t_owner t /\ t_noedit t = false
                    /\ (t_cap t <> 0 -> cap <= t_cap t /\ cap <> 0 /\ (cf_cap_strict cf = true -> 0 < cap)))).
  { intros V. destruct (V d) as [O T]. split; [exact O|]. destruct (T t Ht) as (t' & Ht' & S). exists t'. split; [exact Ht'|left; apply S]. }
  destruct o; cbn [step] in H.
  - destruct (block_parts cf s dt) as [[[s1 s2] s3]| |] eqn:E; cbn [bind] in H; try discriminate.
    inversion H; subst s'. cbn [snd] in *. apply VP. destruct (block_parts_view _ _ _ _ _ _ E) as (V & _). exact V.
  - inversion H; subst. apply VP, view_pres_same; reflexivity.
  - inversion H; subst. apply VP, view_pres_same; reflexivity.
  - apply ubi_upsert_shape in H. subst s'. apply VP, view_pres_same; reflexivity.
  - unfold ubi_delete in H. destruct (ubi_remove _ _); [|discriminate]. inversion H; subst. apply VP, view_pres_same; reflexivity.
  - (* OUpsertMsg *)
    destruct (Z.eq_dec d0 d) as [E|E].
    + subst d0. destruct (upsert_msg_existing _ _ _ _ _ _ _ _ _ _ _ _ _ H Ht) as (Ha & Hn & Hcap & Hd & Ho & Hb & _).
      split.
      * unfold offset, reg_supply, supply_of. rewrite Hd, Ht, Hb. reflexivity.
      * eexists. split; [exact Hd|]. right. exists actor, perm, supply, cap, owner, noedit, fee, stakecap.
        repeat split; try assumption; try reflexivity; apply Hcap; assumption.
    + assert (Ho : aget d (s_reg s') = aget d (s_reg s) /\ s_bank s' = s_bank s).
      { destruct (aget d0 (s_reg s)) as [t0|] eqn:Et0.
        - destruct (upsert_msg_existing _ _ _ _ _ _ _ _ _ _ _ _ _ H Et0) as (_ & _ & _ & _ & Ho & Hb & _). split; [apply Ho; auto|exact Hb].
        - destruct (upsert_msg_new _ _ _ _ _ _ _ _ _ _ _ _ H Et0) as (_ & _ & Ho & Hb & _). split; [apply Ho; auto|exact Hb]. }
      destruct Ho as [Ho Hb]. split.
      * unfold offset, reg_supply, supply_of. rewrite Ho, Hb. reflexivity.
      * exists t. split; [congruence|left; reflexivity].
  - (* OPropUpsert *)
    destruct (prop_upsert_char _ _ _ _ _ _ _ _ _ H) as (Hd & Ho & Hb & _).
    destruct (Z.eq_dec d0 d) as [E|E].
    + subst d0. rewrite Ht in Hd. split.
      * unfold offset, reg_supply, supply_of. rewrite Hd, Ht, Hb. reflexivity.
      * eexists. split; [exact Hd|left; reflexivity].
    + split.
      * unfold offset, reg_supply, supply_of. rewrite Ho, Hb by auto. reflexivity.
      * exists t. split; [rewrite Ho by auto; exact Ht|left; reflexivity].
  - apply VP. destruct (mint_issue_view _ _ _ _ _ _ H) as (V & _). exact V.
  - apply VP. destruct (mint_issue2_view _ _ _ _ _ _ _ H) as (V & _). exact V.
  - apply VP. destruct (mint_burn_view _ _ _ _ _ H) as (V & _). exact V.
  - destruct (debit_same _ _ _ _ _ H) as [R B]. apply VP, view_pres_same; assumption.
  - inversion H; subst. apply VP, view_pres_same; reflexivity.
Qed.

Lemma run_offset : forall cf ops s d, aget d (s_reg s) <> None ->
  offset (run cf s ops) d = offset s d /\ aget d (s_reg (run cf s ops)) <> None.
Proof.
  intros cf. induction ops as [|o r IH]; intros s d Hr; [split; [reflexivity|exact Hr]|].
  unfold run. cbn [fold_left]. fold (run cf (step_total cf s o) r).
  assert (Hs : offset (step_total cf s o) d = offset s d /\ aget d (s_reg (step_total cf s o)) <> None).
  { unfold step_total. destruct (step cf s o) as [s'| |] eqn:E; [|split; [reflexivity|exact Hr]..].
    destruct (aget d (s_reg s)) as [t|] eqn:Et; [|congruence].
    destruct (step_view _ _ _ _ _ _ E Et) as (O & t' & Ht' & _). split; [exact O|congruence]. }
  destruct Hs as [O1 R1]. destruct (IH _ _ R1) as [O2 R2]. split; [congruence|exact R2].
Qed.

(* ================================================================ the owner and the cap *)
Lemma owner_cap_partial_lemma : forall cf s actor perm d supply cap owner noedit fee sc s' t,
  upsert_msg cf s actor perm d supply cap owner noedit fee sc = Ok s' -> aget d (s_reg s) = Some t -> 0 < t_cap t ->
  actor = t_owner t /\ exists t', aget d (s_reg s') = Some t' /\ t_cap t' = cap /\ cap <= t_cap t /\ cap <> 0
                                 /\ t_supply t' = t_supply t.
Proof.
  intros cf s actor perm d supply cap owner noedit fee sc s' t H Ht Hp.
  destruct (upsert_msg_existing _ _ _ _ _ _ _ _ _ _ _ _ _ H Ht) as (Ha & _ & Hcap & Hd & _).
  split; [exact Ha|]. eexists. split; [exact Hd|]. cbn [t_cap t_supply]. destruct (Hcap ltac:(lia)) as (? & ? & _). repeat split; assumption.
Qed.

Lemma owner_cap_guarded_lemma : forall cf s actor perm d supply cap owner noedit fee sc s' t,
  0 <= cap ->
  upsert_msg cf s actor perm d supply cap owner noedit fee sc = Ok s' -> aget d (s_reg s) = Some t -> 0 < t_cap t ->
  exists t', aget d (s_reg s') = Some t' /\ 0 < t_cap t' <= t_cap t.
Proof.
  intros cf s actor perm d supply cap owner noedit fee sc s' t Hc H Ht Hp.
  destruct (owner_cap_partial_lemma _ _ _ _ _ _ _ _ _ _ _ _ _ H Ht Hp) as (_ & t' & Hd & E & Hle & Hne & _).
  exists t'. split; [exact Hd|lia].
Qed.

(* with the cf guard the full statement holds, whatever the message carries *)
Lemma owner_cap_strict_lemma : forall cf, cf_cap_strict cf = true ->
  forall s actor perm d supply cap owner noedit fee sc s' t,
  upsert_msg cf s actor perm d supply cap owner noedit fee sc = Ok s' -> aget d (s_reg s) = Some t -> 0 < t_cap t ->
  exists t', aget d (s_reg s') = Some t' /\ 0 < t_cap t' <= t_cap t.
Proof.
  intros cf Hcf s actor perm d supply cap owner noedit fee sc s' t H Ht Hp.
  destruct (upsert_msg_existing _ _ _ _ _ _ _ _ _ _ _ _ _ H Ht) as (_ & _ & Hcap & Hd & _).
  destruct (Hcap ltac:(lia)) as (? & ? & Hs). specialize (Hs Hcf).
  eexists. split; [exact Hd|]. cbn [t_cap]. lia.
Qed.

(* for the guard as first found the full statement is false: a NEGATIVE cap passes both guards (msg
   server: not greater, not zero; keeper: the cap check is skipped unless the cap is positive) *)
Definition negcap_state : st :=
  mkSt 1700000000 1 (mkParams 180000000000000000 31557600 350000000000000000 6000000) (mkSnap 0 None) (mkSnap 0 None)
       [(0, 1000000)] [] [(4, mkTok 1000 1000 1 false PREC 0)] [] [(0, 0)].
Lemma owner_cap_refuted_lemma : forall cf, cf_cap_strict cf = false ->
  exists s actor d cap s1 s2 t,
  aget d (s_reg s) = Some t /\ 0 < t_cap t /\ t_owner t = actor /\
  upsert_msg cf s actor false d 0 cap actor false PREC 0 = Ok s1 /\
  (exists t1, aget d (s_reg s1) = Some t1 /\ t_cap t1 < 0) /\
  mint_issue cf s1 actor d 5000 = Ok s2 /\
  (exists t2, aget d (s_reg s2) = Some t2 /\ t_cap t < t_supply t2).
Proof.
  intros [c1 c2 c3 c4 c5] Hcf. cbn in Hcf. subst c1.
  exists negcap_state, 1, 4, (-1). do 3 eexists.
  split; [vm_compute; reflexivity|]. split; [vm_compute; reflexivity|]. split; [reflexivity|].
  split; [vm_compute; reflexivity|]. split; [eexists; split; vm_compute; reflexivity|].
  split; [destruct c5; vm_compute; reflexivity|]. eexists; split; vm_compute; reflexivity.
Qed.

Lemma owner_cap_statement_refuted : forall cf, cf_cap_strict cf = false ->
  ~ (forall s actor perm d supply cap owner noedit fee sc s' t,
       upsert_msg cf s actor perm d supply cap owner noedit fee sc = Ok s' -> aget d (s_reg s) = Some t -> 0 < t_cap t ->
       exists t', aget d (s_reg s') = Some t' /\ 0 < t_cap t' <= t_cap t).
Proof.
  intros cf Hcf H. destruct (owner_cap_refuted_lemma cf Hcf) as (s & actor & d & cap & s1 & s2 & t & H1 & H2 & H3 & H4 & (t1 & H5 & H6) & _).
  destruct (H _ _ _ _ _ _ _ _ _ _ _ _ H4 H1 H2) as (t' & Ht' & Hc). rewrite H5 in Ht'. inversion Ht'; subst. lia.
Qed.

(* over whole histories: as long as no message carries a negative cap, a positive cap only goes down *)
Definition nonneg_cap_op (o : op) : Prop :=
  match o with OUpsertMsg _ _ _ _ cap _ _ _ _ => 0 <= cap | _ => True end.

Lemma step_cap_monotone : forall cf s o s' d t, nonneg_cap_op o -> step cf s o = Ok s' ->
  aget d (s_reg s) = Some t -> 0 < t_cap t -> exists t', aget d (s_reg s') = Some t' /\ 0 < t_cap t' <= t_cap t.
Proof.
  intros cf s o s' d t Hn H Ht Hp. destruct (step_view _ _ _ _ _ _ H Ht) as (_ & t' & Ht' & [E|E]).
  - exists t'. split; [exact Ht'|lia].
  - destruct E as (actor & perm & supply & cap & owner & noedit & fee & sc & Eo & Ec & _ & _ & Hcap).
    subst o. cbn in Hn. destruct (Hcap ltac:(lia)) as (? & ? & _). exists t'. split; [exact Ht'|lia].
Qed.

Lemma run_cap_monotone : forall cf ops s d t, Forall nonneg_cap_op ops ->
  aget d (s_reg s) = Some t -> 0 < t_cap t ->
  exists t', aget d (s_reg (run cf s ops)) = Some t' /\ 0 < t_cap t' <= t_cap t.
Proof.
  intros cf. induction ops as [|o r IH]; intros s d t Hf Ht Hp.
  - exists t. split; [exact Ht|lia].
  - inversion Hf as [|? ? Ho Hr]; subst. unfold run. cbn [fold_left]. fold (run cf (step_total cf s o) r).
    unfold step_total. destruct (step cf s o) as [s'| |] eqn:E; [|eapply IH; eassumption..].
    destruct (step_cap_monotone _ _ _ _ _ _ Ho E Ht Hp) as (t1 & Ht1 & Hc1).
    destruct (IH s' d t1 Hr Ht1 ltac:(lia)) as (t2 & Ht2 & Hc2). exists t2. split; [exact Ht2|lia].
Qed.

(* with the cf guard: for ALL histories *)
Lemma step_cap_monotone_strict : forall cf, cf_cap_strict cf = true -> forall s o s' d t, step cf s o = Ok s' ->
  aget d (s_reg s) = Some t -> 0 < t_cap t -> exists t', aget d (s_reg s') = Some t' /\ 0 < t_cap t' <= t_cap t.
Proof.
  intros cf Hcf s o s' d t H Ht Hp. destruct (step_view _ _ _ _ _ _ H Ht) as (_ & t' & Ht' & [E|E]).
  - exists t'. split; [exact Ht'|lia].
  - destruct E as (actor & perm & supply & cap & owner & noedit & fee & sc & Eo & Ec & _ & _ & Hcap).
    destruct (Hcap ltac:(lia)) as (? & ? & Hs). specialize (Hs Hcf). exists t'. split; [exact Ht'|lia].
Qed.
Lemma run_cap_monotone_strict : forall cf, cf_cap_strict cf = true -> forall ops s d t,
  aget d (s_reg s) = Some t -> 0 < t_cap t ->
  exists t', aget d (s_reg (run cf s ops)) = Some t' /\ 0 < t_cap t' <= t_cap t.
Proof.
  intros cf Hcf. induction ops as [|o r IH]; intros s d t Ht Hp.
  - exists t. split; [exact Ht|lia].
  - unfold run. cbn [fold_left]. fold (run cf (step_total cf s o) r).
    unfold step_total. destruct (step cf s o) as [s'| |] eqn:E; [|eapply IH; eassumption..].
    destruct (step_cap_monotone_strict cf Hcf _ _ _ _ _ E Ht Hp) as (t1 & Ht1 & Hc1).
    destruct (IH s' d t1 Ht1 ltac:(lia)) as (t2 & Ht2 & Hc2). exists t2. split; [exact Ht2|lia].
Qed.

(* ... so the recorded supply stays within the cap the token had at the start *)
Lemma run_supply_le_initial_cap : forall cf ops s d t, Forall nonneg_cap_op ops -> cap_ok (s_reg s) ->
  aget d (s_reg s) = Some t -> 0 < t_cap t -> reg_supply (run cf s ops) d <= t_cap t.
Proof.
  intros cf ops s d t Hf Hc Ht Hp. destruct (run_cap_monotone cf ops s d t Hf Ht Hp) as (t' & Ht' & Hb).
  pose proof (run_cap_ok cf ops s Hc d t' Ht' ltac:(lia)). unfold reg_supply. rewrite Ht'. lia.
Qed.

(* ================================================================ where native tokens come from *)
Lemma step_native_sources : forall cf s o s', step cf s o = Ok s' -> nat_supply s < nat_supply s' ->
  (exists dt, o = OBlock dt) \/ (exists actor amt, o = OMintIssue actor native amt) \/ (exists actor a1 a2, o = OMintIssue2 actor native a1 a2).
Proof.
  intros cf s o s' H Hlt. unfold nat_supply, supply_of in Hlt. destruct o; cbn [step] in H.
  - left. eexists. reflexivity.
  - inversion H; subst. cbn in Hlt. lia.
  - inversion H; subst. cbn in Hlt. lia.
  - apply ubi_upsert_shape in H. subst s'. cbn in Hlt. lia.
  - unfold ubi_delete in H. destruct (ubi_remove _ _); [|discriminate]. inversion H; subst. cbn in Hlt. lia.
  - destruct (aget d (s_reg s)) as [t|] eqn:Et.
    + destruct (upsert_msg_existing _ _ _ _ _ _ _ _ _ _ _ _ _ H Et) as (_ & _ & _ & _ & _ & Hb & _). rewrite Hb in Hlt. lia.
    + destruct (upsert_msg_new _ _ _ _ _ _ _ _ _ _ _ _ H Et) as (_ & _ & _ & Hb & _). rewrite Hb in Hlt. lia.
  - destruct (prop_upsert_char _ _ _ _ _ _ _ _ _ H) as (_ & _ & Hb & _). rewrite Hb in Hlt. lia.
  - destruct (mint_issue_view _ _ _ _ _ _ H) as (_ & _ & _ & Hb). rewrite Hb in Hlt.
    destruct (Z.eq_dec d native) as [E|E]; [subst d; right; left; eexists; eexists; reflexivity|].
    rewrite zget_zadd_other in Hlt by auto. lia.
  - destruct (mint_issue2_view _ _ _ _ _ _ _ H) as (_ & _ & _ & _ & Hb). unfold supply_of in Hb. rewrite Hb in Hlt.
    destruct (Z.eq_dec d native) as [E|E]; [subst d; right; right; do 3 eexists; reflexivity|].
    rewrite zget_zadd_other in Hlt by auto. lia.
  - destruct (mint_burn_view _ _ _ _ _ H) as (_ & _ & Hp & Hb). rewrite Hb in Hlt.
    destruct (Z.eq_dec d native) as [E|E]; [subst d; rewrite zget_zadd_same in Hlt; lia|].
    rewrite zget_zadd_other in Hlt by auto. lia.
  - destruct (debit_same _ _ _ _ _ H) as [_ B]. rewrite B in Hlt. lia.
  - inversion H; subst. cbn in Hlt. lia.
Qed.

(* the full statement (only blocks create native tokens) is false: layer2 MintIssueTx accepts the
   native denomination; with the genesis fee rate 1 the sender pays x and receives x freshly minted *)
Definition genesis_like_state : st :=
  mkSt 1700000000 5 (mkParams 180000000000000000 31557600 350000000000000000 6000000)
       (mkSnap 1700000000 (Some 1000000)) (mkSnap 1700000000 (Some 1000000))
       [(0, 1000000)] [(bkey 3 0, 5000)] [(0, mkTok 0 0 0 false PREC 500000000000000000)] [] [(0, 0)].
Lemma native_mint_refuted_lemma : forall cf, cf_mint_native_refused cf = false -> exists s actor amt s',
  step cf s (OMintIssue actor native amt) = Ok s' /\ nat_supply s' = nat_supply s + amt /\ 0 < amt.
Proof.
  intros [c1 c2 c3 c4 c5] H. cbn in H. subst c5. exists genesis_like_state, 3, 1000. eexists.
  split; [vm_compute; reflexivity|]. vm_compute. split; [reflexivity|reflexivity].
Qed.

(* once MintIssueTx refuses the bond denom, blocks are the only source of native tokens *)
Lemma native_only_blocks_lemma : forall cf, cf_mint_native_refused cf = true ->
  forall s o s', step cf s o = Ok s' -> nat_supply s < nat_supply s' -> exists dt, o = OBlock dt.
Proof.
  intros cf Hcf s o s' H Hlt. destruct (step_native_sources _ _ _ _ H Hlt) as [B|[(actor & amt & E)|(actor & a1 & a2 & E)]]; [exact B| |].
  - subst o. cbn [step] in H. unfold mint_issue in H. rewrite Hcf in H. cbn in H. discriminate.
  - subst o. cbn [step] in H. unfold mint_issue at 1 in H. rewrite Hcf in H. cbn in H. discriminate.
Qed.

(* inside a block: inflation first, then UBI; nothing else *)
Lemma block_supply_decomposition : forall cf s dt s1 s2 s3, block_parts cf s dt = Ok (s1, s2, s3) ->
  nat_supply s <= nat_supply s1 /\ nat_supply s1 <= nat_supply s2 /\ nat_supply s3 = nat_supply s2.
Proof. intros cf s dt s1 s2 s3 H. destruct (block_parts_view _ _ _ _ _ _ H) as (_ & _ & N & E). lia. Qed.

(* the inflation part of a block obeys the target bound *)
Lemma block_inflation_le_target : forall cf s dt s1 s2 s3 a,
  block_parts cf s dt = Ok (s1, s2, s3) ->
  sn_amt (s_psnap s) = Some a -> 0 <= a -> 0 <= p_rate (s_params s) ->
  sn_time (s_psnap s) <= s_now s + dt -> 0 < as_int64 (p_period (s_params s)) ->
  nat_supply s1 <= Z.max (nat_supply s)
     (a + cdiv (a * p_rate (s_params s) * (s_now s + dt - sn_time (s_psnap s))) (PREC * as_int64 (p_period (s_params s)))).
Proof.
  intros cf s dt s1 s2 s3 a. unfold block_parts.
  set (s0 := set_time s (s_now s + dt) (s_height s + 1)).
  destruct (1 <? s_height s0).
  - destruct (allocate s0) as [x| |] eqn:EA; cbn [bind]; try discriminate.
    destruct (ubi_end cf (s_ubis x) x) as [y| |]; cbn [bind]; try discriminate.
    intros H; inversion H; subst x y s3; clear H. intros Ha Ha0 Hr Ht Hp.
    exact (inflation_le_target_lemma s0 s1 a EA Ha Ha0 Hr Ht Hp).
  - cbn [bind]. destruct (ubi_end cf (s_ubis s0) s0) as [y| |]; cbn [bind]; try discriminate.
    intros H; inversion H; subst; clear H. intros. change (nat_supply s0) with (nat_supply s). lia.
Qed.

(* ================================================================ mint / burn call sites (Gen/MintBurn.v)
   The reviewed policy: which call sites may mint, and which denominations they can reach.  A call
   site that is added, or whose keeper / module account / coins expression changes, is no longer in
   this table and the obligation below fails. *)
Inductive mint_class : Type :=
| NativeInflation      (* block inflation, bounded by the target supply *)
| NativeUbi            (* UBI payout *)
| AnyRegistered        (* the denomination comes from the message: ANY registered token, the native one included *)
| PrefixedDenom        (* denomination built with a fixed prefix (b<id>/, lp/, v<id>/, rr/): never the native token *)
| RegistryToBank       (* the registry wrapper forwarding to the bank *)
| TestHelper           (* app/test_helpers.go, not reachable from a transaction or block handler *)
| BurnSite.
Definition mint_can_reach_native (c : mint_class) : bool :=
  match c with NativeInflation | NativeUbi | AnyRegistered | RegistryToBank | TestHelper => true | _ => false end.

Open Scope string_scope.
Definition sanctioned_sites : list (mb_site * mint_class) := [
  (mkSite "app" "saveAccount" MBMint "bankkeeper.Keeper" "minttypes.ModuleName" "initCoins", TestHelper);
  (mkSite "x/basket/keeper" "Keeper.BurnBasketToken" MBBurn "types.TokensKeeper" "types.ModuleName" "burnCoins", BurnSite);
  (mkSite "x/basket/keeper" "Keeper.MintBasketToken" MBMint "types.TokensKeeper" "types.ModuleName" "basketCoins", PrefixedDenom);
  (mkSite "x/distributor/keeper" "Keeper.AllocateTokens" MBMint "types.TokensKeeper" "minttypes.ModuleName" "sdk.Coins{inflationCoin}", NativeInflation);
  (mkSite "x/layer2/keeper" "Keeper.FinishDappBootstrap" MBMint "types.TokensKeeper" "types.ModuleName" "sdk.Coins{sdk.NewCoin(dappBondLpToken, totalSupply)}", PrefixedDenom);
  (mkSite "x/layer2/keeper" "Keeper.OnCollectFee" MBBurn "types.TokensKeeper" "types.ModuleName" "fee", BurnSite);
  (mkSite "x/layer2/keeper" "msgServer.MintBurnTx" MBBurn "types.TokensKeeper" "types.ModuleName" "sdk.Coins{burnCoin}", BurnSite);
  (mkSite "x/layer2/keeper" "msgServer.MintCreateFtTx" MBBurn "types.TokensKeeper" "types.ModuleName" "sdk.Coins{fee}", BurnSite);
  (mkSite "x/layer2/keeper" "msgServer.MintCreateNftTx" MBBurn "types.TokensKeeper" "types.ModuleName" "sdk.Coins{fee}", BurnSite);
  (mkSite "x/layer2/keeper" "msgServer.MintIssueTx" MBMint "types.TokensKeeper" "types.ModuleName" "sdk.Coins{mintCoin}", AnyRegistered);
  (mkSite "x/multistaking/keeper" "Keeper.Delegate" MBMint "types.TokensKeeper" "minttypes.ModuleName" "poolCoins", PrefixedDenom);
  (mkSite "x/multistaking/keeper" "Keeper.SlashStakingPool" MBBurn "types.BankKeeper" "types.ModuleName" "burnAmount", BurnSite);
  (mkSite "x/multistaking/keeper" "Keeper.Undelegate" MBBurn "types.BankKeeper" "types.ModuleName" "poolCoins", BurnSite);
  (mkSite "x/recovery/keeper" "msgServer.BurnRecoveryTokens" MBBurn "types.TokensKeeper" "types.ModuleName" "sdk.NewCoins(msg.RrCoin)", BurnSite);
  (mkSite "x/recovery/keeper" "msgServer.IssueRecoveryTokens" MBMint "types.TokensKeeper" "types.ModuleName" "recoveryCoins", PrefixedDenom);
  (mkSite "x/tokens/keeper" "Keeper.BurnCoins" MBBurn "types.BankKeeper" "moduleName" "amt", BurnSite);
  (mkSite "x/tokens/keeper" "Keeper.MintCoins" MBMint "types.BankKeeper" "moduleName" "amt", RegistryToBank);
  (mkSite "x/ubi/keeper" "Keeper.ProcessUBIRecord" MBMint "types.TokensKeeper" "minttypes.ModuleName" "sdk.NewCoins(coin)", NativeUbi)
].
Close Scope string_scope.

Definition kind_eqb (a b : mb_kind) : bool := match a, b with MBMint, MBMint | MBBurn, MBBurn => true | _, _ => false end.
Definition site_eqb (a b : mb_site) : bool :=
  String.eqb (ms_pkg a) (ms_pkg b) && String.eqb (ms_func a) (ms_func b) && kind_eqb (ms_kind a) (ms_kind b)
  && String.eqb (ms_via a) (ms_via b) && String.eqb (ms_module a) (ms_module b) && String.eqb (ms_coins a) (ms_coins b).
Definition class_of (s : mb_site) : option mint_class :=
  option_map snd (find (fun e => site_eqb (fst e) s) sanctioned_sites).
Definition is_mint (s : mb_site) : bool := kind_eqb (ms_kind s) MBMint.
(* transaction / block reachable sites through which the native token can be minted *)
Definition native_mint_sites : list (string * string) :=
  map (fun s => (ms_pkg s, ms_func s))
      (filter (fun s => is_mint s && match class_of s with
                                      | Some (NativeInflation | NativeUbi | AnyRegistered) => true | _ => false end) mint_burn_sites).

Definition sites_classified : bool :=
  forallb (fun s => match class_of s with
                    | Some c => Bool.eqb (is_mint s) (negb match c with BurnSite => true | _ => false end)
                    | None => false end) mint_burn_sites.
(* every mint outside the registry wrapper and the test helper goes through the token registry *)
Definition mints_through_registry : bool :=
  forallb (fun s => negb (is_mint s) || match class_of s with
                                         | Some (RegistryToBank | TestHelper) => true
                                         | _ => String.eqb (ms_via s) "types.TokensKeeper"%string end) mint_burn_sites.

(* burn sites that go to the bank directly: the registry record of those denominations is not reduced *)
Definition burns_bypassing_registry : list (string * string) :=
  map (fun s => (ms_pkg s, ms_func s))
      (filter (fun s => negb (is_mint s) && negb (String.eqb (ms_via s) "types.TokensKeeper"%string)
                        && negb (String.eqb (ms_pkg s) "x/tokens/keeper"%string)) mint_burn_sites).

Lemma mint_sites_sanctioned_lemma :
  mint_burn_gen_errors = [] /\ sites_classified = true /\ mints_through_registry = true /\
  native_mint_sites = [("x/distributor/keeper", "Keeper.AllocateTokens"); ("x/layer2/keeper", "msgServer.MintIssueTx");
                       ("x/ubi/keeper", "Keeper.ProcessUBIRecord")]%string /\
  burns_bypassing_registry = [("x/multistaking/keeper", "Keeper.SlashStakingPool"); ("x/multistaking/keeper", "Keeper.Undelegate")]%string.
Proof. vm_compute. repeat split; reflexivity. Qed.

(* ================================================================ UBI payout bound
   In one block UBI mints at most the amount of every record whose period has elapsed.  Needs the
   payout amount not to go through int64 and the due test not to wrap -- by the repaired shapes, or
   because the stored records are small enough. *)
Definition pools_nonneg (s : st) : Prop := forall p b, aget p (s_pools s) = Some b -> 0 <= b.
Definition ubi_pay_ok (cf : config) (u : ubi) : Prop :=
  0 <= u_amount u /\ 0 <= u_last u /\ 0 <= u_period u /\
  (cf_ubi_amount_exact cf = true \/ u_amount u < two63) /\
  (cf_ubi_due_exact cf = true \/ u_last u + u_period u < two64).

Lemma as_int64_nonneg_small : forall x, 0 <= x < two63 -> as_int64 x = x.
Proof.
  intros x H. unfold as_int64, wrap64. assert (two63 < two64) by reflexivity.
  rewrite Z.mod_small by lia. destruct (x <? two63) eqn:E; lia.
Qed.

Lemma allocate_keeps : forall s s', allocate s = Ok s' -> s_ubis s' = s_ubis s /\ s_pools s' = s_pools s /\ s_now s' = s_now s.
Proof.
  intros s s'. unfold allocate.
  destruct (inflation_possible _ _ _ _) as [ip| |]; cbn [bind]; try discriminate.
  destruct (negb ip); [intros H; inversion H; auto|].
  destruct (target_supply _ _ _ _) as [tgt| |]; cbn [bind]; try discriminate.
  destruct (0 <? _).
  - destruct (reg_mint s native _) as [s1| |] eqn:EM; try discriminate.
    intros H; inversion H; subst s1. apply reg_mint_supply in EM. intuition.
  - intros H; inversion H; auto.
Qed.

Lemma process_ubi_payout : forall cf s u s', process_ubi cf s u = Ok s' -> pools_nonneg s -> ubi_pay_ok cf u ->
  0 <= nat_supply s' - nat_supply s <= u_amount u * 1000000 /\ pools_nonneg s' /\ s_now s' = s_now s.
Proof.
  intros cf s u s' H Hp (Ha & Hl & Hper & Hamt & _). revert H. unfold process_ubi.
  destruct (inflation_possible _ _ _ _) as [ip| |]; cbn [bind]; try discriminate.
  destruct (negb ip); [intros H; inversion H; subst; repeat split; try lia; assumption|].
  set (s1 := set_ubis s _).
  assert (Eamt : (if cf_ubi_amount_exact cf then u_amount u else as_int64 (u_amount u)) = u_amount u).
  { destruct (cf_ubi_amount_exact cf); [reflexivity|]. destruct Hamt as [?|?]; [discriminate|]. apply as_int64_nonneg_small; lia. }
  rewrite Eamt.
  assert (T : forall todo, (if u_dynamic u then
                match aget (u_pool u) (s_pools s) with
                | None => Err "spending pool does not exist"%string
                | Some bal => if u_amount u * 1000000 <=? bal then Ok None else Ok (Some (u_amount u * 1000000 - bal))
                end
              else Ok (Some (u_amount u * 1000000))) = Ok todo ->
              match todo with Some amt => amt <= u_amount u * 1000000 | None => True end).
  { intros todo. destruct (u_dynamic u).
    - destruct (aget (u_pool u) (s_pools s)) as [bal|] eqn:Eb; [|discriminate]. specialize (Hp _ _ Eb).
      destruct (_ <=? bal); intros H; inversion H; subst; [exact I|lia].
    - intros H; inversion H; subst. lia. }
  match goal with |- (do todo <- ?X; _) = _ -> _ => destruct X as [todo| |] eqn:ET end; cbn [bind]; try discriminate.
  specialize (T todo eq_refl).
  destruct todo as [amt|]; [|intros H; inversion H; subst; subst s1; unfold nat_supply, supply_of, pools_nonneg, set_ubis in *; cbn [s_bank s_pools s_now] in *; repeat split; try lia; assumption].
  destruct (amt <? 0); [discriminate|]. destruct (amt =? 0); [discriminate|].
  destruct (reg_mint s1 native amt) as [s2| |] eqn:EM; cbn [bind]; try discriminate.
  destruct (aget (u_pool u) (s_pools s2)) as [bal|] eqn:Eb; [|discriminate].
  intros H; inversion H; subst s'; clear H.
  pose proof (reg_mint_nat _ _ _ EM) as Hn. destruct (reg_mint_supply _ _ _ _ EM) as (Hpos & _ & _ & _ & _ & Hnow & Hpools & _).
  split; [|split].
  - subst s1. unfold nat_supply, supply_of, set_pools, set_ubis in *. cbn [s_bank] in *. lia.
  - intros p b. unfold set_pools. cbn [s_pools]. destruct (Z.eq_dec p (u_pool u)) as [E|E].
    + subst p. rewrite aget_aset_same. intros Hb; inversion Hb; subst. rewrite Hpools in Eb. subst s1. cbn [s_pools set_ubis] in Eb.
      specialize (Hp _ _ Eb). lia.
    + rewrite aget_aset_other by assumption. rewrite Hpools. subst s1. cbn [s_pools set_ubis]. apply Hp.
  - unfold set_pools. cbn [s_now]. rewrite Hnow. reflexivity.
Qed.

Definition due_total (now : Z) (us : list ubi) : Z := spec_ubi_due_total now us.
Lemma ubi_end_payout : forall cf us s s', ubi_end cf us s = Ok s' -> pools_nonneg s -> Forall (ubi_pay_ok cf) us ->
  0 <= nat_supply s' - nat_supply s <= spec_ubi_due_total (s_now s) us /\ pools_nonneg s'.
Proof.
  intros cf. induction us as [|u r IH]; intros s s' H Hp Hf; cbn [ubi_end] in H.
  - inversion H; subst. unfold spec_ubi_due_total. cbn. split; [lia|assumption].
  - inversion Hf as [|? ? Hu Hr]; subst.
    unfold spec_ubi_due_total. cbn [map zsum fold_right]. change (fold_right Z.add 0) with zsum.
    fold (spec_ubi_due_total (s_now s) r).
    assert (Hd : ubi_due cf (s_now s) u = true -> u_last u + u_period u < s_now s).
    { destruct Hu as (Ha & Hl & Hper & _ & Hdue). unfold ubi_due. destruct (cf_ubi_due_exact cf); [lia|].
      destruct Hdue as [?|?]; [discriminate|]. rewrite wrap64_small by lia. lia. }
    assert (Hnn : 0 <= (if u_last u + u_period u <? s_now s then u_amount u * 1000000 else 0)).
    { destruct Hu as (Ha & _). destruct (_ <? _); lia. }
    destruct (ubi_due cf (s_now s) u) eqn:Edue.
    + specialize (Hd eq_refl). assert (El : (u_last u + u_period u <? s_now s) = true) by lia. rewrite El in *.
      destruct (process_ubi cf s u) as [s1| |] eqn:E; [| |discriminate].
      * destruct (process_ubi_payout _ _ _ _ E Hp Hu) as (B1 & P1 & N1).
        destruct (IH _ _ H P1 Hr) as (B2 & P2). rewrite N1 in B2. split; [lia|assumption].
      * destruct (IH _ _ H Hp Hr) as (B2 & P2). destruct Hu as (Ha & _). split; [lia|assumption].
    + destruct (IH _ _ H Hp Hr) as (B2 & P2). split; [lia|assumption].
Qed.

Lemma block_ubi_payout_lemma : forall cf s dt s1 s2 s3, block_parts cf s dt = Ok (s1, s2, s3) ->
  pools_nonneg s -> Forall (ubi_pay_ok cf) (s_ubis s) ->
  0 <= nat_supply s2 - nat_supply s1 <= spec_ubi_due_total (s_now s + dt) (s_ubis s) /\ pools_nonneg s3.
Proof.
  intros cf s dt s1 s2 s3. unfold block_parts.
  set (s0 := set_time s (s_now s + dt) (s_height s + 1)).
  assert (A : forall x, (if 1 <? s_height s0 then allocate s0 else Ok s0) = Ok x ->
              s_ubis x = s_ubis s /\ s_pools x = s_pools s /\ s_now x = s_now s + dt).
  { intros x. destruct (1 <? s_height s0); [intros H; apply allocate_keeps in H; exact H|intros H; inversion H; auto]. }
  destruct (if 1 <? s_height s0 then allocate s0 else Ok s0) as [x| |]; cbn [bind]; try discriminate.
  destruct (A x eq_refl) as (EU & EP & EN).
  destruct (ubi_end cf (s_ubis x) x) as [y| |] eqn:E; cbn [bind]; try discriminate.
  intros H Hp Hf; inversion H; subst s1 s2 s3; clear H.
  assert (Hpx : pools_nonneg x) by (unfold pools_nonneg; rewrite EP; exact Hp).
  rewrite EU in E. destruct (ubi_end_payout _ _ _ _ E Hpx Hf) as (B & P). rewrite EN in B.
  split; [exact B|]. unfold pools_nonneg, distr_end, set_snaps. cbn [s_pools]. exact P.
Qed.

(* ================================================================ full statements, per guard shape
   Each statement of the property that depends on a guard is a Prop over the configuration; it is
   proved for the repaired shape and refuted for the shape first found, so that for ANY tree the
   translator accepts, exactly one of the two is the theorem about that tree. *)
Definition owner_cap_statement (cf : config) : Prop :=
  forall s actor perm d supply cap owner noedit fee sc s' t,
  upsert_msg cf s actor perm d supply cap owner noedit fee sc = Ok s' -> aget d (s_reg s) = Some t -> 0 < t_cap t ->
  exists t', aget d (s_reg s') = Some t' /\ 0 < t_cap t' <= t_cap t.
Definition ubi_hardcap_statement (cf : config) : Prop :=
  forall s name amount period start end_ pool s', Forall ubi_dom (s_ubis s) ->
  0 <= amount < two64 -> 0 <= period < two64 ->
  ubi_upsert cf s name amount period start end_ pool = Ok s' ->
  spec_ubi_yearly (s_ubis s') <= p_hardcap (s_params s').
Definition ubi_due_statement (cf : config) : Prop :=
  forall now u, 0 <= u_last u < two64 -> 0 <= u_period u < two64 -> ubi_due cf now u = true -> u_last u + u_period u < now.
Definition native_origin_statement (cf : config) : Prop :=
  forall s o s', step cf s o = Ok s' -> nat_supply s < nat_supply s' -> exists dt, o = OBlock dt.

Lemma owner_cap_decided : forall cf, if cf_cap_strict cf then owner_cap_statement cf else ~ owner_cap_statement cf.
Proof.
  intros cf. destruct (cf_cap_strict cf) eqn:E; [exact (owner_cap_strict_lemma cf E)|exact (owner_cap_statement_refuted cf E)].
Qed.
Lemma ubi_hardcap_decided : forall cf, if cf_ubi_exact cf then ubi_hardcap_statement cf else ~ ubi_hardcap_statement cf.
Proof.
  intros cf. destruct (cf_ubi_exact cf) eqn:E.
  - intros s name amount period start end_ pool s' Hd _ _ H.
    destruct (ubi_within_hardcap_exact_lemma _ _ _ _ _ _ _ _ _ E Hd H) as (A & B & _). lia.
  - intros St. destruct (ubi_overflow_refuted_lemma cf E) as (s & name & amount & period & start & end_ & pool & s' & Hd & H1 & H2 & H3 & H4).
    specialize (St s name amount period start end_ pool s' Hd H1 ltac:(lia) H3). lia.
Qed.
Lemma ubi_due_decided : forall cf, if cf_ubi_due_exact cf then ubi_due_statement cf else ~ ubi_due_statement cf.
Proof.
  intros cf. destruct (cf_ubi_due_exact cf) eqn:E.
  - intros now u _ _ H. exact (ubi_due_exact_elapsed cf now u E H).
  - intros St. destruct (ubi_period_wrap_due cf E) as (u & now & H1 & H2 & H3 & H4). specialize (St now u H1 H2 H4). lia.
Qed.
Lemma native_origin_decided : forall cf, if cf_mint_native_refused cf then native_origin_statement cf else ~ native_origin_statement cf.
Proof.
  intros cf. destruct (cf_mint_native_refused cf) eqn:E.
  - exact (native_only_blocks_lemma cf E).
  - intros St. destruct (native_mint_refuted_lemma cf E) as (s & actor & amt & s' & H1 & H2 & H3).
    destruct (St _ _ _ H1 ltac:(lia)) as (dt & Eo). discriminate Eo.
Qed.

(* ================================================================ a state already over the hard cap
   The hard cap constrains ACCEPTANCE.  A state whose yearly total already exceeds it (the genesis
   state of the tree: one record of 6,087,375 per year against the default cap 6,000,000; or any state
   after governance lowered the cap) is not itself flagged; what the handler guarantees there is that
   nothing more is accepted until the cap is raised or a record removed. *)
Lemma ubi_over_cap_rejects_lemma : forall cf s name amount period start end_ pool s',
  cf_ubi_exact cf = true -> Forall ubi_dom (s_ubis s) -> 0 <= amount -> 0 <= period ->
  p_hardcap (s_params s) < spec_ubi_yearly (s_ubis s) ->
  ubi_upsert cf s name amount period start end_ pool <> Ok s'.
Proof.
  intros cf s name amount period start end_ pool s' Hcf Hd Ha Hp Hover. unfold ubi_upsert. rewrite Hcf.
  destruct (aget pool (s_pools s)); [|discriminate].
  destruct (period =? 0) eqn:E; [discriminate|].
  destruct (ubi_sum_exact (s_ubis s) 0) as [sum| |] eqn:ES; cbn [bind]; try discriminate.
  apply ubi_sum_exact_val in ES. rewrite spec_ubi_yearly_eq in Hover.
  assert (0 <= amount * year_seconds / period) by (apply Z.div_pos; unfold year_seconds; lia).
  destruct (p_hardcap (s_params s) <? sum + amount * year_seconds / period) eqn:EH; [discriminate|lia].
Qed.

(* ================================================================ non-vacuity *)
Definition infl_state : st :=
  mkSt 1700000000 5 (mkParams 180000000000000000 31557600 350000000000000000 7000000)
       (mkSnap 1699990000 (Some 300000000000000)) (mkSnap 1699990000 (Some 300000000000000))
       [(0, 300000000000000)] [(bkey 1 0, 1000000)] [(0, mkTok 0 0 0 false PREC 500000000000000000)]
       [mkUbi 0 500000 2592000 0 0 true 0] [(0, 0)].
Lemma nonvacuous_inflation : forall cf, exists s dt s1 s2 s3 a,
  block_parts cf s dt = Ok (s1, s2, s3) /\ sn_amt (s_psnap s) = Some a /\ 0 <= a /\ 0 <= p_rate (s_params s)
  /\ sn_time (s_psnap s) <= s_now s + dt /\ 0 < as_int64 (p_period (s_params s)) /\ nat_supply s < nat_supply s1.
Proof.
  intros [[] [] [] [] []]; exists infl_state, 86400; do 4 eexists;
  (split; [vm_compute; reflexivity|]); (split; [reflexivity|]); vm_compute; repeat split; congruence.
Qed.

Definition gate_state : st :=
  mkSt 1700000000 5 (mkParams 180000000000000000 31557600 10000000000000000 7000000)
       (mkSnap 1699990000 (Some 300000000000000)) (mkSnap 1699990000 (Some 200000000000000))
       [(0, 300000000000000)] [] [(0, mkTok 0 0 0 false PREC 500000000000000000)]
       [mkUbi 0 500000 2592000 0 0 true 0] [(0, 0)].
Lemma nonvacuous_gate : forall cf, exists s dt s1 s2 s3,
  0 <= p_maxann (s_params s) /\ spec_gate_closed (s_ysnap s) (p_maxann (s_params s)) (nat_supply s) (s_now s + dt) = true
  /\ block_parts cf s dt = Ok (s1, s2, s3) /\ s_ubis s <> [].
Proof.
  intros [[] [] [] [] []]; exists gate_state, 86400; do 3 eexists;
  (split; [vm_compute; congruence|]); (split; [vm_compute; reflexivity|]); (split; [vm_compute; reflexivity|]); discriminate.
Qed.

Lemma nonvacuous_ubi : forall cf, exists s name amount period start end_ pool s',
  no_u64_overflow (s_ubis s) amount period /\ ubi_upsert cf s name amount period start end_ pool = Ok s' /\ s_ubis s <> [] /\ 0 < amount.
Proof.
  intros [[] [] [] [] []]; exists infl_state, 1, 1000, 86400, 0, 0, 0; eexists;
  (split; [|split; [vm_compute; reflexivity|split; [discriminate|lia]]]);
  unfold no_u64_overflow; (split; [repeat constructor; vm_compute; congruence|]);
  vm_compute; repeat split; congruence.
Qed.

Lemma nonvacuous_registry : forall cf, exists s ops d t,
  Forall nonneg_cap_op ops /\ cap_ok (s_reg s) /\ aget d (s_reg s) = Some t /\ 0 < t_cap t
  /\ reg_supply s d < reg_supply (run cf s ops) d /\ 500 < reg_supply (run cf s ops) d.
Proof.
  intros cf.
  exists (set_reg infl_state [(0, mkTok 0 0 0 false PREC 500000000000000000); (4, mkTok 10 1000 1 false PREC 0)]),
         [OMintIssue 1 4 500; OUpsertMsg 1 false 4 0 900 1 false PREC 0; OMintIssue 1 4 500; OMintIssue 1 4 390], 4.
  eexists. split; [repeat constructor; cbn; lia|]. split.
  - intros d t. cbn [s_reg set_reg aget]. destruct (0 =? d); [intros H; inversion H; subst; cbn; lia|].
    destruct (4 =? d); [intros H; inversion H; subst; cbn; lia|discriminate].
  - split; [vm_compute; reflexivity|]. destruct cf as [[] [] [] [] []]; vm_compute; repeat split; congruence.
Qed.

(* ================================================================ the spec checker accepts the model
   (what connects "the real trace passes the checker" to the theorems above) *)
Lemma as_int64_small : forall p, 0 < p < two63 -> as_int64 p = p.
Proof.
  intros p H. unfold as_int64, wrap64. assert (two63 < two64) by reflexivity.
  rewrite Z.mod_small by lia. destruct (p <? two63) eqn:E; lia.
Qed.

(* states whose parameters passed x/gov validation and whose snapshots were taken from a real supply *)
Definition valid_monetary (s : st) (dt : Z) : Prop :=
  0 <= p_rate (s_params s) /\ 0 < p_period (s_params s) < two63 /\ 0 <= p_maxann (s_params s)
  /\ sn_time (s_psnap s) <= s_now s + dt
  /\ (forall a, sn_amt (s_psnap s) = Some a -> 0 <= a).

(* every block of the model passes the two inflation clauses of the checker, evaluated exactly as
   the checker evaluates them on real observations (checker state = observed previous values) *)
Lemma c13_chk_sound_block_lemma : forall cf s dt s1 s2 s3, valid_monetary s dt ->
  block_parts cf s dt = Ok (s1, s2, s3) ->
  chk_infl_target (nat_supply s) (s_psnap s) (s_params s) (s_now s + dt) (nat_supply s1) = true /\
  chk_annual_gate (nat_supply s) (s_ysnap s) (s_params s) (s_now s + dt) (nat_supply s2) = true.
Proof.
  intros cf s dt s1 s2 s3 (Hr & Hp & Hm & Ht & Ha) H. split.
  - unfold chk_infl_target, spec_target. destruct (sn_amt (s_psnap s)) as [a|] eqn:Ea.
    + pose proof (block_inflation_le_target cf s dt s1 s2 s3 a H Ea (Ha a eq_refl) Hr Ht) as B.
      rewrite as_int64_small in B by exact Hp. specialize (B ltac:(lia)). lia.
    + (* no snapshot yet: an allocation would dereference the nil amount, so none happened *)
      revert H. unfold block_parts. set (s0 := set_time s (s_now s + dt) (s_height s + 1)).
      destruct (1 <? s_height s0).
      * unfold allocate. destruct (inflation_possible _ _ _ _) as [[|]| |]; cbn [bind negb]; try discriminate.
        -- unfold target_supply. change (s_psnap s0) with (s_psnap s). rewrite Ea. cbn [bind]. discriminate.
        -- destruct (ubi_end cf (s_ubis s0) s0) as [y| |]; cbn [bind]; try discriminate.
           intros H; inversion H; subst. change (nat_supply s0) with (nat_supply s). lia.
      * cbn [bind]. destruct (ubi_end cf (s_ubis s0) s0) as [y| |]; cbn [bind]; try discriminate.
        intros H; inversion H; subst. change (nat_supply s0) with (nat_supply s). lia.
  - unfold chk_annual_gate. destruct (spec_gate_closed _ _ _ _) eqn:G; [|reflexivity].
    destruct (no_mint_after_annual_max_lemma cf s dt s1 s2 s3 Hm G H) as (_ & E & _). lia.
Qed.

(* every accepted model operation other than a block and the (refuted) native MintIssue passes the
   origin clause *)
Definition mints_native_by_message (o : op) : bool :=
  match o with OMintIssue _ d _ => d =? native | OMintIssue2 _ d _ _ => d =? native | _ => false end.
Definition is_block (o : op) : bool := match o with OBlock _ => true | _ => false end.
Lemma c13_chk_sound_origin_lemma : forall cf s o,
  is_block o = false -> mints_native_by_message o = false ->
  chk_origin (nat_supply s) (nat_supply (step_total cf s o)) = true.
Proof.
  intros cf s o Hb Hm. unfold chk_origin, step_total.
  destruct (step cf s o) as [s'| |] eqn:E; try lia.
  destruct (Z_lt_le_dec (nat_supply s) (nat_supply s')) as [L|L]; [|lia].
  destruct (step_native_sources _ _ _ _ E L) as [(dt & ->)|[(actor & amt & ->)|(actor & a1 & a2 & ->)]]; cbn in *; discriminate.
Qed.

(* ================================================================ the annual gate, record by record
   Inside one block every UBI mint happens with the gate still open at the supply reached just before
   it -- the inflation of the same block and the payouts of the records processed earlier included.
   (Two records falling due together are NOT both checked against the allowance left at block start.) *)
Lemma process_ubi_frame : forall cf s u s', process_ubi cf s u = Ok s' ->
  s_ysnap s' = s_ysnap s /\ s_params s' = s_params s /\ s_now s' = s_now s.
Proof.
  intros cf s u s'. unfold process_ubi.
  destruct (inflation_possible _ _ _ _) as [ip| |]; cbn [bind]; try discriminate.
  destruct (negb ip); [intros H; inversion H; auto|].
  set (s1 := set_ubis s _).
  match goal with |- (do todo <- ?X; _) = _ -> _ => destruct X as [todo| |] end; cbn [bind]; try discriminate.
  destruct todo as [amt|]; [|intros H; inversion H; subst; cbn; auto].
  destruct (amt <? 0); [discriminate|]. destruct (amt =? 0); [discriminate|].
  destruct (reg_mint s1 native amt) as [s2| |] eqn:EM; cbn [bind]; try discriminate.
  destruct (aget (u_pool u) (s_pools s2)); [|discriminate].
  intros H; inversion H; subst s'; clear H. destruct (reg_mint_supply _ _ _ _ EM) as (_ & _ & _ & Y & P & N & _).
  cbn. subst s1. cbn in *. auto.
Qed.

Lemma ubi_mints_gate_lemma : forall cf us s, 0 <= p_maxann (s_params s) ->
  chk_ubi_gate (s_ysnap s) (s_params s) (s_now s) (nat_supply s) (ubi_mints cf us s) = true.
Proof.
  intros cf. induction us as [|u r IH]; intros s Hm; cbn [ubi_mints chk_ubi_gate]; [reflexivity|].
  destruct (ubi_due cf (s_now s) u); [|apply IH; exact Hm].
  destruct (process_ubi cf s u) as [s'| |] eqn:E; [|apply IH; exact Hm|reflexivity].
  destruct (process_ubi_frame _ _ _ _ E) as (Y & P & N).
  destruct (process_ubi_view _ _ _ _ E) as (_ & _ & Hle).
  specialize (IH s'). rewrite Y, P, N in IH.
  destruct (nat_supply s' =? nat_supply s) eqn:Eq.
  - cbn [app]. assert (Q : nat_supply s' = nat_supply s) by lia. rewrite Q in IH. apply IH. exact Hm.
  - cbn [app chk_ubi_gate].
    assert (G : spec_gate_closed (s_ysnap s) (p_maxann (s_params s)) (nat_supply s) (s_now s) = false).
    { destruct (spec_gate_closed _ _ _ _) eqn:G; [|reflexivity].
      pose proof (gate_closed_blocks _ _ _ _ Hm G) as Hn. apply (process_ubi_blocked cf s u s' Hn) in E. subst s'. lia. }
    rewrite G. cbn [negb andb].
    replace (0 <? nat_supply s' - nat_supply s) with true by lia. cbn [andb].
    replace (nat_supply s + (nat_supply s' - nat_supply s)) with (nat_supply s') by lia. apply IH. exact Hm.
Qed.

Lemma zsum_app : forall a b, zsum (a ++ b) = zsum a + zsum b.
Proof.
  induction a as [|x a IHa]; intros b; [reflexivity|].
  change (zsum ((x :: a) ++ b)) with (x + zsum (a ++ b)). change (zsum (x :: a)) with (x + zsum a). rewrite IHa. lia.
Qed.

Lemma ubi_mints_sum : forall cf us s s', ubi_end cf us s = Ok s' -> zsum (ubi_mints cf us s) = nat_supply s' - nat_supply s.
Proof.
  intros cf. induction us as [|u r IH]; intros s s'; cbn [ubi_end ubi_mints].
  - intros H; inversion H; subst. cbn. lia.
  - destruct (ubi_due cf (s_now s) u); [|apply IH].
    destruct (process_ubi cf s u) as [s1| |] eqn:E; [|apply IH|discriminate].
    intros H. specialize (IH _ _ H).
    rewrite zsum_app, IH. destruct (nat_supply s1 =? nat_supply s) eqn:Eq; cbn; lia.
Qed.

(* block level: after the inflation of the block (state s1) the per-record mints pass the gate test
   and add up to the UBI part of the block's supply growth *)
Lemma block_ubi_gate_lemma : forall cf s dt s1 s2 s3, 0 <= p_maxann (s_params s) ->
  block_parts cf s dt = Ok (s1, s2, s3) ->
  chk_ubi_gate (s_ysnap s) (s_params s) (s_now s + dt) (nat_supply s1) (ubi_mints cf (s_ubis s1) s1) = true /\
  zsum (ubi_mints cf (s_ubis s1) s1) = nat_supply s2 - nat_supply s1.
Proof.
  intros cf s dt s1 s2 s3 Hm. unfold block_parts.
  set (s0 := set_time s (s_now s + dt) (s_height s + 1)).
  assert (A : forall x, (if 1 <? s_height s0 then allocate s0 else Ok s0) = Ok x ->
              s_ysnap x = s_ysnap s /\ s_params x = s_params s /\ s_now x = s_now s + dt).
  { intros x. destruct (1 <? s_height s0).
    - unfold allocate. destruct (inflation_possible _ _ _ _) as [ip| |]; cbn [bind]; try discriminate.
      destruct (negb ip); [intros H; inversion H; subst; auto|].
      destruct (target_supply _ _ _ _) as [tgt| |]; cbn [bind]; try discriminate.
      destruct (0 <? _).
      + destruct (reg_mint s0 native _) as [y| |] eqn:EM; try discriminate.
        intros H; inversion H; subst y. destruct (reg_mint_supply _ _ _ _ EM) as (_ & _ & _ & Y & P & N & _). auto.
      + intros H; inversion H; subst; auto.
    - intros H; inversion H; subst; auto. }
  destruct (if 1 <? s_height s0 then allocate s0 else Ok s0) as [x| |]; cbn [bind]; try discriminate.
  destruct (A x eq_refl) as (Y & P & N).
  destruct (ubi_end cf (s_ubis x) x) as [y| |] eqn:EU; cbn [bind]; try discriminate.
  intros H; inversion H; subst s1 s2 s3; clear H. split.
  - pose proof (ubi_mints_gate_lemma cf (s_ubis x) x) as G. rewrite Y, P, N in G. apply G. exact Hm.
  - apply ubi_mints_sum. exact EU.
Qed.

(* ================================================================ genesis round trip
   In the model an export / wipe / import is the identity on supply, registry, UBI records and pools,
   and leaves the annual gate exactly where it was (a never-stored snapshot amount comes back as 0,
   which the gate treats the same way). *)
Lemma genesis_roundtrip_gate : forall ys m sup now,
  inflation_possible (snap_norm ys) m sup now = inflation_possible ys m sup now.
Proof. intros [t [a|]] m sup now; reflexivity. Qed.
Lemma genesis_roundtrip_identity : forall s,
  nat_supply (genesis_roundtrip s) = nat_supply s /\ s_reg (genesis_roundtrip s) = s_reg s /\ s_bank (genesis_roundtrip s) = s_bank s
  /\ s_ubis (genesis_roundtrip s) = s_ubis s /\ s_pools (genesis_roundtrip s) = s_pools s /\ s_params (genesis_roundtrip s) = s_params s
  /\ sn_time (s_ysnap (genesis_roundtrip s)) = sn_time (s_ysnap s) /\ sn_time (s_psnap (genesis_roundtrip s)) = sn_time (s_psnap s)
  /\ (forall m sup now, inflation_possible (s_ysnap (genesis_roundtrip s)) m sup now = inflation_possible (s_ysnap s) m sup now).
Proof. intros s. repeat split. intros. apply genesis_roundtrip_gate. Qed.
