(* C03 -- proofs about the effect IR of Model/Debit.v: a handler that passes the static
   authorisation check never lowers the balance or the wealth (balance + recorded claims) of an
   account that did not sign; block handlers never debit users; the code's handlers that fail the
   check are refuted by concrete witnesses; custody and rotation guards. *)
From Coq Require Import ZifyBool.
From Sekai Require Import Base.Prelude Model.Debit.

(* ------------------------------------------------------------------ ledger lemmas *)
Lemma amount_of_nonneg : forall c d, coins_nonneg c = true -> 0 <= amount_of c d.
Proof.
  induction c as [|[e x] c IH]; intros d H; cbn in *; [lia|].
  apply andb_true_iff in H as [H1 H2]. specialize (IH d H2). cbn in H1.
  destruct (String.eqb e d); cbn; lia.
Qed.

Lemma send_ok : forall b f t c b', send b f t c = Ok b' ->
  coins_nonneg c = true /\ covers b f c = true /\ b' = credit (debit b f c) t c.
Proof.
  unfold send; intros b f t c b' H.
  destruct (coins_nonneg c) eqn:E1; cbn in H; [|discriminate].
  destruct (covers b f c) eqn:E2; cbn in H; [|discriminate].
  inversion H; auto.
Qed.

Lemma send_not_from : forall b f t c b' a d, send b f t c = Ok b' -> f <> a -> b' a d >= b a d.
Proof.
  intros b f t c b' a d H Ha. apply send_ok in H as (Hn & _ & ->).
  pose proof (amount_of_nonneg c d Hn). unfold credit, debit.
  destruct (a =? t) eqn:E1; destruct (a =? f) eqn:E2; lia.
Qed.

Lemma send_to : forall b f t c b' d, send b f t c = Ok b' -> t <> f -> b' t d = b t d + amount_of c d.
Proof.
  intros b f t c b' d H Ha. apply send_ok in H as (_ & _ & ->). unfold credit, debit.
  rewrite Z.eqb_refl. destruct (t =? f) eqn:E; lia.
Qed.

(* ------------------------------------------------------------------ claims lemmas *)
Lemma coins_eqb_eq : forall a b, coins_eqb a b = true -> a = b.
Proof.
  induction a as [|[d x] a IH]; destruct b as [|[e y] b]; cbn; intros H; try discriminate; auto.
  apply andb_true_iff in H as [H H3]. apply andb_true_iff in H as [H1 H2].
  apply String.eqb_eq in H1. apply Z.eqb_eq in H2. subst. f_equal. auto.
Qed.

Lemma claim_eqb_eq : forall x y, claim_eqb x y = true -> x = y.
Proof.
  intros [k i o p c] [k' i' o' p' c']; unfold claim_eqb; cbn; intros H.
  repeat (apply andb_true_iff in H as [H ?]).
  apply String.eqb_eq in H. apply coins_eqb_eq in H0.
  assert (p = p') by (destruct p, p'; cbn in *; try discriminate; auto; f_equal; lia).
  assert (i = i') by lia. assert (o = o') by lia. subst; auto.
Qed.

Lemma in_accts_In : forall a l, in_accts a l = true <-> In a l.
Proof.
  unfold in_accts; intros a l; rewrite existsb_exists; split.
  - intros (x & Hx & E). apply Z.eqb_eq in E; subst; auto.
  - intros H; exists a; split; auto; apply Z.eqb_refl.
Qed.

Definition claims_nonneg (l : list claim) : bool := forallb (fun c => coins_nonneg (c_coins c)) l.

Lemma claimed_excl_app : forall S l c a d,
  claimed_excl S (l ++ [c]) a d = claimed_excl S l a d + (if counted S a c then amount_of (c_coins c) d else 0).
Proof.
  induction l as [|x l IH]; intros c a d; cbn.
  - destruct (counted S a c); lia.
  - rewrite IH. destruct (counted S a x); lia.
Qed.

Lemma claimed_excl_remove : forall S l c a d, claims_nonneg l = true -> coins_nonneg (c_coins c) = true ->
  claimed_excl S (remove_claim c l) a d >= claimed_excl S l a d - (if counted S a c then amount_of (c_coins c) d else 0)
  /\ claims_nonneg (remove_claim c l) = true.
Proof.
  induction l as [|x l IH]; intros c a d Hn Hc; cbn in *.
  - split; auto. pose proof (amount_of_nonneg _ d Hc). destruct (counted S a c); lia.
  - apply andb_true_iff in Hn as [Hx Hl].
    destruct (claim_eqb x c) eqn:E.
    + apply claim_eqb_eq in E; subst x. split; auto. destruct (counted S a c); lia.
    + destruct (IH c a d Hl Hc) as [I1 I2]. cbn. split.
      * destruct (counted S a x); lia.
      * unfold claims_nonneg in *. cbn. rewrite Hx. cbn. exact I2.
Qed.

Lemma find_claim_In : forall k id l c, find_claim k id l = Some c -> In c l.
Proof.
  induction l as [|x l IH]; cbn; intros c H; [discriminate|].
  destruct (String.eqb (c_kind x) k && (c_id x =? id)); [inversion H; auto|auto].
Qed.

Lemma claims_nonneg_In : forall l c, claims_nonneg l = true -> In c l -> coins_nonneg (c_coins c) = true.
Proof. unfold claims_nonneg; intros l c H I. rewrite forallb_forall in H. auto. Qed.

(* ------------------------------------------------------------------ the invariant of one step *)
Section Soundness.
Variable is_module : acct -> bool.
Variable m : msg.
Variable a : acct.
Hypothesis a_not_signer : ~ In a (m_signers m).
Hypothesis a_not_module : is_module a = false.
Let S := m_signers m.

Definition pw (s : state) (d : denom) : Z := bal s a d + claimed_excl S (claims s) a d.

(* dynamic meaning of the static flags; a loaded record is one of the (non-negative) claims *)
Definition flag_inv (og pg : bool) (r : env) : Prop :=
  (og = true -> exists c, r = Some c /\ In (c_owner c) S) /\
  (pg = true -> exists c p, r = Some c /\ c_payee c = Some p /\ In p S).
Definition rec_inv (r : env) : Prop := forall c, r = Some c -> coins_nonneg (c_coins c) = true.

Lemma from_not_a : forall og pg r e f, from_ok og pg e = true -> aexp_mod_ok is_module e = true ->
  flag_inv og pg r -> eval_a m r e = Some f -> f <> a.
Proof.
  intros og pg r e f Hok Hm [Ho Hp] Hev Heq; subst f.
  destruct e; cbn in *; try discriminate.
  - apply nth_error_In in Hev. contradiction.
  - destruct (Ho Hok) as (c & -> & Hin). cbn in Hev. inversion Hev; subst. contradiction.
  - destruct (Hp Hok) as (c & p & -> & Hpay & Hin). cbn in Hev. rewrite Hpay in Hev. inversion Hev; subst. contradiction.
  - inversion Hev; subst. congruence.
Qed.

Lemma not_counted_owner : forall c, In (c_owner c) S -> counted S a c = false.
Proof.
  intros c H. unfold counted. destruct (c_owner c =? a) eqn:E; auto.
  apply Z.eqb_eq in E. rewrite E in H. contradiction.
Qed.
Lemma not_counted_payee : forall c p, c_payee c = Some p -> In p S -> counted S a c = false.
Proof.
  intros c p Hp H. unfold counted. rewrite Hp. apply in_accts_In in H. rewrite H. cbn. apply andb_false_r.
Qed.

Lemma step_sound : forall og pg i r s r' s',
  instr_ok og pg i = true -> instr_mods_ok is_module i = true ->
  flag_inv og pg r -> rec_inv r -> claims_nonneg (claims s) = true ->
  step m i (r, s) = Ok (r', s') ->
  (forall d, bal s' a d >= bal s a d /\ pw s' d >= pw s d)
  /\ flag_inv (fst (flags_after og pg i)) (snd (flags_after og pg i)) r'
  /\ rec_inv r' /\ claims_nonneg (claims s') = true.
Proof.
  intros og pg i r s r' s' Hok Hmod Hfl Hrec Hnn Hst.
  destruct i; cbn [step] in Hst; cbn [flags_after fst snd].
  - (* ILoad *)
    destruct (nth_error (m_ids m) i) as [id|]; [|discriminate].
    destruct (find_claim k id (claims s)) as [c|] eqn:F; [|discriminate].
    inversion Hst; subst. repeat split; try lia; auto; try (intros; discriminate).
    intros c0 E; inversion E; subst. eapply claims_nonneg_In; eauto. eapply find_claim_In; eauto.
  - (* IRequire *)
    destruct (nth_error (m_flags m) f) as [[|]|]; try discriminate. inversion Hst; subst.
    repeat split; try lia; auto; apply Hfl.
  - (* IGuardOwner *)
    destruct r as [c|]; [|discriminate].
    destruct (eval_a m (Some c) e) as [x|] eqn:Ev; [|discriminate].
    destruct (c_owner c =? x) eqn:E; [|discriminate]. inversion Hst; subst.
    repeat split; try lia; auto; [|apply Hfl].
    intros H. apply orb_true_iff in H as [H|H]; [apply Hfl; auto|].
    destruct e; cbn in H; try discriminate. cbn in Ev. apply nth_error_In in Ev.
    apply Z.eqb_eq in E. exists c; split; auto. rewrite E; auto.
  - (* IGuardPayee *)
    destruct r as [c|]; [|discriminate].
    destruct (eval_a m (Some c) e) as [x|] eqn:Ev; [|discriminate].
    destruct (oacct_eqb (c_payee c) (Some x)) eqn:E; [|discriminate]. inversion Hst; subst.
    repeat split; try lia; auto; [apply Hfl|].
    intros H. apply orb_true_iff in H as [H|H]; [apply Hfl; auto|].
    destruct e; cbn in H; try discriminate. cbn in Ev. apply nth_error_In in Ev.
    destruct (c_payee c) as [p|] eqn:P; cbn in E; [|discriminate]. apply Z.eqb_eq in E; subst p.
    exists c, x; auto.
  - (* ISend *)
    destruct (eval_a m r from) as [f|] eqn:Ef; [|discriminate].
    destruct (eval_a m r to) as [t|] eqn:Et; [|discriminate].
    destruct (eval_c m r c) as [cs|] eqn:Ec; [|discriminate].
    destruct (send (bal s) f t cs) as [b| |] eqn:Sd; cbn in Hst; try discriminate.
    inversion Hst; subst. cbn in Hok, Hmod. apply andb_true_iff in Hmod as [Hm1 _].
    assert (f <> a) by (eapply from_not_a; eauto).
    repeat split; auto; try apply Hfl.
    + cbn. eapply send_not_from; eauto.
    + unfold pw; cbn. pose proof (send_not_from _ _ _ _ _ a d Sd ltac:(auto)). lia.
  - (* INewClaim *)
    cbn in Hok, Hmod. apply andb_true_iff in Hmod as [Hm1 Hm2].
    destruct (nth_error (m_ids m) i) as [id|]; [|discriminate].
    destruct (eval_a m r owner) as [o|] eqn:Eo; [|discriminate].
    destruct (eval_a m r from) as [f|] eqn:Ef; [|discriminate].
    destruct (eval_c m r c) as [cs|] eqn:Ec; [|discriminate].
    assert (Hfa : f <> a) by (eapply from_not_a; eauto).
    assert (G : forall p b, send (bal s) f m0 cs = Ok b ->
              (forall d, b a d >= bal s a d /\
                bal (mkState b (claims s ++ [mkClaim k id o p cs])) a d
                + claimed_excl S (claims s ++ [mkClaim k id o p cs]) a d >= pw s d)
              /\ claims_nonneg (claims s ++ [mkClaim k id o p cs]) = true).
    { intros p b Sd. pose proof (send_ok _ _ _ _ _ Sd) as (Hn & _ & _). split.
      - intros d. pose proof (send_not_from _ _ _ _ _ a d Sd Hfa). split; auto.
        rewrite claimed_excl_app. cbn. pose proof (amount_of_nonneg cs d Hn). unfold pw.
        destruct (counted S a (mkClaim k id o p cs)); cbn; lia.
      - unfold claims_nonneg in *. rewrite forallb_app. rewrite Hnn. cbn [forallb c_coins andb]. rewrite Hn. auto. }
    destruct payee as [pe|].
    + destruct (eval_a m r pe) as [p|]; [|discriminate].
      destruct (send (bal s) f m0 cs) as [b| |] eqn:Sd; cbn in Hst; try discriminate.
      inversion Hst; subst. destruct (G (Some p) b eq_refl) as [G1 G2].
      repeat split; auto; try apply Hfl; try apply (G1 d).
    + destruct (send (bal s) f m0 cs) as [b| |] eqn:Sd; cbn in Hst; try discriminate.
      inversion Hst; subst. destruct (G None b eq_refl) as [G1 G2].
      repeat split; auto; try apply Hfl; try apply (G1 d).
  - (* IPayClaim *)
    destruct r as [c|]; [|discriminate].
    destruct (eval_a m (Some c) to) as [t|] eqn:Et; [|discriminate].
    destruct (send (bal s) m0 t (c_coins c)) as [b| |] eqn:Sd; cbn in Hst; try discriminate.
    inversion Hst; subst. cbn in Hok, Hmod. apply andb_true_iff in Hmod as [Hm1 Hm2].
    assert (Hma : m0 <> a) by congruence.
    assert (Hc : coins_nonneg (c_coins c) = true) by (apply Hrec; auto).
    repeat split; try (intros; discriminate); auto.
    + cbn. eapply send_not_from; eauto.
    + unfold pw; cbn.
      destruct (claimed_excl_remove S (claims s) c a d Hnn Hc) as [R _].
      pose proof (send_not_from _ _ _ _ _ a d Sd Hma) as Hb.
      destruct (counted S a c) eqn:Cn; [|lia].
      (* the record counts for a: then it is a's own, payee not a signer: only ERecOwner passes *)
      assert (Ho : c_owner c = a) by (unfold counted in Cn; apply andb_true_iff in Cn as [Cn _]; lia).
      destruct to; cbn in Hok.
      * apply orb_true_iff in Hok as [H|H].
        -- destruct Hfl as [Ho' _]. destruct (Ho' H) as (c' & E & Hin). inversion E; subst c'.
           rewrite (not_counted_owner c Hin) in Cn. discriminate.
        -- destruct Hfl as [_ Hp']. destruct (Hp' H) as (c' & p & E & Hp & Hin). inversion E; subst c'.
           rewrite (not_counted_payee c p Hp Hin) in Cn. discriminate.
      * apply orb_true_iff in Hok as [H|H].
        -- destruct Hfl as [Ho' _]. destruct (Ho' H) as (c' & E & Hin). inversion E; subst c'.
           rewrite (not_counted_owner c Hin) in Cn. discriminate.
        -- destruct Hfl as [_ Hp']. destruct (Hp' H) as (c' & p & E & Hp & Hin). inversion E; subst c'.
           rewrite (not_counted_payee c p Hp Hin) in Cn. discriminate.
      * cbn in Et. inversion Et; subst t. rewrite Ho in Sd.
        rewrite (send_to _ _ _ _ _ d Sd ltac:(auto)). lia.
      * apply orb_true_iff in Hok as [H|H].
        -- destruct Hfl as [Ho' _]. destruct (Ho' H) as (c' & E & Hin). inversion E; subst c'.
           rewrite (not_counted_owner c Hin) in Cn. discriminate.
        -- destruct Hfl as [_ Hp']. destruct (Hp' H) as (c' & p & E & Hp & Hin). inversion E; subst c'.
           rewrite (not_counted_payee c p Hp Hin) in Cn. discriminate.
      * apply orb_true_iff in Hok as [H|H].
        -- destruct Hfl as [Ho' _]. destruct (Ho' H) as (c' & E & Hin). inversion E; subst c'.
           rewrite (not_counted_owner c Hin) in Cn. discriminate.
        -- destruct Hfl as [_ Hp']. destruct (Hp' H) as (c' & p & E & Hp & Hin). inversion E; subst c'.
           rewrite (not_counted_payee c p Hp Hin) in Cn. discriminate.
    + apply (claimed_excl_remove S (claims s) c a EmptyString Hnn Hc).
  - (* IDropClaim *)
    destruct r as [c|]; [|discriminate]. inversion Hst; subst. cbn in Hok.
    assert (Hc : coins_nonneg (c_coins c) = true) by (apply Hrec; auto).
    destruct Hfl as [Ho' _]. destruct (Ho' Hok) as (c' & E & Hin). inversion E; subst c'.
    repeat split; try (intros; discriminate); auto.
    + cbn; lia.
    + unfold pw; cbn. destruct (claimed_excl_remove S (claims s) c a d Hnn Hc) as [R _].
      rewrite (not_counted_owner c Hin) in R. lia.
    + apply (claimed_excl_remove S (claims s) c a EmptyString Hnn Hc).
Qed.
End Soundness.

(* ------------------------------------------------------------------ whole handlers *)
Lemma run_sound : forall is_module m a, ~ In a (m_signers m) -> is_module a = false ->
  forall h og pg r s r' s',
  wf_from og pg h = true -> mods_ok is_module h = true ->
  flag_inv m og pg r -> rec_inv r -> claims_nonneg (claims s) = true ->
  run m h (r, s) = Ok (r', s') ->
  forall d, bal s' a d >= bal s a d /\ pw m a s' d >= pw m a s d.
Proof.
  intros is_module m a Hs Hm. induction h as [|i h IH]; intros og pg r s r' s' Hwf Hmo Hfl Hrec Hnn Hrun d.
  - cbn in Hrun. inversion Hrun; subst. lia.
  - cbn in Hwf, Hmo. apply andb_true_iff in Hwf as [Hi Hwf]. apply andb_true_iff in Hmo as [Hmi Hmo].
    change (run m (i :: h) (r, s)) with (bind (step m i (r, s)) (fun es' => run m h es')) in Hrun.
    destruct (step m i (r, s)) as [[r1 s1]| |] eqn:St; cbn [bind] in Hrun; try discriminate.
    destruct (step_sound is_module m a Hs Hm og pg i r s r1 s1 Hi Hmi Hfl Hrec Hnn St) as (B & F & R & N).
    destruct (flags_after og pg i) as [og' pg'] eqn:FA. cbn in F.
    specialize (IH og' pg' r1 s1 r' s' Hwf Hmo F R N Hrun d). specialize (B d). lia.
Qed.

Lemma claimed_excl_nil_ge : forall S l a d, claims_nonneg l = true -> claimed l a d >= claimed_excl S l a d.
Proof.
  unfold claimed. induction l as [|c l IH]; intros a d Hn; cbn in *; [lia|].
  apply andb_true_iff in Hn as [Hc Hl]. specialize (IH a d Hl).
  pose proof (amount_of_nonneg _ d Hc).
  unfold counted. destruct (c_owner c =? a); cbn; [|lia].
  destruct (c_payee c) as [p|]; cbn; [|lia]. destruct (in_accts p S); cbn; lia.
Qed.

Lemma claimed_excl_all : forall S l a d,
  (forall c p, In c l -> c_owner c = a -> c_payee c = Some p -> ~ In p S) ->
  claimed_excl S l a d = claimed l a d.
Proof.
  unfold claimed. induction l as [|c l IH]; intros a d H; cbn; auto.
  rewrite IH by (intros; eapply H; eauto; right; auto).
  unfold counted. destruct (c_owner c =? a) eqn:E; cbn; auto.
  destruct (c_payee c) as [p|] eqn:P; cbn; auto.
  destruct (in_accts p S) eqn:I; cbn; auto.
  apply in_accts_In in I. exfalso. eapply (H c p); eauto; [left; auto|lia].
Qed.

Lemma run_claims_nonneg : forall m h r s r' s', rec_inv r -> claims_nonneg (claims s) = true ->
  run m h (r, s) = Ok (r', s') -> claims_nonneg (claims s') = true.
Proof.
  intros m. induction h as [|i h IH]; intros r s r' s' Hrec Hnn Hrun.
  - cbn in Hrun; inversion Hrun; subst; auto.
  - change (run m (i :: h) (r, s)) with (bind (step m i (r, s)) (fun es' => run m h es')) in Hrun.
    destruct (step m i (r, s)) as [[r1 s1]| |] eqn:St; cbn [bind] in Hrun; try discriminate.
    assert (rec_inv r1 /\ claims_nonneg (claims s1) = true) as [R N].
    { destruct i; cbn [step] in St.
      - destruct (nth_error (m_ids m) i) as [id|]; [|discriminate].
        destruct (find_claim k id (claims s)) as [c|] eqn:F; [|discriminate]. inversion St; subst. split; auto.
        intros c0 E; inversion E; subst. eapply claims_nonneg_In; eauto. eapply find_claim_In; eauto.
      - destruct (nth_error (m_flags m) f) as [[|]|]; try discriminate. inversion St; subst; auto.
      - destruct r as [c|]; [|discriminate]. destruct (eval_a m (Some c) e); [|discriminate].
        destruct (c_owner c =? a); [|discriminate]. inversion St; subst; auto.
      - destruct r as [c|]; [|discriminate]. destruct (eval_a m (Some c) e); [|discriminate].
        destruct (oacct_eqb (c_payee c) (Some a)); [|discriminate]. inversion St; subst; auto.
      - destruct (eval_a m r from); [|discriminate]. destruct (eval_a m r to); [|discriminate].
        destruct (eval_c m r c); [|discriminate]. destruct (send (bal s) a a0 c0); cbn in St; try discriminate.
        inversion St; subst; auto.
      - destruct (nth_error (m_ids m) i) as [id|]; [|discriminate].
        destruct (eval_a m r owner) as [o|]; [|discriminate]. destruct (eval_a m r from) as [f|]; [|discriminate].
        destruct (eval_c m r c) as [cs|]; [|discriminate].
        assert (G : forall p b, send (bal s) f m0 cs = Ok b -> claims_nonneg (claims s ++ [mkClaim k id o p cs]) = true).
        { intros p b Sd. pose proof (send_ok _ _ _ _ _ Sd) as (Hn & _ & _).
          unfold claims_nonneg in *. rewrite forallb_app, Hnn. cbn [forallb c_coins andb]. rewrite Hn; auto. }
        destruct payee as [pe|].
        + destruct (eval_a m r pe) as [p|]; [|discriminate].
          destruct (send (bal s) f m0 cs) as [b| |] eqn:Sd; cbn in St; try discriminate. inversion St; subst.
          split; auto. eapply G; eauto.
        + destruct (send (bal s) f m0 cs) as [b| |] eqn:Sd; cbn in St; try discriminate. inversion St; subst.
          split; auto. eapply G; eauto.
      - destruct r as [c|]; [|discriminate]. destruct (eval_a m (Some c) to); [|discriminate].
        destruct (send (bal s) m0 a (c_coins c)); cbn in St; try discriminate. inversion St; subst.
        split; [intros ? E; discriminate|]. apply (claimed_excl_remove [] (claims s) c 0 EmptyString Hnn). apply Hrec; auto.
      - destruct r as [c|]; [|discriminate]. inversion St; subst.
        split; [intros ? E; discriminate|]. apply (claimed_excl_remove [] (claims s) c 0 EmptyString Hnn). apply Hrec; auto. }
    eapply IH; eauto.
Qed.

(* THE GENERIC THEOREM: a handler that passes [wf_auth] never lowers the balance nor the wealth
   of an account that did not sign (and whose claims have no signer as recorded payee). *)
Theorem wf_handler_no_foreign_debit :
  forall is_module h m s s',
  wf_auth h = true -> mods_ok is_module h = true -> claims_nonneg (claims s) = true ->
  exec h m s = Ok s' ->
  forall a, ~ In a (m_signers m) -> is_module a = false ->
  (forall c p, In c (claims s) -> c_owner c = a -> c_payee c = Some p -> ~ In p (m_signers m)) ->
  forall d, bal s' a d >= bal s a d /\ wealth s' a d >= wealth s a d.
Proof.
  intros is_module h m s s' Hwf Hmo Hnn Hex a Hs Hm Hp d.
  unfold exec in Hex. destruct (run m h (None, s)) as [[r1 s1]| |] eqn:Rn; cbn in Hex; try discriminate.
  inversion Hex; subst s1.
  assert (Hfl : flag_inv m false false None) by (split; intros; discriminate).
  assert (Hrec : rec_inv None) by (intros c E; discriminate).
  destruct (run_sound is_module m a Hs Hm h false false None s r1 s' Hwf Hmo Hfl Hrec Hnn Rn d) as [B P].
  split; auto. unfold wealth, pw in *.
  rewrite (claimed_excl_all (m_signers m) (claims s) a d Hp) in P.
  pose proof (claimed_excl_nil_ge (m_signers m) (claims s') a d (run_claims_nonneg m h None s r1 s' Hrec Hnn Rn)).
  lia.
Qed.

(* begin / end of block: no signer at all, so NO user account is ever debited *)
Definition block_msg (addrs : list acct) (ids : list Z) (cs : list coins) (fl : list bool) : msg := mkMsg [] addrs ids cs fl.

Lemma block_handlers_wf : forallb (fun h => wf_auth h && mods_ok std_is_module h) block_handlers = true.
Proof. vm_compute. reflexivity. Qed.

Theorem blocks_never_debit_users :
  forall h, In h block_handlers ->
  forall addrs ids cs fl s s', claims_nonneg (claims s) = true ->
  exec h (block_msg addrs ids cs fl) s = Ok s' ->
  forall a d, std_is_module a = false -> bal s' a d >= bal s a d /\ wealth s' a d >= wealth s a d.
Proof.
  intros h Hin addrs ids cs fl s s' Hnn Hex a d Hm.
  pose proof block_handlers_wf as W. rewrite forallb_forall in W. specialize (W h Hin).
  apply andb_true_iff in W as [W1 W2].
  eapply (wf_handler_no_foreign_debit std_is_module h (block_msg addrs ids cs fl) s s'); eauto.
Qed.

(* ------------------------------------------------------------------ the handlers of the code *)
Definition code_handlers_ok : list handler :=
  [h_claim_matured_one; h_claim_rewards; h_tip_request; h_tip_cancel; h_tip_handle; h_l2_reclaim;
   h_collective_withdraw; h_bank_send; h_claim_undelegation; h_l2_join_verifier_fixed].
Lemma code_handlers_ok_wf : forallb (fun h => wf_auth h && mods_ok std_is_module h) code_handlers_ok = true.
Proof. vm_compute. reflexivity. Qed.

Theorem claim_pays_recorded_owner :
  forall h, In h code_handlers_ok ->
  forall m s s', claims_nonneg (claims s) = true -> exec h m s = Ok s' ->
  forall a, ~ In a (m_signers m) -> std_is_module a = false ->
  (forall c p, In c (claims s) -> c_owner c = a -> c_payee c = Some p -> ~ In p (m_signers m)) ->
  forall d, bal s' a d >= bal s a d /\ wealth s' a d >= wealth s a d.
Proof.
  intros h Hin m s s' Hnn Hex a Hs Hm Hp d.
  pose proof code_handlers_ok_wf as W. rewrite forallb_forall in W. specialize (W h Hin).
  apply andb_true_iff in W as [W1 W2].
  eapply (wf_handler_no_foreign_debit std_is_module h m s s'); eauto.
Qed.

(* handlers that fail the check, each refuted by a witness: JoinDappVerifierWithBond and the custody
   reward as the code has them, and the ClaimUndelegation variant without the owner comparison *)
Definition no_foreign_debit (h : handler) : Prop :=
  forall m s s', claims_nonneg (claims s) = true -> exec h m s = Ok s' ->
  forall a, ~ In a (m_signers m) -> std_is_module a = false ->
  (forall c p, In c (claims s) -> c_owner c = a -> c_payee c = Some p -> ~ In p (m_signers m)) ->
  forall d, bal s' a d >= bal s a d /\ wealth s' a d >= wealth s a d.

Definition w_bal : balances := fun a d =>
  if String.eqb d "ukex" then (if a =? 1 then 1000 else if a =? 2 then 1000 else if a =? MOD_MULTISTAKING then 500
                               else if a =? MOD_LAYER2 then 0 else 0) else 0.
Definition w_state_undel : state := mkState w_bal [mkClaim "undelegation" 7 1 None [("ukex"%string, 500)]].
Definition w_msg_undel : msg := mkMsg [2] [] [7] [] [true].          (* account 2 claims undelegation 7 of account 1 *)
Definition get_state (o : outcome state) (dflt : state) : state := match o with Ok s => s | _ => dflt end.

Theorem claim_undelegation_unguarded_refuted : ~ no_foreign_debit h_claim_undelegation_unguarded.
Proof.
  intros H.
  assert (E : exec h_claim_undelegation_unguarded w_msg_undel w_state_undel
              = Ok (get_state (exec h_claim_undelegation_unguarded w_msg_undel w_state_undel) w_state_undel)) by (vm_compute; reflexivity).
  specialize (H w_msg_undel w_state_undel _ eq_refl E 1).
  assert (N : ~ In 1 (m_signers w_msg_undel)) by (cbn; intros [K|[]]; discriminate).
  specialize (H N eq_refl).
  assert (P : forall c p, In c (claims w_state_undel) -> c_owner c = 1 -> c_payee c = Some p -> ~ In p (m_signers w_msg_undel)).
  { intros c p [<-|[]] _ K; discriminate. }
  destruct (H P "ukex"%string) as [_ W]. vm_compute in W. apply W. reflexivity.
Qed.

Definition w_state_join : state := mkState w_bal [].
Definition w_msg_join : msg := mkMsg [2] [1] [] [[("ukex"%string, 300)]] [true].   (* account 2 joins, Interx = account 1 *)
Theorem join_verifier_refuted : ~ no_foreign_debit h_l2_join_verifier.
Proof.
  intros H.
  assert (E : exec h_l2_join_verifier w_msg_join w_state_join
              = Ok (get_state (exec h_l2_join_verifier w_msg_join w_state_join) w_state_join)) by (vm_compute; reflexivity).
  specialize (H w_msg_join w_state_join _ eq_refl E 1).
  assert (N : ~ In 1 (m_signers w_msg_join)) by (cbn; intros [K|[]]; discriminate).
  specialize (H N eq_refl).
  assert (P : forall c p, In c (claims w_state_join) -> c_owner c = 1 -> c_payee c = Some p -> ~ In p (m_signers w_msg_join)).
  { intros c p []. }
  destruct (H P "ukex"%string) as [B _]. vm_compute in B. apply B. reflexivity.
Qed.

Definition w_msg_reward : msg := mkMsg [2] [1] [] [[("ukex"%string, 100)]] [].     (* caller 2, TargetAddress = account 1 *)
Theorem custody_reward_refuted : ~ no_foreign_debit h_custody_reward.
Proof.
  intros H.
  assert (E : exec h_custody_reward w_msg_reward w_state_join
              = Ok (get_state (exec h_custody_reward w_msg_reward w_state_join) w_state_join)) by (vm_compute; reflexivity).
  specialize (H w_msg_reward w_state_join _ eq_refl E 1).
  assert (N : ~ In 1 (m_signers w_msg_reward)) by (cbn; intros [K|[]]; discriminate).
  specialize (H N eq_refl).
  assert (P : forall c p, In c (claims w_state_join) -> c_owner c = 1 -> c_payee c = Some p -> ~ In p (m_signers w_msg_reward)).
  { intros c p []. }
  destruct (H P "ukex"%string) as [B _]. vm_compute in B. apply B. reflexivity.
Qed.

(* with the owner comparison / the signer as the debited side the statement holds *)
Theorem claim_undelegation_safe : no_foreign_debit h_claim_undelegation.
Proof. unfold no_foreign_debit; intros; eapply (claim_pays_recorded_owner h_claim_undelegation); eauto; cbn; tauto. Qed.
Theorem join_verifier_fixed_safe : no_foreign_debit h_l2_join_verifier_fixed.
Proof. unfold no_foreign_debit; intros; eapply (claim_pays_recorded_owner h_l2_join_verifier_fixed); eauto; cbn; tauto. Qed.

(* the static check rejects exactly these (non-vacuity of the check itself) *)
Lemma code_handlers_bad_rejected :
  wf_auth h_claim_undelegation_unguarded = false /\ wf_auth h_l2_join_verifier = false /\ wf_auth h_custody_reward = false.
Proof. vm_compute. auto. Qed.

(* ------------------------------------------------------------------ custody approval *)
(* What the property demands of a release: approvals by LISTED custodians reach the threshold. *)
Definition custody_spec_of (approve : cust_cfg -> cust_entry -> acct -> balances -> outcome (balances * option cust_entry))
           (cfg : cust_cfg) (e : cust_entry) (caller : acct) : Prop :=
  forall b b' left, approve cfg e caller b = Ok (b', left) ->
  forall d, b' (ce_owner e) d < b (ce_owner e) d ->
  in_accts caller (cc_custodians cfg) = true /\
  (left = None -> cc_enabled cfg = true -> legit_threshold cfg (ce_votes e + 1) = true).
Definition custody_spec := custody_spec_of custody_approve.

Definition w_cfg : cust_cfg := mkCC true false 50 [6; 7].
Definition w_entry : cust_entry := mkCE 5 3 [("ukex"%string, 400)] [("ukex"%string, 100)] 0 false.
Definition w_bal5 : balances := fun a d => if (a =? 5) && String.eqb d "ukex" then 1000 else 0.
Definition w_res : balances * option cust_entry :=
  match custody_approve_any w_cfg w_entry 2 w_bal5 with Ok x => x | _ => (w_bal5, None) end.
(* without the custodian check (the code before 30f99e5) a stranger (account 2) approves, is paid
   a reward share and releases the transfer although no listed custodian has approved *)
Theorem custody_unchecked_refuted : ~ (forall cfg e caller, custody_spec_of custody_approve_any cfg e caller).
Proof.
  intros H.
  assert (E : custody_approve_any w_cfg w_entry 2 w_bal5 = Ok (fst w_res, snd w_res)) by (vm_compute; reflexivity).
  specialize (H w_cfg w_entry 2 w_bal5 (fst w_res) (snd w_res) E "ukex"%string).
  assert (L : fst w_res (ce_owner w_entry) "ukex"%string < w_bal5 (ce_owner w_entry) "ukex"%string) by (vm_compute; reflexivity).
  destruct (H L) as [I _]. vm_compute in I. discriminate.
Qed.

(* what does hold of the code: only the owner is debited, by at most request + reward share,
   a release means the counted votes reached the configured percentage, and when every vote so
   far and the caller are listed custodians that is the threshold the property asks for *)
Theorem custody_release_partial :
  forall cfg e caller b b' left, custody_approve_any cfg e caller b = Ok (b', left) ->
  (forall x d, x <> ce_owner e -> b' x d >= b x d) /\
  (forall d, b (ce_owner e) d - b' (ce_owner e) d
             <= (match left with None => amount_of (ce_coins e) d | Some _ => 0 end)
                + amount_of (reward_share e (Z.of_nat (List.length (cc_custodians cfg)))) d) /\
  (left = None -> cc_enabled cfg = true -> forall legit, legit = ce_votes e ->
     legit_threshold cfg (legit + 1) = true).
Proof.
  intros cfg e caller b b' left H. unfold custody_approve_any in H.
  destruct (ce_reward e) as [|rw rws] eqn:RW; [discriminate|].
  set (n := Z.of_nat (List.length (cc_custodians cfg))) in *.
  destruct (n =? 0) eqn:N0; [discriminate|].
  destruct (send b (ce_owner e) caller (reward_share e n)) as [b1| |] eqn:S1; cbn in H; try discriminate.
  pose proof (send_ok _ _ _ _ _ S1) as (Hn1 & _ & E1).
  destruct ((if cc_enabled cfg then cc_mode cfg <=? (ce_votes e + 1) * 100 / n else true)
            && (if cc_usepw cfg then ce_confirmed e else true)) eqn:AL.
  - destruct (send b1 (ce_owner e) (ce_to e) (ce_coins e)) as [b2| |] eqn:S2; cbn in H; try discriminate.
    inversion H; subst b' left. pose proof (send_ok _ _ _ _ _ S2) as (Hn2 & _ & E2).
    repeat split.
    + intros x d Hx. pose proof (send_not_from _ _ _ _ _ x d S1 ltac:(auto)).
      pose proof (send_not_from _ _ _ _ _ x d S2 ltac:(auto)). lia.
    + intros d. subst b2 b1. unfold credit, debit. rewrite Z.eqb_refl.
      pose proof (amount_of_nonneg _ d Hn1). pose proof (amount_of_nonneg _ d Hn2).
      destruct (ce_owner e =? ce_to e); destruct (ce_owner e =? caller); lia.
    + intros _ En legit ->. rewrite En in AL. apply andb_true_iff in AL as [AL _].
      unfold legit_threshold. fold n. rewrite AL. assert (Hp : (0 <? n) = true) by lia. rewrite Hp. auto.
  - inversion H; subst b' left. repeat split.
    + intros x d Hx. eapply send_not_from; eauto.
    + intros d. subst b1. unfold credit, debit. rewrite Z.eqb_refl.
      pose proof (amount_of_nonneg _ d Hn1). destruct (ce_owner e =? caller); lia.
    + intros K; discriminate.
Qed.

(* the code as it is (custodian check first): full strength *)
Theorem custody_release_only_after_threshold : forall cfg e caller, custody_spec cfg e caller.
Proof.
  intros cfg e caller b b' left H d Hd. unfold custody_approve in H.
  destruct (in_accts caller (cc_custodians cfg)) eqn:I; cbn in H; [|discriminate].
  split; auto. intros Hl En.
  destruct (custody_release_partial cfg e caller b b' left H) as (_ & _ & T). eapply T; eauto.
Qed.
Example custody_nonvacuous :
  exists b' , custody_approve w_cfg w_entry 6 w_bal5 = Ok (b', None) /\ b' 3 "ukex"%string = 400 /\ b' 6 "ukex"%string = 50.
Proof. eexists. split; [vm_compute; reflexivity|]. split; vm_compute; reflexivity. Qed.

(* ------------------------------------------------------------------ rotation guards *)
Theorem rotation_requires_secret_or_half_rr :
  (forall (hash : string -> string) challenge proof rr before,
     rotate_by_secret hash challenge proof rr before = Ok tt -> hash proof = challenge /\ rr = false) /\
  (forall exists_ amount supply before,
     rotate_by_rr exists_ amount supply before = Ok tt -> exists_ = true /\ supply <= amount * 2).
Proof.
  split.
  - intros hash challenge proof rr before H. unfold rotate_by_secret in H.
    destruct rr; [discriminate|]. destruct (String.eqb (hash proof) challenge) eqn:E; cbn in H; [|discriminate].
    apply String.eqb_eq in E. auto.
  - intros ex amount supply before H. unfold rotate_by_rr in H.
    destruct ex; cbn in H; [|discriminate]. destruct (amount * 2 <? supply) eqn:E; [discriminate|]. split; auto. lia.
Qed.

(* ------------------------------------------------------------------ the generated table *)
Lemma site_ok_wf : forall s, site_ok s = true ->
  wf_auth (instrs_of_site s) = true /\ mods_ok std_is_module (instrs_of_site s) = true.
Proof.
  intros [fn call from to amt g] H. unfold site_ok in H; cbn in H.
  destruct call; destruct from; destruct to; destruct amt; destruct g; cbn in H; try discriminate; vm_compute; auto.
Qed.

Definition check_sites (audited : list string) (hs : list (string * list debit_site)) : bool :=
  forallb (fun h => forallb (fun s => site_ok s || str_in (site_key (fst h) s) audited) (snd h)) hs.

Lemma str_in_In : forall x l, str_in x l = true -> In x l.
Proof.
  induction l as [|y l IH]; cbn; intros H; [discriminate|].
  apply orb_true_iff in H as [H|H]; [apply String.eqb_eq in H; auto|auto].
Qed.

Lemma sites_wf_by_check : forall audited hs, check_sites audited hs = true ->
  forall h ss s, In (h, ss) hs -> In s ss ->
  In (site_key h s) audited \/
  (wf_auth (instrs_of_site s) = true /\ mods_ok std_is_module (instrs_of_site s) = true).
Proof.
  intros audited hs H h ss s Hh Hs. unfold check_sites in H. rewrite forallb_forall in H.
  specialize (H (h, ss) Hh). cbn in H. rewrite forallb_forall in H. specialize (H s Hs).
  apply orb_true_iff in H as [H|H]; [right; apply site_ok_wf; auto|left; apply str_in_In; auto].
Qed.

(* a non-audited site, turned into its abstract handler, satisfies the generic theorem *)
Theorem site_no_foreign_debit : forall s, site_ok s = true -> no_foreign_debit (instrs_of_site s).
Proof.
  intros s H. destruct (site_ok_wf s H) as [W M]. unfold no_foreign_debit; intros.
  eapply (wf_handler_no_foreign_debit std_is_module (instrs_of_site s)); eauto.
Qed.

(* non-vacuity *)
Example nonvacuous_claim :
  exists s', exec h_claim_undelegation (mkMsg [1] [] [7] [] [true]) w_state_undel = Ok s'
             /\ bal s' 1 "ukex"%string = 1500 /\ claims s' = [].
Proof. eexists. split; [vm_compute; reflexivity|]. split; vm_compute; reflexivity. Qed.
Example nonvacuous_rejected :
  exec h_claim_undelegation w_msg_undel w_state_undel = Err "not owner".
Proof. vm_compute. reflexivity. Qed.

Lemma sites_checked : forall audited hs, check_sites audited hs = true ->
  forall h ss s, In (h, ss) hs -> In s ss ->
  In (site_key h s) audited \/ no_foreign_debit (instrs_of_site s).
Proof.
  intros audited hs H h ss s Hh Hs. unfold check_sites in H. rewrite forallb_forall in H.
  specialize (H (h, ss) Hh). cbn in H. rewrite forallb_forall in H. specialize (H s Hs).
  apply orb_true_iff in H as [H|H]; [right; apply site_no_foreign_debit; auto|left; apply str_in_In; auto].
Qed.

(* balances alone need no condition on recorded payees *)
Theorem wf_handler_no_foreign_coin_debit :
  forall is_module h m s s',
  wf_auth h = true -> mods_ok is_module h = true -> claims_nonneg (claims s) = true ->
  exec h m s = Ok s' ->
  forall a, ~ In a (m_signers m) -> is_module a = false -> forall d, bal s' a d >= bal s a d.
Proof.
  intros is_module h m s s' Hwf Hmo Hnn Hex a Hs Hm d.
  unfold exec in Hex. destruct (run m h (None, s)) as [[r1 s1]| |] eqn:Rn; cbn in Hex; try discriminate.
  inversion Hex; subst s1.
  assert (Hfl : flag_inv m false false None) by (split; intros; discriminate).
  assert (Hrec : rec_inv None) by (intros c E; discriminate).
  destruct (run_sound is_module m a Hs Hm h false false None s r1 s' Hwf Hmo Hfl Hrec Hnn Rn d) as [B P]. auto.
Qed.
