(* Proofs about Model/Auth.v.  Nothing is assumed about the four crypto functions. *)
From Coq Require Import ZifyBool.
From Sekai Require Import Base.Prelude Model.Auth Model.C02Check Model.C02Chain Gen.C02AnteChain.

(* ------------------------------------------------------------------ association list *)
Lemma get_set_same : forall s a x y, get_acc s a = Some y -> get_acc (set_acc s a x) a = Some x.
Proof.
  induction s as [|[b z] r IH]; intros a x y H; simpl in *; [discriminate|].
  destruct (b =? a) eqn:E; simpl; rewrite E; auto. eapply IH; eauto.
Qed.
Lemma get_set_other : forall s a b x, a <> b -> get_acc (set_acc s a x) b = get_acc s b.
Proof.
  induction s as [|[d z] r IH]; intros a b x H; simpl in *; auto.
  destruct (d =? a) eqn:E; simpl.
  - destruct (d =? b) eqn:E2; auto. lia.
  - destruct (d =? b) eqn:E2; auto.
Qed.
Lemma get_acc_In : forall s a x, get_acc s a = Some x -> In (a, x) s.
Proof.
  induction s as [|[b z] r IH]; intros a x H; simpl in *; [discriminate|].
  destruct (b =? a) eqn:E. - inversion H; subst. left. f_equal. lia. - right; auto.
Qed.
Lemma get_acc_app_some : forall s r a x, get_acc s a = Some x -> get_acc (s ++ r) a = Some x.
Proof.
  induction s as [|[b z] s IH]; intros r a x H; simpl in *; [discriminate|].
  destruct (b =? a); auto.
Qed.

Lemma mem_addr_In : forall a l, mem_addr a l = true <-> In a l.
Proof.
  induction l as [|b r IH]; simpl; [split; [discriminate|tauto]|].
  rewrite orb_true_iff, IH, Z.eqb_eq. tauto.
Qed.
Lemma mem_addr_nIn : forall a l, mem_addr a l = false <-> ~ In a l.
Proof. intros. rewrite <- mem_addr_In. destruct (mem_addr a l); split; congruence. Qed.

(* ------------------------------------------------------------------ signer list has no duplicates *)
Lemma dedup_acc_spec : forall l seen, NoDup (dedup_acc seen l) /\ (forall a, In a (dedup_acc seen l) -> ~ In a seen).
Proof.
  induction l as [|a r IH]; intros seen; simpl.
  - split; [constructor|tauto].
  - destruct (mem_addr a seen) eqn:E.
    + apply IH.
    + destruct (IH (a :: seen)) as [ND DJ]. split.
      * constructor; auto. intro H. apply DJ in H. apply H. left; auto.
      * intros b [<-|H]. apply mem_addr_nIn; auto. intro Hs. apply DJ in H. apply H. right; auto.
Qed.
Lemma signers_NoDup : forall t, NoDup (signers t).
Proof.
  intros t. unfold signers, msgs_signers.
  destruct (dedup_acc_spec (flat_map msg_signers (t_msgs t)) []) as [ND _].
  destruct (t_payer t) as [p|]; auto.
  destruct (mem_addr p _) eqn:E; auto.
  apply mem_addr_nIn in E.
  apply NoDup_rev in ND. rewrite <- (rev_involutive (_ ++ [p])). apply NoDup_rev.
  rewrite rev_app_distr. simpl. constructor; auto. rewrite <- in_rev. auto.
Qed.

Section Proofs.
Variable verify : pkey -> signdoc -> sigv -> bool.
Variable recover : digest -> sigv -> option addr.
Variable addr_of_pk : pkey -> addr.
Variable eth_sender : Z -> option addr.

Notation ante := (ante verify recover addr_of_pk eth_sender).
Notation sig_verify := (sig_verify verify recover addr_of_pk eth_sender).
Notation sig_verify_loop := (sig_verify_loop verify recover addr_of_pk eth_sender).
Notation eth_verify := (eth_verify recover eth_sender).
Notation eth_prepare := (eth_prepare eth_sender).
Notation validate_basic := (validate_basic eth_sender).
Notation Authorised := (Authorised verify recover addr_of_pk eth_sender).
Notation EthAuthorised := (EthAuthorised recover eth_sender).
Notation KeySigned := (KeySigned verify addr_of_pk).
Notation EthSigned := (EthSigned recover).
Notation EthRawSigned := (EthRawSigned eth_sender).
Notation step := (step verify recover addr_of_pk eth_sender).
Notation run := (run verify recover addr_of_pk eth_sender).

(* (sequence, account number) of an address: what the sign document depends on *)
Definition sn (s : state) (a : addr) : option (Z * Z) :=
  option_map (fun x => (a_seq x, a_num x)) (get_acc s a).
Definition pub_of (s : state) (a : addr) : option (option pkey) := option_map a_pub (get_acc s a).

(* ------------------------------------------------------------------ set_pubkeys *)
Lemma set_pubkeys_sn : forall sl sg s s1, set_pubkeys s sg sl = Ok s1 -> forall a, sn s1 a = sn s a.
Proof.
  induction sl as [|x sl IH]; intros sg s s1 H a; simpl in H.
  - inversion H; subst; reflexivity.
  - destruct sg as [|b sg]; [discriminate|].
    destruct (s_att x) as [k|]; [|eapply IH; eauto].
    destruct (get_acc s b) as [acc|] eqn:G; [|discriminate].
    destruct (a_pub acc); [eapply IH; eauto|].
    rewrite (IH _ _ _ H a). unfold sn.
    destruct (Z.eq_dec b a) as [->|N].
    + rewrite (get_set_same _ _ _ _ G), G. reflexivity.
    + rewrite get_set_other; auto.
Qed.
Lemma set_pubkeys_other : forall sl sg s s1, set_pubkeys s sg sl = Ok s1 -> forall a, ~ In a sg -> get_acc s1 a = get_acc s a.
Proof.
  induction sl as [|x sl IH]; intros sg s s1 H a N; simpl in H.
  - inversion H; subst; reflexivity.
  - destruct sg as [|b sg]; [discriminate|].
    assert (Nb : b <> a) by (intro; apply N; left; auto).
    assert (Ns : ~ In a sg) by (intro; apply N; right; auto).
    destruct (s_att x) as [k|]; [|eapply IH; eauto].
    destruct (get_acc s b) as [acc|] eqn:G; [|discriminate].
    destruct (a_pub acc); [eapply IH; eauto|].
    rewrite (IH _ _ _ H a Ns). apply get_set_other; auto.
Qed.
(* a key on record is never replaced *)
Lemma set_pubkeys_keeps_key : forall sl sg s s1, set_pubkeys s sg sl = Ok s1 ->
  forall a acc k, get_acc s a = Some acc -> a_pub acc = Some k -> get_acc s1 a = Some acc.
Proof.
  induction sl as [|x sl IH]; intros sg s s1 H a acc k G P; simpl in H.
  - inversion H; subst; auto.
  - destruct sg as [|b sg]; [discriminate|].
    destruct (s_att x) as [k'|]; [|eapply IH; eauto].
    destruct (get_acc s b) as [accb|] eqn:Gb; [|discriminate].
    destruct (a_pub accb) eqn:Pb; [eapply IH; eauto|].
    eapply IH; eauto. rewrite get_set_other; auto. intros ->. congruence.
Qed.
(* the attached key of a first-time signer is installed *)
Lemma set_pubkeys_installs : forall sl sg s s1 i a x acc k,
  set_pubkeys s sg sl = Ok s1 -> NoDup sg -> nth_error sg i = Some a -> nth_error sl i = Some x ->
  get_acc s a = Some acc -> a_pub acc = None -> s_att x = Some k ->
  get_acc s1 a = Some (with_pub acc k).
Proof.
  induction sl as [|y sl IH]; intros sg s s1 i a x acc k H ND Ha Hx G P At.
  - destruct i; discriminate.
  - destruct sg as [|b sg]; [destruct i; discriminate|]. simpl in H. inversion ND as [|? ? Nb ND']; subst.
    destruct i as [|i]; simpl in Ha, Hx.
    + inversion Ha; inversion Hx; subst. rewrite At, G, P in H.
      rewrite (set_pubkeys_other _ _ _ _ H a Nb). eapply get_set_same; eauto.
    + assert (Nab : b <> a) by (intros ->; apply Nb; eapply nth_error_In; eauto).
      destruct (s_att y) as [k'|]; [|eapply IH; eauto].
      destruct (get_acc s b) as [accb|] eqn:Gb; [|discriminate].
      destruct (a_pub accb); [eapply IH; eauto|].
      eapply IH; eauto. rewrite get_set_other; auto.
Qed.

(* ------------------------------------------------------------------ increment_seqs *)
Lemma increment_other : forall sg s s', increment_seqs s sg = Ok s' -> forall a, ~ In a sg -> get_acc s' a = get_acc s a.
Proof.
  induction sg as [|b sg IH]; intros s s' H a N; simpl in H.
  - inversion H; subst; reflexivity.
  - destruct (get_acc s b) as [acc|] eqn:G; [|discriminate].
    rewrite (IH _ _ H a) by (intro; apply N; right; auto).
    apply get_set_other. intro; apply N; left; auto.
Qed.
Lemma increment_in : forall sg s s', increment_seqs s sg = Ok s' -> NoDup sg ->
  forall a acc, In a sg -> get_acc s a = Some acc -> get_acc s' a = Some (bump acc).
Proof.
  induction sg as [|b sg IH]; intros s s' H ND a acc I G; simpl in H; [destruct I|].
  inversion ND as [|? ? Nb ND']; subst.
  destruct (get_acc s b) as [accb|] eqn:Gb; [|discriminate].
  destruct (Z.eq_dec b a) as [->|N].
  - rewrite (increment_other _ _ _ H a Nb). rewrite G in Gb; inversion Gb; subst. eapply get_set_same; eauto.
  - destruct I as [->|I]; [congruence|]. eapply IH; eauto. rewrite get_set_other; auto.
Qed.
Lemma increment_exists : forall sg s s', increment_seqs s sg = Ok s' -> forall a, In a sg -> exists acc, get_acc s a = Some acc.
Proof.
  induction sg as [|b sg IH]; intros s s' H a I; simpl in H; [destruct I|].
  destruct (get_acc s b) as [accb|] eqn:Gb; [|discriminate].
  destruct (Z.eq_dec b a) as [->|N]; [eauto|].
  destruct I as [->|I]; [congruence|].
  destruct (IH _ _ H a I) as [acc G]. rewrite get_set_other in G; eauto.
Qed.

(* ------------------------------------------------------------------ structure of an accepted run *)
Lemma bind_ok : forall A B (o : outcome A) (f : A -> outcome B) b, bind o f = Ok b -> exists a, o = Ok a /\ f a = Ok b.
Proof. intros A B [a|e|p] f b H; simpl in H; try discriminate; eauto. Qed.

Lemma ante_ok_parts : forall v c s t s', ante v c s t = Ok s' ->
  exists s1, validate_basic t = Ok tt /\ set_pubkeys s (signers t) (t_slots t) = Ok s1 /\
             sig_verify v c s1 t = Ok tt /\ increment_seqs s1 (signers t) = Ok s'.
Proof.
  intros v c s t s' H. unfold Auth.ante in H.
  apply bind_ok in H as [[] [Hv H]]. apply bind_ok in H as [s1 [Hp H]].
  apply bind_ok in H as [[] [Hg H]]. apply bind_ok in H as [[] [Hs H]]. eauto 10.
Qed.

Lemma validate_basic_len : forall t, validate_basic t = Ok tt ->
  List.length (t_slots t) = List.length (signers t) /\ t_slots t <> [].
Proof.
  intros t H. unfold Auth.validate_basic in H. destruct (t_msgs t); [discriminate|].
  apply bind_ok in H as [[] [_ H]]. destruct (t_slots t) eqn:E; [discriminate|].
  destruct (Nat.eqb _ _) eqn:L; [|discriminate]. apply Nat.eqb_eq in L. split; [auto|discriminate].
Qed.

(* ------------------------------------------------------------------ the Ethereum path *)
Definition single_ok (v : variant) (t : tx) : bool := (v_eip_single v && v_raw_single v) || single_msg t.

Lemma eth_prepare_digest : forall v t a acc x doc d, single_ok v t = true ->
  eth_prepare v t a acc x doc = EDigest d -> eth_digest_of t x acc doc = Some d.
Proof.
  intros v t a acc x doc d SM H. unfold Auth.eth_prepare in H. unfold eth_digest_of.
  unfold single_ok, single_msg in SM.
  destruct (s_mode x); try (inversion H; reflexivity).
  destruct (t_msgs t) as [|m r]; [discriminate|].
  destruct m as [id l|id snd raw].
  - destruct r as [|m' r'].
    + rewrite andb_false_r in H. inversion H; reflexivity.
    + rewrite orb_false_r in SM. apply andb_true_iff in SM as [E1 _]. rewrite E1 in H. discriminate.
  - repeat match type of H with (if ?c then _ else _) = _ => destruct c end; try discriminate.
    destruct (eth_sender (r_id raw)) as [z|]; [|discriminate].
    destruct (v_check_sender v && negb (z =? a)); discriminate.
Qed.
Lemma eth_prepare_done : forall v t a acc x doc, single_ok v t = true ->
  eth_prepare v t a acc x doc = EDone (Ok tt) ->
  exists id snd raw sender, t_msgs t = [MEth id snd raw] /\ s_mode x = MDirect /\ r_ok raw = true /\
    r_nonce raw = a_seq acc /\ r_chain raw = eth_chain_id /\ eth_sender (r_id raw) = Some sender /\
    (v_check_sender v = true -> sender = a).
Proof.
  intros v t a acc x doc SM H. unfold Auth.eth_prepare in H. unfold single_ok, single_msg in SM.
  destruct (s_mode x) eqn:M; try discriminate.
  destruct (t_msgs t) as [|m r]; [discriminate|].
  destruct m as [id l|id snd raw].
  - destruct (v_eip_single v && negb (is_nil r)); discriminate.
  - assert (R : r = []).
    { destruct r as [|m' r']; auto. rewrite orb_false_r in SM. apply andb_true_iff in SM as [_ E2].
      rewrite E2 in H. discriminate. }
    subst r. rewrite andb_false_r in H.
    destruct (r_ok raw) eqn:Rk; simpl in H; [|discriminate].
    destruct (a_seq acc =? r_nonce raw) eqn:N; simpl in H; [|discriminate].
    destruct (r_chain raw =? eth_chain_id) eqn:C; simpl in H; [|discriminate].
    destruct (eth_sender (r_id raw)) as [sender|] eqn:S; [|discriminate].
    destruct (v_check_sender v && negb (sender =? a)) eqn:K; [discriminate|].
    exists id, snd, raw, sender. repeat split; auto; try lia.
Qed.

Lemma eth_verify_ok : forall v c t a acc x, single_ok v t = true ->
  eth_verify v t a acc x (doc_of c t x acc) = Ok tt ->
  (exists d a0, eth_digest_of t x acc (doc_of c t x acc) = Some d /\ recover d (s_sig x) = Some a0 /\ signers t = [a0]) \/
  (exists id snd raw sender, t_msgs t = [MEth id snd raw] /\ s_mode x = MDirect /\ r_ok raw = true /\
     r_nonce raw = a_seq acc /\ r_chain raw = eth_chain_id /\ eth_sender (r_id raw) = Some sender /\
     (v_check_sender v = true -> sender = a)).
Proof.
  intros v c t a acc x SM H. unfold Auth.eth_verify in H.
  destruct (is_multi (s_mode x)); [discriminate|].
  apply bind_ok in H as [[] [_ H]].
  destruct (eth_prepare v t a acc x (doc_of c t x acc)) as [r|d] eqn:P.
  - subst r. right. eapply eth_prepare_done; eauto.
  - destruct (recover d (s_sig x)) as [ra|] eqn:R; [|discriminate].
    destruct (signers t) as [|a0 [|a1 r]] eqn:S; try discriminate.
    destruct (ra =? a0) eqn:E; [|discriminate]. apply Z.eqb_eq in E. subst ra.
    left. exists d, a0. repeat split; auto. eapply eth_prepare_digest; eauto.
Qed.

(* ------------------------------------------------------------------ the verification loop *)
(* what the loop established for one signer, in terms of the key it found on the account *)
Definition Checked (c : ctxt) (s1 : state) (t : tx) (a : addr) (x : slot) : Prop :=
  exists acc k, get_acc s1 a = Some acc /\ a_pub acc = Some k /\ s_seq x = a_seq acc /\
    ((addr_of_pk k = a /\ verify k (doc_of c t x acc) (s_sig x) = true) \/
     (addr_of_pk k <> a /\ (EthSigned c t a x acc \/ EthRawSigned t a x acc))).

Lemma loop_sound : forall v c s1 t, sound_for v t = true ->
  forall sl sg pre, signers t = pre ++ sg -> List.length sg = List.length sl ->
  sig_verify_loop v c s1 t sg sl = Ok tt -> Forall2 (Checked c s1 t) sg sl.
Proof.
  intros v c s1 t SF. induction sl as [|x sl IH]; intros sg pre SG L H.
  - destruct sg; [constructor|discriminate].
  - destruct sg as [|a sg]; [discriminate|]. simpl in L. injection L as L. simpl in H.
    destruct (get_acc s1 a) as [acc|] eqn:G; [|discriminate].
    destruct (a_pub acc) as [k|] eqn:P; [|discriminate].
    destruct (s_seq x =? a_seq acc) eqn:Q; simpl in H; [|discriminate]. apply Z.eqb_eq in Q.
    destruct (addr_of_pk k =? a) eqn:A; simpl in H.
    + apply Z.eqb_eq in A. destruct (is_multi (s_mode x) && negb (is_multi_key k)); [discriminate|].
      apply bind_ok in H as [[] [_ H]].
      destruct (verify k (doc_of c t x acc) (s_sig x)) eqn:V; [|discriminate].
      constructor.
      * exists acc, k. repeat split; auto.
      * apply (IH sg (pre ++ [a])); auto. rewrite <- app_assoc. exact SG.
    + apply Z.eqb_neq in A.
      destruct (eth_verify v t a acc x (doc_of c t x acc)) as [[]|e|p] eqn:EV; try discriminate.
      assert (SM : single_ok v t = true) by (unfold sound_for in SF; apply andb_true_iff in SF as [_ SF2]; exact SF2).
      apply eth_verify_ok in EV as [(d & a0 & D & R & S)|(id & snd & raw & sender & M & Md & Rk & N & Ch & Se & Imp)]; [| |exact SM].
      * (* the one-signer rule: a is the only signer, nothing is skipped *)
        rewrite S in SG. destruct pre as [|p0 pre]; simpl in SG.
        -- injection SG as -> Hsg. subst sg. destruct sl; [|discriminate].
           constructor; [|constructor].
           exists acc, k. repeat split; auto. right. split; auto. left. split; auto. exists d. split; auto.
        -- injection SG as _ Hp. destruct pre; discriminate.
      * (* the raw Ethereum branch: only sound for the repaired code *)
        unfold sound_for, no_eth_raw_msg in SF. apply andb_true_iff in SF as [SF _]. rewrite M in SF. simpl in SF.
        rewrite orb_false_r in SF. apply andb_true_iff in SF as [CS CT].
        rewrite CT in H. specialize (Imp CS). subst sender.
        constructor.
        -- exists acc, k. repeat split; auto. right. split; auto. right. exists id, snd, raw. repeat split; auto.
        -- apply (IH sg (pre ++ [a])); auto. rewrite <- app_assoc. exact SG.
Qed.

Lemma sn_get : forall s s1 a acc1, sn s1 a = sn s a -> get_acc s1 a = Some acc1 ->
  exists acc, get_acc s a = Some acc /\ a_seq acc = a_seq acc1 /\ a_num acc = a_num acc1.
Proof.
  unfold sn. intros s s1 a acc1 E G. rewrite G in E. simpl in E.
  destruct (get_acc s a) as [acc|]; [|discriminate]. simpl in E. inversion E. eauto.
Qed.
Lemma doc_of_irrel : forall c t x acc acc1, a_seq acc = a_seq acc1 -> a_num acc = a_num acc1 -> doc_of c t x acc = doc_of c t x acc1.
Proof. intros c t x acc acc1 H1 H2. unfold doc_of, acc_number. rewrite H1, H2. reflexivity. Qed.

Lemma checked_authorised : forall c s s1 t a x, sn s1 a = sn s a -> Checked c s1 t a x -> Authorised c s t a x.
Proof.
  intros c s s1 t a x E (acc1 & k & G & P & Q & D).
  destruct (sn_get _ _ _ _ E G) as (acc & G0 & Es & En).
  pose proof (doc_of_irrel c t x _ _ Es En) as Ed.
  exists acc. split; auto. split; [congruence|].
  destruct D as [[A V]|[A [[S (d & Dg & R)]|(id & snd & raw & M & Md & Rk & Se & N & Ch)]]].
  - left. exists k. rewrite Ed. auto.
  - right. left. split; auto. exists d. split; auto.
    rewrite Ed. unfold eth_digest_of in *. rewrite Es. exact Dg.
  - right. right. exists id, snd, raw. repeat split; auto. congruence.
Qed.

Lemma Forall2_imp_in : forall A B (P Q : A -> B -> Prop) l m,
  (forall a b, In a l -> P a b -> Q a b) -> Forall2 P l m -> Forall2 Q l m.
Proof.
  intros A B P Q l m H F. induction F; constructor.
  - apply H; auto. left; auto.
  - apply IHF. intros; apply H; auto. right; auto.
Qed.

Lemma ante_checked : forall v c s t s', sound_for v t = true -> ante v c s t = Ok s' ->
  exists s1, set_pubkeys s (signers t) (t_slots t) = Ok s1 /\ Forall2 (Checked c s1 t) (signers t) (t_slots t).
Proof.
  intros v c s t s' SF H. destruct (ante_ok_parts _ _ _ _ _ H) as (s1 & Hv & Hp & Hs & Hi).
  exists s1. split; auto. unfold Auth.sig_verify in Hs.
  destruct (Nat.eqb _ _) eqn:L; [|discriminate]. apply Nat.eqb_eq in L.
  eapply (loop_sound v c s1 t SF _ _ []); eauto.
Qed.

(* C02, first sentence: an accepted transaction was authorised by every account it names as signer *)
Theorem accept_authorised : forall v c s t s', sound_for v t = true -> ante v c s t = Ok s' ->
  Forall2 (Authorised c s t) (signers t) (t_slots t).
Proof.
  intros v c s t s' SF H. destruct (ante_checked _ _ _ _ _ SF H) as (s1 & Hp & F).
  eapply Forall2_imp_in; [|exact F]. intros a x _ C.
  apply (checked_authorised c s s1 t a x); auto. eapply set_pubkeys_sn; eauto.
Qed.

(* ------------------------------------------------------------------ effect of an accepted transaction *)
Definition bump_sn (o : option (Z * Z)) : option (Z * Z) := option_map (fun p => (wrap64 (fst p + 1), snd p)) o.

Lemma ante_effect_seq : forall v c s t s', ante v c s t = Ok s' ->
  forall a, sn s' a = if mem_addr a (signers t) then bump_sn (sn s a) else sn s a.
Proof.
  intros v c s t s' H a. destruct (ante_ok_parts _ _ _ _ _ H) as (s1 & Hv & Hp & Hs & Hi).
  rewrite <- (set_pubkeys_sn _ _ _ _ Hp a).
  destruct (mem_addr a (signers t)) eqn:M.
  - apply mem_addr_In in M. destruct (increment_exists _ _ _ Hi a M) as [acc G].
    unfold sn. rewrite (increment_in _ _ _ Hi (signers_NoDup t) a acc M G), G. reflexivity.
  - apply mem_addr_nIn in M. unfold sn. rewrite (increment_other _ _ _ Hi a M). reflexivity.
Qed.

(* a key on record is never replaced, whatever is attached *)
Lemma ante_keeps_key : forall v c s t s', ante v c s t = Ok s' ->
  forall a acc k, get_acc s a = Some acc -> a_pub acc = Some k ->
  exists acc', get_acc s' a = Some acc' /\ a_pub acc' = Some k.
Proof.
  intros v c s t s' H a acc k G P. destruct (ante_ok_parts _ _ _ _ _ H) as (s1 & Hv & Hp & Hs & Hi).
  pose proof (set_pubkeys_keeps_key _ _ _ _ Hp a acc k G P) as G1.
  destruct (mem_addr a (signers t)) eqn:M.
  - apply mem_addr_In in M. rewrite (increment_in _ _ _ Hi (signers_NoDup t) a acc M G1). eexists; split; eauto.
  - apply mem_addr_nIn in M. rewrite (increment_other _ _ _ Hi a M). eauto.
Qed.

Theorem accept_effect : forall v c s t s', ante v c s t = Ok s' ->
  (forall a, sn s' a = if mem_addr a (signers t) then bump_sn (sn s a) else sn s a) /\
  (forall a acc k, get_acc s a = Some acc -> a_pub acc = Some k -> exists acc', get_acc s' a = Some acc' /\ a_pub acc' = Some k).
Proof. intros. split; [eapply ante_effect_seq|eapply ante_keeps_key]; eauto. Qed.

(* the first signer's slot is always checked against the account's sequence (even by the code as it is) *)
Lemma ante_ok_first : forall v c s t s', ante v c s t = Ok s' ->
  exists a0 sg x0 sl acc, signers t = a0 :: sg /\ t_slots t = x0 :: sl /\ get_acc s a0 = Some acc /\ s_seq x0 = a_seq acc.
Proof.
  intros v c s t s' H. destruct (ante_ok_parts _ _ _ _ _ H) as (s1 & Hv & Hp & Hs & Hi).
  destruct (validate_basic_len _ Hv) as [L NE].
  destruct (t_slots t) as [|x0 sl] eqn:SL; [congruence|].
  destruct (signers t) as [|a0 sg] eqn:SG; [discriminate|].
  unfold Auth.sig_verify in Hs. rewrite SL, SG in Hs.
  destruct (Nat.eqb _ _); [|discriminate]. simpl in Hs.
  destruct (get_acc s1 a0) as [acc1|] eqn:G; [|discriminate].
  destruct (a_pub acc1) as [k|]; [|discriminate].
  destruct (s_seq x0 =? a_seq acc1) eqn:Q; simpl in Hs; [|discriminate]. apply Z.eqb_eq in Q.
  rewrite <- SG in Hp.
  destruct (sn_get s s1 a0 acc1 (set_pubkeys_sn _ _ _ _ Hp a0) G) as (acc & G0 & Es & _).
  exists a0, sg, x0, sl, acc. repeat split; auto. congruence.
Qed.

(* ------------------------------------------------------------------ histories: sequences only grow *)
Lemma wrap64_small : forall z, 0 <= z < two64 -> wrap64 z = z.
Proof. intros. unfold wrap64. apply Z.mod_small; auto. Qed.

Lemma step_seq : forall v c o s a acc, get_acc s a = Some acc ->
  exists acc', get_acc (step v c s o) a = Some acc' /\ (a_seq acc' = a_seq acc \/ a_seq acc' = wrap64 (a_seq acc + 1)).
Proof.
  intros v c [t|b num] s a acc G; simpl.
  - destruct (ante v c s t) as [s'|e|p] eqn:H; eauto.
    pose proof (ante_effect_seq _ _ _ _ _ H a) as E. unfold sn in E. rewrite G in E. simpl in E.
    destruct (get_acc s' a) as [acc'|]; [|destruct (mem_addr a (signers t)); discriminate].
    exists acc'. split; auto. destruct (mem_addr a (signers t)); simpl in E; inversion E; auto.
  - destruct (get_acc s b); eauto. exists acc. split; auto. apply get_acc_app_some; auto.
Qed.

Lemma run_seq_mono : forall v c ops s a acc, get_acc s a = Some acc ->
  0 <= a_seq acc -> a_seq acc + Z.of_nat (List.length ops) < two64 ->
  exists acc', get_acc (run v c s ops) a = Some acc' /\ a_seq acc <= a_seq acc' <= a_seq acc + Z.of_nat (List.length ops).
Proof.
  intros v c ops. induction ops as [|o ops IH]; intros s a acc G P B.
  - exists acc. split; auto. simpl. lia.
  - change (run v c s (o :: ops)) with (run v c (step v c s o) ops).
    change (List.length (o :: ops)) with (S (List.length ops)) in *. rewrite Nat2Z.inj_succ in *.
    destruct (step_seq v c o s a acc G) as (acc1 & G1 & D).
    assert (E : a_seq acc <= a_seq acc1 <= a_seq acc + 1).
    { destruct D as [->| ->]; [lia|]. rewrite wrap64_small; lia. }
    destruct (IH (step v c s o) a acc1 G1) as (acc' & G' & B'); try lia.
    exists acc'. split; auto. lia.
Qed.

(* C02, second sentence: a transaction accepted once is rejected when submitted again, whatever
   happened in between (any transactions, accepted or not, any new accounts) -- for every variant
   of the code.  The only bound: no uint64 wrap-around of the sequence numbers in between. *)
Theorem replay_rejected : forall v c s t s' ops,
  seq_room s (1 + Z.of_nat (List.length ops)) ->
  ante v c s t = Ok s' ->
  is_ok (ante v c (run v c s' ops) t) = false.
Proof.
  intros v c s t s' ops R H.
  destruct (ante_ok_first _ _ _ _ _ H) as (a0 & sg & x0 & sl & acc & SG & SL & G & Q).
  pose proof (get_acc_In _ _ _ G) as I. unfold seq_room in R. rewrite Forall_forall in R.
  destruct (R _ I) as [P B]. cbn [snd fst] in P, B.
  pose proof (ante_effect_seq _ _ _ _ _ H a0) as E. rewrite SG in E. simpl in E. rewrite Z.eqb_refl in E. simpl in E.
  unfold sn in E. rewrite G in E. simpl in E.
  destruct (get_acc s' a0) as [acc1|] eqn:G1; [|discriminate]. simpl in E. inversion E as [[E1 E2]].
  rewrite wrap64_small in E1 by lia.
  destruct (run_seq_mono v c ops s' a0 acc1 G1) as (acc2 & G2 & B2); try lia.
  destruct (ante v c (run v c s' ops) t) as [s3|e|p] eqn:H3; auto.
  destruct (ante_ok_first _ _ _ _ _ H3) as (a0' & sg' & x0' & sl' & acc3 & SG' & SL' & G3 & Q3).
  rewrite SG in SG'. rewrite SL in SL'. inversion SG'; inversion SL'; subst a0' x0'.
  rewrite G2 in G3. inversion G3; subst acc3. lia.
Qed.

(* ------------------------------------------------------------------ attached keys *)
Lemma Forall2_nth : forall A B (P : A -> B -> Prop) l m, Forall2 P l m ->
  forall i a b, nth_error l i = Some a -> nth_error m i = Some b -> P a b.
Proof.
  intros A B P l m F. induction F; intros i a b Ha Hb; destruct i; simpl in *; try discriminate.
  - inversion Ha; inversion Hb; subst; auto.
  - eapply IHF; eauto.
Qed.

(* a first-time signer with an attached key that does not control the address: the attached key
   gives nothing -- the transaction is accepted only on a genuine Ethereum authorisation *)
Theorem attached_key_useless : forall v c s t s', sound_for v t = true -> ante v c s t = Ok s' ->
  forall i a x acc k, nth_error (signers t) i = Some a -> nth_error (t_slots t) i = Some x ->
  get_acc s a = Some acc -> a_pub acc = None -> s_att x = Some k -> addr_of_pk k <> a ->
  EthAuthorised c s t a x.
Proof.
  intros v c s t s' SF H i a x acc k Ha Hx G P At NA.
  destruct (ante_checked _ _ _ _ _ SF H) as (s1 & Hp & F).
  destruct (Forall2_nth _ _ _ _ _ F i a x Ha Hx) as (acc1 & k1 & G1 & P1 & Q & D).
  rewrite (set_pubkeys_installs _ _ _ _ i a x acc k Hp (signers_NoDup t) Ha Hx G P At) in G1.
  inversion G1; subst acc1. simpl in P1. inversion P1; subst k1.
  destruct D as [[A _]|[_ D]]; [contradiction|].
  exists acc. split; [exact G|]. split; [exact Q|].
  assert (Ed : doc_of c t x (with_pub acc k) = doc_of c t x acc) by reflexivity.
  destruct D as [[S (d & Dg & R)]|(id & snd & raw & M & Md & Rk & Se & N & Ch)].
  - left. split; auto. exists d. split; auto.
  - right. exists id, snd, raw. repeat split; auto.
Qed.

(* a key on record that controls the address decides alone: the signature must verify under it *)
Theorem key_on_record_decides : forall v c s t s', sound_for v t = true -> ante v c s t = Ok s' ->
  forall i a x acc k, nth_error (signers t) i = Some a -> nth_error (t_slots t) i = Some x ->
  get_acc s a = Some acc -> a_pub acc = Some k -> addr_of_pk k = a ->
  s_seq x = a_seq acc /\ verify k (doc_of c t x acc) (s_sig x) = true.
Proof.
  intros v c s t s' SF H i a x acc k Ha Hx G P A.
  destruct (ante_checked _ _ _ _ _ SF H) as (s1 & Hp & F).
  destruct (Forall2_nth _ _ _ _ _ F i a x Ha Hx) as (acc1 & k1 & G1 & P1 & Q & D).
  rewrite (set_pubkeys_keeps_key _ _ _ _ Hp a acc k G P) in G1. inversion G1; subst acc1.
  rewrite P in P1. inversion P1; subst k1.
  destruct D as [[_ V]|[NA _]]; [auto|contradiction].
Qed.

End Proofs.

(* ------------------------------------------------------------------ witnesses (concrete oracles) *)
Definition w_verify : pkey -> signdoc -> sigv -> bool := fun _ _ _ => false.
Definition w_recover : digest -> sigv -> option addr := fun _ _ => None.
Definition w_addr_of_pk (k : pkey) : addr := match k with Secp z => z | Ed z => z | Multi z => z end.
(* raw transaction 7 is signed by the attacker (Ethereum address 666), raw transaction 8 by the
   owner of the Ethereum-style account 100 *)
Definition w_eth_sender (r : Z) : option addr := if r =? 7 then Some 666 else if r =? 8 then Some 100 else None.
Definition w_ctx : ctxt := mkCtx 0 false.
(* victim 100: funded account that never signed (no key on record); 200: ordinary account *)
Definition w_state : state := [(100, mkAcc None 0 5); (200, mkAcc (Some (Secp 200)) 3 6)].
(* the attacker's own raw transaction, wrapped in a message naming the victim, own key attached *)
Definition w_forged : tx := mkTx 1 [MEth 1 100 (mkRaw 7 true 0 8789)] [mkSlot (Some (Secp 666)) MDirect 9 0] None.
(* Ethereum-style account 100 (key Secp 1 on record) names 200 as fee payer; 200's slot is noise *)
Definition w_state2 : state := [(100, mkAcc (Some (Secp 1)) 0 5); (200, mkAcc (Some (Secp 200)) 3 6)].
Definition w_payer : tx := mkTx 2 [MEth 2 100 (mkRaw 8 true 0 8789)] [mkSlot None MDirect 9 0; mkSlot None MDirect 9 3] (Some 200).

Lemma forged_accepted : forall v, v_check_sender v = false ->
  ante w_verify w_recover w_addr_of_pk w_eth_sender v w_ctx w_state w_forged
  = Ok [(100, mkAcc (Some (Secp 666)) 1 5); (200, mkAcc (Some (Secp 200)) 3 6)].
Proof. intros [cs ct e1 e2] E. simpl in E. subst cs. destruct ct, e1, e2; vm_compute; reflexivity. Qed.

Lemma forged_not_authorised :
  ~ Forall2 (Authorised w_verify w_recover w_addr_of_pk w_eth_sender w_ctx w_state w_forged) (signers w_forged) (t_slots w_forged).
Proof.
  intro F. inversion F as [|a x sg sl A _]; subst. clear F.
  destruct A as (acc & G & Q & [K|[E|R]]).
  - destruct K as (k & _ & V). discriminate.
  - destruct E as (_ & d & _ & R). discriminate.
  - destruct R as (id & snd & raw & M & _ & _ & S & _). vm_compute in M. inversion M; subst. vm_compute in S. discriminate.
Qed.

Lemma payer_accepted : forall v, v_continue v = false ->
  ante w_verify w_recover w_addr_of_pk w_eth_sender v w_ctx w_state2 w_payer
  = Ok [(100, mkAcc (Some (Secp 1)) 1 5); (200, mkAcc (Some (Secp 200)) 4 6)].
Proof. intros [cs ct e1 e2] E. simpl in E. subst ct. destruct cs, e1, e2; vm_compute; reflexivity. Qed.

Lemma payer_not_authorised :
  ~ Forall2 (Authorised w_verify w_recover w_addr_of_pk w_eth_sender w_ctx w_state2 w_payer) (signers w_payer) (t_slots w_payer).
Proof.
  intro F. vm_compute signers in F. simpl t_slots in F.
  inversion F as [|a x sg sl _ F2]; subst. inversion F2 as [|a' x' sg' sl' A _]; subst. clear F F2.
  destruct A as (acc & G & Q & [K|[E|R]]).
  - destruct K as (k & _ & V). discriminate.
  - destruct E as (_ & d & _ & R). discriminate.
  - destruct R as (id & snd & raw & M & _ & _ & S & _). vm_compute in M. inversion M; subst. vm_compute in S. discriminate.
Qed.

(* the full-strength statement fails for the code as it is, and each of the two repairs is needed *)
Theorem accept_authorised_refuted_sender : forall v, v_check_sender v = false ->
  exists verify recover addr_of_pk eth_sender c s t s',
    ante verify recover addr_of_pk eth_sender v c s t = Ok s' /\
    ~ Forall2 (Authorised verify recover addr_of_pk eth_sender c s t) (signers t) (t_slots t).
Proof.
  intros v E. exists w_verify, w_recover, w_addr_of_pk, w_eth_sender, w_ctx, w_state, w_forged. eexists.
  split; [apply forged_accepted; auto|apply forged_not_authorised].
Qed.
Theorem accept_authorised_refuted_cosigner : forall v, v_continue v = false ->
  exists verify recover addr_of_pk eth_sender c s t s',
    ante verify recover addr_of_pk eth_sender v c s t = Ok s' /\
    ~ Forall2 (Authorised verify recover addr_of_pk eth_sender c s t) (signers t) (t_slots t).
Proof.
  intros v E. exists w_verify, w_recover, w_addr_of_pk, w_eth_sender, w_ctx, w_state2, w_payer. eexists.
  split; [apply payer_accepted; auto|apply payer_not_authorised].
Qed.

(* ------------------------------------------------------------------ non-vacuity examples *)
(* key Secp 200 controls address 200 and signature 55 verifies under it for every document *)
Definition e_verify (k : pkey) (d : signdoc) (g : sigv) : bool :=
  match k with Secp 200 => g =? 55 | _ => false end.
(* signature 77 is an Ethereum signature by the owner of address 100 over EIP-712(message 1, sequence 0) *)
Definition e_recover (d : digest) (g : sigv) : option addr :=
  match d with DEip 1 0 => if g =? 77 then Some 100 else None | _ => None end.
Definition e_honest : tx := mkTx 3 [MPlain 1 [200]] [mkSlot None MDirect 55 3] None.
Definition e_raw_honest : tx := mkTx 4 [MEth 2 100 (mkRaw 8 true 0 8789)] [mkSlot (Some (Secp 1)) MDirect 9 0] None.
Definition e_eip712 : tx := mkTx 5 [MPlain 1 [100]] [mkSlot (Some (Secp 1)) MDirect 77 0] None.

Lemma ex_honest_accepted : forall v,
  Auth.ante e_verify e_recover w_addr_of_pk w_eth_sender v w_ctx w_state e_honest
  = Ok [(100, mkAcc None 0 5); (200, mkAcc (Some (Secp 200)) 4 6)].
Proof. intros [[] [] [] []]; vm_compute; reflexivity. Qed.
Lemma ex_raw_honest_accepted :
  Auth.ante e_verify e_recover w_addr_of_pk w_eth_sender repaired w_ctx w_state e_raw_honest
  = Ok [(100, mkAcc (Some (Secp 1)) 1 5); (200, mkAcc (Some (Secp 200)) 3 6)].
Proof. vm_compute; reflexivity. Qed.
Lemma ex_eip712_accepted :
  Auth.ante e_verify e_recover w_addr_of_pk w_eth_sender repaired w_ctx w_state e_eip712
  = Ok [(100, mkAcc (Some (Secp 1)) 1 5); (200, mkAcc (Some (Secp 200)) 3 6)].
Proof. vm_compute; reflexivity. Qed.
(* the repaired code rejects both witnesses *)
Lemma ex_forged_rejected_when_repaired :
  is_ok (Auth.ante w_verify w_recover w_addr_of_pk w_eth_sender repaired w_ctx w_state w_forged) = false /\
  is_ok (Auth.ante w_verify w_recover w_addr_of_pk w_eth_sender repaired w_ctx w_state2 w_payer) = false.
Proof. split; vm_compute; reflexivity. Qed.
Lemma ex_seq_room : seq_room w_state (1 + Z.of_nat (List.length [OpTx w_forged; OpNew 300 9; OpTx e_honest])).
Proof. unfold seq_room, w_state. repeat constructor; vm_compute; congruence. Qed.
Lemma ex_sound_for : sound_for as_is e_honest = true /\ sound_for repaired e_raw_honest = true /\ sound_for as_is e_raw_honest = false.
Proof. repeat split. Qed.

(* ------------------------------------------------------------------------------------------
   The spec checker of Model/C02Check.v accepts every step of the repaired model
   (connects "the real trace passes the checker" with the theorems above). *)
Lemma pkey_eqb_eq : forall a b, pkey_eqb a b = true <-> a = b.
Proof. intros [x|x|x] [y|y|y]; simpl; split; intro H; try discriminate; try (f_equal; lia); inversion H; lia. Qed.
Lemma mode_eqb_eq : forall a b, mode_eqb a b = true <-> a = b.
Proof. intros [] []; simpl; split; intro H; try discriminate; auto. Qed.
Lemma doc_eqb_eq : forall a b, doc_eqb a b = true <-> a = b.
Proof.
  intros [m c n s t] [m' c' n' s' t']; simpl. rewrite !andb_true_iff, mode_eqb_eq, !Z.eqb_eq. split.
  - intros [[[[-> ->] ->] ->] ->]; reflexivity.
  - intro H; inversion H; auto.
Qed.
Lemma opk_eqb_refl : forall a, opk_eqb a a = true.
Proof. intros [k|]; simpl; auto. apply pkey_eqb_eq; auto. Qed.

Definition acc_of_obs (o : obs) : account := mkAcc (o_pub o) (o_seq o) (o_num o).
Definition obs_of (bal : addr -> Z) (s : state) : ostate :=
  map (fun e => (fst e, mkObs (a_pub (snd e)) (a_seq (snd e)) (a_num (snd e)) (bal (fst e)))) s.

Lemma get_state_of : forall pre a, get_acc (state_of pre) a = option_map acc_of_obs (oget pre a).
Proof. induction pre as [|[b o] r IH]; intro a; simpl; auto. destruct (b =? a); auto. Qed.
Lemma oget_obs_of : forall bal s a, oget (obs_of bal s) a = option_map (fun x => mkObs (a_pub x) (a_seq x) (a_num x) (bal a)) (get_acc s a).
Proof.
  induction s as [|[b x] r IH]; intro a; simpl; auto. destruct (b =? a) eqn:E; auto.
  apply Z.eqb_eq in E. subst. reflexivity.
Qed.
Lemma In_oget : forall pre a o, NoDup (map fst pre) -> In (a, o) pre -> oget pre a = Some o.
Proof.
  induction pre as [|[b o'] r IH]; intros a o ND I; simpl in *; [destruct I|].
  inversion ND as [|? ? N ND']; subst. destruct I as [E|I].
  - inversion E; subst. rewrite Z.eqb_refl. reflexivity.
  - destruct (b =? a) eqn:E; [|auto]. apply Z.eqb_eq in E. subst. exfalso. apply N.
    change a with (fst (a, o)). apply in_map; auto.
Qed.
Lemma ostate_same_refl : forall s, ostate_same s s = true.
Proof.
  unfold ostate_same. induction s as [|[a o] r IH]; simpl; auto.
  rewrite IH, Z.eqb_refl. unfold obs_same. rewrite opk_eqb_refl, !Z.eqb_refl. reflexivity.
Qed.

Section CheckerSound.
Variable T : tabs.
Variable g : bool.
Notation tante := (Auth.ante (t_verify T) (t_recover T) (t_addr_of_pk T) (t_eth_sender T)).
Notation TAuthorised := (Authorised (t_verify T) (t_recover T) (t_addr_of_pk T) (t_eth_sender T)).

Lemma authorised_checker : forall pre t a x,
  TAuthorised (mkCtx 0 g) (state_of pre) t a x ->
  authorisedb T g pre t (List.length (signers t)) a x = true.
Proof.
  intros pre t a x (acc & G & Q & D). unfold authorisedb.
  rewrite get_state_of in G. destruct (oget pre a) as [o|]; [|discriminate]. simpl in G. inversion G; subst acc. clear G.
  simpl in Q. rewrite Q, Z.eqb_refl. simpl.
  unfold doc_of, acc_number in D. simpl in D.
  destruct D as [(k & A & V)|[(S & d & Dg & R)|(id & snd & raw & M & Md & Rk & Se & N & Ch)]].
  - apply orb_true_iff; left. apply orb_true_iff; left.
    unfold t_verify in V. apply existsb_exists in V as [[[k' d'] g'] [I E]].
    apply andb_true_iff in E as [E E3]. apply andb_true_iff in E as [E1 E2].
    apply pkey_eqb_eq in E1. subst k'. apply doc_eqb_eq in E2. subst d'. apply Z.eqb_eq in E3. subst g'.
    apply existsb_exists. eexists (k, _, _). split; [exact I|].
    apply andb_true_iff; split; [apply andb_true_iff; split|];
      [ | apply Z.eqb_refl | apply Z.eqb_eq; exact A].
    unfold doc_of, acc_number. simpl. rewrite (proj2 (mode_eqb_eq _ _) eq_refl), !Z.eqb_refl. reflexivity.
  - apply orb_true_iff; left. apply orb_true_iff; right.
    rewrite S. simpl. unfold eth_digest_of, doc_of, acc_number in Dg. simpl in Dg.
    destruct (s_mode x); try (inversion Dg; subst d; rewrite R; apply Z.eqb_refl).
    destruct (t_msgs t) as [|m r]; [discriminate|]. destruct m as [id l|]; destruct r; try discriminate.
    inversion Dg; subst d. rewrite R. apply Z.eqb_refl.
  - apply orb_true_iff; right. rewrite Md, M, Rk, Se. simpl in N. rewrite N, Ch. rewrite !Z.eqb_refl. reflexivity.
Qed.

Lemma auth_clauses_nil : forall pre t n sg sl i,
  Forall2 (fun a x => authorisedb T g pre t n a x = true) sg sl -> auth_clauses T g pre t n i sg sl = [].
Proof.
  intros pre t n sg sl i F. revert i. induction F as [|a x sg sl H F IH]; intro i; simpl; auto.
  rewrite H. simpl. apply IH.
Qed.

(* observation the model itself produces for one step (balances: arbitrary after an accepted
   transaction, unchanged after a rejected one) *)
Definition model_step (pre : ostate) (t : tx) (bal : addr -> Z) : stepobs :=
  let res := tante repaired (mkCtx 0 g) (state_of pre) t in
  mkStep t (signers t) (class_of res) (match res with Ok s' => obs_of bal s' | _ => pre end) false.

Theorem chk_step_sound : forall pre t bal, NoDup (map fst pre) -> step_clauses T g pre (model_step pre t bal) = [].
Proof.
  intros pre t bal ND. unfold step_clauses, model_step. simpl.
  destruct (tante repaired (mkCtx 0 g) (state_of pre) t) as [s'|e|p] eqn:H; simpl.
  - (* accepted *)
    assert (A : auth_clauses T g pre t (List.length (signers t)) 0 (signers t) (t_slots t) = []).
    { apply auth_clauses_nil. eapply Forall2_imp_in; [|eapply (accept_authorised _ _ _ _ repaired); [reflexivity|exact H]].
      intros a x _ Au. apply authorised_checker; auto. }
    rewrite A. simpl.
    assert (S : seq_ok (signers t) pre (obs_of bal s') = true).
    { unfold seq_ok. apply forallb_forall. intros [a o] I. simpl.
      pose proof (ante_effect_seq _ _ _ _ _ _ _ _ _ H a) as E. unfold sn in E.
      rewrite get_state_of, (In_oget _ _ _ ND I) in E. simpl in E.
      rewrite oget_obs_of. destruct (get_acc s' a) as [acc'|]; simpl in *.
      - destruct (mem_addr a (signers t)); simpl in E; inversion E; apply Z.eqb_refl.
      - destruct (mem_addr a (signers t)); discriminate. }
    rewrite S. simpl.
    assert (K : key_ok pre (obs_of bal s') = true).
    { unfold key_ok. apply forallb_forall. intros [a o] I. simpl.
      rewrite oget_obs_of.
      pose proof (ante_effect_seq _ _ _ _ _ _ _ _ _ H a) as E. unfold sn in E.
      rewrite get_state_of, (In_oget _ _ _ ND I) in E. simpl in E.
      destruct (o_pub o) as [k|] eqn:P.
      - destruct (ante_keeps_key _ _ _ _ _ _ _ _ _ H a (acc_of_obs o) k) as (acc' & G' & P'); auto.
        { rewrite get_state_of, (In_oget _ _ _ ND I). reflexivity. }
        rewrite G'. simpl. rewrite P'. apply pkey_eqb_eq; auto.
      - destruct (get_acc s' a); simpl in *; auto. destruct (mem_addr a (signers t)); discriminate. }
    rewrite K. reflexivity.
  - rewrite ostate_same_refl. reflexivity.
  - rewrite ostate_same_refl. reflexivity.
Qed.
End CheckerSound.

(* ------------------------------------------------------------------------------------------
   "authorised EXACTLY that transaction": what each signing scheme covers.
   [t_id] identifies the signed content (body bytes and auth-info bytes: messages, memo, timeout,
   fee, fee payer, signer infos).  The binding hypotheses say that one signature is a signature of
   one thing only; they are stated in the theorems that use them. *)
Section Exact.
Variable verify : pkey -> signdoc -> sigv -> bool.
Variable recover : digest -> sigv -> option addr.
Variable addr_of_pk : pkey -> addr.
Variable eth_sender : Z -> option addr.
Notation ante := (Auth.ante verify recover addr_of_pk eth_sender).

Definition sig_binds_doc : Prop := forall k d d' g, verify k d g = true -> verify k d' g = true -> d = d'.
Definition sig_binds_digest : Prop := forall d d' g a, recover d g = Some a -> recover d' g = Some a -> d = d'.

(* key path (DIRECT, LEGACY_AMINO_JSON): the signature covers the whole content.  Two transactions
   admitted from the same state on the same signature of a signer whose recorded key controls its
   address are the same transaction. *)
Theorem exact_key_path : forall v c s t1 t2 s1 s2, sig_binds_doc ->
  sound_for v t1 = true -> sound_for v t2 = true ->
  ante v c s t1 = Ok s1 -> ante v c s t2 = Ok s2 ->
  forall i a x1 x2 acc k,
  nth_error (signers t1) i = Some a -> nth_error (t_slots t1) i = Some x1 ->
  nth_error (signers t2) i = Some a -> nth_error (t_slots t2) i = Some x2 ->
  get_acc s a = Some acc -> a_pub acc = Some k -> addr_of_pk k = a ->
  s_sig x1 = s_sig x2 ->
  t_id t1 = t_id t2 /\ s_mode x1 = s_mode x2.
Proof.
  intros v c s t1 t2 s1 s2 B F1 F2 H1 H2 i a x1 x2 acc k A1 X1 A2 X2 G P A E.
  destruct (key_on_record_decides _ _ _ _ _ _ _ _ _ F1 H1 i a x1 acc k A1 X1 G P A) as [_ V1].
  destruct (key_on_record_decides _ _ _ _ _ _ _ _ _ F2 H2 i a x2 acc k A2 X2 G P A) as [_ V2].
  rewrite E in V1. pose proof (B _ _ _ _ V1 V2) as D. unfold doc_of in D. inversion D; auto.
Qed.

(* Ethereum path, EIP-712: the signature covers the message (and the sequence, chain id 8789) *)
Theorem exact_eip712_covers_message : forall c s t1 t2 s1 s2, sig_binds_digest ->
  ante repaired c s t1 = Ok s1 -> ante repaired c s t2 = Ok s2 ->
  forall a x1 x2 acc k id1 l1 id2 l2,
  signers t1 = [a] -> t_slots t1 = [x1] -> signers t2 = [a] -> t_slots t2 = [x2] ->
  t_msgs t1 = [MPlain id1 l1] -> t_msgs t2 = [MPlain id2 l2] ->
  s_mode x1 = MDirect -> s_mode x2 = MDirect ->
  get_acc s a = Some acc -> a_pub acc = Some k -> addr_of_pk k <> a ->
  s_sig x1 = s_sig x2 ->
  id1 = id2.
Proof.
  intros c s t1 t2 s1 s2 B H1 H2 a x1 x2 acc k id1 l1 id2 l2 S1 L1 S2 L2 M1 M2 D1 D2 G P NA E.
  assert (W : forall t x s' id l, ante repaired c s t = Ok s' -> signers t = [a] -> t_slots t = [x] ->
              t_msgs t = [MPlain id l] -> s_mode x = MDirect -> recover (DEip id (a_seq acc)) (s_sig x) = Some a).
  { intros t x s' id l H S L M D.
    destruct (ante_checked verify recover addr_of_pk eth_sender repaired c s t s' eq_refl H) as (sx & Hp & F).
    rewrite S, L in F. inversion F as [|? ? ? ? C _]; subst.
    destruct C as (acc1 & k1 & G1 & P1 & Q & Dj).
    rewrite S, L in Hp.
    assert (G1' : get_acc sx a = Some acc).
    { eapply set_pubkeys_keeps_key; eauto. }
    rewrite G1' in G1. inversion G1; subst acc1. rewrite P in P1. inversion P1; subst k1.
    destruct Dj as [[A _]|[_ [[_ (d & Dg & R)]|(id' & snd & raw & M' & _)]]]; [contradiction| |congruence].
    unfold eth_digest_of in Dg. rewrite D, M in Dg. inversion Dg; subst d. exact R. }
  pose proof (W _ _ _ _ _ H1 S1 L1 M1 D1) as R1. pose proof (W _ _ _ _ _ H2 S2 L2 M2 D2) as R2.
  rewrite E in R1. pose proof (B _ _ _ _ R1 R2) as Dq. inversion Dq; auto.
Qed.
End Exact.

(* ... but NOT the fee, the memo or anything else around the message: the full statement "two
   transactions admitted from the same state on the same signature have the same content" is
   REFUTED on the Ethereum paths, with oracles that satisfy both binding hypotheses *)
Definition x_verify : pkey -> signdoc -> sigv -> bool := fun _ _ _ => false.
Definition e_eip712_rewrapped : tx := mkTx 6 [MPlain 1 [100]] [mkSlot (Some (Secp 1)) MDirect 77 0] None.
Definition e_raw_rewrapped : tx := mkTx 7 [MEth 2 100 (mkRaw 8 true 0 8789)] [mkSlot (Some (Secp 1)) MDirect 9 0] None.

Lemma x_binds : sig_binds_doc x_verify /\ sig_binds_digest e_recover.
Proof.
  split; [intros k d d' g H; discriminate|].
  intros d d' g a H1 H2. unfold e_recover in *.
  destruct d as [m q|dd]; [|discriminate]. destruct d' as [m' q'|dd']; [|destruct m as [|[]|]; try discriminate; destruct q; discriminate].
  destruct m as [|[| |]|]; try discriminate; destruct q; try discriminate.
  destruct m' as [|[| |]|]; try discriminate; destruct q'; try discriminate. reflexivity.
Qed.

Theorem exact_refuted_eip712 :
  exists verify recover addr_of_pk eth_sender c s t1 t2 s1 s2,
    sig_binds_doc verify /\ sig_binds_digest recover /\
    Auth.ante verify recover addr_of_pk eth_sender repaired c s t1 = Ok s1 /\
    Auth.ante verify recover addr_of_pk eth_sender repaired c s t2 = Ok s2 /\
    signers t1 = signers t2 /\ t_slots t1 = t_slots t2 /\ t_msgs t1 = t_msgs t2 /\ t_id t1 <> t_id t2.
Proof.
  exists x_verify, e_recover, w_addr_of_pk, w_eth_sender, w_ctx, w_state, e_eip712, e_eip712_rewrapped. do 2 eexists.
  destruct x_binds as [B1 B2]. repeat split; auto; try (vm_compute; reflexivity). vm_compute. discriminate.
Qed.
Theorem exact_refuted_ethraw :
  exists verify recover addr_of_pk eth_sender c s t1 t2 s1 s2,
    sig_binds_doc verify /\ sig_binds_digest recover /\
    Auth.ante verify recover addr_of_pk eth_sender repaired c s t1 = Ok s1 /\
    Auth.ante verify recover addr_of_pk eth_sender repaired c s t2 = Ok s2 /\
    signers t1 = signers t2 /\ t_slots t1 = t_slots t2 /\ t_msgs t1 = t_msgs t2 /\ t_id t1 <> t_id t2.
Proof.
  exists x_verify, e_recover, w_addr_of_pk, w_eth_sender, w_ctx, w_state, e_raw_honest, e_raw_rewrapped. do 2 eexists.
  destruct x_binds as [B1 B2]. repeat split; auto; try (vm_compute; reflexivity). vm_compute. discriminate.
Qed.

(* ------------------------------------------------------------------------------------------
   The uint64 sequence number.  [replay_rejected] carries the bound [seq_room]; without it the
   statement is false: IncrementSequenceDecorator wraps 2^64-1 to 0 (observed on the real code for
   an account whose sequence was set to 2^64-1, which only a genesis file can do), and after 2^64
   accepted transactions of the account the first one is accepted again. *)
Definition u_verify : pkey -> signdoc -> sigv -> bool := fun _ _ _ => true.
Definition u_state (q : Z) : state := [(200, mkAcc (Some (Secp 200)) q 6)].
Definition u_tx (q : Z) : tx := mkTx q [MPlain 1 [200]] [mkSlot None MDirect 55 q] None.
Fixpoint u_ops (q : Z) (n : nat) : list op :=
  match n with O => [] | S n' => OpTx (u_tx q) :: u_ops (wrap64 (q + 1)) n' end.

Lemma u_ante : forall v q, Auth.ante u_verify w_recover w_addr_of_pk w_eth_sender v w_ctx (u_state q) (u_tx q) = Ok (u_state (wrap64 (q + 1))).
Proof.
  intros v q. unfold Auth.ante, u_state, u_tx, Auth.sig_verify. simpl.
  rewrite Z.eqb_refl. simpl. reflexivity.
Qed.
Lemma u_run : forall v n q, 0 <= q < two64 ->
  Auth.run u_verify w_recover w_addr_of_pk w_eth_sender v w_ctx (u_state q) (u_ops q n) = u_state (wrap64 (q + Z.of_nat n)).
Proof.
  intros v n. induction n as [|n IH]; intros q B.
  - simpl. rewrite Z.add_0_r, wrap64_small; auto.
  - change (u_ops q (S n)) with (OpTx (u_tx q) :: u_ops (wrap64 (q + 1)) n).
    change (Auth.run u_verify w_recover w_addr_of_pk w_eth_sender v w_ctx (u_state q) (OpTx (u_tx q) :: u_ops (wrap64 (q + 1)) n))
      with (Auth.run u_verify w_recover w_addr_of_pk w_eth_sender v w_ctx
              (Auth.step u_verify w_recover w_addr_of_pk w_eth_sender v w_ctx (u_state q) (OpTx (u_tx q))) (u_ops (wrap64 (q + 1)) n)).
    assert (St : Auth.step u_verify w_recover w_addr_of_pk w_eth_sender v w_ctx (u_state q) (OpTx (u_tx q)) = u_state (wrap64 (q + 1))).
    { unfold Auth.step. rewrite u_ante. reflexivity. }
    rewrite St, IH.
    + f_equal. unfold wrap64. rewrite Nat2Z.inj_succ, Z.add_mod_idemp_l by (unfold two64; lia). f_equal. lia.
    + unfold wrap64. apply Z.mod_pos_bound. unfold two64. lia.
Qed.

Theorem sequence_wrap_refuted : forall v,
  exists s t s' acc acc', Auth.ante u_verify w_recover w_addr_of_pk w_eth_sender v w_ctx s t = Ok s' /\
    get_acc s 200 = Some acc /\ get_acc s' 200 = Some acc' /\ a_seq acc' < a_seq acc.
Proof.
  intros v. exists (u_state (two64 - 1)), (u_tx (two64 - 1)). eexists. do 2 eexists.
  split; [apply u_ante|]. repeat split.
Qed.

Theorem replay_unbounded_refuted : forall v,
  exists s t s' ops, Auth.ante u_verify w_recover w_addr_of_pk w_eth_sender v w_ctx s t = Ok s' /\
    is_ok (Auth.ante u_verify w_recover w_addr_of_pk w_eth_sender v w_ctx
             (Auth.run u_verify w_recover w_addr_of_pk w_eth_sender v w_ctx s' ops) t) = true.
Proof.
  intros v. exists (u_state 0), (u_tx 0), (u_state (wrap64 (0 + 1))), (u_ops (wrap64 (0 + 1)) (Z.to_nat (two64 - 1))).
  split; [apply u_ante|].
  assert (W1 : wrap64 (0 + 1) = 1) by (apply wrap64_small; unfold two64; lia).
  rewrite W1, u_run by (unfold two64; lia).
  rewrite Z2Nat.id by (unfold two64; lia).
  replace (1 + (two64 - 1)) with two64 by lia.
  assert (W0 : wrap64 two64 = 0) by (unfold wrap64; apply Z.mod_same; unfold two64; lia).
  rewrite W0, u_ante. reflexivity.
Qed.

(* ------------------------------------------------------------------------------------------
   Full soundness of the spec checker: it accepts every HISTORY of the repaired model, including
   the replay clause and the CheckTx clause. *)
Lemma set_acc_keys : forall s a x, map fst (set_acc s a x) = map fst s.
Proof. induction s as [|[b y] r IH]; intros a x; simpl; auto. destruct (b =? a); simpl; [auto|rewrite IH; auto]. Qed.
Lemma set_pubkeys_keys : forall sl sg s s1, set_pubkeys s sg sl = Ok s1 -> map fst s1 = map fst s.
Proof.
  induction sl as [|x sl IH]; intros sg s s1 H; simpl in H; [inversion H; auto|].
  destruct sg as [|b sg]; [discriminate|]. destruct (s_att x); [|eauto].
  destruct (get_acc s b) as [acc|]; [|discriminate]. destruct (a_pub acc); [eauto|].
  rewrite (IH _ _ _ H). apply set_acc_keys.
Qed.
Lemma increment_keys : forall sg s s', increment_seqs s sg = Ok s' -> map fst s' = map fst s.
Proof.
  induction sg as [|b sg IH]; intros s s' H; simpl in H; [inversion H; auto|].
  destruct (get_acc s b); [|discriminate]. rewrite (IH _ _ H). apply set_acc_keys.
Qed.
Lemma state_of_obs_of : forall bal s, state_of (obs_of bal s) = s.
Proof. induction s as [|[a [p q n]] r IH]; simpl; auto. rewrite IH. reflexivity. Qed.
Lemma obs_of_keys : forall bal s, map fst (obs_of bal s) = map fst s.
Proof. induction s as [|[a x] r IH]; simpl; auto. rewrite IH; auto. Qed.
Lemma state_of_keys : forall o, map fst (state_of o) = map fst o.
Proof. induction o as [|[a x] r IH]; simpl; auto. rewrite IH; auto. Qed.

Section CheckerSoundFull.
Variable T : tabs.
Variable g : bool.
Notation tante := (Auth.ante (t_verify T) (t_recover T) (t_addr_of_pk T) (t_eth_sender T) repaired (mkCtx 0 g)).

Lemma tante_keys : forall s t s', tante s t = Ok s' -> map fst s' = map fst s.
Proof.
  intros s t s' H. destruct (ante_ok_parts _ _ _ _ _ _ _ _ _ H) as (s1 & _ & Hp & _ & Hi).
  rewrite (increment_keys _ _ _ Hi). eapply set_pubkeys_keys; eauto.
Qed.

Fixpoint model_trace (pre : ostate) (l : list (tx * (addr -> Z))) : list stepobs :=
  match l with
  | [] => []
  | (t, bal) :: r => let o := model_step T g pre t bal in o :: model_trace (so_post o) r
  end.

Definition room (s : state) (n : Z) : Prop := forall a acc, get_acc s a = Some acc -> 0 <= a_seq acc /\ a_seq acc + n < two64.
(* the first signer's slot claims a sequence the account has already passed *)
Definition first_seq_lt (s : state) (t0 : tx) : Prop :=
  exists a0 sg x0 sl acc, signers t0 = a0 :: sg /\ t_slots t0 = x0 :: sl /\ get_acc s a0 = Some acc /\ s_seq x0 < a_seq acc.
(* content identifiers are consistent: the same id means the same signers and claimed sequences *)
Definition id_consistent (txs : list tx) : Prop :=
  forall t1 t2, In t1 txs -> In t2 txs -> t_id t1 = t_id t2 ->
    signers t1 = signers t2 /\ map s_seq (t_slots t1) = map s_seq (t_slots t2).

(* one model step: sequences move by at most one and never down, while there is room *)
Lemma tante_seq_step : forall s t s' n, tante s t = Ok s' -> room s (1 + n) -> 0 <= n ->
  room s' n /\ (forall a acc, get_acc s a = Some acc -> exists acc', get_acc s' a = Some acc' /\ a_seq acc <= a_seq acc').
Proof.
  intros s t s' n H R N. split.
  - intros a acc' G'. pose proof (ante_effect_seq _ _ _ _ _ _ _ _ _ H a) as E. unfold sn in E. rewrite G' in E.
    destruct (get_acc s a) as [acc|] eqn:G; [|destruct (mem_addr a (signers t)); discriminate].
    destruct (R a acc G) as [P B]. destruct (mem_addr a (signers t)); simpl in E; inversion E as [[E1 E2]].
    + rewrite wrap64_small in E1 by lia. lia.
    + lia.
  - intros a acc G. pose proof (ante_effect_seq _ _ _ _ _ _ _ _ _ H a) as E. unfold sn in E. rewrite G in E.
    destruct (R a acc G) as [P B].
    destruct (get_acc s' a) as [acc'|]; [|destruct (mem_addr a (signers t)); discriminate].
    exists acc'. split; auto. destruct (mem_addr a (signers t)); simpl in E; inversion E as [[E1 E2]].
    + rewrite wrap64_small in E1 by lia. lia.
    + lia.
Qed.

Lemma hist_sound : forall txs, id_consistent txs ->
  forall l pre accepted, NoDup (map fst pre) -> room (state_of pre) (Z.of_nat (List.length l)) ->
  incl (map fst l) txs ->
  (forall id, In id accepted -> exists t0, In t0 txs /\ t_id t0 = id /\ first_seq_lt (state_of pre) t0) ->
  hist_clauses T g pre accepted (model_trace pre l) = [].
Proof.
  intros txs IC. induction l as [|[t bal] r IH]; intros pre accepted ND R IN AC; [reflexivity|].
  change (model_trace pre ((t, bal) :: r)) with (model_step T g pre t bal :: model_trace (so_post (model_step T g pre t bal)) r).
  cbn [hist_clauses]. rewrite (chk_step_sound T g pre t bal ND). cbn [app].
  assert (Int : In t txs) by (apply IN; left; reflexivity).
  assert (INr : incl (map fst r) txs) by (intros z Hz; apply IN; right; exact Hz).
  change (List.length ((t, bal) :: r)) with (S (List.length r)) in R. rewrite Nat2Z.inj_succ in R.
  replace (Z.succ (Z.of_nat (List.length r))) with (1 + Z.of_nat (List.length r)) in R by lia.
  unfold model_step. cbn [so_class so_tx so_post].
  destruct (tante (state_of pre) t) as [s'|e|p] eqn:H; cbn [class_of].
  - (* accepted: it cannot be a replay, and the invariant is re-established *)
    destruct (ante_ok_first _ _ _ _ _ _ _ _ _ H) as (a0 & sg & x0 & sl & acc & SG & SL & G & Q).
    assert (NR : existsb (Z.eqb (t_id t)) accepted = false).
    { destruct (existsb (Z.eqb (t_id t)) accepted) eqn:Ex; auto. exfalso.
      apply existsb_exists in Ex as [id [Iid Eid]]. apply Z.eqb_eq in Eid. subst id.
      destruct (AC _ Iid) as (t0 & I0 & E0 & (a0' & sg' & x0' & sl' & acc' & SG' & SL' & G' & Q')).
      destruct (IC t0 t I0 Int E0) as [Es Eq]. rewrite SG, SG' in Es. rewrite SL, SL' in Eq. simpl in Eq.
      inversion Es; inversion Eq; subst. rewrite G in G'. inversion G'; subst. lia. }
    rewrite NR. cbn [andb app]. simpl (0 =? 0).
    destruct (tante_seq_step _ _ _ (Z.of_nat (List.length r)) H R (Nat2Z.is_nonneg _)) as [R' Mono].
    apply IH; auto.
    + rewrite obs_of_keys, (tante_keys _ _ _ H), state_of_keys. exact ND.
    + rewrite state_of_obs_of. exact R'.
    + rewrite state_of_obs_of. intros id [<-|Iid].
      * exists t. split; auto. split; auto. exists a0, sg, x0, sl.
        pose proof (ante_effect_seq _ _ _ _ _ _ _ _ _ H a0) as E. rewrite SG in E. simpl in E. rewrite Z.eqb_refl in E. simpl in E.
        unfold sn in E. rewrite G in E. simpl in E. destruct (get_acc s' a0) as [acc1|]; [|discriminate].
        simpl in E. inversion E as [[E1 E2]]. exists acc1. repeat split; auto.
        destruct (R a0 acc G) as [P B]. rewrite wrap64_small in E1 by lia. lia.
      * destruct (AC _ Iid) as (t0 & I0 & E0 & (a1 & sg1 & x1 & sl1 & acc1 & SG1 & SL1 & G1 & Q1)).
        exists t0. split; auto. split; auto. destruct (Mono a1 acc1 G1) as (acc2 & G2 & Le).
        exists a1, sg1, x1, sl1, acc2. repeat split; auto. lia.
  - cbn [andb app]. simpl (1 =? 0). cbn [andb]. apply IH; auto.
    intros a acc Ga. destruct (R a acc Ga). split; lia.
  - cbn [andb app]. simpl (2 =? 0). cbn [andb]. apply IH; auto.
    intros a acc Ga. destruct (R a acc Ga). split; lia.
Qed.

Theorem chk_sound : forall init l,
  NoDup (map fst init) ->
  seq_room (state_of init) (Z.of_nat (List.length l)) ->
  id_consistent (map fst l) ->
  case_clauses (mkHist g T (match l with (t, _) :: _ => class_of (tante (state_of init) t) | [] => -1 end) None init (model_trace init l)) = [].
Proof.
  intros init l ND SR IC. unfold case_clauses.
  assert (R : room (state_of init) (Z.of_nat (List.length l))).
  { intros a acc G. apply get_acc_In in G. unfold seq_room in SR. rewrite Forall_forall in SR. apply (SR _ G). }
  unfold exact_clauses, check_clauses, check_tx_of. cbn [h_check_tx h_steps h_check h_tabs h_genesis h_init].
  rewrite (hist_sound (map fst l) IC l init [] ND R (incl_refl _)) by (intros id []).
  destruct l as [|[t bal] r]; [reflexivity|].
  change (model_trace init ((t, bal) :: r)) with (model_step T g init t bal :: model_trace (so_post (model_step T g init t bal)) r).
  cbn [so_tx model_step].
  destruct (tante (state_of init) t) as [s'|e|p] eqn:H; cbn [class_of]; try reflexivity.
  simpl (0 =? 0). cbv iota.
  rewrite (auth_clauses_nil T g init t (List.length (signers t)) (signers t) (t_slots t) 0); [reflexivity|].
  eapply Forall2_imp_in; [|eapply (accept_authorised _ _ _ _ repaired); [reflexivity|exact H]].
  intros a x _ Au. apply authorised_checker; auto.
Qed.
End CheckerSoundFull.

(* ------------------------------------------------------------------------------------------
   The "exactly one message" rule of the Ethereum path is an obligation of each branch: the EIP-712
   digest and the raw Ethereum transaction cover the FIRST message only. *)
Definition e_batched : tx := mkTx 8 [MPlain 1 [100]; MPlain 9 [100]] [mkSlot (Some (Secp 1)) MDirect 77 0] None.
Definition e_raw_batched : tx := mkTx 9 [MEth 2 100 (mkRaw 8 true 0 8789); MPlain 9 [100]] [mkSlot (Some (Secp 1)) MDirect 9 0] None.

Lemma batched_accepted : forall v, v_eip_single v = false ->
  Auth.ante x_verify e_recover w_addr_of_pk w_eth_sender v w_ctx w_state e_batched
  = Ok [(100, mkAcc (Some (Secp 1)) 1 5); (200, mkAcc (Some (Secp 200)) 3 6)].
Proof. intros [cs ct e1 e2] E. simpl in E. subst e1. destruct cs, ct, e2; vm_compute; reflexivity. Qed.
Lemma raw_batched_accepted : forall v, v_raw_single v = false ->
  Auth.ante x_verify e_recover w_addr_of_pk w_eth_sender v w_ctx w_state e_raw_batched
  = Ok [(100, mkAcc (Some (Secp 1)) 1 5); (200, mkAcc (Some (Secp 200)) 3 6)].
Proof. intros [cs ct e1 e2] E. simpl in E. subst e2. destruct cs, ct, e1; vm_compute; reflexivity. Qed.

Lemma batched_not_authorised : forall t, t = e_batched \/ t = e_raw_batched ->
  ~ Forall2 (Authorised x_verify e_recover w_addr_of_pk w_eth_sender w_ctx w_state t) (signers t) (t_slots t).
Proof.
  intros t Ht F. assert (S : signers t = [100] /\ exists x, t_slots t = [x]) by (destruct Ht; subst t; split; [reflexivity|eexists; reflexivity| reflexivity|eexists; reflexivity]).
  destruct S as [S [x SL]]. rewrite S, SL in F. inversion F as [|? ? ? ? A _]; subst. clear F.
  destruct A as (acc & G & Q & [K|[E|R]]).
  - destruct K as (k & _ & V). discriminate.
  - destruct E as (_ & d & Dg & _). unfold eth_digest_of in Dg.
    destruct Ht; subst t; inversion SL; subst x; simpl in Dg; discriminate.
  - destruct R as (id & snd & raw & M & _). destruct Ht; subst t; discriminate.
Qed.

Theorem accept_authorised_refuted_msgs_eip712 : forall v, v_eip_single v = false ->
  exists verify recover addr_of_pk eth_sender c s t s',
    Auth.ante verify recover addr_of_pk eth_sender v c s t = Ok s' /\
    ~ Forall2 (Authorised verify recover addr_of_pk eth_sender c s t) (signers t) (t_slots t).
Proof.
  intros v E. exists x_verify, e_recover, w_addr_of_pk, w_eth_sender, w_ctx, w_state, e_batched. eexists.
  split; [apply batched_accepted; auto|apply batched_not_authorised; auto].
Qed.
Theorem accept_authorised_refuted_msgs_ethraw : forall v, v_raw_single v = false ->
  exists verify recover addr_of_pk eth_sender c s t s',
    Auth.ante verify recover addr_of_pk eth_sender v c s t = Ok s' /\
    ~ Forall2 (Authorised verify recover addr_of_pk eth_sender c s t) (signers t) (t_slots t).
Proof.
  intros v E. exists x_verify, e_recover, w_addr_of_pk, w_eth_sender, w_ctx, w_state, e_raw_batched. eexists.
  split; [apply raw_batched_accepted; auto|apply batched_not_authorised; auto].
Qed.

(* positive form: on the tree as it is, a DIRECT slot accepted on the Ethereum path (the account's
   key -- on record, or attached for a first-time signer -- does not control the address) belongs to
   a transaction with exactly one message *)
Section SingleMessage.
Variable verify : pkey -> signdoc -> sigv -> bool.
Variable recover : digest -> sigv -> option addr.
Variable addr_of_pk : pkey -> addr.
Variable eth_sender : Z -> option addr.
Theorem eth_path_single_message : forall v c s t s', sound_for v t = true ->
  Auth.ante verify recover addr_of_pk eth_sender v c s t = Ok s' ->
  forall i a x acc k, nth_error (signers t) i = Some a -> nth_error (t_slots t) i = Some x ->
  get_acc s a = Some acc -> (a_pub acc = Some k \/ (a_pub acc = None /\ s_att x = Some k)) ->
  addr_of_pk k <> a -> s_mode x = MDirect -> single_msg t = true.
Proof.
  intros v c s t s' SF H i a x acc k Ha Hx G PK NA MD.
  destruct (ante_checked _ _ _ _ _ _ _ _ _ SF H) as (s1 & Hp & F).
  destruct (Forall2_nth _ _ _ _ _ F i a x Ha Hx) as (acc1 & k1 & G1 & P1 & Q & D).
  assert (K : k1 = k).
  { destruct PK as [P|[P At]].
    - rewrite (set_pubkeys_keeps_key _ _ _ _ Hp a acc k G P) in G1. inversion G1; subst. congruence.
    - rewrite (set_pubkeys_installs _ _ _ _ i a x acc k Hp (signers_NoDup t) Ha Hx G P At) in G1.
      inversion G1; subst. simpl in P1. congruence. }
  subst k1. destruct D as [[A _]|[_ [[_ (d & Dg & _)]|(id & snd & raw & M & _)]]]; [contradiction| |].
  - unfold eth_digest_of in Dg. rewrite MD in Dg. unfold single_msg.
    destruct (t_msgs t) as [|m [|m' r]]; try discriminate; auto. destruct m; discriminate.
  - unfold single_msg. rewrite M. reflexivity.
Qed.
End SingleMessage.

(* ------------------------------------------------------------------------------------------
   The WHOLE ante chain.  Model/Auth.ante is the projection of NewAnteHandler onto the
   authentication decorators; that projection is only meaningful if every decorator in front of
   (and between) them continues the chain on every accepting path.  Abstract semantics of
   sdk.ChainAnteDecorators: a decorator continues (DNext), rejects (DFail), or accepts without
   calling next (DStop). *)
Section Chain.
Variable S : Type.
Inductive dstep := DNext (s : S) | DFail | DStop (s : S).
Fixpoint run_chain (ds : list (S -> dstep)) (s : S) : option S :=
  match ds with
  | [] => Some s
  | d :: r => match d s with DNext s' => run_chain r s' | DFail => None | DStop s' => Some s' end
  end.
Definition never_stops (d : S -> dstep) : Prop := forall s s', d s <> DStop s'.

(* if no decorator can accept without calling next, an accepted transaction went through EVERY decorator *)
Theorem chain_accept_runs_every_decorator : forall pre d post s s',
  Forall never_stops (pre ++ d :: post) ->
  run_chain (pre ++ d :: post) s = Some s' ->
  exists s1 s2, run_chain pre s = Some s1 /\ d s1 = DNext s2 /\ run_chain post s2 = Some s'.
Proof.
  induction pre as [|e pre IH]; intros d post s s' NS H; simpl in *.
  - inversion NS as [|? ? N _]; subst. destruct (d s) as [s2|s2|s2] eqn:E; try discriminate.
    + exists s, s2. auto.
    + exfalso. eapply N; eauto.
  - inversion NS as [|? ? N NS']; subst. destruct (e s) as [s2| |s2] eqn:E; try discriminate.
    + apply IH; auto.
    + exfalso. eapply N; eauto.
Qed.
End Chain.

(* ------------------------------------------------------------------------------------------
   Histories: arbitrary interleavings of accepted / rejected transactions of any number of accounts
   and of account creations.  Per account the sequence counts exactly the accepted transactions that
   name it as signer; a transaction is never accepted at two positions of a history. *)
Section Histories.
Variable verify : pkey -> signdoc -> sigv -> bool.
Variable recover : digest -> sigv -> option addr.
Variable addr_of_pk : pkey -> addr.
Variable eth_sender : Z -> option addr.
Notation ante := (Auth.ante verify recover addr_of_pk eth_sender).
Notation step := (Auth.step verify recover addr_of_pk eth_sender).
Notation run := (Auth.run verify recover addr_of_pk eth_sender).

Definition acc_room (s : state) (n : Z) : Prop :=
  forall a acc, get_acc s a = Some acc -> 0 <= a_seq acc /\ a_seq acc + n < two64.

Lemma get_acc_app_none : forall s r a, get_acc s a = None -> get_acc (s ++ r) a = get_acc r a.
Proof.
  induction s as [|[b z] s IH]; intros r a H; simpl in *; auto.
  destruct (b =? a); [discriminate|auto].
Qed.

Lemma step_room : forall v c o s n, 0 <= n -> n < two64 -> acc_room s (1 + n) -> acc_room (step v c s o) n.
Proof.
  intros v c [t|b num] s n N0 N1 R a acc' G'; simpl in G'.
  - destruct (ante v c s t) as [s'|e|p] eqn:H.
    + pose proof (ante_effect_seq _ _ _ _ _ _ _ _ _ H a) as E. unfold sn in E. rewrite G' in E.
      destruct (get_acc s a) as [acc|] eqn:G; [|destruct (mem_addr a (signers t)); discriminate].
      destruct (R a acc G) as [P B]. destruct (mem_addr a (signers t)); simpl in E; inversion E as [[E1 E2]].
      * rewrite wrap64_small in E1 by lia. lia.
      * lia.
    + destruct (R a acc' G'). lia.
    + destruct (R a acc' G'). lia.
  - destruct (get_acc s b) eqn:Gb.
    + destruct (R a acc' G'). lia.
    + destruct (get_acc s a) as [acc|] eqn:G.
      * rewrite (get_acc_app_some _ _ _ _ G) in G'. inversion G'; subst. destruct (R a acc' G). lia.
      * rewrite (get_acc_app_none _ _ _ G) in G'. simpl in G'. destruct (b =? a); [|discriminate].
        inversion G'; subst. simpl. lia.
Qed.

Lemma run_room : forall v c ops s n, 0 <= n -> Z.of_nat (List.length ops) + n < two64 ->
  acc_room s (Z.of_nat (List.length ops) + n) -> acc_room (run v c s ops) n.
Proof.
  intros v c ops. induction ops as [|o ops IH]; intros s n N0 N1 R.
  - simpl in *. exact R.
  - change (run v c s (o :: ops)) with (run v c (step v c s o) ops).
    change (List.length (o :: ops)) with (S (List.length ops)) in *. rewrite Nat2Z.inj_succ in *.
    apply IH; try lia. apply step_room; try lia.
    replace (1 + (Z.of_nat (List.length ops) + n)) with (Z.succ (Z.of_nat (List.length ops)) + n) by lia. exact R.
Qed.

Lemma replay_rejected_room : forall v c s t s' ops,
  acc_room s (1 + Z.of_nat (List.length ops)) -> ante v c s t = Ok s' ->
  is_ok (ante v c (run v c s' ops) t) = false.
Proof.
  intros v c s t s' ops R H.
  destruct (ante_ok_first _ _ _ _ _ _ _ _ _ H) as (a0 & sg & x0 & sl & acc & SG & SL & G & Q).
  destruct (R _ _ G) as [P B].
  pose proof (ante_effect_seq _ _ _ _ _ _ _ _ _ H a0) as E. rewrite SG in E. simpl in E. rewrite Z.eqb_refl in E. simpl in E.
  unfold sn in E. rewrite G in E. simpl in E.
  destruct (get_acc s' a0) as [acc1|] eqn:G1; [|discriminate]. simpl in E. inversion E as [[E1 E2]].
  rewrite wrap64_small in E1 by lia.
  destruct (run_seq_mono verify recover addr_of_pk eth_sender v c ops s' a0 acc1 G1) as (acc2 & G2 & B2); try lia.
  destruct (ante v c (run v c s' ops) t) as [s3|e|p] eqn:H3; auto.
  destruct (ante_ok_first _ _ _ _ _ _ _ _ _ H3) as (a0' & sg' & x0' & sl' & acc3 & SG' & SL' & G3 & Q3).
  rewrite SG in SG'. rewrite SL in SL'. inversion SG'; inversion SL'; subst a0' x0'.
  rewrite G2 in G3. inversion G3; subst acc3. lia.
Qed.

Lemma run_app : forall v c s l m, run v c s (l ++ m) = run v c (run v c s l) m.
Proof. intros. unfold Auth.run. apply fold_left_app. Qed.

(* an accepted transaction is never accepted again later in the same history -- whatever else the history
   contains (transactions of any accounts, accepted or rejected, in any interleaving; new accounts) *)
Theorem never_accepted_twice : forall v c s pre t mid,
  acc_room s (Z.of_nat (List.length pre) + (1 + Z.of_nat (List.length mid))) ->
  Z.of_nat (List.length pre) + (1 + Z.of_nat (List.length mid)) < two64 ->
  is_ok (ante v c (run v c s pre) t) = true ->
  is_ok (ante v c (run v c s (pre ++ OpTx t :: mid)) t) = false.
Proof.
  intros v c s pre t mid R B H.
  destruct (ante v c (run v c s pre) t) as [s1|e|p] eqn:A; try discriminate.
  rewrite run_app. change (run v c (run v c s pre) (OpTx t :: mid)) with (run v c (step v c (run v c s pre) (OpTx t)) mid).
  unfold Auth.step at 1. rewrite A.
  apply (replay_rejected_room v c (run v c s pre) t s1 mid); auto.
  apply run_room; try lia. exact R.
Qed.

(* the number of accepted transactions of a history (started in s) that name account a as signer *)
Fixpoint accepted_for (v : variant) (c : ctxt) (s : state) (ops : list op) (a : addr) : Z :=
  match ops with
  | [] => 0
  | o :: r =>
      (match o with
       | OpTx t => if is_ok (ante v c s t) && mem_addr a (signers t) then 1 else 0
       | OpNew _ _ => 0
       end) + accepted_for v c (step v c s o) r a
  end.

(* per account the sequence number is EXACTLY the count of accepted transactions naming it: strictly
   increasing on every such transaction, untouched by everything else *)
Theorem sequence_counts_accepted : forall v c ops s a acc,
  get_acc s a = Some acc -> acc_room s (Z.of_nat (List.length ops)) ->
  exists acc', get_acc (run v c s ops) a = Some acc' /\ a_seq acc' = a_seq acc + accepted_for v c s ops a
               /\ a_num acc' = a_num acc.
Proof.
  intros v c ops. induction ops as [|o ops IH]; intros s a acc G R.
  - exists acc. simpl. repeat split; auto. lia.
  - change (run v c s (o :: ops)) with (run v c (step v c s o) ops).
    change (List.length (o :: ops)) with (S (List.length ops)) in R. rewrite Nat2Z.inj_succ in R.
    assert (L : 0 <= Z.of_nat (List.length ops)) by apply Nat2Z.is_nonneg.
    destruct (R a acc G) as [P B].
    assert (R' : acc_room (step v c s o) (Z.of_nat (List.length ops))).
    { apply step_room; try lia. replace (1 + Z.of_nat (List.length ops)) with (Z.succ (Z.of_nat (List.length ops))) by lia. exact R. }
    assert (S1 : exists acc1, get_acc (step v c s o) a = Some acc1 /\ a_num acc1 = a_num acc /\
                 a_seq acc1 = a_seq acc + match o with OpTx t => if is_ok (ante v c s t) && mem_addr a (signers t) then 1 else 0 | OpNew _ _ => 0 end).
    { destruct o as [t|b num]; simpl.
      - destruct (ante v c s t) as [s'|e|p] eqn:H; simpl; try (exists acc; repeat split; auto; lia).
        pose proof (ante_effect_seq _ _ _ _ _ _ _ _ _ H a) as E. unfold sn in E. rewrite G in E.
        destruct (get_acc s' a) as [acc1|]; [|destruct (mem_addr a (signers t)); discriminate].
        exists acc1. destruct (mem_addr a (signers t)); simpl in E; inversion E as [[E1 E2]]; repeat split; auto; try lia.
        rewrite wrap64_small in E1 by lia. lia.
      - destruct (get_acc s b); [exists acc; repeat split; auto; lia|].
        exists acc. repeat split; auto; try lia. apply get_acc_app_some; auto. }
    destruct S1 as (acc1 & G1 & N1 & Q1).
    destruct (IH (step v c s o) a acc1 G1 R') as (acc' & G' & Q' & N').
    exists acc'. split; auto. split; [|congruence]. cbn [accepted_for]. lia.
Qed.
End Histories.

(* ------------------------------------------------------------------------------------------ statements used verbatim by Properties/C02.v *)
Lemma accept_authorised_repaired : forall verify recover addr_of_pk eth_sender c s t s',
  Auth.ante verify recover addr_of_pk eth_sender repaired c s t = Ok s' ->
  Forall2 (Authorised verify recover addr_of_pk eth_sender c s t) (signers t) (t_slots t).
Proof. intros until s'. apply accept_authorised. reflexivity. Qed.

Lemma whole_chain_continues : chain_ok c02_chain c02_returns c02_gen_errors = true.
Proof. vm_compute. reflexivity. Qed.
Lemma audited_code_is_pinned : audited_code_pinned c02_fingerprints c02_account_writers = true.
Proof. vm_compute. reflexivity. Qed.

Lemma ex_nonvacuous_key : forall v,
  sound_for v e_honest = true /\
  Auth.ante e_verify e_recover w_addr_of_pk w_eth_sender v w_ctx w_state e_honest = Ok [(100, mkAcc None 0 5); (200, mkAcc (Some (Secp 200)) 4 6)].
Proof. intros v. split; [destruct v as [[] [] [] []]; reflexivity|apply ex_honest_accepted]. Qed.
Lemma ex_nonvacuous_raw_eth :
  sound_for repaired e_raw_honest = true /\
  Auth.ante e_verify e_recover w_addr_of_pk w_eth_sender repaired w_ctx w_state e_raw_honest = Ok [(100, mkAcc (Some (Secp 1)) 1 5); (200, mkAcc (Some (Secp 200)) 3 6)].
Proof. split; [reflexivity|exact ex_raw_honest_accepted]. Qed.

(* the spec checker accepts every run of the (repaired-variant) model: ALL histories *)
Definition c02_checker_accepts_model_runs := chk_sound.

(* non-vacuity of the history theorems: a three-account history with accepted and rejected transactions *)
Definition h_ops : list op := [OpTx e_honest; OpTx w_forged; OpNew 300 9; OpTx e_honest; OpTx e_eip712].
Lemma ex_history :
  acc_room w_state (Z.of_nat (List.length h_ops)) /\
  accepted_for e_verify e_recover w_addr_of_pk w_eth_sender repaired w_ctx w_state h_ops 200 = 1 /\
  accepted_for e_verify e_recover w_addr_of_pk w_eth_sender repaired w_ctx w_state h_ops 100 = 1 /\
  Auth.run e_verify e_recover w_addr_of_pk w_eth_sender repaired w_ctx w_state h_ops
    = [(100, mkAcc (Some (Secp 1)) 1 5); (200, mkAcc (Some (Secp 200)) 4 6); (300, mkAcc None 0 9)].
Proof.
  split.
  - intros a acc G. unfold w_state in G. cbn [get_acc] in G.
    destruct (100 =? a); [inversion G; subst; split; [cbn; lia|vm_compute; reflexivity]|].
    destruct (200 =? a); [inversion G; subst; split; [cbn; lia|vm_compute; reflexivity]|discriminate].
  - repeat split; vm_compute; reflexivity.
Qed.
