(* C04 -- lemmas about Model/LedgerInv.v *)
From Sekai Require Import Base.Prelude Base.Dec Gen.MintBurnSites Model.LedgerInv Model.C04Check.
From Coq Require Import ZifyBool.

(* ---------------------------------------------------------------- account classes *)
Lemma is_user_spec : forall u, is_user u = true -> 100 <= u < 1000.
Proof. unfold is_user; intros; lia. Qed.
Lemma is_escrow_spec : forall m, is_escrow m = true -> (1 <= m <= 10) \/ 1000 <= m.
Proof. unfold is_escrow, is_macc; intros; lia. Qed.
Lemma is_native_spec : forall d, is_native d = true -> 0 <= d < 100.
Proof. unfold is_native; intros; lia. Qed.

(* ---------------------------------------------------------------- one effect *)
Lemma apply_eff_bal : forall e s s', apply_eff e s = Some s' ->
  forall a d, bal s' a d = eff_bal e a d + bal s a d.
Proof.
  intros e s s' H a d. destruct e; cbn in H.
  - destruct ((0 <=? x) && (x <=? bal s a0 d0)); inversion H; subst; unfold bal; cbn; lia.
  - destruct (minter m && (0 <=? x)); inversion H; subst; unfold bal; cbn; lia.
  - destruct (burner m && (0 <=? x) && (x <=? bal s m d0)); inversion H; subst; unfold bal; cbn; lia.
  - destruct (0 <=? book s m k i d0 + x); inversion H; subst; unfold bal; cbn; lia.
  - inversion H; subst; unfold bal; cbn; lia.
Qed.

Lemma apply_eff_supply : forall e s s', apply_eff e s = Some s' ->
  forall d, supply s' d = eff_sup e d + supply s d.
Proof.
  intros e s s' H d. destruct e; cbn in H.
  - destruct ((0 <=? x) && (x <=? bal s a d0)); inversion H; subst; unfold supply; cbn; lia.
  - destruct (minter m && (0 <=? x)); inversion H; subst; unfold supply; cbn; lia.
  - destruct (burner m && (0 <=? x) && (x <=? bal s m d0)); inversion H; subst; unfold supply; cbn; lia.
  - destruct (0 <=? book s m k i d0 + x); inversion H; subst; unfold supply; cbn; lia.
  - inversion H; subst; unfold supply; cbn; lia.
Qed.

Lemma apply_eff_total : forall e s s', apply_eff e s = Some s' ->
  forall d, total s' d = eff_sup e d + total s d.
Proof.
  intros e s s' H d. destruct e; cbn in H.
  - destruct ((0 <=? x) && (x <=? bal s a d0)); inversion H; subst; unfold total; cbn.
    destruct (d0 =? d); lia.
  - destruct (minter m && (0 <=? x)); inversion H; subst; unfold total; cbn; lia.
  - destruct (burner m && (0 <=? x) && (x <=? bal s m d0)); inversion H; subst; unfold total; cbn; lia.
  - destruct (0 <=? book s m k i d0 + x); inversion H; subst; unfold total; cbn; lia.
  - inversion H; subst; unfold total; cbn; lia.
Qed.

Lemma apply_eff_liab : forall e s s', apply_eff e s = Some s' ->
  forall m d, liab s' m d = eff_liab e m d + liab s m d.
Proof.
  intros e s s' H m0 d. destruct e; cbn in H.
  - destruct ((0 <=? x) && (x <=? bal s a d0)); inversion H; subst; unfold liab; cbn; lia.
  - destruct (minter m && (0 <=? x)); inversion H; subst; unfold liab; cbn; lia.
  - destruct (burner m && (0 <=? x) && (x <=? bal s m d0)); inversion H; subst; unfold liab; cbn; lia.
  - destruct (0 <=? book s m k i d0 + x); inversion H; subst; unfold liab; cbn; lia.
  - inversion H; subst; unfold liab; cbn; lia.
Qed.

Lemma apply_eff_book : forall e s s', apply_eff e s = Some s' ->
  forall m k i d, book s' m k i d =
    (match e with EBook m' k' i' d' x => if (m' =? m) && (k' =? k) && (i' =? i) && (d' =? d) then x else 0 | _ => 0 end)
    + book s m k i d.
Proof.
  intros e s s' H m0 k0 i0 d. destruct e; cbn in H.
  - destruct ((0 <=? x) && (x <=? bal s a d0)); inversion H; subst; unfold book; cbn; lia.
  - destruct (minter m && (0 <=? x)); inversion H; subst; unfold book; cbn; lia.
  - destruct (burner m && (0 <=? x) && (x <=? bal s m d0)); inversion H; subst; unfold book; cbn; lia.
  - destruct (0 <=? book s m k i d0 + x); inversion H; subst; unfold book; cbn; lia.
  - inversion H; subst; unfold book; cbn; lia.
Qed.

Lemma apply_eff_aux : forall e s s', apply_eff e s = Some s' ->
  forall k i d, auxv s' k i d =
    (match e with EAux k' i' d' x => if (k' =? k) && (i' =? i) && (d' =? d) then x else 0 | _ => 0 end) + auxv s k i d.
Proof.
  intros e s s' H k0 i0 d. destruct e; cbn in H.
  - destruct ((0 <=? x) && (x <=? bal s a d0)); inversion H; subst; unfold auxv; cbn; lia.
  - destruct (minter m && (0 <=? x)); inversion H; subst; unfold auxv; cbn; lia.
  - destruct (burner m && (0 <=? x) && (x <=? bal s m d0)); inversion H; subst; unfold auxv; cbn; lia.
  - destruct (0 <=? book s m k i d0 + x); inversion H; subst; unfold auxv; cbn; lia.
  - inversion H; subst; unfold auxv; cbn; lia.
Qed.

(* a primitive keeps every balance non-negative *)
Lemma apply_eff_nonneg : forall e s s', apply_eff e s = Some s' -> nonneg s -> nonneg s'.
Proof.
  intros e s s' H N a d. rewrite (apply_eff_bal _ _ _ H). specialize (N a d) as Na.
  destruct e; cbn in H |- *; try lia.
  - destruct ((0 <=? x) && (x <=? bal s a0 d0)) eqn:G; [|discriminate].
    destruct (Z.eqb_spec b a), (Z.eqb_spec d0 d), (Z.eqb_spec a0 a); subst; cbn; try lia.
  - destruct (minter m && (0 <=? x)) eqn:G; [|discriminate].
    destruct (Z.eqb_spec m a), (Z.eqb_spec d0 d); subst; cbn; lia.
  - destruct (burner m && (0 <=? x) && (x <=? bal s m d0)) eqn:G; [|discriminate].
    destruct (Z.eqb_spec m a), (Z.eqb_spec d0 d); subst; cbn; lia.
Qed.

(* ---------------------------------------------------------------- effect lists *)
Lemma apply_effs_deltas : forall es s s', apply_effs es s = Some s' ->
  (forall a d, bal s' a d = effs_bal es a d + bal s a d) /\
  (forall d, supply s' d = effs_sup es d + supply s d) /\
  (forall d, total s' d = effs_sup es d + total s d) /\
  (forall m d, liab s' m d = effs_liab es m d + liab s m d).
Proof.
  induction es as [|e r IH]; intros s s' H; cbn in H.
  - inversion H; subst; cbn; repeat split; intros; lia.
  - destruct (apply_eff e s) as [s1|] eqn:E; [|discriminate].
    destruct (IH _ _ H) as (B & S & T & L).
    repeat split; intros; cbn.
    + rewrite B, (apply_eff_bal _ _ _ E); lia.
    + rewrite S, (apply_eff_supply _ _ _ E); lia.
    + rewrite T, (apply_eff_total _ _ _ E); lia.
    + rewrite L, (apply_eff_liab _ _ _ E); lia.
Qed.

Lemma apply_effs_nonneg : forall es s s', apply_effs es s = Some s' -> nonneg s -> nonneg s'.
Proof.
  induction es as [|e r IH]; intros s s' H N; cbn in H.
  - inversion H; subst; auto.
  - destruct (apply_eff e s) as [s1|] eqn:E; [|discriminate]. eauto using apply_eff_nonneg.
Qed.

Lemma apply_effs_supply_ok : forall es s s', apply_effs es s = Some s' -> supply_ok s -> supply_ok s'.
Proof.
  intros es s s' H S d. destruct (apply_effs_deltas _ _ _ H) as (_ & A & B & _). rewrite A, B, (S d); lia.
Qed.

(* an effect list is balanced for account m when it adds no more to m's liabilities than to m's balance *)
Definition balanced_for (es : list eff) (m : Z) : Prop := forall d, effs_liab es m d <= effs_bal es m d.

Lemma apply_effs_solvent : forall es s s' m, apply_effs es s = Some s' -> balanced_for es m -> solvent m s -> solvent m s'.
Proof.
  intros es s s' m H Bd S d. destruct (apply_effs_deltas _ _ _ H) as (A & _ & _ & L).
  rewrite A, L. specialize (Bd d). specialize (S d). lia.
Qed.

Lemma effs_liab_app : forall a b m d, effs_liab (a ++ b) m d = effs_liab a m d + effs_liab b m d.
Proof. induction a; intros; cbn; [|rewrite IHa]; lia. Qed.
Lemma effs_bal_app : forall a b m d, effs_bal (a ++ b) m d = effs_bal a m d + effs_bal b m d.
Proof. induction a; intros; cbn; [|rewrite IHa]; lia. Qed.
Lemma effs_sup_app : forall a b d, effs_sup (a ++ b) d = effs_sup a d + effs_sup b d.
Proof. induction a; intros; cbn; [|rewrite IHa]; lia. Qed.

(* ---------------------------------------------------------------- operations are balanced *)
Ltac split_eqb :=
  repeat match goal with
         | |- context [Z.eqb ?a ?b] => destruct (Z.eqb_spec a b)
         end; cbn [andb orb negb].
Ltac consts := unfold FC, GOV, MINT, SPEND, DISTR, BASKET, MS, COLLM, L2, REC, share, basket_denom in *.

Lemma slash_balanced : forall s p frac ds m d, is_escrow m = true ->
  forallb (fun d => 0 <=? slash_cut s p frac d) ds = true ->
  effs_liab (flat_map (slash_one s p frac) ds) m d <= effs_bal (flat_map (slash_one s p frac) ds) m d.
Proof.
  intros s p frac ds m d Hm. apply is_escrow_spec in Hm. induction ds as [|e r IH]; intro F; cbn [flat_map forallb] in *.
  - cbn; lia.
  - apply andb_prop in F as [F1 F2]. specialize (IH F2).
    rewrite effs_liab_app, effs_bal_app.
    assert (0 <= slash_cut s p frac e) by lia.
    assert (effs_liab (slash_one s p frac e) m d <= effs_bal (slash_one s p frac e) m d); [|lia].
    unfold slash_one. destruct (e =? 0); cbn [effs_liab effs_bal eff_liab eff_bal]; split_eqb; consts; lia.
Qed.

Lemma withdraw_balanced : forall m0 k i v outs m d, is_user v = true -> is_escrow m = true ->
  forallb (fun o => 0 <=? snd o) outs = true ->
  effs_liab (withdraw_effs m0 k i v outs) m d = effs_bal (withdraw_effs m0 k i v outs) m d.
Proof.
  intros m0 k i v outs m d Hv Hm. apply is_user_spec in Hv. apply is_escrow_spec in Hm.
  induction outs as [|[e w] r IH]; intro F; cbn [withdraw_effs flat_map forallb] in *.
  - reflexivity.
  - apply andb_prop in F as [F1 F2]. specialize (IH F2). unfold withdraw_effs in IH.
    rewrite effs_liab_app, effs_bal_app, IH. cbn [effs_liab effs_bal eff_liab eff_bal fst snd]. split_eqb; consts; lia.
Qed.

Definition special (o : bop) : bool := match o with FcPayout _ _ _ | MsAllocate _ _ _ _ => true | _ => false end.

(* the shape of Undelegate is a generated constant: proofs cover both values *)
Ltac split_variant H :=
  try (match type of H with context [undelegate_pro_rata] => revert H; destruct undelegate_pro_rata; intro H end).

Ltac guard_inv H :=
  unfold guard in H;
  match type of H with (if ?c then _ else _) = _ => destruct c eqn:G; [inversion H; subst; clear H | discriminate] end.

Ltac user_facts :=
  repeat match goal with
         | H : is_user _ = true |- _ => apply is_user_spec in H
         | H : is_escrow _ = true |- _ => apply is_escrow_spec in H
         end.

Lemma pay_balanced : forall m0 k i pays m d, is_escrow m = true -> pays_ok pays = true ->
  effs_liab (pay_effs m0 k i pays) m d = effs_bal (pay_effs m0 k i pays) m d.
Proof.
  intros m0 k i pays m d Hm. induction pays as [|[v outs] r IH]; intro F; cbn [pay_effs pays_ok flat_map forallb fst snd] in *.
  - reflexivity.
  - apply andb_prop in F as [F1 F2]. apply andb_prop in F1 as [Fu Fo]. specialize (IH F2). unfold pay_effs in IH.
    rewrite effs_liab_app, effs_bal_app, IH. rewrite (withdraw_balanced m0 k i v outs m d Fu Hm Fo). reflexivity.
Qed.

Lemma deposit_balanced : forall u m0 k i deps m d, is_user u = true -> is_escrow m = true ->
  effs_liab (deposit_effs u m0 k i deps) m d = effs_bal (deposit_effs u m0 k i deps) m d.
Proof.
  intros u m0 k i deps m d Hu Hm. apply is_user_spec in Hu. apply is_escrow_spec in Hm.
  induction deps as [|[e x] r IH]; cbn [deposit_effs flat_map] in *; [reflexivity|].
  unfold deposit_effs in IH. rewrite effs_liab_app, effs_bal_app, IH.
  cbn [effs_liab effs_bal eff_liab eff_bal fst snd]. split_eqb; consts; lia.
Qed.

Lemma bkburn_balanced : forall u b t outs m d, is_user u = true -> is_escrow m = true ->
  forallb (fun o => 0 <=? snd o) outs = true ->
  effs_liab (bkburn_effs u b t outs) m d <= effs_bal (bkburn_effs u b t outs) m d.
Proof.
  intros u b t outs m d Hu Hm F. unfold bkburn_effs.
  cbn [effs_liab effs_bal eff_liab eff_bal]. rewrite effs_liab_app, effs_bal_app.
  rewrite (withdraw_balanced BASKET K_BTOKEN b u outs m d) by assumption.
  user_facts. cbn [effs_liab effs_bal eff_liab eff_bal]. split_eqb; consts; lia.
Qed.

Lemma compile_balanced : forall o s es m, compile o s = Some es -> special o = false -> is_escrow m = true ->
  balanced_for es m.
Proof.
  intros o s es m H Sp Hm d.
  destruct o; cbn [special] in Sp; try discriminate; cbn [compile] in H; split_variant H; guard_inv H.
  all: try (unfold undel_guard, undel_effs in *; repeat (apply andb_prop in G as [G ?]); user_facts;
            cbn [effs_liab effs_bal eff_liab eff_bal]; split_eqb; consts; lia).
  - (* MsSlash *)
    repeat (apply andb_prop in G as [G ?]).
    cbn [effs_liab effs_bal eff_liab eff_bal]. pose proof (slash_balanced s p frac ds m d Hm H). lia.
  - (* BkBurn *)
    repeat (apply andb_prop in G as [G ?]).
    assert (Hu : is_user u = true) by (unfold is_user; lia).
    apply bkburn_balanced; assumption.
  - (* SpWithdrawProp *)
    rewrite pay_balanced by assumption. lia.
  - (* SpClaims *)
    rewrite pay_balanced by assumption. lia.
  - (* BkMintC *)
    repeat (apply andb_prop in G as [G ?]).
    assert (Hu : is_user u = true) by (unfold is_user; lia).
    rewrite effs_liab_app, effs_bal_app, (deposit_balanced u BASKET K_BTOKEN b (map fst deps) m d Hu Hm).
    user_facts. cbn [effs_liab effs_bal eff_liab eff_bal]. split_eqb; consts; lia.
  - (* BkBurnC *)
    repeat (apply andb_prop in G as [G ?]).
    assert (Hu : is_user u = true) by (unfold is_user; lia).
    apply bkburn_balanced; assumption.
Qed.

(* ---------------------------------------------------------------- every operation keeps the invariants *)
Record Inv (s : state) : Prop := mkInv { inv_supply : supply_ok s; inv_nonneg : nonneg s; inv_solvent : all_solvent s }.

Lemma exec_supply_nonneg : forall o s s', exec o s = Some s' -> (supply_ok s -> supply_ok s') /\ (nonneg s -> nonneg s').
Proof.
  intros o s s' H. unfold exec in H. destruct (compile o s) as [es|]; [|discriminate].
  split; eauto using apply_effs_supply_ok, apply_effs_nonneg.
Qed.

Lemma exec_solvent : forall o s s' m, exec o s = Some s' -> op_safe o = true -> is_escrow m = true ->
  solvent m s -> solvent m s'.
Proof.
  intros o s s' m H Safe Hm S. unfold exec in H. destruct (compile o s) as [es|] eqn:C; [|discriminate].
  destruct (special o) eqn:Sp.
  - destruct o; try discriminate; cbn [compile] in C; guard_inv C;
      destruct (apply_effs_deltas _ _ _ H) as (A & _ & _ & L); intro d0; rewrite A, L; specialize (S d0);
      repeat (apply andb_prop in G as [G ?]); user_facts; cbn [op_safe] in Safe;
      cbn [effs_liab effs_bal eff_liab eff_bal]; split_eqb; consts; subst; lia.
  - eapply apply_effs_solvent; eauto using compile_balanced.
Qed.

Lemma exec_inv : forall o s s', exec o s = Some s' -> op_safe o = true -> Inv s -> Inv s'.
Proof.
  intros o s s' H Safe [A B C]. destruct (exec_supply_nonneg _ _ _ H) as [P Q].
  constructor; auto. intros m Hm. eapply exec_solvent; eauto.
Qed.

Lemma exec_all_inv : forall os s s', exec_all os s = Some s' -> forallb op_safe os = true -> Inv s -> Inv s'.
Proof.
  induction os as [|o r IH]; intros s s' H F I; cbn in *.
  - inversion H; subst; auto.
  - destruct (exec o s) as [s1|] eqn:E; [|discriminate]. apply andb_prop in F as [F1 F2].
    eauto using exec_inv.
Qed.

Lemma step_inv : forall it s, item_safe it = true -> Inv s -> Inv (step s it).
Proof.
  intros [u fd fx msgs|ops] s F I; cbn [step item_safe] in *.
  - destruct (exec (PayFee u fd fx) s) as [s1|] eqn:E; auto.
    assert (Inv s1) by (eapply exec_inv; eauto).
    destruct (exec_all msgs s1) as [s2|] eqn:E2; auto. eapply exec_all_inv; eauto.
  - destruct (exec_all ops s) as [s2|] eqn:E2; auto. eapply exec_all_inv; eauto.
Qed.

Lemma run_inv : forall h s, forallb item_safe h = true -> Inv s -> Inv (run h s).
Proof.
  induction h as [|it r IH]; intros s F I; cbn in *; auto.
  apply andb_prop in F as [F1 F2]. apply IH; auto using step_inv.
Qed.

(* supply and non-negativity need no safety side condition *)
Lemma exec_all_sn : forall os s s', exec_all os s = Some s' -> (supply_ok s /\ nonneg s) -> (supply_ok s' /\ nonneg s').
Proof.
  induction os as [|o r IH]; intros s s' H I; cbn in *.
  - inversion H; subst; auto.
  - destruct (exec o s) as [s1|] eqn:E; [|discriminate].
    destruct (exec_supply_nonneg _ _ _ E). apply (IH _ _ H). tauto.
Qed.
Lemma step_sn : forall it s, (supply_ok s /\ nonneg s) -> (supply_ok (step s it) /\ nonneg (step s it)).
Proof.
  intros [u fd fx msgs|ops] s I; cbn [step].
  - destruct (exec (PayFee u fd fx) s) as [s1|] eqn:E; auto.
    assert (supply_ok s1 /\ nonneg s1) by (destruct (exec_supply_nonneg _ _ _ E); tauto).
    destruct (exec_all msgs s1) as [s2|] eqn:E2; eauto using exec_all_sn.
  - destruct (exec_all ops s) as [s2|] eqn:E2; eauto using exec_all_sn.
Qed.
Lemma run_sn : forall h s, (supply_ok s /\ nonneg s) -> (supply_ok (run h s) /\ nonneg (run h s)).
Proof. induction h; intros; cbn; auto using step_sn. Qed.

(* ---------------------------------------------------------------- genesis *)
Lemma genesis_supply_ok : forall g, supply_ok (genesis g).
Proof.
  intros g d. unfold supply, total, genesis; cbn. induction g as [|[[a e] x] r IH]; cbn; [reflexivity|]. rewrite IH; lia.
Qed.
Lemma genesis_nonneg : forall g, good_genesis g -> nonneg (genesis g).
Proof.
  intros g G a d. unfold bal, genesis; cbn. induction g as [|[[a' e] x] r IH]; cbn; [lia|].
  assert (0 <= x) by (apply (G a' e x); left; reflexivity).
  assert (0 <= jbal r a d) by (apply IH; intros ? ? ? ?; eapply G; right; eauto).
  destruct ((a' =? a) && (e =? d)); lia.
Qed.
Lemma genesis_inv : forall g, good_genesis g -> Inv (genesis g).
Proof.
  intros g G. constructor; auto using genesis_supply_ok, genesis_nonneg.
  intros m _ d. unfold liab; cbn. apply (genesis_nonneg g G).
Qed.

(* ---------------------------------------------------------------- the main theorems *)
Theorem supply_is_sum_run : forall g h, good_genesis g ->
  let s := run h (genesis g) in supply_ok s /\ nonneg s.
Proof. intros. apply run_sn. split; auto using genesis_supply_ok, genesis_nonneg. Qed.

Theorem solvent_run : forall g h, good_genesis g -> forallb item_safe h = true ->
  all_solvent (run h (genesis g)).
Proof. intros. apply inv_solvent, run_inv; auto using genesis_inv. Qed.

(* [total] really is the sum of the balances of all accounts *)
Lemma zsum_cons : forall x l, zsum (x :: l) = x + zsum l.
Proof. reflexivity. Qed.

Lemma zsum_indicator_out : forall (U : list Z) a (c : bool) x, ~ In a U ->
  zsum (map (fun u => if (a =? u) && c then x else 0) U) = 0.
Proof.
  induction U as [|u r IH]; intros a c x NI; [reflexivity|].
  cbn [map]. rewrite zsum_cons, IH by (intro; apply NI; right; assumption).
  destruct (Z.eqb_spec a u); [subst; exfalso; apply NI; left; reflexivity|]. cbn [andb]. lia.
Qed.

Lemma zsum_indicator : forall (U : list Z) a (c : bool) x, NoDup U -> In a U ->
  zsum (map (fun u => if (a =? u) && c then x else 0) U) = if c then x else 0.
Proof.
  induction U as [|u r IH]; intros a c x N I; [inversion I|].
  inversion N; subst. cbn [map]. rewrite zsum_cons. destruct I as [->|I].
  - rewrite Z.eqb_refl, zsum_indicator_out by assumption. cbn [andb]. destruct c; lia.
  - destruct (Z.eqb_spec a u); [subst; contradiction|]. cbn [andb]. rewrite IH by assumption. destruct c; lia.
Qed.

Lemma zsum_map_add : forall (U : list Z) f g, zsum (map (fun u => f u + g u) U) = zsum (map f U) + zsum (map g U).
Proof. induction U; intros; cbn [map]; [reflexivity|]. rewrite !zsum_cons, IHU. lia. Qed.

Lemma zsum_map_zero : forall (U : list Z), zsum (map (fun _ => 0) U) = 0.
Proof. induction U; cbn [map]; [reflexivity|]. rewrite zsum_cons, IHU. reflexivity. Qed.

Theorem sum_over_accounts : forall s U d, NoDup U -> (forall a, In a (accounts_of s) -> In a U) ->
  sum_bal s U d = total s d.
Proof.
  intros s U d N C. unfold sum_bal, total, bal, accounts_of in *.
  induction (led s) as [|[[a e] x] r IH]; cbn [jbal jtot map fst] in *.
  - apply zsum_map_zero.
  - rewrite zsum_map_add, IH by (intros; apply C; right; assumption).
    rewrite (zsum_indicator U a (e =? d) x N) by (apply C; left; reflexivity). reflexivity.
Qed.

(* ---------------------------------------------------------------- Dec rounding *)
Lemma PREC_pos : 0 < PREC. Proof. unfold PREC; lia. Qed.

Lemma chop_round_mult : forall k, 0 <= k -> chop_round (k * PREC) = k.
Proof.
  intros k Hk. unfold chop_round. pose proof PREC_pos.
  assert (k * PREC <? 0 = false) by nia. rewrite H0. unfold chop_round_pos.
  rewrite Z.mod_mul, Z.div_mul by lia. reflexivity.
Qed.

Lemma pool_coin_unslashed : forall x, 0 <= x -> pool_coin 0 x = x.
Proof.
  intros x Hx. unfold pool_coin, round_int, dec_of_int, dec_one.
  replace (x * PREC * (PREC - 0)) with ((x * PREC) * PREC) by lia.
  pose proof PREC_pos. rewrite chop_round_mult by nia. apply chop_round_mult; assumption.
Qed.

(* banker's rounding is within half a unit *)
Lemma chop_round_pos_bounds : forall d, 0 <= d -> 2 * d - PREC <= 2 * PREC * chop_round_pos d <= 2 * d + PREC.
Proof.
  intros d Hd. unfold chop_round_pos. pose proof PREC_pos.
  pose proof (Z.div_mod d PREC ltac:(lia)). pose proof (Z.mod_pos_bound d PREC ltac:(lia)).
  assert (HALF * 2 = PREC) by reflexivity.
  destruct (d mod PREC =? 0) eqn:E1; [nia|].
  destruct (d mod PREC <? HALF) eqn:E2; [nia|].
  destruct (HALF <? d mod PREC) eqn:E3; [nia|].
  destruct (Z.even (d / PREC)); nia.
Qed.

Lemma chop_round_bounds : forall d, 0 <= d -> 2 * d - PREC <= 2 * PREC * chop_round d <= 2 * d + PREC.
Proof. intros d Hd. unfold chop_round. assert (d <? 0 = false) by lia. rewrite H. apply chop_round_pos_bounds; assumption. Qed.

(* ---------------------------------------------------------------- share tokens of unslashed pools *)
Fixpoint effs_book (es : list eff) (m k i d : Z) : Z :=
  match es with
  | [] => 0
  | e :: r => (match e with EBook m' k' i' d' x => if (m' =? m) && (k' =? k) && (i' =? i) && (d' =? d) then x else 0 | _ => 0 end)
              + effs_book r m k i d
  end.
Fixpoint effs_aux (es : list eff) (k i d : Z) : Z :=
  match es with
  | [] => 0
  | e :: r => (match e with EAux k' i' d' x => if (k' =? k) && (i' =? i) && (d' =? d) then x else 0 | _ => 0 end)
              + effs_aux r k i d
  end.

Lemma apply_effs_records : forall es s s', apply_effs es s = Some s' ->
  (forall m k i d, book s' m k i d = effs_book es m k i d + book s m k i d) /\
  (forall k i d, auxv s' k i d = effs_aux es k i d + auxv s k i d).
Proof.
  induction es as [|e r IH]; intros s s' H; cbn in H.
  - inversion H; subst; cbn; split; intros; lia.
  - destruct (apply_eff e s) as [s1|] eqn:E; [|discriminate].
    destruct (IH _ _ H) as (B & A). split; intros; cbn [effs_book effs_aux].
    + rewrite B, (apply_eff_book _ _ _ E); lia.
    + rewrite A, (apply_eff_aux _ _ _ E); lia.
Qed.

Lemma effs_book_app : forall a b m k i d, effs_book (a ++ b) m k i d = effs_book a m k i d + effs_book b m k i d.
Proof. induction a; intros; cbn [app effs_book]; [|rewrite IHa]; lia. Qed.
Lemma effs_aux_app : forall a b k i d, effs_aux (a ++ b) k i d = effs_aux a k i d + effs_aux b k i d.
Proof. induction a; intros; cbn [app effs_aux]; [|rewrite IHa]; lia. Qed.

Lemma withdraw_no_share : forall m0 k i v outs p d, m0 <> MS ->
  effs_sup (withdraw_effs m0 k i v outs) (share p d) = 0 /\
  effs_book (withdraw_effs m0 k i v outs) MS K_STAKED p d = 0 /\
  effs_aux (withdraw_effs m0 k i v outs) A_SLASHED p 0 = 0.
Proof.
  intros m0 k i v outs p d Hm. induction outs as [|[e w] r IH]; cbn [withdraw_effs flat_map] in *; [repeat split; reflexivity|].
  unfold withdraw_effs in IH. destruct IH as (A & B & C).
  rewrite effs_sup_app, effs_book_app, effs_aux_app, A, B, C.
  cbn [effs_sup eff_sup effs_book effs_aux fst snd]. destruct (Z.eqb_spec m0 MS); [contradiction|]. cbn. repeat split; reflexivity.
Qed.

Lemma pay_no_share : forall m0 k i pays p d, m0 <> MS ->
  effs_sup (pay_effs m0 k i pays) (share p d) = 0 /\
  effs_book (pay_effs m0 k i pays) MS K_STAKED p d = 0 /\
  effs_aux (pay_effs m0 k i pays) A_SLASHED p 0 = 0.
Proof.
  intros m0 k i pays p d Hm. induction pays as [|[v outs] r IH]; cbn [pay_effs flat_map fst snd] in *; [repeat split; reflexivity|].
  unfold pay_effs in IH. destruct IH as (A & B & C). destruct (withdraw_no_share m0 k i v outs p d Hm) as (A1 & B1 & C1).
  rewrite effs_sup_app, effs_book_app, effs_aux_app, A, B, C, A1, B1, C1. repeat split; reflexivity.
Qed.

Lemma deposit_no_share : forall u m0 k i deps p d, m0 <> MS ->
  effs_sup (deposit_effs u m0 k i deps) (share p d) = 0 /\
  effs_book (deposit_effs u m0 k i deps) MS K_STAKED p d = 0 /\
  effs_aux (deposit_effs u m0 k i deps) A_SLASHED p 0 = 0.
Proof.
  intros u m0 k i deps p d Hm. induction deps as [|[e w] r IH]; cbn [deposit_effs flat_map] in *; [repeat split; reflexivity|].
  unfold deposit_effs in IH. destruct IH as (A & B & C).
  rewrite effs_sup_app, effs_book_app, effs_aux_app, A, B, C.
  cbn [effs_sup eff_sup effs_book effs_aux fst snd]. destruct (Z.eqb_spec m0 MS); [contradiction|]. cbn. repeat split; reflexivity.
Qed.

Lemma basket_not_ms : BASKET <> MS. Proof. unfold BASKET, MS; lia. Qed.
Lemma spend_not_ms : SPEND <> MS. Proof. unfold SPEND, MS; lia. Qed.

Lemma bkburn_no_slash : forall u b t outs p, effs_aux (bkburn_effs u b t outs) A_SLASHED p 0 = 0.
Proof.
  intros. unfold bkburn_effs. destruct (withdraw_no_share BASKET K_BTOKEN b u outs p 0 basket_not_ms) as (_ & _ & W3).
  cbn [effs_aux]. rewrite effs_aux_app, W3. cbn [effs_aux]. unfold A_BAMOUNT, A_SLASHED. cbn. reflexivity.
Qed.

Lemma bkburn_no_share : forall u b t outs p d, 0 <= b -> 1 <= p < 1000 -> 0 <= d < 100 ->
  effs_sup (bkburn_effs u b t outs) (share p d) = 0 /\
  effs_book (bkburn_effs u b t outs) MS K_STAKED p d = 0 /\
  effs_aux (bkburn_effs u b t outs) A_SLASHED p 0 = 0.
Proof.
  intros u b t outs p d Hb Hp Hd. unfold bkburn_effs.
  destruct (withdraw_no_share BASKET K_BTOKEN b u outs p d basket_not_ms) as (W1 & W2 & W3).
  cbn [effs_aux effs_sup eff_sup effs_book]. rewrite effs_sup_app, effs_book_app, effs_aux_app, W1, W2, W3.
  cbn [effs_aux effs_sup eff_sup effs_book]. unfold A_BAMOUNT, A_SLASHED.
  repeat split; split_eqb; consts; lia.
Qed.

Lemma redeem_burn_same : forall K x, 0 < K -> redeem_burn K K x = x.
Proof.
  intros K x HK. unfold redeem_burn. rewrite Z.div_add_l by lia. rewrite Z.div_small by lia. lia.
Qed.

Record SM (s : state) : Prop := mkSM { sm_unslashed : unslashed s; sm_match : shares_match s }.

Lemma exec_SM : forall o s s', exec o s = Some s' -> is_slash o = false -> SM s -> SM s'.
Proof.
  intros o s s' H NS [U M]. unfold exec in H. destruct (compile o s) as [es|] eqn:C; [|discriminate].
  destruct (apply_effs_records _ _ _ H) as (B & A). destruct (apply_effs_deltas _ _ _ H) as (_ & S & _ & _).
  assert (Hes : (forall p, effs_aux es A_SLASHED p 0 = 0) /\
                (forall p d, 1 <= p < 1000 -> 0 <= d < 100 -> effs_sup es (share p d) = effs_book es MS K_STAKED p d)).
  { destruct o; cbn [is_slash] in NS; try discriminate; cbn [compile] in C; split_variant C; guard_inv C.
    all: try (split; [intro p0 | intros p0 d0 Hp Hd];
              unfold undel_guard, undel_effs in *;
              repeat (apply andb_prop in G as [G ?]); user_facts;
              repeat match goal with Hn : is_native _ = true |- _ => apply is_native_spec in Hn end;
              cbn [effs_aux effs_sup eff_sup effs_book];
              try (rewrite (U p), pool_coin_unslashed by lia);
              try (rewrite (M p d) by lia; rewrite redeem_burn_same by lia);
              unfold K_STAKED, K_UNDEL, K_REWARD, K_BTOKEN, K_SURPLUS, K_SPOOL, K_TIP, A_SLASHED, A_TREASURY, A_BAMOUNT in *;
              split_eqb; consts; unfold is_native in *; lia).
    - (* BkBurn *)
      repeat (apply andb_prop in G as [G ?]).
      split; [intro p0; apply bkburn_no_slash
             | intros p0 d0 Hp Hd; destruct (bkburn_no_share u b t outs p0 d0) as (W1 & W2 & _); lia].
    - (* SpWithdrawProp *)
      split; [intro p0; apply (pay_no_share SPEND K_SPOOL pool _ p0 0 spend_not_ms)
             | intros p0 d0 Hp Hd; destruct (pay_no_share SPEND K_SPOOL pool (map (fun v => (v, amts)) vs) p0 d0 spend_not_ms) as (W1 & W2 & _); lia].
    - (* SpClaims *)
      split; [intro p0; apply (pay_no_share SPEND K_SPOOL pool _ p0 0 spend_not_ms)
             | intros p0 d0 Hp Hd;
               destruct (pay_no_share SPEND K_SPOOL pool (map (fun c => (fst (fst c), claim_outs rates (snd (fst c)) (snd c))) cl) p0 d0 spend_not_ms) as (W1 & W2 & _); lia].
    - (* BkMintC *)
      repeat (apply andb_prop in G as [G ?]).
      split; [intro p0 | intros p0 d0 Hp Hd]; rewrite ?effs_sup_app, ?effs_book_app, ?effs_aux_app.
      + destruct (deposit_no_share u BASKET K_BTOKEN b (map fst deps) p0 0 basket_not_ms) as (_ & _ & W). rewrite W.
        cbn [effs_aux]. unfold A_BAMOUNT, A_SLASHED. cbn. reflexivity.
      + destruct (deposit_no_share u BASKET K_BTOKEN b (map fst deps) p0 d0 basket_not_ms) as (W1 & W2 & _). rewrite W1, W2.
        cbn [effs_aux effs_sup eff_sup effs_book]. split_eqb; consts; lia.
    - (* BkBurnC *)
      repeat (apply andb_prop in G as [G ?]).
      split; [intro p0; apply bkburn_no_slash
             | intros p0 d0 Hp Hd; destruct (bkburn_no_share u b t (burn_outs (fun d => book s BASKET K_BTOKEN b d) (burn_portion t (supply s (basket_denom b) - t)) ds) p0 d0) as (W1 & W2 & _); lia]. }
  destruct Hes as [HA HS]. constructor.
  - intro p. unfold slashed_of. rewrite A, HA. apply U.
  - intros p d Hp Hd. rewrite S, B, HS by assumption. rewrite (M p d Hp Hd). reflexivity.
Qed.

Lemma exec_all_SM : forall os s s', exec_all os s = Some s' -> forallb (fun o => negb (is_slash o)) os = true -> SM s -> SM s'.
Proof.
  induction os as [|o r IH]; intros s s' H F I; cbn in *.
  - inversion H; subst; auto.
  - destruct (exec o s) as [s1|] eqn:E; [|discriminate]. apply andb_prop in F as [F1 F2].
    apply (IH _ _ H F2). eapply exec_SM; eauto. destruct (is_slash o); [discriminate|reflexivity].
Qed.

Lemma step_SM : forall it s, item_no_slash it = true -> SM s -> SM (step s it).
Proof.
  intros [u fd fx msgs|ops] s F I; cbn [step item_no_slash] in *.
  - destruct (exec (PayFee u fd fx) s) as [s1|] eqn:E; auto.
    assert (SM s1) by (eapply exec_SM; eauto).
    destruct (exec_all msgs s1) as [s2|] eqn:E2; auto. eapply exec_all_SM; eauto.
  - destruct (exec_all ops s) as [s2|] eqn:E2; auto. eapply exec_all_SM; eauto.
Qed.

Definition native_genesis (g : list lentry) : Prop := forall a d x, In (a, d, x) g -> 0 <= d < 100.

Lemma genesis_SM : forall g, native_genesis g -> SM (genesis g).
Proof.
  intros g G. constructor.
  - intro p. reflexivity.
  - intros p d Hp Hd. unfold supply, book, genesis; cbn. induction g as [|[[a e] x] r IH]; cbn; [reflexivity|].
    assert (0 <= e < 100) by (apply (G a e x); left; reflexivity).
    rewrite IH by (intros ? ? ? ?; eapply G; right; eauto).
    unfold share. destruct (Z.eqb_spec e (p * 100 + d)); lia.
Qed.

Theorem shares_match_run : forall g h, native_genesis g -> forallb item_no_slash h = true ->
  let s := run h (genesis g) in unslashed s /\ shares_match s.
Proof.
  intros g h G F. cbn zeta.
  assert (SM (run h (genesis g))).
  { generalize (genesis_SM g G). generalize (genesis g). induction h as [|it r IH]; intros s I; cbn in *; auto.
    apply andb_prop in F as [F1 F2]. apply IH; auto using step_SM. }
  destruct H; split; assumption.
Qed.

(* in such states every share is redeemable at the code's own rate *)
Lemma pool_coin_mono_unslashed : forall s, unslashed s -> shares_match s -> shares_redeemable s.
Proof.
  intros s U M p d x Hp Hd Hx Hle. rewrite (U p), pool_coin_unslashed in Hle by assumption. rewrite <- (M p d Hp Hd). assumption.
Qed.

(* ---------------------------------------------------------------- refutations (witnesses by computation) *)
Definition u1 : Z := 100.
Definition g0 : list lentry := [(u1, 0, 1000); (u1, 1, 1000)].

(* reward credit by rounding: reward 3, two staked denominations with stake cap 1/2 each *)
Definition h_round : list item :=
  [ITx u1 0 3 [];                                      (* 3 ukex of fees reach the fee collector *)
   IAct [MsAllocate u1 0 3 [HALF; HALF]]].               (* credited: round(1.5) + round(1.5) = 4 *)

Lemma credited_exceeds : credited 3 [HALF; HALF] = 4 /\ HALF + HALF = dec_one.
Proof. vm_compute. split; reflexivity. Qed.

Lemma solvent_refuted_witness :
  good_genesis g0 /\ liab (run h_round (genesis g0)) FC 0 = 4 /\ bal (run h_round (genesis g0)) FC 0 = 3.
Proof.
  split; [|vm_compute; split; reflexivity].
  intros a d x [H|[H|[]]]; inversion H; lia.
Qed.

(* slash: delegate 100, slash by 1/2: 100 share tokens outstanding redeem 200 under the code's rule, 50 are staked *)
Definition h_slash : list item :=
  [ITx u1 0 1 [MsDelegate u1 1 0 100];
   IAct [MsSlash 1 HALF [0]]].

Lemma slash_witness :
  let s := run h_slash (genesis g0) in
  supply s (share 1 0) = 100 /\ book s MS K_STAKED 1 0 = 50 /\ pool_coin (slashed_of s 1) 200 = 100 /\
  liab s MS 0 = 50 /\ bal s MS 0 = 50.
Proof. vm_compute. repeat split; reflexivity. Qed.

(* ---------------------------------------------------------------- reward credit bound *)
Lemma credited_bound : forall caps r, 0 <= r -> Forall (fun c => 0 <= c) caps ->
  2 * PREC * credited r caps <= 2 * r * zsum caps + PREC * Z.of_nat (List.length caps).
Proof.
  intros caps r Hr. induction 1 as [|c l Hc Hl IH]; unfold credited in *; cbn [map List.length].
  - cbn. lia.
  - rewrite !zsum_cons. rewrite Nat2Z.inj_succ. unfold round_int, dec_of_int.
    pose proof PREC_pos.
    replace (r * PREC * c) with ((r * c) * PREC) by lia.
    assert (0 <= r * c) by nia.
    rewrite chop_round_mult by assumption.
    pose proof (chop_round_bounds (r * c) H0) as [_ B2].
    unfold round_int, dec_of_int in IH. lia.
Qed.

(* ---------------------------------------------------------------- frame and failure *)
Lemma frame_untouched : forall es s s' m, apply_effs es s = Some s' ->
  (forall d, effs_bal es m d = 0 /\ effs_liab es m d = 0) ->
  forall d, bal s' m d = bal s m d /\ liab s' m d = liab s m d.
Proof.
  intros es s s' m H Z0 d. destruct (apply_effs_deltas _ _ _ H) as (A & _ & _ & L).
  destruct (Z0 d) as [B C]. rewrite A, L, B, C. split; lia.
Qed.

Lemma failed_action_unchanged : forall ops s, exec_all ops s = None -> step s (IAct ops) = s.
Proof. intros ops s H. cbn. rewrite H. reflexivity. Qed.

Lemma failed_tx_keeps_only_fee : forall u fd fx msgs s s1,
  exec (PayFee u fd fx) s = Some s1 -> exec_all msgs s1 = None -> step s (ITx u fd fx msgs) = s1.
Proof. intros. cbn [step]. rewrite H, H0. reflexivity. Qed.

Lemma rejected_tx_unchanged : forall u fd fx msgs s, exec (PayFee u fd fx) s = None -> step s (ITx u fd fx msgs) = s.
Proof. intros. cbn [step]. rewrite H. reflexivity. Qed.

(* ---------------------------------------------------------------- mint / burn call sites (generated table) *)
Local Open Scope string_scope.
Definition site := (string * string * string * string * string)%type.
Definition site_eqb (a b : site) : bool :=
  match a, b with (k, p, f, v, m), (k', p', f', v', m') =>
    String.eqb k k' && String.eqb p p' && String.eqb f f' && String.eqb v v' && String.eqb m m' end.

(* the sanctioned mint and burn operations: a call site that is not listed here breaks the obligation *)
Definition sanctioned_sites : list site := [
  ("mint", "app", "saveAccount", "BankKeeper", "mint");                                   (* test helper, not reachable from messages *)
  ("burn", "x/basket/keeper", "BurnBasketToken", "tk", "basket");
  ("mint", "x/basket/keeper", "MintBasketToken", "tk", "basket");
  ("mint", "x/distributor/keeper", "AllocateTokens", "tk", "mint");                       (* inflation *)
  ("mint", "x/layer2/keeper", "FinishDappBootstrap", "tk", "layer2");                     (* dApp LP token *)
  ("burn", "x/layer2/keeper", "MintBurnTx", "tk", "layer2");
  ("burn", "x/layer2/keeper", "MintCreateFtTx", "tk", "layer2");                          (* creation fee *)
  ("burn", "x/layer2/keeper", "MintCreateNftTx", "tk", "layer2");
  ("mint", "x/layer2/keeper", "MintIssueTx", "tk", "layer2");
  ("burn", "x/layer2/keeper", "OnCollectFee", "tk", "layer2");
  ("mint", "x/multistaking/keeper", "Delegate", "tokenKeeper", "mint");                   (* share tokens *)
  ("burn", "x/multistaking/keeper", "SlashStakingPool", "bankKeeper", "multistaking");
  ("burn", "x/multistaking/keeper", "Undelegate", "bankKeeper", "multistaking");
  ("burn", "x/recovery/keeper", "BurnRecoveryTokens", "tk", "recovery");
  ("mint", "x/recovery/keeper", "IssueRecoveryTokens", "tk", "recovery");
  ("burn", "x/tokens/keeper", "BurnCoins", "bankKeeper", "<param:moduleName>");           (* the funnel itself *)
  ("mint", "x/tokens/keeper", "MintCoins", "bankKeeper", "<param:moduleName>");
  ("mint", "x/ubi/keeper", "ProcessUBIRecord", "tk", "mint")
].

Definition site_has_perm (s : site) : bool :=
  match s with (k, p, f, _, m) =>
    if String.eqb m "<param:moduleName>"
    then String.eqb p "x/tokens/keeper" && (String.eqb f "MintCoins" || String.eqb f "BurnCoins")
    else match sassoc m macc_perms with
         | Some (mi, bu) => if String.eqb k "mint" then mi else if String.eqb k "burn" then bu else false
         | None => false
         end
  end.
Definition site_ok (s : site) : bool := existsb (site_eqb s) sanctioned_sites && site_has_perm s.

(* the model's permission table is the generated one *)
Definition perms_agree : bool :=
  forallb (fun e => match sassoc (fst e) macc_perms with
                    | Some (mi, bu) => Bool.eqb (minter (snd e)) mi && Bool.eqb (burner (snd e)) bu
                    | None => false end) macc_table
  && Nat.eqb (List.length macc_perms) (List.length macc_table).

Lemma site_eqb_eq : forall a b, site_eqb a b = true -> a = b.
Proof.
  intros [[[[k p] f] v] m] [[[[k' p'] f'] v'] m'] H. cbn in H.
  repeat (apply andb_prop in H as [H ?]).
  apply String.eqb_eq in H, H0, H1, H2, H3. subst. reflexivity.
Qed.

Lemma mint_burn_sites_ok :
  mb_gen_errors = [] /\ perms_agree = true /\
  forall s, In s mb_sites -> In s sanctioned_sites /\ site_has_perm s = true.
Proof.
  split; [reflexivity|]. split; [vm_compute; reflexivity|].
  assert (F : forallb site_ok mb_sites = true) by (vm_compute; reflexivity).
  intros s I. rewrite forallb_forall in F. specialize (F s I). unfold site_ok in F.
  apply andb_prop in F as [F1 F2]. split; [|assumption].
  apply existsb_exists in F1 as (t & It & E). apply site_eqb_eq in E. subst. assumption.
Qed.

(* what the checker tests on an observed state are the model's own quantities *)
Lemma checker_reads_model : forall o a m d,
  obal o a d = bal (to_state o) a d /\ osup o d = supply (to_state o) d /\
  osum o d = total (to_state o) d /\ oliab o m d = liab (to_state o) m d.
Proof. intros. repeat split; reflexivity. Qed.

(* ---------------------------------------------------------------- repaired redemption (GetRedeemPoolCoins) *)
Lemma redeem_burn_covers : forall S K x, 0 < K -> x * S <= redeem_burn S K x * K.
Proof.
  intros S K x HK. unfold redeem_burn.
  pose proof (Z.div_mod (x * S + (K - 1)) K ltac:(lia)). pose proof (Z.mod_pos_bound (x * S + (K - 1)) K HK). nia.
Qed.

(* the shares-per-stake ratio of the pool never rises by a redemption: the remaining holders are not diluted *)
Lemma redeem_no_dilution : forall S K x, 0 < K ->
  (S - redeem_burn S K x) * K <= S * (K - x).
Proof. intros S K x HK. pose proof (redeem_burn_covers S K x HK). nia. Qed.

Lemma redeem_sum : forall S K (rs : list (Z * Z)), 0 < K ->
  Forall (fun r => 0 <= snd r /\ redeem_burn S K (snd r) <= fst r) rs ->
  zsum (map snd rs) * S <= zsum (map fst rs) * K.
Proof.
  intros S K rs HK F. induction F as [|[h x] l [Hx Hb] Fl IH]; cbn [map fst snd] in *.
  - cbn. lia.
  - rewrite !zsum_cons. pose proof (redeem_burn_covers S K x HK). nia.
Qed.

Theorem shares_redeemable_pro_rata_all : forall s, shares_redeemable_pro_rata s.
Proof.
  intros s p d rs S K HK HS F Hh. pose proof (redeem_sum S K rs HK F). nia.
Qed.
