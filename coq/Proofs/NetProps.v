(* Proofs about the generated network-property functions. The scripts are generic in the
   generated arms: an edited arm changes the generated term and the script for that arm fails. *)
From Sekai Require Import Base.Prelude Base.Dec Model.NetPropsLib Gen.NetProps Model.NetProps.

Local Ltac inv H := inversion H; subst; clear H.

(* take a generated arm apart: every [if]/[match] on the way to [Some ps'] is destructed *)
Local Ltac crush_arm :=
  cbv zeta in *;
  repeat match goal with
  | H : (if ?c then _ else _) = Some _ |- _ => destruct c eqn:?; try discriminate
  | H : match ?d with _ => _ end = Some _ |- _ => destruct d eqn:?; try discriminate
  | H : Some _ = Some _ |- _ => inversion H; subst; clear H
  end.

Lemma get_is_field_read : forall ps p, get ps p = get_spec ps p.
Proof. intros ps p; destruct p; reflexivity. Qed.

Lemma pid_eqb_eq : forall p q, pid_eqb p q = true <-> p = q.
Proof.
  intros p q; split.
  - unfold pid_eqb; destruct p; destruct q; vm_compute; intro H; try reflexivity; discriminate.
  - intros ->; unfold pid_eqb; apply Z.eqb_refl.
Qed.

Lemma pid_of_code_code : forall p, pid_of_code (pid_code p) = Some p.
Proof. destruct p; reflexivity. Qed.

(* ---- the arm for [p] assigns only the fields listed in [written_ix p] *)
Lemma set_raw_frame : forall recs ps p v ps',
  set_raw recs ps p v = Some ps' ->
  forall j, ~ In j (written_ix p) -> nth_error (fields ps') j = nth_error (fields ps) j.
Proof.
  intros recs ps p v ps' H j Hj.
  destruct p; cbn [set_raw written_ix] in H, Hj;
    try discriminate; crush_arm;
    (do 62 (destruct j as [|j]; [ try reflexivity; exfalso; apply Hj; cbn; tauto | ]));
    reflexivity.
Qed.

(* ---- after a successful arm, the field read by [get p] holds the requested value *)
Lemma set_raw_get : forall recs ps p v ps' i,
  set_raw recs ps p v = Some ps' -> read_ix p = Some i ->
  option_map Some (nth_error (fields ps') i) = Some (requested p v).
Proof.
  intros recs ps p v ps' i H Hi.
  destruct p; cbn [set_raw read_ix] in H, Hi; try discriminate; inv Hi;
    unfold requested; cbn [read_ix nth_error field_kinds];
    crush_arm;
    cbn [fields nth_error option_map]; cbn;
    try reflexivity;
    repeat match goal with
    | H : dec_of_string _ = Some _ |- _ => rewrite H
    end; try reflexivity.
Qed.

Lemma read_written : forall p i, read_ix p = Some i -> written_ix p = [i] \/ written_ix p = [].
Proof. destruct p; cbn; intros i H; inv H; auto. Qed.

(* ---- settable identifiers write exactly the field they read *)
Definition settable (p : pid) : bool := match written_ix p with [] => false | _ => true end.
Lemma settable_read_written : forall p, settable p = true -> exists i, read_ix p = Some i /\ written_ix p = [i].
Proof. destruct p; cbn; intro H; try discriminate; eexists; split; reflexivity. Qed.

Lemma unsettable_rejected : forall recs ps p v, settable p = false -> set_raw recs ps p v = None.
Proof. intros recs ps p v; destruct p; cbn; intro H; try discriminate; reflexivity. Qed.

(* distinct identifiers read distinct fields: finite check over all pairs *)
Definition reads_disjoint : bool :=
  forallb (fun p => forallb (fun q =>
    pid_eqb p q || match read_ix q with None => true
                   | Some j => negb (existsb (Nat.eqb j) (written_ix p)) end) all_pids) all_pids.
Lemma reads_disjoint_ok : reads_disjoint = true.
Proof. vm_compute. reflexivity. Qed.

Lemma all_pids_complete : forall p, In p all_pids.
Proof. destruct p; cbn; tauto. Qed.

Lemma read_not_written : forall p q j, p <> q -> read_ix q = Some j -> ~ In j (written_ix p).
Proof.
  intros p q j Hne Hr Hin.
  pose proof reads_disjoint_ok as H. unfold reads_disjoint in H.
  rewrite forallb_forall in H. specialize (H p (all_pids_complete p)).
  rewrite forallb_forall in H. specialize (H q (all_pids_complete q)).
  apply orb_true_iff in H. destruct H as [H|H].
  - apply pid_eqb_eq in H. contradiction.
  - rewrite Hr in H. apply negb_true_iff in H.
    assert (existsb (Nat.eqb j) (written_ix p) = true) as E.
    { apply existsb_exists. exists j. split; [assumption | apply Nat.eqb_refl]. }
    congruence.
Qed.

(* ======================================================================== main results *)

Theorem set_get : forall recs ps p v ps' i,
  set recs ps p v = Some ps' -> read_ix p = Some i ->
  option_map Some (nth_error (fields ps') i) = Some (requested p v).
Proof.
  unfold set; intros recs ps p v ps' i H Hi.
  destruct (set_raw recs ps p v) eqn:E; try discriminate.
  destruct (validate p0); inv H. eapply set_raw_get; eauto.
Qed.

Theorem set_get_rendered : forall recs ps p v ps',
  set recs ps p v = Some ps' -> settable p = true ->
  exists f, requested p v = Some f /\ get ps' p = Some (render f).
Proof.
  intros recs ps p v ps' H Hs.
  destruct (settable_read_written p Hs) as [i [Hr Hw]].
  pose proof (set_get recs ps p v ps' i H Hr) as G.
  rewrite get_is_field_read. unfold get_spec. rewrite Hr.
  destruct (nth_error (fields ps') i) eqn:E; cbn in G; try discriminate.
  inv G. match goal with H : Some _ = requested _ _ |- _ => symmetry in H end.
  eexists; split; eauto.
Qed.

Theorem set_frame_fields : forall recs ps p v ps',
  set recs ps p v = Some ps' ->
  forall j, ~ In j (written_ix p) -> nth_error (fields ps') j = nth_error (fields ps) j.
Proof.
  unfold set; intros recs ps p v ps' H j Hj.
  destruct (set_raw recs ps p v) eqn:E; try discriminate.
  destruct (validate p0); inv H. eapply set_raw_frame; eauto.
Qed.

Theorem set_frame_get : forall recs ps p v ps' q,
  set recs ps p v = Some ps' -> q <> p -> get ps' q = get ps q.
Proof.
  intros recs ps p v ps' q H Hne.
  rewrite !get_is_field_read. unfold get_spec.
  destruct (read_ix q) eqn:Hr; [|reflexivity].
  rewrite (set_frame_fields recs ps p v ps' H n); [reflexivity|].
  eapply read_not_written; eauto.
Qed.

Theorem set_preserves_valid : forall recs ps p v ps', set recs ps p v = Some ps' -> validate ps' = true.
Proof.
  unfold set; intros recs ps p v ps' H.
  destruct (set_raw recs ps p v) eqn:E; try discriminate.
  destruct (validate p0) eqn:V; inv H. assumption.
Qed.

Theorem set_all_valid : forall ps new ps', set_all ps new = Some ps' -> ps' = new /\ validate ps' = true.
Proof. unfold set_all; intros ps new ps' H. destruct (validate new) eqn:V; inv H. auto. Qed.

Theorem invalid_rejected : forall ps new, validate new = false -> set_all ps new = None.
Proof. unfold set_all; intros ps new H; rewrite H; reflexivity. Qed.

Theorem msg_needs_permission : forall recs ps new, msg_set_all false recs ps new = None.
Proof. reflexivity. Qed.

Theorem msg_write_valid : forall recs ps new ps', msg_set_all true recs ps new = Some ps' -> ps' = new /\ validate ps' = true.
Proof.
  unfold msg_set_all; intros recs ps new ps' H.
  destruct msg_unique_guard; [|apply (set_all_valid ps new ps' H)].
  destruct (negb _); [discriminate|]. destruct (negb _); [discriminate|]. apply (set_all_valid ps new ps' H).
Qed.

Theorem proposal_is_set : forall recs ps code v ps',
  apply_proposal recs ps code v = Some ps' -> set_code recs ps code v = Some ps'.
Proof.
  unfold apply_proposal; intros recs ps code v ps' H.
  destruct (get_code ps code); try discriminate. destruct (value_eqb p v); try discriminate. assumption.
Qed.

(* ======================================================================== validity *)
From Coq Require Import ZifyBool.
From Sekai Require Import Model.C19Check.

Lemma half_is : dec_with_prec 5 1 = HALF.  Proof. reflexivity. Qed.
Lemma third_is : dquo_int64 dec_one 3 = 333333333333333333.  Proof. reflexivity. Qed.

Local Ltac keep2 x y :=
  repeat match goal with
  | H : ?T |- _ => lazymatch T with
                   | context [x] => fail
                   | context [y] => fail
                   | _ => clear H end
  end.
Local Ltac dec_facts :=
  unfold frac01, frac_half, dec_is_nil, dec_is_neg, dec_gt, dec_gte, dec_one, PREC, HALF in *.
Local Ltac solve_valid_goal :=
  lazymatch goal with
  | |- negb ?c = true => match goal with H : c = false |- _ => rewrite H; reflexivity end
  | |- (String.eqb ?a ?b) = true => first [assumption | rewrite String.eqb_sym; assumption]
  | |- unique_keys_block_ok _ = true => assumption
  | |- ?f (?g ?ps) = true => keep2 (g ps) (g ps); dec_facts; destruct (g ps); try discriminate; lia
  | |- (?g ?ps <=? ?h ?ps) = true => keep2 (g ps) (h ps); lia
  | |- (?k <=? ?h ?ps) = true => keep2 (h ps) (h ps); lia
  | |- (?h ?ps <=? ?k) = true => keep2 (h ps) (h ps); lia
  | |- match ?g ?ps with _ => _ end = true => keep2 (g ps) (g ps); dec_facts; destruct (g ps); try discriminate; lia
  end.

Local Opaque unique_keys_block_ok.
(* the generated validator implies the hand-written validity rules of the property text *)
Theorem validate_sound : forall ps, validate ps = true -> valid_specb ps = true.
Proof.
  intro ps. unfold validate.
  repeat match goal with
  | |- (if ?c then false else _) = true -> _ => destruct c eqn:?; [discriminate|]
  end.
  intros _.
  repeat match goal with
  | H : (_ || _)%bool = false |- _ => apply orb_false_iff in H; destruct H
  | H : negb _ = false |- _ => apply negb_false_iff in H
  end.
  rewrite ?half_is, ?third_is in *.
  unfold valid_specb.
  repeat (apply andb_true_intro; split); solve_valid_goal.
Qed.

Theorem tables_ok :
  gen_errors = [] /\ writer_validates_first = true /\ helper_fingerprints = pinned_fingerprints.
Proof. repeat split; reflexivity. Qed.

(* only the validating setter touches the store key; the setters are called only from genesis
   import, the permission-gated message handler, the proposal handler and each other *)
Theorem write_paths_ok :
  store_key_users = pinned_store_key_users /\ setter_callers = pinned_setter_callers /\
  msg_gate_ok = true /\ msg_gate_perm = pinned_gate_perm /\
  genesis_error_handling = pinned_genesis_error_handling.
Proof. repeat split; reflexivity. Qed.

Definition example_props : props :=
  mkProps 100 1000000 (Some 330000000000000000) 300 300 2 1 true 10 110 10 (Some 500000000000000000)
    1 1000000 600 false false 200 "moniker,username" 6000000 (Some 500000000000000000)
    (Some 180000000000000000) 31557600 2629800 100 1000 2629800 (Some 250000000000000000)
    (Some 500000000000000000) 200 10 8192 1 2 10000 86400 10 43200 300000
    (Some 350000000000000000) 128 1024 64 128 512 128 1000000 10000000 0 0 604800
    (Some 1000000000000000) 60 1 10 (Some 100000000000000000) (Some 100000000000000000)
    100000000000000 100000000000000 (Some 200000000000000000) 17280 600.

Lemma nonvacuous :
  exists ps ps', validate ps = true /\ set [] ps P_MaxTxFee (2000000, ""%string) = Some ps'
                 /\ get ps' P_MaxTxFee = Some (2000000, ""%string).
Proof. exists example_props. eexists. vm_compute. repeat split; reflexivity. Qed.

(* ======================================================================== the spec checker accepts every run of the model *)
Lemma odec_eqb_refl d : odec_eqb d d = true.
Proof. destruct d; cbn; [apply Z.eqb_refl | reflexivity]. Qed.
Lemma fval_eqb_refl f : fval_eqb f f = true.
Proof. destruct f; cbn; [apply Z.eqb_refl | apply Bool.eqb_reflx | apply odec_eqb_refl | apply String.eqb_refl]. Qed.
Lemma list_eqb_refl l : list_eqb fval_eqb l l = true.
Proof. induction l as [|x l IH]; cbn; [reflexivity | rewrite fval_eqb_refl, IH; reflexivity]. Qed.
Lemma props_eqb_refl ps : props_eqb ps ps = true.
Proof. apply list_eqb_refl. Qed.

Lemma spec_ix_is_read_ix : forall p i, read_ix p = Some i -> spec_ix p = Some i.
Proof. destruct p; cbn; intros i H; inversion H; reflexivity. Qed.

Lemma spec_requested_is_requested : forall p v, settable p = true -> spec_requested p v = requested p v.
Proof.
  intros p v Hs. destruct (settable_read_written p Hs) as [i [Hr _]].
  unfold spec_requested, requested. rewrite (spec_ix_is_read_ix p i Hr), Hr. reflexivity.
Qed.

Lemma others_go_intro : forall i (l m : list fval) n,
  List.length l = List.length m ->
  (forall j, Some (n + j)%nat <> i -> nth_error l j = nth_error m j) ->
  others_go i n l m = true.
Proof.
  intros i l. induction l as [|x l IH]; intros m n Hlen H; destruct m as [|y m]; cbn in *; try discriminate; [reflexivity|].
  apply andb_true_intro; split.
  - destruct i as [k|].
    + destruct (Nat.eqb k n) eqn:E; [reflexivity|]. cbn.
      assert (Some (n + 0)%nat <> Some k) as Hne.
      { intro A. inversion A. subst. rewrite Nat.add_0_r, Nat.eqb_refl in E. discriminate. }
      specialize (H O Hne). cbn in H. inversion H. apply fval_eqb_refl.
    + cbn. assert (Some (n + 0)%nat <> None) as Hne by discriminate.
      specialize (H O Hne). cbn in H. inversion H. apply fval_eqb_refl.
  - apply IH; [congruence|]. intros j Hj. apply (H (S j)). rewrite <- plus_n_Sm. exact Hj.
Qed.

Lemma fields_length : forall ps qs, List.length (fields ps) = List.length (fields qs).
Proof. intros; reflexivity. Qed.

(* A successful model write passes every clause of the spec checker; so does a rejected one. *)
Theorem chk_sound_set : forall recs ps code v,
  let r := set_code recs ps code v in
  set_clauses ps code v (match r with Some _ => true | None => false end)
              (match r with Some a => a | None => ps end) [] = [].
Proof.
  intros recs ps code v. cbv zeta. unfold set_code.
  destruct (pid_of_code code) as [p|] eqn:Hp.
  2:{ unfold set_clauses. rewrite props_eqb_refl. reflexivity. }
  destruct (set recs ps p v) as [ps'|] eqn:Hs.
  2:{ unfold set_clauses. rewrite props_eqb_refl. reflexivity. }
  unfold set_clauses. rewrite Hp.
  rewrite (validate_sound ps' (set_preserves_valid _ _ _ _ _ Hs)).
  assert (settable p = true) as Hst.
  { destruct (settable p) eqn:E; [reflexivity|]. unfold set in Hs. rewrite (unsettable_rejected recs ps p v E) in Hs. discriminate. }
  destruct (settable_read_written p Hst) as [i [Hr Hw]].
  rewrite (spec_requested_is_requested p v Hst), (spec_ix_is_read_ix p i Hr).
  pose proof (set_get recs ps p v ps' i Hs Hr) as G.
  destruct (nth_error (fields ps') i) as [g|] eqn:Eg; cbn [option_map] in G; [|discriminate].
  injection G as G'; try rewrite <- G'. rewrite fval_eqb_refl.
  assert (others_unchanged (Some i) ps ps' = true) as Ho.
  { unfold others_unchanged. apply others_go_intro; [apply fields_length|].
    intros j Hj. symmetry. apply (set_frame_fields recs ps p v ps' Hs). rewrite Hw. cbn.
    intros [A|[]]. apply Hj. cbn. congruence. }
  rewrite Ho. reflexivity.
Qed.

(* ---------------- histories: arbitrary sequences of writes by every path *)
Lemma np_apply_valid : forall ps o ps', np_apply ps o = Some ps' -> validate ps' = true.
Proof.
  intros ps o ps' H. destruct o as [recs code v|recs code v|allowed recs new]; cbn [np_apply] in H.
  - unfold set_code in H. destruct (pid_of_code code) as [p|]; [|discriminate].
    exact (set_preserves_valid _ _ _ _ _ H).
  - apply proposal_is_set in H. unfold set_code in H. destruct (pid_of_code code) as [p|]; [|discriminate].
    exact (set_preserves_valid _ _ _ _ _ H).
  - destruct allowed.
    + exact (proj2 (msg_write_valid _ _ _ _ H)).
    + rewrite msg_needs_permission in H. discriminate.
Qed.

Lemma np_step_valid : forall ps o, validate ps = true -> validate (np_step ps o) = true.
Proof.
  intros ps o Hv. unfold np_step. destruct (np_apply ps o) as [ps'|] eqn:E; [|exact Hv].
  exact (np_apply_valid _ _ _ E).
Qed.

Lemma np_fold_valid : forall ops ps, validate ps = true -> validate (fold_left np_step ops ps) = true.
Proof.
  induction ops as [|o ops IH]; intros ps Hv; cbn [fold_left]; [exact Hv|].
  apply IH. apply np_step_valid. exact Hv.
Qed.

Lemma np_genesis_some : forall g s, np_genesis g = Some s -> s = g /\ validate g = true.
Proof.
  intros g s H. unfold np_genesis in H. apply set_all_valid in H. destruct H as [-> H]. split; [reflexivity|exact H].
Qed.

Theorem np_always_valid : forall g ops s, np_run g ops = Some s -> validate s = true /\ valid_specb s = true.
Proof.
  intros g ops s H. unfold np_run in H. destruct (np_genesis g) as [s0|] eqn:G; cbn [option_map] in H; [|discriminate].
  injection H as <-. apply np_genesis_some in G. destruct G as [-> Hg].
  pose proof (np_fold_valid ops g Hg) as Hv. split; [exact Hv|exact (validate_sound _ Hv)].
Qed.

(* ... at every moment of the history, not only at its end *)
Theorem np_prefix_valid : forall g ops1 ops2 s, np_run g (ops1 ++ ops2) = Some s ->
  exists s1, np_run g ops1 = Some s1 /\ validate s1 = true /\ valid_specb s1 = true.
Proof.
  intros g ops1 ops2 s H. unfold np_run in *. destruct (np_genesis g) as [s0|] eqn:G; cbn [option_map] in *; [|discriminate].
  exists (fold_left np_step ops1 s0). split; [reflexivity|].
  apply np_genesis_some in G. destruct G as [-> Hg].
  pose proof (np_fold_valid ops1 g Hg) as Hv. split; [exact Hv|exact (validate_sound _ Hv)].
Qed.

Theorem np_genesis_invalid_no_chain : forall g ops, validate g = false -> np_run g ops = None.
Proof. intros g ops H. unfold np_run, np_genesis. rewrite (invalid_rejected g g H). reflexivity. Qed.

Theorem np_rejected_unchanged : forall ps o, np_apply ps o = None -> np_step ps o = ps.
Proof. intros ps o H. unfold np_step. rewrite H. reflexivity. Qed.

Theorem np_unpermitted_unchanged : forall ps recs new, np_step ps (OpMsg false recs new) = ps.
Proof. intros. apply np_rejected_unchanged. cbn [np_apply]. apply msg_needs_permission. Qed.

(* a step that changes the record is an accepted request of a permitted sender or of a proposal,
   and the new record is the requested one *)
Theorem np_change_is_requested : forall ps o, np_step ps o <> ps ->
  match o with
  | OpMsg allowed recs new => allowed = true /\ np_step ps o = new
  | OpSet recs code v | OpProposal recs code v => set_code recs ps code v = Some (np_step ps o)
  end.
Proof.
  intros ps o Hne. unfold np_step in *. destruct (np_apply ps o) as [ps'|] eqn:E; [|congruence].
  destruct o as [recs code v|recs code v|allowed recs new]; cbn [np_apply] in E.
  - exact E.
  - exact (proposal_is_set _ _ _ _ _ E).
  - destruct allowed; [|rewrite msg_needs_permission in E; discriminate].
    split; [reflexivity|exact (proj1 (msg_write_valid _ _ _ _ E))].
Qed.

(* the spec checker accepts every history of the model *)
Definition is_some {A} (o : option A) : bool := match o with Some _ => true | None => false end.
Definition model_rstep (cur : props) (o : np_op) : c19_rstep :=
  match o with
  | OpSet recs code v | OpProposal recs code v => RProp code v true (is_some (np_apply cur o)) (np_step cur o)
  | OpMsg allowed recs new => RMsg allowed new (is_some (np_apply cur o)) (np_step cur o)
  end.
Fixpoint model_rsteps (cur : props) (ops : list np_op) : list c19_rstep :=
  match ops with [] => [] | o :: r => model_rstep cur o :: model_rsteps (np_step cur o) r end.

Lemma model_rstep_after : forall cur o, rstep_after (model_rstep cur o) = np_step cur o.
Proof. intros cur o. destruct o; reflexivity. Qed.

Lemma rstep_sound : forall cur o, rstep_clauses cur (model_rstep cur o) = [].
Proof.
  intros cur o. unfold np_step, model_rstep.
  destruct o as [recs code v|recs code v|allowed recs new]; unfold np_step; cbn [rstep_clauses].
  - cbn [np_apply]. pose proof (chk_sound_set recs cur code v) as C. cbv zeta in C.
    destruct (set_code recs cur code v) as [a|]; cbn [is_some andb].
    + exact C.
    + rewrite props_eqb_refl. reflexivity.
  - destruct (np_apply cur (OpProposal recs code v)) as [a|] eqn:E; cbn [is_some andb].
    + cbn [np_apply] in E. apply proposal_is_set in E.
      pose proof (chk_sound_set recs cur code v) as C. cbv zeta in C. rewrite E in C. exact C.
    + rewrite props_eqb_refl. reflexivity.
  - destruct (np_apply cur (OpMsg allowed recs new)) as [a|] eqn:E; cbn [is_some].
    + cbn [np_apply] in E. destruct allowed; [|rewrite msg_needs_permission in E; discriminate].
      destruct (msg_write_valid _ _ _ _ E) as [-> Hv].
      rewrite (validate_sound _ Hv), props_eqb_refl. reflexivity.
    + rewrite props_eqb_refl. reflexivity.
Qed.

Theorem chk_sound_hist : forall ops cur, rhist_clauses cur (model_rsteps cur ops) = [].
Proof.
  induction ops as [|o ops IH]; intros cur; cbn [model_rsteps rhist_clauses]; [reflexivity|].
  rewrite rstep_sound, model_rstep_after. cbn [app]. apply IH.
Qed.

(* ... and the model agrees with itself step by step (the correspondence relation is not vacuous) *)
Lemma np_example_history :
  exists ops s, np_run example_props ops = Some s /\ s <> example_props.
Proof.
  exists [OpSet [] 1 (2000000, ""%string)].
  eexists. split; [vm_compute; reflexivity|]. intro H. discriminate H.
Qed.
