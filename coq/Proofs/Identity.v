(* C16 -- proofs about Model/Identity.v.
   Architecture: every operation of the model decomposes into a sequence of PRIMITIVE store
   transitions ([pstep], lemma [step_psteps], proved once by following the control flow of each
   operation); each invariant is then proved per primitive and lifted to operations and to whole
   histories by induction over the operation list. *)
From Coq Require Import ZifyBool.
From Sekai Require Import Base.Prelude Model.NetPropsLib Model.Identity.

Local Open Scope Z_scope.

(* ---------------------------------------------------------------- small tools *)
Lemma bind_ok {A B} (o : outcome A) (f : A -> outcome B) b :
  bind o f = Ok b -> exists a, o = Ok a /\ f a = Ok b.
Proof. destruct o; simpl; intros H; try discriminate. eauto. Qed.

Ltac inv H := inversion H; subst; clear H.
Ltac bind_inv H :=
  let a := fresh "a" in let Ha := fresh "Ha" in let Hb := fresh "Hb" in
  apply bind_ok in H; destruct H as [a [Ha Hb]].

Lemma mem_In a l : mem a l = true <-> In a l.
Proof.
  induction l; simpl; [split; [discriminate|tauto]|].
  rewrite orb_true_iff, IHl, Z.eqb_eq. split; intros [H|H]; auto.
Qed.
Lemma str_in_In x l : str_in x l = true <-> In x l.
Proof.
  induction l; simpl; [split; [discriminate|tauto]|].
  rewrite orb_true_iff, IHl, String.eqb_eq. split; intros [H|H]; auto.
Qed.

Lemma lower_ascii_idem c : lower_ascii (lower_ascii c) = lower_ascii c.
Proof.
  unfold lower_ascii. destruct (is_upper c) eqn:E; [|rewrite E; reflexivity].
  unfold is_upper in *. rewrite nat_ascii_embedding.
  - apply andb_true_iff in E. destruct E as [E1 E2]. apply Nat.leb_le in E1, E2.
    assert (Hn : (Nat.leb (nat_of_ascii c + 32) 90 = false)%nat) by (apply Nat.leb_gt; lia).
    rewrite Hn, andb_false_r. reflexivity.
  - apply andb_true_iff in E. destruct E as [_ E2]. apply Nat.leb_le in E2. lia.
Qed.
Lemma to_lower_idem s : to_lower (to_lower s) = to_lower s.
Proof. induction s; simpl; [reflexivity|]. rewrite lower_ascii_idem, IHs. reflexivity. Qed.
Lemma to_lower_nonempty s : s <> ""%string -> to_lower s <> ""%string.
Proof. destruct s; simpl; congruence. Qed.
Lemma valid_key_nonempty s : valid_key s = true -> s <> ""%string.
Proof. destruct s; simpl; congruence. Qed.

(* ---------------------------------------------------------------- stores *)
(* an element of the updated store is the new record or an old one with another id *)
Lemma In_insert_rec r l x : In x (insert_rec r l) <-> x = r \/ In x l.
Proof.
  induction l as [|y t IH]; simpl; [intuition|].
  destruct (r_id r <? r_id y); simpl; [intuition|]. rewrite IH. intuition.
Qed.
Lemma In_put_rec_iff r l x : In x (put_rec r l) <-> x = r \/ (In x l /\ r_id x <> r_id r).
Proof.
  unfold put_rec. destruct (existsb (fun y => r_id y =? r_id r) l) eqn:E.
  - rewrite in_map_iff. split.
    + intros (y & Hy & Iy). destruct (r_id y =? r_id r) eqn:F; [left; auto|right; subst; split; auto; lia].
    + intros [->|[Ix Nx]].
      * apply existsb_exists in E. destruct E as (y & Iy & Hy). exists y. rewrite Hy. auto.
      * exists x. split; auto. destruct (r_id x =? r_id r) eqn:F; auto. lia.
  - rewrite In_insert_rec. split; intros [H|H]; auto.
    + right. split; auto. intros F. assert (X : existsb (fun y => r_id y =? r_id r) l = true); [|congruence].
      apply existsb_exists. exists x. split; auto. lia.
    + right. tauto.
Qed.
Lemma In_put_rec r l x : In x (put_rec r l) -> x = r \/ In x l.
Proof. rewrite In_put_rec_iff. tauto. Qed.
Lemma put_rec_In r l : In r (put_rec r l).
Proof. rewrite In_put_rec_iff. auto. Qed.

Lemma get_rec_In s id x : get_rec s id = Some x -> In x (recs s) /\ r_id x = id.
Proof.
  unfold get_rec. intros H. apply find_some in H. destruct H as [H1 H2]. split; auto. lia.
Qed.
Lemma get_req_In s id q : get_req s id = Some q -> In q (reqs s) /\ q_id q = id.
Proof.
  unfold get_req. intros H. apply find_some in H. destruct H as [H1 H2]. split; auto. lia.
Qed.
Lemma In_del_rec s id x : In x (recs (del_rec s id)) -> In x (recs s).
Proof. unfold del_rec; simpl. intros H. apply filter_In in H. tauto. Qed.

Lemma lower_rec_lower r : r_key r = to_lower (r_key r) -> lower_rec r = r.
Proof. destruct r; unfold lower_rec; simpl. intros H. rewrite <- H. reflexivity. Qed.

(* what a successful SetIdentityRecord did *)
Lemma set_record_ok s r s' :
  set_record s r = Ok s' ->
  valid_key (r_key r) = true /\
  (str_in (r_key r) (ukey_list s) = true -> unique_conflict s (r_owner r) (r_key r) (r_val r) = false) /\
  s' = set_idx (set_recs s (put_rec (lower_rec r) (recs s))) (put_idx (r_owner r, r_key (lower_rec r)) (r_id r) (idx s)).
Proof.
  unfold set_record. destruct (valid_key (r_key r)); simpl; [|discriminate].
  destruct (str_in (r_key r) (ukey_list s)) eqn:E1; simpl.
  - destruct (unique_conflict s (r_owner r) (r_key r) (r_val r)) eqn:E2; [discriminate|].
    intros H; inv H. auto.
  - intros H; inv H. split; auto. split; auto. discriminate.
Qed.

Lemma pay_ok s x y d n s' : pay s x y d n = Ok s' ->
  n <= bal s x d /\ recs s' = recs s /\ idx s' = idx s /\ reqs s' = reqs s /\ last_rid s' = last_rid s /\ last_qid s' = last_qid s
  /\ ukeys s' = ukeys s /\ bal s' = upd (upd (bal s) x d (- n)) y d n.
Proof.
  unfold pay. destruct (bal s x d <? n) eqn:E; [discriminate|]. intros H; inv H. simpl. repeat split; auto. lia.
Qed.
Lemma pay_opt_ok s x y d n s' : pay_opt s x y d n = Ok s' ->
  recs s' = recs s /\ idx s' = idx s /\ reqs s' = reqs s /\ last_rid s' = last_rid s /\ last_qid s' = last_qid s
  /\ ukeys s' = ukeys s /\ (forall z e, bal s' z e = upd (upd (bal s) x d (- n)) y d n z e).
Proof.
  unfold pay_opt. destruct (n =? 0) eqn:E.
  - intros H; inv H. repeat split; auto. intros z e. unfold upd.
    destruct (acct_eqb z y && String.eqb e d), (acct_eqb z x && String.eqb e d); lia.
  - intros H. apply pay_ok in H. destruct H as (_ & ? & ? & ? & ? & ? & ? & Hb). repeat split; auto.
    intros; rewrite Hb; reflexivity.
Qed.

(* ---------------------------------------------------------------- primitive transitions *)
Definition ren_req (a b : addr) (q : request) : request :=
  mkReq (q_id q) (ren a b (q_addr q)) (ren a b (q_ver q)) (q_rids q) (q_denom q) (q_amt q) (q_date q).
Definition with_owner (x : record) (b : addr) : record := mkRec (r_id x) b (r_key x) (r_val x) (r_date x) (r_ver x).
Definition with_ver (x : record) (v : addr) : record := mkRec (r_id x) (r_owner x) (r_key x) (r_val x) (r_date x) (r_ver x ++ [v]).

Section Prims.
(* [allowed id w]: in this transaction verifier w may be added to record id;
   [kg s new]: what is known when the unique-key list is replaced by [new] in state s *)
Variable allowed : Z -> addr -> Prop.
Variable kg : state -> string -> Prop.
Variable mv : Prop.          (* may records be moved to another owner in this transaction (rotation only) *)

Inductive pstep : state -> state -> Prop :=
| p_set s r s' : r_key r = to_lower (r_key r) -> r_ver r = [] -> set_record s r = Ok s' -> pstep s s'
| p_addver s x v s' : get_rec s (r_id x) = Some x -> allowed (r_id x) v -> set_record s (with_ver x v) = Ok s' -> pstep s s'
| p_move s x b s' : get_rec s (r_id x) = Some x -> set_record (del_rec s (r_id x)) (with_owner x b) = Ok s' -> mv -> pstep s s'
| p_delrec s id : pstep s (del_rec s id)
| p_delidx s k : pstep s (del_idx s k)
| p_lastrid s : pstep s (set_last_rid s (last_rid s + 1))
| p_addreq s q s' : q_id q = last_qid s + 1 -> 0 <= q_amt q ->
    pay_opt (set_last_qid (set_reqs s (reqs s ++ [q])) (q_id q)) (User (q_addr q)) Gov (q_denom q) (q_amt q) = Ok s' -> pstep s s'
| p_payout s q to s' : get_req s (q_id q) = Some q -> payout s q to = Ok s' -> pstep s s'
| p_ukeys s new : kg s new -> pstep s (set_ukeys s new)
| p_aux s co pc pv pn ac ro rr : pstep s (set_aux s co pc pv pn ac ro rr)
| p_movebal s a b d n s' : pay_opt s (User a) (User b) d n = Ok s' -> pstep s s'
| p_renreq s a b : pstep s (set_reqs s (map (ren_req a b) (reqs s)))
| p_reidx s : pstep s (genesis_roundtrip s).

Inductive psteps : state -> state -> Prop :=
| ps_refl s : psteps s s
| ps_step s s1 s2 : pstep s s1 -> psteps s1 s2 -> psteps s s2.

Lemma psteps_trans s s1 s2 : psteps s s1 -> psteps s1 s2 -> psteps s s2.
Proof. induction 1; auto. intros. econstructor; eauto. Qed.
Lemma psteps_one s s' : pstep s s' -> psteps s s'.
Proof. intros. econstructor; eauto. constructor. Qed.

Lemma foldM_psteps {X} (f : state -> X -> outcome state) (l : list X) :
  (forall s x s', In x l -> f s x = Ok s' -> psteps s s') ->
  forall s s', foldM f l s = Ok s' -> psteps s s'.
Proof.
  induction l as [|x t IH]; simpl; intros Hf s s' H.
  - inv H. constructor.
  - bind_inv H. eapply psteps_trans; [eapply Hf; eauto|]. eapply IH; eauto.
Qed.

(* ---- an invariant preserved by every primitive is preserved by sequences *)
Lemma psteps_inv (P : state -> Prop) :
  (forall s s', pstep s s' -> P s -> P s') -> forall s s', psteps s s' -> P s -> P s'.
Proof. intros HP s s' H. induction H; eauto. Qed.
End Prims.

Arguments ps_refl {allowed kg mv}.

(* ---------------------------------------------------------------- every operation is a sequence of primitives *)
Definition allowed_of (s : state) (o : op) : Z -> addr -> Prop :=
  match o with
  | OHandle v qid true => fun id w => w = v /\ exists q, get_req s qid = Some q /\ q_ver q = v /\ In id (q_rids q)
  | _ => fun _ _ => False
  end.
Definition mv_of (o : op) : Prop := match o with ORotate _ _ _ | ORotateRR _ _ _ => True | _ => False end.
(* the guard of the single-property path (EnsureUniqueKeys) *)
Definition kgG (s : state) (new : string) : Prop := ensure_unique_keys (kv_of s) (ukeys s) new = ""%string.
Definition kgT (s : state) (new : string) : Prop := True.

Section Decompose.
Variable allowed : Z -> addr -> Prop.
Variable kg : state -> string -> Prop.
Variable mv : Prop.
Notation PS := (psteps allowed kg mv).

Lemma get_req_self s qid q : get_req s qid = Some q -> get_req s (q_id q) = Some q.
Proof. intros H. pose proof (get_req_In _ _ _ H) as [_ E]. rewrite E. exact H. Qed.
Lemma get_rec_self s id x : get_rec s id = Some x -> get_rec s (r_id x) = Some x.
Proof. intros H. pose proof (get_rec_In _ _ _ H) as [_ E]. rewrite E. exact H. Qed.

Lemma cancel_request_psteps s a qid s' : cancel_request s a qid = Ok s' -> PS s s'.
Proof.
  unfold cancel_request. destruct (get_req s qid) as [q|] eqn:E; [|discriminate].
  destruct (negb (a =? q_addr q)); [discriminate|]. intros H.
  apply psteps_one. eapply p_payout; [|exact H]. eapply get_req_self; eauto.
Qed.

Lemma cancel_invalid_psteps s a ids s' : cancel_invalid s a ids = Ok s' -> PS s s'.
Proof.
  unfold cancel_invalid. apply foldM_psteps. intros s0 x s0' _ H. eapply cancel_request_psteps; eauto.
Qed.

Lemma reg_check_lower s a infos infos' :
  reg_check s a infos = Ok infos' -> Forall (fun i => fst i = to_lower (fst i)) infos'.
Proof.
  revert infos'. induction infos as [|[k v] t IH]; simpl; intros infos' H.
  - inv H. constructor.
  - destruct (negb (valid_key k)); [discriminate|].
    destruct (String.eqb (to_lower k) "moniker" && (32 <? len v)); [discriminate|].
    destruct (String.eqb (to_lower k) "username" && (32 <? len v)); [discriminate|].
    destruct (mem a (councilors s) && _); [discriminate|].
    destruct (str_in (to_lower k) (ukey_list s) && _); [discriminate|].
    bind_inv H. inv Hb. constructor; simpl; auto. symmetry. apply to_lower_idem.
Qed.

Lemma reg_write1_psteps now a s aff k v s' aff' :
  k = to_lower k -> reg_write1 now a (s, aff) (k, v) = Ok (s', aff') -> PS s s'.
Proof.
  intros Hk. unfold reg_write1. intros H. bind_inv H. inv Hb.
  destruct (get_id s a k =? 0).
  - eapply ps_step; [apply p_lastrid|]. apply psteps_one. eapply p_set; [| |exact Ha]; auto.
  - apply psteps_one. eapply p_set; [| |exact Ha]; auto.
Qed.

Lemma reg_fold_psteps now a infos : Forall (fun i => fst i = to_lower (fst i)) infos ->
  forall s aff s' aff', foldM (reg_write1 now a) infos (s, aff) = Ok (s', aff') -> PS s s'.
Proof.
  induction 1 as [|[k v] t Hk Ht IH]; simpl; intros s aff s' aff' H.
  - inv H. constructor.
  - bind_inv H. destruct a0 as [s1 aff1]. eapply psteps_trans.
    + eapply reg_write1_psteps; eauto.
    + eapply IH; eauto.
Qed.

Lemma register_keeper_psteps now a infos s s' : register_keeper now a infos s = Ok s' -> PS s s'.
Proof.
  unfold register_keeper. intros H. bind_inv H. bind_inv Hb. destruct a1 as [s1 aff]. simpl in Hb0.
  eapply psteps_trans.
  - eapply reg_fold_psteps; [eapply reg_check_lower; eauto|eauto].
  - eapply cancel_invalid_psteps; eauto.
Qed.

Lemma fold_del_idx_psteps l : forall s, PS s (fold_left (fun s (e : (addr * string) * Z) => del_idx s (fst e)) l s).
Proof.
  induction l; simpl; intros; [constructor|]. eapply ps_step; [apply p_delidx|]. apply IHl.
Qed.

Lemma delete_psteps a keys s s' : delete_msg a keys s = Ok s' -> PS s s'.
Proof.
  unfold delete_msg. intros H. bind_inv H. bind_inv Hb.
  eapply psteps_trans; [apply fold_del_idx_psteps|].
  eapply psteps_trans; [|eapply cancel_invalid_psteps; eauto].
  eapply foldM_psteps; [|exact Ha0]. intros s0 e s0' _. unfold del_one.
  destruct (get_rec s0 (snd e)); [|discriminate]. intros H; inv H. apply psteps_one. apply p_delrec.
Qed.

Lemma request_psteps a v rids d n s s' : request_msg a v rids d n s = Ok s' -> PS s s'.
Proof.
  unfold request_msg. destruct rids as [|i0 rids0]; [discriminate|].
  destruct (n <? 0) eqn:En; [discriminate|].
  destruct (negb (forallb _ _)); [discriminate|]. intros H. bind_inv H.
  destruct (n <? as_int64 (min_tip s)); [discriminate|].
  apply psteps_one. eapply (p_addreq _ _ _ s (mkReq (last_qid s + 1) a v (i0 :: rids0) d n a0)); simpl; auto. lia.
Qed.

Lemma move_bal_psteps a b s s' : move_bal a b s = Ok s' -> PS s s'.
Proof.
  unfold move_bal. apply foldM_psteps. intros s0 d s0' _ H. apply psteps_one. eapply p_movebal; eauto.
Qed.
End Decompose.

Lemma handle_psteps (kg : state -> string -> Prop) (mv : Prop) v qid yes s s' :
  handle_msg v qid yes s = Ok s' -> psteps (allowed_of s (OHandle v qid yes)) kg mv s s'.
Proof.
  unfold handle_msg. destruct (qid =? 0); [discriminate|].
  destruct (get_req s qid) as [q|] eqn:E; [|discriminate].
  destruct (negb (v =? q_ver q)) eqn:Ev; [discriminate|]. intros H. bind_inv H. bind_inv Hb.
  eapply ps_step; [eapply p_payout; [eapply get_req_self; eauto|eauto]|].
  destruct a0.
  - (* approve: the auto-check left [yes] true only if yes = true *)
    assert (Hy : yes = true).
    { clear - Ha0. revert Ha0. generalize (q_rids q) as l. induction l as [|i l IH]; simpl; intros H.
      - inv H; auto.
      - destruct (get_rec a i) as [x|]; [|discriminate]. destruct (q_date q <? r_date x); [discriminate|auto]. }
    subst yes. eapply foldM_psteps; [|exact Hb0]. intros s0 i s0' Hi. unfold add_verifier.
    destruct (get_rec s0 i) as [x|] eqn:Ex; [|discriminate].
    destruct (mem v (r_ver x)); intros H; [inv H; constructor|].
    apply psteps_one. eapply p_addver; [eapply get_rec_self; eauto| |exact H].
    simpl. split; auto. exists q. apply get_rec_In in Ex. destruct Ex as [_ Ex]. rewrite Ex.
    repeat split; auto. lia.
  - inv Hb0. constructor.
Qed.

Lemma rotate_core_psteps allowed kg a b s s' : rotate_core a b s = Ok s' -> psteps allowed kg True s s'.
Proof.
  unfold rotate_core. intros H.
  destruct (negb (all_recs_exist s (idx_of s a))); [discriminate|]. bind_inv H. inv Hb.
  eapply psteps_trans.
  - eapply foldM_psteps; [|exact Ha]. intros s0 e s0' _. unfold move_rec.
    destruct (get_rec s0 (snd e)) as [x|] eqn:Ex; [|discriminate]. intros H.
    pose proof (get_rec_In _ _ _ Ex) as [_ Ei]. rewrite <- Ei in H. destruct (del_fix s0).
    + eapply ps_step; [apply (p_delidx _ _ _ s0 (r_owner x, r_key x))|]. apply psteps_one.
      eapply (p_move _ _ _ _ x b); [|exact H|exact I]. change (get_rec s0 (r_id x) = Some x). eapply get_rec_self; eauto.
    + apply psteps_one. eapply (p_move _ _ _ s0 x b); [eapply get_rec_self; eauto|exact H|exact I].
  - eapply ps_step; [apply (p_renreq _ _ _ a0 a b)|]. apply psteps_one. apply p_aux.
Qed.
Lemma rotate_psteps allowed kg a b ok s s' : rotate_msg a b ok s = Ok s' -> psteps allowed kg True s s'.
Proof.
  unfold rotate_msg. destruct (mem a (rrtok s)); [discriminate|].
  destruct (negb (mem a (secrets s))); [discriminate|]. destruct (negb ok); [discriminate|].
  destruct (mem b (rotated s)); [discriminate|]. destruct (rot_check s && has_records s b); [discriminate|]. destruct (actor_check s && is_actor s b); [discriminate|].
  destruct (negb (mem a (accts s))); [discriminate|].
  destruct (mem b (accts s)); [discriminate|]. intros H. bind_inv H.
  eapply psteps_trans; [eapply move_bal_psteps; eauto|]. eapply rotate_core_psteps; eauto.
Qed.
Lemma rotate_rr_psteps allowed kg a b ok s s' : rotate_rr a b ok s = Ok s' -> psteps allowed kg True s s'.
Proof.
  unfold rotate_rr. destruct (negb (mem a (rrtok s))); [discriminate|]. destruct (negb ok); [discriminate|].
  destruct (mem b (rotated s)); [discriminate|]. destruct (rot_check s && has_records s b); [discriminate|]. destruct (actor_check s && is_actor s b); [discriminate|]. apply rotate_core_psteps.
Qed.

Theorem step_psteps (kg : state -> string -> Prop) s o s' :
  match o with
  | OSetKeysProp new => kgG s new -> kg s new
  | OSetKeysMsg _ new => (msg_guard s = true -> kgG s new -> kg s new) /\ (msg_guard s = false -> kg s new)
  | _ => True end ->
  step s o = Ok s' -> psteps (allowed_of s o) kg (mv_of o) s s'.
Proof.
  destruct o; simpl; intros Hk H.
  - unfold register_msg in H. destruct infos; [discriminate|]. eapply register_keeper_psteps; eauto.
  - eapply delete_psteps; eauto.
  - eapply request_psteps; eauto.
  - eapply handle_psteps; eauto.
  - unfold cancel_msg in H. destruct (qid =? 0); [discriminate|]. eapply cancel_request_psteps; eauto.
  - unfold claim_councilor in H. destruct (negb (mem a (perm_c s))); [discriminate|].
    eapply ps_step; [apply p_aux|]. eapply register_keeper_psteps; eauto.
  - unfold claim_validator in H. destruct (negb (mem a (perm_v s))); [discriminate|].
    eapply register_keeper_psteps; eauto.
  - unfold set_keys_prop in H. destruct (String.eqb new (ukeys s)); [discriminate|].
    destruct (negb (String.eqb (ensure_old_unique_keys_not_removed (ukeys s) new) "")); [discriminate|].
    destruct (negb (String.eqb (ensure_unique_keys (kv_of s) (ukeys s) new) "")) eqn:E; [discriminate|].
    destruct (ukeys_valid new); [|discriminate]. inv H. apply psteps_one. apply p_ukeys. apply Hk.
    unfold kgG. apply negb_false_iff in E. apply String.eqb_eq in E. exact E.
  - unfold set_keys_msg in H. destruct (negb (mem p (perm_n s))); [discriminate|].
    destruct (msg_guard s) eqn:G; simpl in H.
    + destruct (negb (String.eqb (ensure_old_unique_keys_not_removed (ukeys s) new) "")); [discriminate|].
      destruct (negb (String.eqb (ensure_unique_keys (kv_of s) (ukeys s) new) "")) eqn:E; [discriminate|].
      destruct (ukeys_valid new); [|discriminate]. inv H. apply psteps_one. apply p_ukeys. destruct Hk as [Hk _]. apply Hk; auto.
      unfold kgG. apply negb_false_iff in E. apply String.eqb_eq in E. exact E.
    + destruct (ukeys_valid new); [|discriminate]. inv H. apply psteps_one. apply p_ukeys. destruct Hk as [_ Hk]. apply Hk; auto.
  - eapply rotate_psteps; eauto.
  - eapply rotate_rr_psteps; eauto.
  - inv H. apply psteps_one. apply p_reidx.
Qed.

(* ================================================================ invariant 1+2: keys are stored folded, unique keys are unique *)
Definition KOK (s : state) : Prop := forall r, In r (recs s) -> r_key r = to_lower (r_key r) /\ r_key r <> ""%string.
(* no two addresses hold the same value under a key declared unique *)
Definition UI (s : state) : Prop :=
  forall r1 r2, In r1 (recs s) -> In r2 (recs s) -> r_key r1 = r_key r2 -> r_val r1 = r_val r2 ->
  str_in (r_key r1) (ukey_list s) = true -> r_owner r1 = r_owner r2.
Definition KU (s : state) : Prop := KOK s /\ UI s.

Lemma KOK_ext s s' : recs s' = recs s -> KOK s -> KOK s'.
Proof. unfold KOK. intros E H r. rewrite E. auto. Qed.
Lemma UI_ext s s' : recs s' = recs s -> ukeys s' = ukeys s -> UI s -> UI s'.
Proof. unfold UI, ukey_list. intros E1 E2 H r1 r2. rewrite E1, E2. auto. Qed.
Lemma KU_ext s s' : recs s' = recs s -> ukeys s' = ukeys s -> KU s -> KU s'.
Proof. intros E1 E2 [H1 H2]. split; [eapply KOK_ext|eapply UI_ext]; eauto. Qed.
Lemma KU_sub s s' : (forall x, In x (recs s') -> In x (recs s)) -> ukeys s' = ukeys s -> KU s -> KU s'.
Proof.
  intros Hs E [H1 H2]. split.
  - intros r Hr. apply H1; auto.
  - intros r1 r2 I1 I2. unfold ukey_list. rewrite E. apply H2; auto.
Qed.

Lemma holders_In s k v x : In x (recs s) -> r_key x = k -> r_val x = v -> In (r_owner x) (holders s k v).
Proof.
  intros Hx Hk Hv. unfold holders. apply in_map. apply filter_In. split; auto.
  subst. rewrite !String.eqb_refl. reflexivity.
Qed.
Lemma no_conflict s a k v : unique_conflict s a k v = false -> forall b, In b (holders s k v) -> b = a.
Proof.
  unfold unique_conflict. destruct (holders s k v) as [|b [|c t]]; simpl; intros H x Hx.
  - destruct Hx.
  - destruct Hx as [Hx|[]]. subst. lia.
  - discriminate.
Qed.

Lemma set_record_KOK s r s' : set_record s r = Ok s' -> KOK s -> KOK s'.
Proof.
  intros H K. apply set_record_ok in H. destruct H as (Hv & _ & ->). intros x Hx. simpl in Hx.
  apply In_put_rec in Hx. destruct Hx as [->|Hx]; auto.
  simpl. split; [symmetry; apply to_lower_idem|]. apply to_lower_nonempty. apply valid_key_nonempty; auto.
Qed.
Lemma set_record_UI s r s' : r_key r = to_lower (r_key r) -> set_record s r = Ok s' -> UI s -> UI s'.
Proof.
  intros Hl H U. apply set_record_ok in H. destruct H as (_ & Hc & ->).
  rewrite (lower_rec_lower _ Hl). intros r1 r2 I1 I2 Ek Ev Hu. simpl in I1, I2.
  change (ukey_list (set_idx (set_recs s (put_rec r (recs s))) (put_idx (r_owner r, r_key r) (r_id r) (idx s)))) with (ukey_list s) in Hu.
  apply In_put_rec in I1. apply In_put_rec in I2.
  destruct I1 as [->|I1], I2 as [->|I2]; auto.
  - symmetry. eapply no_conflict; [apply Hc; auto|]. apply holders_In; auto.
  - rewrite Ek in Hu. eapply no_conflict; [apply Hc; auto|]. apply holders_In; auto.
Qed.
Lemma set_record_KU s r s' : r_key r = to_lower (r_key r) -> set_record s r = Ok s' -> KU s -> KU s'.
Proof. intros Hl H [K U]. split; [eapply set_record_KOK|eapply set_record_UI]; eauto. Qed.

(* ---- the guard of the unique-key list: EnsureUniqueKeys *)
Definition joinkv (k v : string) : string := (k ++ ":" ++ v)%string.
Lemma dup_scan_nodup news : forall l seen,
  (forall k v, In (k, v) l -> k <> ""%string) ->
  dup_scan news l seen = ""%string ->
  let js := map (fun kv => joinkv (fst kv) (snd kv)) (filter (fun kv => str_in (fst kv) news) l) in
  NoDup js /\ forall x, In x js -> ~ In x seen.
Proof.
  induction l as [|[k v] t IH]; simpl; intros seen Hne H.
  - split; [constructor|intros x []].
  - destruct (str_in k news) eqn:Ek; simpl.
    + match type of H with context [str_in ?x seen] => set (kv := x) in *; destruct (str_in kv seen) eqn:Es end.
      * exfalso. apply (Hne k v); [left; reflexivity|exact H].
      * destruct (IH (kv :: seen)) as [N1 N2]; auto.
        { intros k0 v0 Hin. apply (Hne k0 v0); right; exact Hin. }
        split.
        -- constructor; auto. intros Hin. apply (N2 _ Hin). left; reflexivity.
        -- intros x [<-|Hx].
           ++ intros Hin. apply str_in_In in Hin. unfold joinkv in Hin. simpl in Hin. fold kv in Hin. congruence.
           ++ intros Hin. apply (N2 _ Hx). right; exact Hin.
    + apply IH; auto. intros k0 v0 Hin. apply (Hne k0 v0); right; exact Hin.
Qed.
Lemma NoDup_map_eq {A B} (f : A -> B) l x y : NoDup (map f l) -> In x l -> In y l -> f x = f y -> x = y.
Proof.
  induction l as [|a t IH]; simpl; intros N Hx Hy E; [destruct Hx|].
  inversion N as [|? ? Hn N']; subst.
  destruct Hx as [->|Hx], Hy as [->|Hy]; auto.
  - exfalso. apply Hn. rewrite E. apply in_map; auto.
  - exfalso. apply Hn. rewrite <- E. apply in_map; auto.
Qed.
Lemma str_in_split_keys k s : k <> ""%string -> str_in k (split_on ","%char s) = true -> str_in k (split_keys s) = true.
Proof.
  intros Hk. unfold split_keys. destruct (String.eqb s "") eqn:E; auto.
  apply String.eqb_eq in E. subst. simpl. rewrite orb_false_r. intros H. apply String.eqb_eq in H. congruence.
Qed.
Lemma str_in_split_keys_inv k s : str_in k (split_keys s) = true -> str_in k (split_on ","%char s) = true.
Proof. unfold split_keys. destruct (String.eqb s ""); auto. simpl. discriminate. Qed.

Lemma map_filter_map {A B C} (f : B -> C) (p : B -> bool) (g : A -> B) l :
  map f (filter p (map g l)) = map (fun x => f (g x)) (filter (fun x => p (g x)) l).
Proof. induction l; simpl; auto. destruct (p (g a)); simpl; congruence. Qed.

Lemma guarded_keys_UI s new : KU s -> kgG s new -> KU (set_ukeys s new).
Proof.
  intros [K U] G. split; [exact K|]. unfold kgG, ensure_unique_keys in G.
  pose proof (dup_scan_nodup (filter (fun k => negb (str_in k (split_keys (ukeys s)))) (split_keys new)) (kv_of s) []) as D.
  destruct D as [N _]; auto.
  { unfold kv_of. intros k v Hin. apply in_map_iff in Hin. destruct Hin as (r & E & Hr). inv E. apply K; auto. }
  intros r1 r2 I1 I2 Ek Ev Hu. simpl in I1, I2. unfold ukey_list in Hu. simpl in Hu.
  destruct (str_in (r_key r1) (ukey_list s)) eqn:Eo; [apply U; auto|].
  (* a newly declared key: the scan saw no duplicate *)
  assert (Hnew : str_in (r_key r1) (filter (fun k => negb (str_in k (split_keys (ukeys s)))) (split_keys new)) = true).
  { apply str_in_In. apply filter_In. split.
    - apply str_in_In. apply str_in_split_keys; auto. apply K; auto.
    - apply negb_true_iff. destruct (str_in (r_key r1) (split_keys (ukeys s))) eqn:E; auto.
      apply str_in_split_keys_inv in E. unfold ukey_list in Eo. congruence. }
  set (news := filter (fun k => negb (str_in k (split_keys (ukeys s)))) (split_keys new)) in *.
  assert (N' : NoDup (map (fun r => joinkv (r_key r) (r_val r)) (filter (fun r => str_in (r_key r) news) (recs s)))).
  { unfold kv_of in N. rewrite map_filter_map in N. exact N. }
  assert (Hr : r1 = r2).
  { eapply (NoDup_map_eq _ _ r1 r2 N').
    - apply filter_In; split; auto.
    - apply filter_In; split; auto. rewrite <- Ek; exact Hnew.
    - simpl. rewrite Ek, Ev. reflexivity. }
  subst; reflexivity.
Qed.

Lemma pstep_KU allowed mv s s' : pstep allowed kgG mv s s' -> KU s -> KU s'.
Proof.
  intros H I. destruct H.
  - eapply set_record_KU; eauto.
  - eapply set_record_KU; [|eauto|auto]. simpl. apply get_rec_In in H. apply I; tauto.
  - eapply set_record_KU; [|eauto|].
    + simpl. apply get_rec_In in H. apply I; tauto.
    + eapply (KU_sub s); [|reflexivity|exact I]. apply In_del_rec.
  - eapply (KU_sub s); [|reflexivity|exact I]. apply In_del_rec.
  - eapply KU_ext; [| |exact I]; reflexivity.
  - eapply KU_ext; [| |exact I]; reflexivity.
  - apply pay_opt_ok in H1. destruct H1 as (E1 & _ & _ & _ & _ & E2 & _). eapply KU_ext; [| |exact I]; simpl in *; auto.
  - unfold payout in H0. bind_inv H0. inv Hb. apply pay_opt_ok in Ha. destruct Ha as (E1 & _ & _ & _ & _ & E2 & _).
    eapply KU_ext; [| |exact I]; simpl; auto.
  - apply guarded_keys_UI; auto.
  - eapply KU_ext; [| |exact I]; reflexivity.
  - apply pay_opt_ok in H. destruct H as (E1 & _ & _ & _ & _ & E2 & _). eapply KU_ext; [| |exact I]; auto.
  - eapply KU_ext; [| |exact I]; reflexivity.
  - eapply KU_ext; [| |exact I]; reflexivity.
Qed.

(* ---- operations and histories *)
(* the whole-record write of the network properties is the only operation without the
   EnsureUniqueKeys guard; [op_guard] states that guard for it *)
Definition op_guard (s : state) (o : op) : Prop :=
  match o with OSetKeysMsg _ new => msg_guard s = true \/ kgG s new | _ => True end.
Fixpoint guarded (s : state) (ops : list op) : Prop :=
  match ops with [] => True | o :: r => op_guard s o /\ guarded (step_tx s o) r end.

Lemma step_KU s o s' : op_guard s o -> step s o = Ok s' -> KU s -> KU s'.
Proof.
  intros G H. eapply psteps_inv; [intros; eapply pstep_KU; eauto|].
  eapply (step_psteps kgG); [|exact H]. destruct o; simpl in *; auto.
  split; auto. intros M. destruct G as [G|G]; [congruence|exact G].
Qed.
Lemma step_tx_KU s o : op_guard s o -> KU s -> KU (step_tx s o).
Proof.
  intros G I. unfold step_tx. destruct (step s o) eqn:E; auto. eapply step_KU; eauto.
Qed.
Lemma run_KU ops : forall s, KU s -> guarded s ops -> KU (run s ops).
Proof.
  induction ops as [|o r IH]; simpl; intros s I G; auto.
  destruct G as [G1 G2]. apply IH; auto. apply step_tx_KU; auto.
Qed.

(* ================================================================ invariant 3: request ids, escrow *)
Definition tips_of (l : list request) (d : string) : Z :=
  zsum (map q_amt (filter (fun q => String.eqb (q_denom q) d) l)).
Section Escrow.
Variable base : string -> Z.      (* what the module account held before any request *)
Definition QE (s : state) : Prop :=
  NoDup (map q_id (reqs s)) /\ (forall q, In q (reqs s) -> q_id q <= last_qid s) /\
  forall d, bal s Gov d = base d + tips_of (reqs s) d.

Lemma QE_ext s s' : reqs s' = reqs s -> last_qid s' = last_qid s -> (forall d, bal s' Gov d = bal s Gov d) -> QE s -> QE s'.
Proof. unfold QE. intros E1 E2 E3 (A & B & C). rewrite E1, E2. repeat split; auto. intros d. rewrite E3. auto. Qed.

Lemma tips_app l q d : tips_of (l ++ [q]) d = tips_of l d + (if String.eqb (q_denom q) d then q_amt q else 0).
Proof.
  unfold tips_of. rewrite filter_app, map_app. simpl. destruct (String.eqb (q_denom q) d); simpl.
  - induction (map q_amt (filter _ l)); simpl; lia.
  - rewrite app_nil_r. lia.
Qed.
Lemma tips_remove l q d : NoDup (map q_id l) -> In q l ->
  tips_of (filter (fun x => negb (q_id x =? q_id q)) l) d = tips_of l d - (if String.eqb (q_denom q) d then q_amt q else 0).
Proof.
  unfold tips_of. induction l as [|x t IH]; simpl; intros N Hq; [destruct Hq|].
  inversion N as [|? ? Hn N']; subst. destruct Hq as [->|Hq].
  - rewrite Z.eqb_refl. simpl.
    assert (E : filter (fun x => negb (q_id x =? q_id q)) t = t).
    { clear - Hn. induction t as [|y t IH]; simpl in *; auto.
      destruct (q_id y =? q_id q) eqn:E; simpl.
      - exfalso. apply Hn. left. lia.
      - f_equal. apply IH. tauto. }
    rewrite E. destruct (String.eqb (q_denom q) d); simpl; lia.
  - destruct (q_id x =? q_id q) eqn:E; simpl.
    + exfalso. apply Hn. apply in_map_iff. exists q. split; auto. lia.
    + destruct (String.eqb (q_denom x) d); simpl; rewrite IH; auto; lia.
Qed.
Lemma NoDup_map_filter {A B} (f : A -> B) p l : NoDup (map f l) -> NoDup (map f (filter p l)).
Proof.
  induction l as [|x t IH]; simpl; intros N; auto. inversion N; subst.
  destruct (p x); simpl; auto. constructor; auto. intros Hin. apply H1.
  apply in_map_iff in Hin. destruct Hin as (y & E & Hy). apply filter_In in Hy. apply in_map_iff. exists y; tauto.
Qed.
Lemma NoDup_snoc {A} (l : list A) x : NoDup l -> ~ In x l -> NoDup (l ++ [x]).
Proof.
  induction l as [|y t IH]; simpl; intros N Hx.
  - constructor; auto.
  - inversion N; subst. constructor.
    + intros Hin. apply in_app_or in Hin. destruct Hin as [Hin|[<-|[]]]; tauto.
    + apply IH; tauto.
Qed.
Lemma eqb_sym_s a b : String.eqb a b = String.eqb b a.
Proof. destruct (String.eqb a b) eqn:E; [apply String.eqb_eq in E; subst; symmetry; apply String.eqb_refl|].
  destruct (String.eqb b a) eqn:F; auto. apply String.eqb_eq in F. subst. rewrite String.eqb_refl in E. discriminate. Qed.

Lemma set_record_frame s r s' : set_record s r = Ok s' ->
  reqs s' = reqs s /\ last_qid s' = last_qid s /\ bal s' = bal s /\ ukeys s' = ukeys s.
Proof. intros H. apply set_record_ok in H. destruct H as (_ & _ & ->). simpl. auto. Qed.

Lemma pstep_QE allowed kg mv s s' : pstep allowed kg mv s s' -> QE s -> QE s'.
Proof.
  intros H I. destruct H.
  - apply set_record_frame in H1. destruct H1 as (E1 & E2 & E3 & _). eapply QE_ext; eauto. intros; rewrite E3; auto.
  - apply set_record_frame in H1. destruct H1 as (E1 & E2 & E3 & _). eapply QE_ext; eauto. intros; rewrite E3; auto.
  - apply set_record_frame in H0. destruct H0 as (E1 & E2 & E3 & _). eapply (QE_ext s); simpl in *; eauto. intros; rewrite E3; auto.
  - eapply QE_ext; [| | |exact I]; reflexivity.
  - eapply QE_ext; [| | |exact I]; reflexivity.
  - eapply QE_ext; [| | |exact I]; reflexivity.
  - (* a new request: fresh id, tip escrowed *)
    apply pay_opt_ok in H1. simpl in H1. destruct H1 as (_ & _ & E1 & _ & E2 & _ & Eb).
    destruct I as (A & B & C). unfold QE. rewrite E1, E2. repeat split.
    + rewrite map_app. simpl. apply NoDup_snoc.
      * exact A.
      * intros Hin. apply in_map_iff in Hin. destruct Hin as (y & E & Hy). apply B in Hy. lia.
    + intros y Hy. apply in_app_or in Hy. destruct Hy as [Hy|[<-|[]]]; [apply B in Hy|]; lia.
    + intros d. rewrite Eb, tips_app. unfold upd. simpl. rewrite C.
      rewrite (eqb_sym_s d (q_denom q)). destruct (String.eqb (q_denom q) d); lia.
  - (* a request leaves: its tip is paid out of the module account, once *)
    unfold payout in H0. bind_inv H0. inv Hb. apply pay_opt_ok in Ha. destruct Ha as (_ & _ & E1 & _ & E2 & _ & Eb).
    apply get_req_In in H. destruct H as [Hq _]. destruct I as (A & B & C). unfold QE, del_req. simpl. rewrite E1, E2. repeat split.
    + apply NoDup_map_filter; auto.
    + intros y Hy. apply filter_In in Hy. apply B; tauto.
    + intros d. rewrite Eb, tips_remove; auto. unfold upd. simpl. rewrite C.
      rewrite (eqb_sym_s d (q_denom q)). destruct (String.eqb (q_denom q) d); lia.
  - eapply QE_ext; [| | |exact I]; reflexivity.
  - eapply QE_ext; [| | |exact I]; reflexivity.
  - apply pay_opt_ok in H. destruct H as (_ & _ & E1 & _ & E2 & _ & Eb). eapply QE_ext; eauto.
    intros e. rewrite Eb. unfold upd. simpl. reflexivity.
  - destruct I as (A & B & C). unfold QE. simpl. rewrite map_map. simpl. repeat split; auto.
    + intros y Hy. apply in_map_iff in Hy. destruct Hy as (z & <- & Hz). simpl. auto.
    + intros d. rewrite C. f_equal. unfold tips_of. clear. induction (reqs s) as [|x t IH]; simpl; auto.
      destruct (String.eqb (q_denom x) d); simpl; unfold zsum in *; simpl; rewrite ?IH; auto.
  - eapply QE_ext; [| | |exact I]; reflexivity.
Qed.

Lemma step_QE s o s' : step s o = Ok s' -> QE s -> QE s'.
Proof.
  intros H. eapply psteps_inv; [intros; eapply pstep_QE; eauto|].
  eapply (step_psteps kgT); [|exact H]. destruct o; simpl; unfold kgT; auto.
Qed.
Lemma run_QE ops : forall s, QE s -> QE (run s ops).
Proof.
  induction ops as [|o r IH]; simpl; intros s I; auto. apply IH. unfold step_tx.
  destruct (step s o) eqn:E; auto. eapply step_QE; eauto.
Qed.
End Escrow.

(* ================================================================ verifiers appear only by approval *)
Definition has_ver (s : state) (id : Z) (w : addr) : Prop :=
  exists r, In r (recs s) /\ r_id r = id /\ In w (r_ver r).
Section Verifiers.
Variable allowed : Z -> addr -> Prop.
Definition VR (s s' : state) : Prop :=
  forall r', In r' (recs s') -> forall w, In w (r_ver r') -> has_ver s (r_id r') w \/ allowed (r_id r') w.

Lemma VR_sub s s' : (forall x, In x (recs s') -> In x (recs s)) -> VR s s'.
Proof. intros H r' Hr w Hw. left. exists r'. auto. Qed.
Lemma VR_trans s s1 s2 : VR s s1 -> VR s1 s2 -> VR s s2.
Proof.
  intros A B r' Hr w Hw. destruct (B r' Hr w Hw) as [(r1 & H1 & H2 & H3)|]; auto.
  rewrite <- H2. apply A; auto.
Qed.
Lemma pstep_VR kg mv s s' : pstep allowed kg mv s s' -> VR s s'.
Proof.
  intros H. destruct H.
  - apply set_record_ok in H1. destruct H1 as (_ & _ & ->). intros r' Hr w Hw. simpl in Hr.
    apply In_put_rec in Hr. destruct Hr as [->|Hr].
    + simpl in Hw. rewrite H0 in Hw. destruct Hw.
    + left. exists r'. auto.
  - apply set_record_ok in H1. destruct H1 as (_ & _ & ->). intros r' Hr w Hw. simpl in Hr.
    apply In_put_rec in Hr. destruct Hr as [->|Hr].
    + simpl in *. apply in_app_or in Hw. destruct Hw as [Hw|[<-|[]]]; auto.
      left. exists x. apply get_rec_In in H. tauto.
    + left. exists r'. auto.
  - apply set_record_ok in H0. destruct H0 as (_ & _ & ->). intros r' Hr w Hw. simpl in Hr.
    apply In_put_rec in Hr. destruct Hr as [->|Hr].
    + simpl in *. left. exists x. apply get_rec_In in H. tauto.
    + left. exists r'. split; auto. apply filter_In in Hr. tauto.
  - apply VR_sub. apply In_del_rec.
  - apply VR_sub. auto.
  - apply VR_sub. auto.
  - apply pay_opt_ok in H1. destruct H1 as (E & _). apply VR_sub. simpl in E. rewrite E. auto.
  - unfold payout in H0. bind_inv H0. inv Hb. apply pay_opt_ok in Ha. destruct Ha as (E & _). apply VR_sub. simpl. rewrite E. auto.
  - apply VR_sub. auto.
  - apply VR_sub. auto.
  - apply pay_opt_ok in H. destruct H as (E & _). apply VR_sub. rewrite E. auto.
  - apply VR_sub. auto.
  - apply VR_sub. auto.
Qed.
Lemma psteps_VR kg mv s s' : psteps allowed kg mv s s' -> VR s s'.
Proof.
  induction 1.
  - apply VR_sub. auto.
  - eapply VR_trans; [eapply pstep_VR; eauto|auto].
Qed.
End Verifiers.

Lemma verifier_step s o s' r' w :
  step s o = Ok s' -> In r' (recs s') -> In w (r_ver r') ->
  has_ver s (r_id r') w \/
  exists qid q, o = OHandle w qid true /\ get_req s qid = Some q /\ q_ver q = w /\ In (r_id r') (q_rids q).
Proof.
  intros H Hr Hw.
  assert (P : psteps (allowed_of s o) kgT (mv_of o) s s') by (eapply step_psteps; [|exact H]; destruct o; simpl; unfold kgT; auto).
  apply psteps_VR in P. destruct (P r' Hr w Hw) as [L|R]; auto. right.
  destruct o; simpl in R; try contradiction. destruct yes; [|contradiction].
  destruct R as (-> & q & Hq & Hv & Hi). exists qid, q. auto.
Qed.

Lemma run_app s l1 l2 : run s (l1 ++ l2) = run (run s l1) l2.
Proof. unfold run. apply fold_left_app. Qed.

Lemma verifier_history ops : forall s r' w,
  In r' (recs (run s ops)) -> In w (r_ver r') ->
  has_ver s (r_id r') w \/
  exists pre qid post q, ops = pre ++ OHandle w qid true :: post /\
    is_ok (step (run s pre) (OHandle w qid true)) = true /\
    get_req (run s pre) qid = Some q /\ q_ver q = w /\ In (r_id r') (q_rids q).
Proof.
  induction ops as [|o r IH]; simpl; intros s r' w Hr Hw.
  - left. exists r'. auto.
  - destruct (IH _ _ _ Hr Hw) as [(r1 & H1 & H2 & H3)|(pre & qid & post & q & E & Hok & Hq & Hv & Hi)].
    + unfold step_tx in H1. destruct (step s o) eqn:Es; try (left; exists r1; auto; fail).
      destruct (verifier_step _ _ _ _ _ Es H1 H3) as [L|(qid & q & -> & Hq & Hv & Hi)].
      * left. rewrite <- H2. exact L.
      * right. exists [], qid, r, q. change (run s []) with s. simpl in Es. rewrite Es, <- H2. simpl. auto.
    + right. exists (o :: pre), qid, post, q. simpl. subst r. auto.
Qed.

(* ================================================================ request ids are never used twice *)
Definition gone (qid : Z) (s : state) : Prop := qid <= last_qid s /\ get_req s qid = None.
Lemma find_none_iff (l : list request) qid : find (fun q => q_id q =? qid) l = None <-> forall q, In q l -> q_id q <> qid.
Proof.
  split.
  - intros H q Hq E. eapply find_none in H; eauto. simpl in H. lia.
  - induction l as [|x t IH]; simpl; intros H; auto. destruct (q_id x =? qid) eqn:E.
    + exfalso. apply (H x); auto. lia.
    + apply IH. intros q Hq. apply H; auto.
Qed.
Lemma pstep_gone allowed kg mv qid s s' : pstep allowed kg mv s s' -> gone qid s -> gone qid s'.
Proof.
  unfold gone, get_req. intros H [G1 G2]. rewrite find_none_iff in G2. rewrite find_none_iff. destruct H.
  - apply set_record_frame in H1. destruct H1 as (E1 & E2 & _). rewrite E1, E2. auto.
  - apply set_record_frame in H1. destruct H1 as (E1 & E2 & _). rewrite E1, E2. auto.
  - apply set_record_frame in H0. destruct H0 as (E1 & E2 & _). rewrite E1, E2. auto.
  - auto.
  - auto.
  - auto.
  - apply pay_opt_ok in H1. simpl in H1. destruct H1 as (_ & _ & E1 & _ & E2 & _). rewrite E1, E2. split; [lia|].
    intros y Hy. apply in_app_or in Hy. destruct Hy as [Hy|[<-|[]]]; [auto|lia].
  - unfold payout in H0. bind_inv H0. inv Hb. apply pay_opt_ok in Ha. destruct Ha as (_ & _ & E1 & _ & E2 & _).
    unfold del_req. simpl. rewrite E1, E2. split; auto. intros y Hy. apply filter_In in Hy. apply G2; tauto.
  - auto.
  - auto.
  - apply pay_opt_ok in H. destruct H as (_ & _ & E1 & _ & E2 & _). rewrite E1, E2. auto.
  - simpl. split; auto. intros y Hy. apply in_map_iff in Hy. destruct Hy as (z & <- & Hz). simpl. auto.
  - auto.
Qed.
Lemma run_gone qid ops : forall s, gone qid s -> gone qid (run s ops).
Proof.
  induction ops as [|o r IH]; simpl; intros s G; auto. apply IH. unfold step_tx.
  destruct (step s o) eqn:E; auto. eapply psteps_inv; [intros; eapply pstep_gone; eauto| |exact G].
  eapply (step_psteps kgT); [|exact E]. destruct o; simpl; unfold kgT; auto.
Qed.

(* ================================================================ who is paid *)
Definition tip_in (q : request) (d : string) : Z := if String.eqb (q_denom q) d then q_amt q else 0.

Lemma payout_effect s q to s' : payout s q to = Ok s' ->
  recs s' = recs s /\ reqs s' = filter (fun x => negb (q_id x =? q_id q)) (reqs s) /\
  forall z d, bal s' z d = bal s z d + (if acct_eqb z (User to) then tip_in q d else 0) - (if acct_eqb z Gov then tip_in q d else 0).
Proof.
  unfold payout. intros H. bind_inv H. inv Hb. apply pay_opt_ok in Ha. destruct Ha as (E0 & _ & E1 & _ & _ & _ & Eb).
  unfold del_req. simpl. rewrite E1. repeat split; auto. intros z d. rewrite Eb. unfold upd, tip_in.
  rewrite (eqb_sym_s d (q_denom q)). destruct z as [y|]; simpl; destruct (String.eqb (q_denom q) d); try rewrite andb_true_r; try rewrite andb_false_r; try lia.
  all: destruct (y =? to); lia.
Qed.
Lemma filter_gone (l : list request) qid : find (fun q => q_id q =? qid) (filter (fun x => negb (q_id x =? qid)) l) = None.
Proof.
  apply find_none_iff. intros q Hq. apply filter_In in Hq. destruct Hq as [_ Hq]. lia.
Qed.

Lemma add_verifier_fold_frame v l : forall s s', foldM (add_verifier v) l s = Ok s' -> reqs s' = reqs s /\ bal s' = bal s.
Proof.
  induction l as [|i t IH]; simpl; intros s s' H.
  - inv H. auto.
  - bind_inv H. apply IH in Hb. destruct Hb as [E1 E2]. rewrite E1, E2. unfold add_verifier in Ha.
    destruct (get_rec s i); [|discriminate]. destruct (mem v (r_ver r)); [inv Ha; auto|].
    apply set_record_frame in Ha. tauto.
Qed.

(* handling (approve or reject) pays the tip to the verifier and removes the request *)
Lemma handle_pays_verifier v qid yes s s' : handle_msg v qid yes s = Ok s' ->
  exists q, get_req s qid = Some q /\ q_ver q = v /\ get_req s' qid = None /\
  forall z d, bal s' z d = bal s z d + (if acct_eqb z (User v) then tip_in q d else 0) - (if acct_eqb z Gov then tip_in q d else 0).
Proof.
  unfold handle_msg. destruct (qid =? 0); [discriminate|].
  destruct (get_req s qid) as [q|] eqn:E; [|discriminate].
  destruct (negb (v =? q_ver q)) eqn:Ev; [discriminate|]. intros H. bind_inv H. bind_inv Hb.
  exists q. apply payout_effect in Ha. destruct Ha as (_ & Er & Eb).
  pose proof (get_req_In _ _ _ E) as [_ Eid].
  assert (F : reqs s' = reqs a /\ bal s' = bal a).
  { destruct a0; [eapply add_verifier_fold_frame; eauto|inv Hb0; auto]. }
  destruct F as [F1 F2]. repeat split; auto; [lia| |].
  - unfold get_req. rewrite F1, Er, Eid. apply filter_gone.
  - intros z d. rewrite F2. apply Eb.
Qed.

(* cancelling pays the tip back to the requester and removes the request *)
Lemma cancel_refunds_requester a qid s s' : cancel_msg a qid s = Ok s' ->
  exists q, get_req s qid = Some q /\ q_addr q = a /\ get_req s' qid = None /\
  forall z d, bal s' z d = bal s z d + (if acct_eqb z (User a) then tip_in q d else 0) - (if acct_eqb z Gov then tip_in q d else 0).
Proof.
  unfold cancel_msg, cancel_request. destruct (qid =? 0); [discriminate|].
  destruct (get_req s qid) as [q|] eqn:E; [|discriminate].
  destruct (negb (a =? q_addr q)) eqn:Ev; [discriminate|]. intros H.
  exists q. apply payout_effect in H. destruct H as (_ & Er & Eb).
  pose proof (get_req_In _ _ _ E) as [_ Eid].
  assert (Ea : q_addr q = a) by lia. rewrite Ea in Eb. repeat split; auto.
  unfold get_req. rewrite Er, Eid. apply filter_gone.
Qed.

(* making a request escrows the tip: out of the requester's account, into the module account *)
Lemma request_escrows a v rids d n s s' : request_msg a v rids d n s = Ok s' ->
  exists dt, reqs s' = reqs s ++ [mkReq (last_qid s + 1) a v rids d n dt] /\ last_qid s' = last_qid s + 1 /\ 0 <= n /\
  forall z e, bal s' z e = bal s z e - (if acct_eqb z (User a) && String.eqb e d then n else 0) + (if acct_eqb z Gov && String.eqb e d then n else 0).
Proof.
  unfold request_msg. destruct rids as [|i0 rids0]; [discriminate|].
  destruct (n <? 0) eqn:En; [discriminate|].
  destruct (negb (forallb _ _)); [discriminate|]. intros H. bind_inv H.
  destruct (n <? as_int64 (min_tip s)); [discriminate|].
  apply pay_opt_ok in Hb. simpl in Hb. destruct Hb as (_ & _ & E1 & _ & E2 & _ & Eb).
  exists a0. repeat split; auto; [lia|]. intros z e. rewrite Eb. unfold upd. simpl.
  destruct z as [y|]; simpl; destruct (String.eqb e d); try rewrite andb_true_r; try rewrite andb_false_r; try lia.
  all: destruct (y =? a); lia.
Qed.

(* ================================================================ only owners edit: statement, and the rotation witness *)
Definition same_core (r r' : record) : Prop :=
  r_id r' = r_id r /\ r_owner r' = r_owner r /\ r_key r' = r_key r /\ r_val r' = r_val r /\ r_date r' = r_date r.
(* records of every address other than [a] are neither created, changed nor deleted *)
Definition others_untouched (a : addr) (s s' : state) : Prop :=
  (forall r, In r (recs s) -> r_owner r <> a -> exists r', In r' (recs s') /\ same_core r r') /\
  (forall r', In r' (recs s') -> r_owner r' <> a -> exists r, In r (recs s) /\ same_core r r').
Definition owner_frame (s : state) (o : op) (s' : state) : Prop :=
  match o with
  | ORotate a b _ | ORotateRR a b _ =>          (* a proven rotation moves a's records unchanged to b *)
      (forall r, In r (recs s) -> exists r', In r' (recs s') /\ r' = if r_owner r =? a then with_owner r b else r) /\
      (forall r', In r' (recs s') -> exists r, In r (recs s) /\ r_id r = r_id r')
  | OSetKeysProp _ | OSetKeysMsg _ _ | OGenesis => recs s' = recs s
  | _ => others_untouched (signer o) s s'
  end.

(* ---- concrete starting state for the witnesses and examples *)
Definition bal0 : acct -> string -> Z := fun x d => match x with User _ => 5000 | Gov => 0 end.
(* the OLD variant of the code: [del_fix = false] (DeleteIdentityRecordById left the index entry
   behind, before commit 9fe909f) and [msg_guard = false] (whole-record write unguarded) *)
Definition s0 : state := init_state "moniker,username" 0 [0] [1] [6] [0; 1; 2; 3] [0; 1; 2; 3] bal0 false false [] false false.

Lemma KU_s0 : KU s0.
Proof. split; intros r; simpl; tauto. Qed.
Lemma QE_s0 : QE (fun _ => 0) s0.
Proof. repeat split; simpl; try constructor; try tauto. Qed.

(* witness 1: the whole-record write of the network properties declares "twitter" unique while two
   addresses hold the same twitter value *)
Definition w_unique : list op :=
  [ORegister 100 0 [("twitter", "same")]; ORegister 100 1 [("Twitter", "same")];
   OSetKeysMsg 6 "moniker,username,twitter"]%string.
Lemma unique_refuted : KU s0 /\ ~ UI (run s0 w_unique).
Proof.
  split; [exact KU_s0|]. intros U.
  assert (E : recs (run s0 w_unique) = [mkRec 1 0 "twitter" "same" 100 []; mkRec 2 1 "twitter" "same" 100 []]%string)
    by (vm_compute; reflexivity).
  specialize (U (mkRec 1 0 "twitter" "same" 100 []) (mkRec 2 1 "twitter" "same" 100 [])%string).
  rewrite E in U.
  assert (H : 0 = 1); [|discriminate].
  apply U; [left; reflexivity|right; left; reflexivity|reflexivity|reflexivity|vm_compute; reflexivity].
Qed.

(* witness 2: after a rotation 0 -> 4 the old address still edits the moved record
   (DeleteIdentityRecordById leaves the old address' index entry behind) *)
Definition w_rot : list op := [ORegister 100 0 [("twitter", "t0")]; ORotate 0 4 true]%string.
Definition w_rot_op : op := ORegister 101 0 [("twitter", "stolen")]%string.
Lemma owner_refuted : exists s', step (run s0 w_rot) w_rot_op = Ok s' /\ ~ owner_frame (run s0 w_rot) w_rot_op s'.
Proof.
  assert (K : is_ok (step (run s0 w_rot) w_rot_op) = true) by (vm_compute; reflexivity).
  destruct (step (run s0 w_rot) w_rot_op) as [s'| |] eqn:E; try (simpl in K; discriminate K). clear K.
  exists s'. split; auto. intros [F _].
  assert (E1 : recs (run s0 w_rot) = [mkRec 1 4 "twitter" "t0" 100 []]%string) by (vm_compute; reflexivity).
  assert (E2 : recs s' = [mkRec 1 0 "twitter" "stolen" 101 []]%string).
  { assert (X : match step (run s0 w_rot) w_rot_op with Ok x => recs x | _ => [] end = [mkRec 1 0 "twitter" "stolen" 101 []]%string)
      by (vm_compute; reflexivity). rewrite E in X. exact X. }
  destruct (F (mkRec 1 4 "twitter" "t0" 100 [])%string) as (r' & Hr & C).
  - rewrite E1. left; reflexivity.
  - simpl. lia.
  - rewrite E2 in Hr. destruct Hr as [<-|[]]. destruct C as (_ & C & _). simpl in C. discriminate.
Qed.

(* witness 3 (same defect): the old address requests verification of the moved record; the new
   owner's edit does not cancel that request *)
Definition edit_drops (s : state) (a : addr) (s' : state) : Prop :=
  forall r, In r (recs s) -> r_owner r = a ->
  (forall r', In r' (recs s') -> r_id r' = r_id r -> r_val r' <> r_val r -> r_ver r' = []) /\
  ((forall r', In r' (recs s') -> r_id r' = r_id r -> r_val r' <> r_val r) ->
   forall q, In q (reqs s') -> ~ In (r_id r) (q_rids q)).
Definition w_rot2 : list op := w_rot ++ [ORequest 0 2 [1] "ukex" 0]%string.
Definition w_rot2_op : op := ORegister 102 4 [("twitter", "t1")]%string.
Lemma editdrop_refuted : exists s', step (run s0 w_rot2) w_rot2_op = Ok s' /\ ~ edit_drops (run s0 w_rot2) 4 s'.
Proof.
  assert (K : is_ok (step (run s0 w_rot2) w_rot2_op) = true) by (vm_compute; reflexivity).
  destruct (step (run s0 w_rot2) w_rot2_op) as [s'| |] eqn:E; try (simpl in K; discriminate K). clear K.
  exists s'. split; auto. intros F.
  assert (E1 : recs (run s0 w_rot2) = [mkRec 1 4 "twitter" "t0" 100 []]%string) by (vm_compute; reflexivity).
  assert (E2 : recs s' = [mkRec 1 4 "twitter" "t1" 102 []]%string /\ reqs s' = [mkReq 1 0 2 [1] "ukex" 0 100]%string).
  { assert (X : match step (run s0 w_rot2) w_rot2_op with Ok x => (recs x, reqs x) | _ => ([], []) end
                = ([mkRec 1 4 "twitter" "t1" 102 []], [mkReq 1 0 2 [1] "ukex" 0 100])%string)
      by (vm_compute; reflexivity). rewrite E in X. inv X. auto. }
  destruct E2 as [E2 E3].
  destruct (F (mkRec 1 4 "twitter" "t0" 100 [])%string) as [_ G].
  - rewrite E1. left; reflexivity.
  - reflexivity.
  - apply (G) with (q := (mkReq 1 0 2 [1] "ukex" 0 100)%string).
    + intros r' Hr _. rewrite E2 in Hr. destruct Hr as [<-|[]]. simpl. discriminate.
    + rewrite E3. left; reflexivity.
    + simpl. auto.
Qed.

(* ================================================================ a written record has no verifications *)
(* Outside an approving handle and a rotation, every record of the new state is literally a record
   of the old state or was written in this transaction WITH AN EMPTY verifier list: changing a
   record (even re-registering the same value) drops its verifications. *)
Definition WR (s s' : state) : Prop := forall r', In r' (recs s') -> In r' (recs s) \/ r_ver r' = [].
Lemma WR_trans s s1 s2 : WR s s1 -> WR s1 s2 -> WR s s2.
Proof. intros A B r' Hr. destruct (B r' Hr); auto. Qed.
Lemma pstep_WR allowed kg mv s s' : (forall id w, ~ allowed id w) -> ~ mv -> pstep allowed kg mv s s' -> WR s s'.
Proof.
  intros NA NM H. destruct H.
  - apply set_record_ok in H1. destruct H1 as (_ & _ & ->). intros r' Hr. simpl in Hr.
    apply In_put_rec in Hr. destruct Hr as [->|Hr]; auto.
  - exfalso. eapply NA; eauto.
  - contradiction.
  - intros r' Hr. left. eapply In_del_rec; eauto.
  - intros r' Hr. auto.
  - intros r' Hr. auto.
  - apply pay_opt_ok in H1. destruct H1 as (E & _). intros r' Hr. rewrite E in Hr. auto.
  - unfold payout in H0. bind_inv H0. inv Hb. apply pay_opt_ok in Ha. destruct Ha as (E & _). intros r' Hr. simpl in Hr. rewrite E in Hr. auto.
  - intros r' Hr. auto.
  - intros r' Hr. auto.
  - apply pay_opt_ok in H. destruct H as (E & _). intros r' Hr. rewrite E in Hr. auto.
  - intros r' Hr. auto.
  - intros r' Hr. auto.
Qed.
Lemma psteps_WR allowed kg mv s s' : (forall id w, ~ allowed id w) -> ~ mv -> psteps allowed kg mv s s' -> WR s s'.
Proof.
  intros NA NM H. induction H.
  - intros r' Hr. auto.
  - eapply WR_trans; [eapply pstep_WR; eauto|auto].
Qed.
Definition approving (o : op) : bool := match o with OHandle _ _ true => true | ORotate _ _ _ | ORotateRR _ _ _ => true | _ => false end.
Lemma written_records_unverified s o s' : approving o = false -> step s o = Ok s' -> WR s s'.
Proof.
  intros A H. eapply (psteps_WR (allowed_of s o) kgT (mv_of o)).
  - destruct o; simpl in *; try tauto. destruct yes; [discriminate|tauto].
  - destruct o; simpl in *; try tauto; discriminate.
  - eapply step_psteps; [|exact H]. destruct o; simpl; unfold kgT; auto.
Qed.

(* ================================================================ the local reason why only owners edit *)
Lemma put_rec_keeps r l x : In x l -> r_id x <> r_id r -> In x (put_rec r l).
Proof. rewrite In_put_rec_iff. auto. Qed.
(* a SetIdentityRecord write whose id is unused, or used only by records of the writer, leaves every
   other address' records untouched (nothing of theirs created, changed or deleted) *)
Lemma set_record_owner_frame s r s' :
  set_record s r = Ok s' -> (forall x, In x (recs s) -> r_id x = r_id r -> r_owner x = r_owner r) ->
  others_untouched (r_owner r) s s'.
Proof.
  intros H Hown. apply set_record_ok in H. destruct H as (_ & _ & ->). split; simpl.
  - intros x Hx Ho. exists x. split; [|repeat split; auto]. apply put_rec_keeps; auto;
    try (simpl; intros E; apply Ho; apply Hown; auto).
  - intros x' Hx Ho. apply In_put_rec in Hx. destruct Hx as [->|Hx].
    + simpl in Ho. tauto.
    + exists x'. split; auto. repeat split; auto.
Qed.
