(* C10 -- the headline statements instantiated for the variant the tree implements NOW (Gen/C10Cfg.v, regenerated
   from the source on every run).  If the tree loses one of the repairs these lemmas stop compiling. *)
From Sekai Require Import Base.Prelude Base.Dec Model.Pools Gen.C10Cfg Proofs.Pools.

Lemma tree_claim_only_by_owner_after_expiry : forall who id s s',
  claim tree_variant who id s = Ok s' ->
  exists u, find_undel id (undels s) = Some u /\ u_owner u = who /\ u_expiry u <= time s /\
    (forall a d, nbal s' a d = nbal s a d + (if a =? who then csum (u_amt u) d else 0)) /\
    (forall d, modb s' d = modb s d - csum (u_amt u) d) /\
    find_undel id (undels s') = None.
Proof. intros who id s s' H. apply (claim_only_by_owner_after_expiry tree_variant who id s s' eq_refl H). Qed.

Lemma tree_claim_once : forall c who id s s' ops who2,
  (forall o, In o ops -> is_genesis o = false) ->
  ids_bounded s -> claim tree_variant who id s = Ok s' ->
  exists e, claim tree_variant who2 id (run tree_variant c ops s') = Err e.
Proof. intros. eapply claim_once; eassumption. Qed.

(* a validator that signed the last block and proposed it has, after that block (begin, any transactions, end),
   a positive signing record in the store and is the previous proposer of the next block ... *)
Lemma tree_signing_proposer_has_power : forall c dt commit p possible infl txs s s1 s3,
  1 <= c_snap c ->
  begin_block tree_variant c dt commit p possible infl s = Ok s1 ->
  In (p, true) commit ->
  (forall o, In o txs -> is_tx o = true) ->
  end_block tree_variant c (run tree_variant c txs s1) = Ok s3 ->
  1 <= count_votes (prev s3) (votes s3).
Proof.
  intros c dt commit p possible infl txs s s1 s3 SN B Q T E.
  destruct (fresh_vote_survives_block tree_variant c dt commit p possible infl txs s s1 s3 p eq_refl SN B Q T E) as [A ->].
  exact A.
Qed.

(* pro-rata redemption, for the tree as it is: ANY state (after any number of slashes, by governance or not) *)
Lemma tree_redeem_pro_rata : forall c who amts s s',
  (forall d, 0 <= shares s d) -> undelegate tree_variant c who amts s = Ok s' ->
  exists pc, redeem_coins tree_variant s amts = Ok pc /\ fair s amts pc /\
             (forall d, sbal s' who d = sbal s who d - csum pc d) /\ (forall d, stake s' d = stake s d - csum amts d).
Proof. intros c who amts s s' NN H. exact (redeem_pro_rata tree_variant c who amts s s' eq_refl NN H). Qed.
(* the governance slash is the keeper's slash *)
Lemma tree_governance_slash : forall c sl s, step tree_variant c (OSlashProposal sl) s = slash tree_variant c sl s.
Proof. reflexivity. Qed.
Lemma tree_votes_only_for_signers : forall c dt commit p possible infl s s1 q,
  begin_block tree_variant c dt commit p possible infl s = Ok s1 ->
  In (q, height s1) (votes s1) -> (forall w, In w (votes s) -> snd w <= height s) -> In (q, true) commit.
Proof. intros c dt commit p possible infl s s1 q. exact (votes_only_for_signers tree_variant c dt commit p possible infl s s1 q eq_refl). Qed.
Lemma tree_partial_undelegate_keeps_delegator : forall c who amts s s',
  undelegate tree_variant c who amts s = Ok s' ->
  In who (dels s) -> (exists d, In d (c_dens c) /\ 0 < sbal s' who d) -> In who (dels s').
Proof. intros c who amts s s'. exact (partial_undelegate_keeps_delegator tree_variant c who amts s s' eq_refl). Qed.
